"""C15 -- flow-graph buffering / ordering / limiting nodes keep their contracts."""
import os
import sys
import re
HERE = os.path.dirname(os.path.abspath(__file__))
sys.path.insert(0, os.path.join(HERE, '..'))
sys.path.insert(0, os.path.join(HERE, '..', '..', 'tools'))
import common
import native
import cxx2c
from cxx2c import Rewriter, CClass, Slice, slice_block, tag_loops, ExtractionBreak, load
from prove import Job

FG = 'include/oneapi/tbb/flow_graph.h'
IB = 'include/oneapi/tbb/detail/_flow_graph_item_buffer_impl.h'
PREVIEW = {'__TBB_PREVIEW_FLOW_GRAPH_TRY_PUT_AND_WAIT': 0, 'TBB_USE_ASSERT': 0, 'TBB_DEPRECATED_SEQUENCER_DUPLICATES': 0}


def resolved(sl, name):
    t = cxx2c.cpp_resolve(sl.text, PREVIEW, name)
    # __TBB_FLOW_GRAPH_METAINFO_ARG(x) expands to nothing when the preview feature is off
    t = re.sub(r'\s*__TBB_FLOW_GRAPH_METAINFO_ARG\((?:[^()]|\([^()]*\))*\)', '', t)
    return Slice(sl.rel, sl.start, sl.end, t, sl.line)


def extract_item_buffer(ctx, sliced, fired, more=()):
    # ---------------- item_buffer + sequencer_node::internal_push ------------------------
    ib = CClass(IB, r'class item_buffer \{', 'item_buffer', tbind={'size_type': 'size_t', 'item_type': 'item_type', 'buffer_item_type': 'aligned_space_item'})
    ib.harvest_members(['my_array', 'my_array_size', 'my_head', 'my_tail'])
    rw = ib.rw
    IM = ['element', 'my_item_valid', 'get_my_item', 'set_my_item', 'fetch_item', 'destroy_item', 'place_item', 'size', 'capacity', 'buffer_full', 'grow_my_array',
          'clean_up_buffer', 'destroy_front', 'destroy_back', 'buffer_empty', 'push_back', 'pop_front', 'pop_back', 'front', 'move_item', 'swap_items', 'reserve_item', 'release_item']
    IPRE = [(r' __TBB_FLOW_GRAPH_METAINFO_ARG\([^()]*(?:\([^()]*\))?[^()]*\)', '', 0),
            (r'\.begin\(\)->', '.', 0), (r'\*my_array\[i & \(my_array_size ?- ?1\) ?\]\.begin\(\)', 'my_array[i & (my_array_size - 1)]', 0),
            (r'new\(&\(element\(i\)\.item\)\) item_type\(o\);', 'element(i).item = *o;', 0),
            (r'e\.item\.~item_type\(\);', 'DESTROY_ITEM(&e->item);', 0), (r'auto& e = element\(([^)]*)\);', r'aligned_space_item* e = &element(\1);', 0), (r'\be\.', 'e->', 0),
            (r'\bno_item\b', 'no_item', 0)]
    out = ['typedef struct aligned_space_item { item_type item; int state; } aligned_space_item;\nenum { no_item = 0, has_item = 1, reserved_item = 2 };\n', ib.struct_decl()]
    if not re.search(r'enum buffer_item_state \{ no_item=0, has_item=1, reserved_item=2 \};', load(IB)):
        raise ExtractionBreak('buffer_item_state enum changed')
    if not re.search(r'static const size_type initial_buffer_size = 4;', load(IB)):
        raise ExtractionBreak('item_buffer initial_buffer_size changed')

    def conv(sig, cfn, nth=0, extra=(), ret=None):
        s = resolved(ib.method(sig, nth=nth), cfn)
        t = ib.convert(s, cfn, methods=IM, pre=IPRE + list(extra), ret=ret, fcast=['size_type', 'size_t'])
        # element() returns a reference: calls are lvalues in the C++ text -> deref the pointer our C version returns
        t = rw.sub(t, r'item_buffer_element\(self, ([^()]*(?:\([^()]*\))?[^()]*)\)\.', r'item_buffer_element(self, \1)->', 0, name='ref-return deref')
        t = rw.sub(t, r'&item_buffer_element\(self, ([^()]*(?:\([^()]*\))?[^()]*)\);', r'item_buffer_element(self, \1);', 0, name='ref-return deref')
        t = rw.sub(t, r'item_buffer_size\(self\)', 'item_buffer_size(self, 0)', 0, name='default argument made explicit')
        return t
    t = conv(r'aligned_space_item &element\(size_type i\)', 'item_buffer_element', extra=[(r'return my_array\[', 'return &my_array[', 1)], ret='aligned_space_item*')
    t = rw.sub(t, r'VERIF_ASSERT\(!\(\(\(size_t\)[^;]*;', 'RG_NOP();', 0, name='alignment asserts on aligned_space (no C counterpart) -> RG_NOP')
    out.append(t)
    out.append(conv(r'bool my_item_valid\(size_type i\) const', 'item_buffer_my_item_valid'))
    out.append(conv(r'const item_type &get_my_item\(size_t i\) const', 'item_buffer_get_my_item', extra=[(r'return element\(i\)\.item;', 'return &element(i).item;', 1)], ret='const item_type*'))
    out.append(conv(r'void destroy_item\(size_type i\)', 'item_buffer_destroy_item'))
    out.append(conv(r'void set_my_item\(size_t i, const item_type &o', 'item_buffer_set_my_item'))
    out.append(conv(r'bool place_item\(size_t here, const item_type &me\)', 'item_buffer_place_item'))
    out.append(conv(r'size_type size\(size_t new_tail = 0\)', 'item_buffer_size'))
    out.append(conv(r'size_type capacity\(\)', 'item_buffer_capacity'))
    txt = '\n'.join(out)
    txt = rw.sub(txt, r'VERIF_ASSERT\(!\(\(\(size_t\)\(&\(self->my_array\[[^\n]*\n', 'RG_NOP();\n', 0, name='alignment asserts -> RG_NOP')
    for sig_, cfn_, extra_, ret_ in more:
        out.append(conv(sig_, cfn_, extra=extra_, ret=ret_))
    txt = '\n'.join(out)
    txt = rw.sub(txt, r'VERIF_ASSERT\(!\(\(\(size_t\)\(&\(self->my_array\[[^\n]*\n', 'RG_NOP();\n', 0, name='alignment asserts -> RG_NOP')
    common.write(ctx, 'item_buffer.inc', txt)
    return ib, rw, conv


def extract(ctx):
    sliced, fired = [], {}
    # ---------------- limiter_node ------------------------------------------------
    lm = CClass(FG, r'class limiter_node : public graph_node, public receiver< T >, public sender< T > \{', 'limiter')
    lm.harvest_members(['my_threshold', 'my_count', 'my_tries', 'my_future_decrement'])
    rw = lm.rw
    PRE = [(r'spin_mutex::scoped_lock lock\(my_mutex\);', 'LOCKED_SECTION();', 0),
           (r' __TBB_FLOW_GRAPH_METAINFO_ARG\([^()]*(?:\([^()]*\))?[^()]*\)', '', 0),
           (r'my_predecessors\.empty\(\)', 'STUB_pred_empty()', 0), (r'my_successors\.empty\(\)', 'STUB_succ_empty()', 0),
           (r'my_successors\.try_put_task\(\w+\)', 'STUB_succ_try_put_task()', 0),
           (r'my_predecessors\.try_reserve\(v\)', 'STUB_pred_try_reserve()', 0),
           (r'my_predecessors\.try_consume\(\);', 'STUB_pred_try_consume();', 0), (r'my_predecessors\.try_release\(\);', 'STUB_pred_try_release();', 0),
           (r'is_graph_active\(this->my_graph\)', 'STUB_is_graph_active()', 0),
           (r'd1::small_object_allocator allocator\{\};', 'RG_NOP();', 0),
           (r'typedef forward_task_bypass<limiter_node<T, ?DecrementType>> task_type;', 'RG_NOP();', 0),
           (r'allocator\.new_object<task_type>\(\s*my_graph, allocator, \*this\s*\)', 'STUB_new_forward_task()', 0),
           (r'spawn_in_graph_arena\(graph_reference\(\), \*rtask\);', 'STUB_spawn(rtask);', 0),
           (r'input_type v;', 'RG_NOP();', 0), (r'\bgraph_task\*', 'graph_task*', 0)]
    M = ['check_conditions', 'forward_task']
    common.write(ctx, 'limiter_struct.inc', lm.struct_decl())
    out = []
    out.append(lm.convert(resolved(lm.method(r'bool check_conditions\(\)'), 'check_conditions'), 'limiter_check_conditions', pre=PRE))
    t = lm.convert(resolved(lm.method(r'graph_task\* try_put_task_impl\( const T &t'), 'try_put_task_impl'), 'limiter_try_put_task_impl', methods=M, pre=PRE)
    t = rw.sub(t, r'\(struct limiter\* self, T\* t\)', '(struct limiter* self)', 1, 1, name='drop forwarded-only parameter t')
    out.append(t)
    t = lm.convert(resolved(lm.method(r'graph_task\* forward_task\(\)'), 'forward_task'), 'limiter_forward_task', methods=['check_conditions'], pre=PRE)
    out.append(t)
    t = lm.convert(resolved(lm.method(r'graph_task\* decrement_counter\( long long delta \)'), 'decrement_counter'), 'limiter_decrement_counter', methods=['forward_task_STUB'],
                   pre=PRE + [(r'return forward_task\(\);', 'return STUB_forward_task(self);', 1)], fcast=['size_t'])
    out.append(t)
    common.write(ctx, 'limiter.inc', '\n'.join(out))
    sliced += lm.sliced
    fired['limiter_node'] = rw.fired

    GROW = [(r'allocator_type\(\)\.allocate\(new_size\)', '(aligned_space_item*)alloc_nofail(new_size * sizeof(aligned_space_item))', 1),
            (r'char \*new_space = \(char \*\)&\(new_array\[i&\(new_size-1\)\]\.item\);\s*\(void\)new\(new_space\) item_type\(get_my_item\(i\)\);', 'new_array[i&(new_size-1)].item = *get_my_item(i);', 1),
            (r'clean_up_buffer\(false\);', 'clean_up_buffer(false);', 1)]
    CLEAN = [(r'allocator_type\(\)\.deallocate\(my_array,my_array_size\);', 'free(my_array);', 1), (r'my_head = my_tail = my_array_size = 0;', 'my_head = 0; my_tail = 0; my_array_size = 0;', 1)]
    more15 = [(r'void clean_up_buffer\(bool reset_pointers\)', 'item_buffer_clean_up_buffer', CLEAN, None),
              (r'void grow_my_array\( size_t minimum_size \)', 'item_buffer_grow_my_array', GROW, None),
              (r'bool buffer_full\(\)', 'item_buffer_buffer_full', [], None),
              (r'void destroy_front\(\)', 'item_buffer_destroy_front', [], None),
              (r'bool push_back\(item_type& v\s', 'item_buffer_push_back', [(r'set_my_item\(my_tail, v\);', 'set_my_item(my_tail, v);', 1)], None),
              (r'bool pop_front\(item_type& v\s', 'item_buffer_pop_front', [(r'v = e->item;', '*v = e->item;', 1)], None)]
    ib, rw, conv = extract_item_buffer(ctx, sliced, fired, more=more15)
    ibp = os.path.join(ctx.work, 'item_buffer.inc')
    txt_ib = open(ibp).read()
    txt_ib = rw.sub(txt_ib, r'void item_buffer_grow_my_array\(struct item_buffer\* self, size_t minimum_size\) \{', 'void item_buffer_grow_my_array(struct item_buffer* self, size_t minimum_size)\nCONTRACT_grow_my_array {', 1, 1, name='contract-anchor')
    from cxx2c import tag_loops as _tl
    a_ = txt_ib.index('void item_buffer_grow_my_array(struct item_buffer* self, size_t minimum_size)\nCONTRACT_grow_my_array {')
    e_ = txt_ib.index('\n    }\n', a_) + 7
    txt_ib = txt_ib[:a_] + _tl(txt_ib[a_:e_], 'ibgrow', rw, expect=3) + txt_ib[e_:]
    a_ = txt_ib.index('void item_buffer_clean_up_buffer(')
    e_ = txt_ib.index('\n    }\n', a_) + 7
    txt_ib = txt_ib[:a_] + _tl(txt_ib[a_:e_], 'ibclean', rw, expect=1) + txt_ib[e_:]
    open(ibp, 'w').write('void item_buffer_clean_up_buffer(struct item_buffer* self, bool reset_pointers);\nvoid item_buffer_grow_my_array(struct item_buffer* self, size_t minimum_size);\n' + txt_ib)
    sq = CClass(FG, r'class sequencer_node : public queue_node<T> \{', 'item_buffer', rw=rw)
    sq.members = ib.members
    s = resolved(sq.method(r'bool internal_push\(sequencer_operation \*op\) override'), 'sequencer_internal_push')
    t = sq.convert(s, 'sequencer_internal_push', methods=['size', 'capacity', 'grow_my_array', 'place_item'], pre=[
        (r'size_type tag = \(\*my_sequencer\)\(\*\(op->elem\)\);', 'size_t tag = STUB_sequencer(op->elem);', 1),
        (r'op->status\.store\((\w+), std::memory_order_release\);', r'op->status = \1;', 2),
        (r'this->place_item\(tag, \*\(op->elem\)\)', 'item_buffer_place_item(self, tag, op->elem)', 1)])
    t = rw.sub(t, r'\(struct item_buffer\* self, sequencer_operation\* op\) override', '(struct item_buffer* self, sequencer_operation* op)', 0)
    t = rw.sub(t, r'\bconst op_stat res\b', 'const int res', 1, 1, name='enum type')
    common.write(ctx, 'sequencer.inc', t)
    sliced += ib.sliced + sq.sliced
    fired['item_buffer'] = rw.fired
    return sliced, fired


def build(ctx):
    sliced, fired = extract(ctx)
    C = os.path.join(HERE, 'c15.c')
    jobs = [
        Job('limiter.try_put', C, 'h_lim_try_put', route='RG', defines=['LIM'], target='limiter_node::try_put_task_impl + check_conditions', source=FG),
        Job('limiter.forward', C, 'h_lim_forward', route='RG', defines=['LIM'], target='limiter_node::forward_task', source=FG),
        Job('limiter.decrement', C, 'h_lim_decrement', route='RG', defines=['LIM'], target='limiter_node::decrement_counter', source=FG),
        Job('buffer.grow_my_array', C, 'h_ib_grow', route='LC', enforce='item_buffer_grow_my_array', loops=True, nloops=4, defines=['SEQ'], timeout=900, target='item_buffer::grow_my_array + clean_up_buffer', source=IB),
        Job('buffer.push_pop', C, 'h_ib_fifo', route='LC', replace=['item_buffer_grow_my_array'], defines=['SEQ'], timeout=600, target='item_buffer::push_back / pop_front (modular over grow_my_array\'s proved contract)', source=IB),
        Job('sequencer.push', C, 'h_seq_push', route='LC', replace=['item_buffer_grow_my_array'], defines=['SEQ'], target='sequencer_node::internal_push + item_buffer::place_item/set_my_item/my_item_valid/element/size/capacity', source=FG, timeout=600),
        Job('sequencer.push.tagmax', C, 'h_seq_push_tagmax', route='LC', replace=['item_buffer_grow_my_array'], defines=['SEQ'], target='sequencer_node::internal_push, tag == SIZE_MAX', source=FG, timeout=600),
    ]
    return {
        'jobs': jobs, 'sliced': sliced, 'fired': fired,
        'trusted': ['my_mutex serialises the locked sections (spin_mutex: C08); each section is one atomic step of the rely/guarantee argument',
                    'successor/predecessor caches, graph activity, task allocation: nondeterministic stubs (every accept/reject pattern)',
                    'buffers up to 2^16 slots (stated bound of the grow_my_array contract)'],
        'drops': ['preview (#if __TBB_PREVIEW_FLOW_GRAPH_TRY_PUT_AND_WAIT) arms resolved to 0', 'scoped_lock -> LOCKED_SECTION() = interference point', 'metainfo arguments', 'aligned_space<T> -> plain struct',
                  'placement new / destructor of a trivially copyable item_type (int)'],
        'not_decided': ['join_node (tuple-recursive templates)', 'overwrite/write_once/broadcast/split/indexer nodes (successor caches)', 'queue_node / priority_queue_node ordering', 'buffer_node aggregator protocol (C13)',
                        'interleavings of ports', 'negative decrements / decrements beyond what was delivered (outside the stated precondition)'],
        'assumptions': ['decrement(delta): 0 < delta <= number of delivered, not yet decremented messages', 'item_type is trivially copyable (int)'],
    }


def replay(ctx, jobname, failure):
    exe = native.build([os.path.join(HERE, 'c15_replay.cpp')], os.path.join(ctx.work, 'c15_replay'), link_tbb=True)
    rc, out = native.run([exe, jobname], timeout=120)
    rep = {'cmd': exe + ' ' + jobname, 'rc': rc, 'output': out[-1500:], 'reproduced': False, 'detail': 'native recipes found no failing sequence'}
    m = re.search(r'REPRODUCED (.*)', out)
    if m:
        rep['reproduced'] = True
        rep['detail'] = m.group(1)
        w = re.search(r'class=(\S+)', m.group(1))
        rep['witness_class'] = w.group(1) if w else None
    return rep
