// Native recipes for failed C15 obligations on the REAL flow graph headers (header-only code, recompiled from /repo every time).
#include <oneapi/tbb/flow_graph.h>
#include <cstdio>
#include <string>
#include <vector>
namespace flow = oneapi::tbb::flow;
using tbb::detail::d2::graph_task;
using tbb::detail::d2::SUCCESSFULLY_ENQUEUED;
// a successor that, while a put is in flight inside it, sends a batch decrement to the limiter (legal: the limiter's mutex is not held here)
struct reentrant_sink : public flow::receiver<int> {
    flow::graph& g; flow::limiter_node<int, int>* lim = nullptr; long received = 0; int fire_on = -1, delta = 0;
    explicit reentrant_sink(flow::graph& gr) : g(gr) {}
    graph_task* try_put_task(const int& v) override {
        ++received;
        if (v == fire_on) lim->decrementer().try_put(delta);
        return const_cast<graph_task*>(SUCCESSFULLY_ENQUEUED);
    }
    flow::graph& graph_reference() const override { return g; }
};
static bool limiter_recipe(std::string& why) {
    for (int thr = 2; thr <= 6; ++thr) for (int c = 1; c < thr; ++c) {
        flow::graph g; flow::limiter_node<int, int> lim(g, (size_t)thr); reentrant_sink sink(g); sink.lim = &lim;
        flow::make_edge(lim, sink);
        long fwd = 0, dec = 0;
        for (int i = 0; i < c; ++i) if (lim.try_put(i)) ++fwd;
        sink.fire_on = 1000; sink.delta = c + 1;          // acknowledge all c+1 delivered messages while the (c+1)-th put is still in flight
        if (lim.try_put(1000)) ++fwd;
        dec += c + 1;
        for (int i = 0; i < 3 * thr; ++i) if (lim.try_put(2000 + i)) ++fwd;
        g.wait_for_all();
        if (fwd - dec > thr) { why = "limiter_node<int,int> threshold=" + std::to_string(thr) + ": " + std::to_string(c) + " puts, then a put during which decrement(" + std::to_string(c + 1) +
                  ") arrives, then puts until rejection: " + std::to_string(fwd - dec) + " un-decremented messages were forwarded"; return true; }
    }
    return false;
}
static bool sequencer_run(std::string& why, const std::vector<size_t>& in, size_t expect_n, const char* note) {
    flow::graph g; std::vector<size_t> out;
    flow::sequencer_node<size_t> seq(g, [](const size_t& v) { return v; });
    flow::function_node<size_t, int> sink(g, 1, [&](const size_t& v) { out.push_back(v); return 0; });
    flow::make_edge(seq, sink);
    for (auto v : in) seq.try_put(v);
    g.wait_for_all();
    bool ok = out.size() >= expect_n;
    for (size_t i = 0; ok && i < expect_n; ++i) ok = out[i] == i;
    if (!ok) { why = "sequencer_node<size_t> fed"; size_t k = 0; for (auto v : in) { if (++k > 12) { why += " ..."; break; } why += " " + std::to_string(v); }
               why += ": emitted"; k = 0; for (auto v : out) { if (++k > 12) { why += " ..."; break; } why += " " + std::to_string(v); }
               why += note; return true; }
    return false;
}
static bool sequencer_recipe(std::string& why, bool tagmax) {
    if (tagmax) return sequencer_run(why, {3, 1, 2, SIZE_MAX, 0}, 4, " -- the item numbered 3 is lost (the tag SIZE_MAX was accepted and overwrote its slot)");
    if (sequencer_run(why, {3, 1, 2, 7, 5, 0, 4, 6}, 8, "")) return true;
    // one far-ahead item first (forces a growth by more than one doubling), on a fresh node and after a few emissions
    for (size_t prefix : {0u, 3u, 5u}) for (size_t jump = 1; jump <= 130; ++jump) {
        std::vector<size_t> in; for (size_t i = 0; i < prefix; ++i) in.push_back(i);
        in.push_back(prefix + jump); for (size_t i = prefix; i < prefix + jump; ++i) in.push_back(i);
        if (sequencer_run(why, in, prefix + jump + 1, (" -- expected 0.." + std::to_string(prefix + jump) + " in order").c_str())) return true;
    }
    return false;
}
int main(int argc, char** argv) {
    std::string job = argc > 1 ? argv[1] : "", why;
    if (job.rfind("limiter", 0) == 0) { if (limiter_recipe(why)) { std::printf("REPRODUCED class=limiter-threshold %s\n", why.c_str()); return 0; } }
    else if (job == "sequencer.push.tagmax") { if (sequencer_recipe(why, true)) { std::printf("REPRODUCED class=sequencer-tag-SIZE_MAX %s\n", why.c_str()); return 0; } }
    else { if (sequencer_recipe(why, false)) { std::printf("REPRODUCED class=sequencer-order %s\n", why.c_str()); return 0; } if (limiter_recipe(why)) { std::printf("REPRODUCED class=limiter-threshold %s\n", why.c_str()); return 0; } }
    std::printf("NOT-REPRODUCED\n"); return 0;
}
