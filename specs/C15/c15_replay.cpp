// Native recipes for failed C15 obligations on the REAL flow graph headers (header-only code, recompiled from /repo every time).
#include <oneapi/tbb/flow_graph.h>
#include <cstdio>
#include <string>
#include <vector>
namespace flow = oneapi::tbb::flow;
using tbb::detail::d2::graph_task;
using tbb::detail::d2::SUCCESSFULLY_ENQUEUED;
// a successor that, while a put is in flight inside it, sends a batch decrement to the limiter (legal: the limiter's mutex is not held here)
struct reentrant_sink : public flow::receiver<int> {
    flow::graph& g; flow::limiter_node<int, int>* lim = nullptr; long received = 0; int fire_on = -1, delta = 0;
    explicit reentrant_sink(flow::graph& gr) : g(gr) {}
    graph_task* try_put_task(const int& v) override {
        ++received;
        if (v == fire_on) lim->decrementer().try_put(delta);
        return const_cast<graph_task*>(SUCCESSFULLY_ENQUEUED);
    }
    flow::graph& graph_reference() const override { return g; }
};
static bool limiter_recipe(std::string& why) {
    for (int thr = 2; thr <= 6; ++thr) for (int c = 1; c < thr; ++c) {
        flow::graph g; flow::limiter_node<int, int> lim(g, (size_t)thr); reentrant_sink sink(g); sink.lim = &lim;
        flow::make_edge(lim, sink);
        long fwd = 0, dec = 0;
        for (int i = 0; i < c; ++i) if (lim.try_put(i)) ++fwd;
        sink.fire_on = 1000; sink.delta = c + 1;          // acknowledge all c+1 delivered messages while the (c+1)-th put is still in flight
        if (lim.try_put(1000)) ++fwd;
        dec += c + 1;
        for (int i = 0; i < 3 * thr; ++i) if (lim.try_put(2000 + i)) ++fwd;
        g.wait_for_all();
        if (fwd - dec > thr) { why = "limiter_node<int,int> threshold=" + std::to_string(thr) + ": " + std::to_string(c) + " puts, then a put during which decrement(" + std::to_string(c + 1) +
                  ") arrives, then puts until rejection: " + std::to_string(fwd - dec) + " un-decremented messages were forwarded"; return true; }
    }
    return false;
}
// ---- a message that the limiter turned away while a put was in flight must be pulled once that put is settled (white-box only to wait for the edge flip) ----
#include <chrono>
#include <thread>
struct settle_sink : public flow::receiver<int> {
    flow::graph& g; flow::limiter_node<int>* lim = nullptr; flow::queue_node<int>* q = nullptr; std::vector<int> got; bool fired = false, reject = false, flipped = false;
    explicit settle_sink(flow::graph& gr) : g(gr) {}
    graph_task* try_put_task(const int& v) override {
        if (v == 1000 && !fired) {
            fired = true;
            q->try_put(7);                    // the queue offers 7 while the put of 1000 is in flight: the limiter turns it away, the queue keeps it and flips its edge to pull mode
            for (int i = 0; i < 3000 && lim->my_predecessors.empty(); ++i) std::this_thread::sleep_for(std::chrono::milliseconds(1));
            flipped = !lim->my_predecessors.empty();
            if (reject) return nullptr;       // variant A: the in-flight put fails (this receiver refuses pull mode, so it stays a successor)
            got.push_back(v);
            lim->decrementer().try_put(flow::continue_msg());   // variant B: the put succeeds and its acknowledgement arrives before the put has returned
            return const_cast<graph_task*>(SUCCESSFULLY_ENQUEUED);
        }
        got.push_back(v);
        return const_cast<graph_task*>(SUCCESSFULLY_ENQUEUED);
    }
    flow::graph& graph_reference() const override { return g; }
};
static bool limiter_settle_recipe(std::string& why, bool reject) {
    flow::graph g; flow::queue_node<int> q(g); flow::limiter_node<int> lim(g, 1); settle_sink sink(g); sink.lim = &lim; sink.q = &q; sink.reject = reject;
    flow::make_edge(q, lim); flow::make_edge(lim, sink);
    lim.try_put(1000);
    g.wait_for_all();
    bool seen7 = false; for (int v : sink.got) seen7 = seen7 || v == 7;
    int v = -1; bool left = q.try_get(v);
    if (sink.flipped && !seen7 && left && v == 7 && lim.my_count + lim.my_tries < lim.my_threshold) {
        why = std::string("queue_node -> limiter_node(threshold 1) -> accepting receiver; a direct put into the limiter is in flight; meanwhile the queue offers 7, is turned away and flips its edge to pull mode; the in-flight put then ")
              + (reject ? "is rejected by the receiver" : "succeeds and its decrement arrives before the put returns") + ": after wait_for_all the limiter is open (count " + std::to_string(lim.my_count) + ", tries "
              + std::to_string(lim.my_tries) + "), its successor accepts, and 7 is still in the queue - never offered again";
        return true;
    }
    return false;
}
static bool sequencer_run(std::string& why, const std::vector<size_t>& in, size_t expect_n, const char* note) {
    flow::graph g; std::vector<size_t> out;
    flow::sequencer_node<size_t> seq(g, [](const size_t& v) { return v; });
    flow::function_node<size_t, int> sink(g, 1, [&](const size_t& v) { out.push_back(v); return 0; });
    flow::make_edge(seq, sink);
    for (auto v : in) seq.try_put(v);
    g.wait_for_all();
    bool ok = out.size() >= expect_n;
    for (size_t i = 0; ok && i < expect_n; ++i) ok = out[i] == i;
    if (!ok) { why = "sequencer_node<size_t> fed"; size_t k = 0; for (auto v : in) { if (++k > 12) { why += " ..."; break; } why += " " + std::to_string(v); }
               why += ": emitted"; k = 0; for (auto v : out) { if (++k > 12) { why += " ..."; break; } why += " " + std::to_string(v); }
               why += note; return true; }
    return false;
}
static bool sequencer_recipe(std::string& why, bool tagmax) {
    if (tagmax) return sequencer_run(why, {3, 1, 2, SIZE_MAX, 0}, 4, " -- the item numbered 3 is lost (the tag SIZE_MAX was accepted and overwrote its slot)");
    if (sequencer_run(why, {3, 1, 2, 7, 5, 0, 4, 6}, 8, "")) return true;
    // one far-ahead item first (forces a growth by more than one doubling), on a fresh node and after a few emissions
    for (size_t prefix : {0u, 3u, 5u}) for (size_t jump = 1; jump <= 130; ++jump) {
        std::vector<size_t> in; for (size_t i = 0; i < prefix; ++i) in.push_back(i);
        in.push_back(prefix + jump); for (size_t i = prefix; i < prefix + jump; ++i) in.push_back(i);
        if (sequencer_run(why, in, prefix + jump + 1, (" -- expected 0.." + std::to_string(prefix + jump) + " in order").c_str())) return true;
    }
    return false;
}
// ---- join_node recipes (public API only) ----
#include <thread>
#include <tuple>
#include <utility>
#include <map>
typedef std::pair<int, int> kmsg;   // (key, payload)
#include <cstdlib>
// a join that never retires its inputs emits the same tuple for ever: report that instead of hanging
static void runaway(const char* cls, size_t n, size_t want) {
    if (n > 20 * want + 50) { std::printf("REPRODUCED class=%s more than %zu tuples emitted from %zu messages per port (the same input messages are forwarded again and again)\n", cls, n - 1, want); std::fflush(stdout); std::_Exit(0); }
}
static bool key_duplicate_recipe(std::string& why) {
    flow::graph g; std::vector<std::tuple<kmsg, kmsg>> out;
    flow::join_node<std::tuple<kmsg, kmsg>, flow::key_matching<int>> j(g, [](const kmsg& m) { return m.first; }, [](const kmsg& m) { return m.first; });
    flow::function_node<std::tuple<kmsg, kmsg>, int> sink(g, 1, [&](const std::tuple<kmsg, kmsg>& t) { out.push_back(t); return 0; });
    flow::make_edge(j, sink);
    bool a = flow::input_port<0>(j).try_put(kmsg(1, 10)), b = flow::input_port<0>(j).try_put(kmsg(1, 20)), c = flow::input_port<1>(j).try_put(kmsg(1, 99));
    g.wait_for_all();
    if (a && !b && c && out.size() == 1 && std::get<0>(out[0]).second != 10) {
        why = "join_node<tuple<pair,pair>, key_matching<int>>: port 0 try_put (key 1, payload 10) -> accepted, try_put (key 1, payload 20) -> rejected, port 1 try_put (key 1, payload 99): the tuple carries payload "
              + std::to_string(std::get<0>(out[0]).second) + " at port 0 -- the accepted message was overwritten by the rejected one (accepted message lost, rejected message used)";
        return true;
    }
    return false;
}
// a successor that records what it is offered at once (a function_node would park the body task in the forwarder's hands until the forwarder returns)
template <typename T> struct collect_sink : public flow::receiver<T> {
    flow::graph& g; std::vector<T>& out; const char* cls; size_t want;
    collect_sink(flow::graph& gr, std::vector<T>& o, const char* c, size_t w) : g(gr), out(o), cls(c), want(w) {}
    graph_task* try_put_task(const T& v) override { out.push_back(v); runaway(cls, out.size(), want); return const_cast<graph_task*>(SUCCESSFULLY_ENQUEUED); }
    flow::graph& graph_reference() const override { return g; }
};
template <typename JP> struct join_run {
    // feeds K messages 0..K-1 to each of the two ports in the stated pattern and returns the tuples in emission order
    static std::vector<std::tuple<int, int>> run(int K, int pattern, bool threads) {
        flow::graph g; std::vector<std::tuple<int, int>> out;
        flow::join_node<std::tuple<int, int>, JP> j(g);
        collect_sink<std::tuple<int, int>> sink(g, out, "join-queueing", (size_t)K);
        flow::make_edge(j, sink);
        auto feed = [&](int port, int i) { if (port == 0) flow::input_port<0>(j).try_put(i); else flow::input_port<1>(j).try_put(i); };
        if (threads) { std::thread t0([&] { for (int i = 0; i < K; ++i) feed(0, i); }), t1([&] { for (int i = 0; i < K; ++i) feed(1, i); }); t0.join(); t1.join(); }
        else if (pattern == 0) { for (int i = 0; i < K; ++i) feed(0, i); for (int i = 0; i < K; ++i) feed(1, i); }
        else if (pattern == 1) { for (int i = 0; i < K; ++i) feed(1, i); for (int i = 0; i < K; ++i) feed(0, i); }
        else if (pattern == 2) { for (int i = 0; i < K; ++i) { feed(0, i); feed(1, i); } }
        else { for (int i = 0; i < K; i += 3) { for (int d = 0; d < 3 && i + d < K; ++d) feed(1, i + d); for (int d = 0; d < 3 && i + d < K; ++d) feed(0, i + d); } }
        g.wait_for_all();
        return out;
    }
};
static bool queueing_recipe(std::string& why) {
    for (int pass = 0; pass < 6; ++pass) for (int K : {1, 2, 5, 9, 40}) {
        bool thr = pass >= 4; auto out = join_run<flow::queueing>::run(thr ? 3000 : K, pass, thr); size_t want = thr ? 3000 : K;
        bool ok = out.size() == want;
        for (size_t i = 0; ok && i < out.size(); ++i) ok = std::get<0>(out[i]) == (int)i && std::get<1>(out[i]) == (int)i;
        if (!ok) { why = "join_node<tuple<int,int>, queueing>, " + std::to_string(want) + " messages 0.." + std::to_string(want - 1) + " per port (feeding pattern " + std::to_string(pass) + "): " + std::to_string(out.size()) + " tuples emitted";
                   for (size_t i = 0; i < out.size() && i < 6; ++i) why += " (" + std::to_string(std::get<0>(out[i])) + "," + std::to_string(std::get<1>(out[i])) + ")";
                   why += " -- expected the i-th tuple to be (i,i)"; return true; }
    }
    return false;
}
static bool reserving_recipe(std::string& why) {
    for (int K : {1, 3, 8, 50}) for (int pattern = 0; pattern < 3; ++pattern) {
        flow::graph g; std::vector<std::tuple<int, int>> out;
        flow::queue_node<int> q0(g), q1(g);
        flow::join_node<std::tuple<int, int>, flow::reserving> j(g);
        collect_sink<std::tuple<int, int>> sink(g, out, "join-reserving", (size_t)K);
        flow::make_edge(q0, flow::input_port<0>(j)); flow::make_edge(q1, flow::input_port<1>(j)); flow::make_edge(j, sink);
        if (pattern == 0) { for (int i = 0; i < K; ++i) q0.try_put(i); for (int i = 0; i < K; ++i) q1.try_put(i); }
        else if (pattern == 1) { for (int i = 0; i < K; ++i) { q1.try_put(i); q0.try_put(i); } }
        else { for (int i = 0; i < K; ++i) q1.try_put(i); g.wait_for_all(); for (int i = 0; i < K; ++i) q0.try_put(i); }
        g.wait_for_all();
        int left0 = 0, left1 = 0, v; while (q0.try_get(v)) ++left0; while (q1.try_get(v)) ++left1;
        bool ok = out.size() == (size_t)K && left0 == 0 && left1 == 0;
        for (size_t i = 0; ok && i < out.size(); ++i) ok = std::get<0>(out[i]) == (int)i && std::get<1>(out[i]) == (int)i;
        if (!ok) { why = "two queue_nodes with " + std::to_string(K) + " messages each -> join_node<tuple<int,int>, reserving> (pattern " + std::to_string(pattern) + "): " + std::to_string(out.size()) + " tuples, "
                   + std::to_string(left0) + "/" + std::to_string(left1) + " messages left in the queues -- expected " + std::to_string(K) + " tuples (i,i) and empty queues"; return true; }
    }
    return false;
}
static bool key_matching_recipe(std::string& why) {
    for (int K : {1, 2, 7, 33}) for (int pattern = 0; pattern < 3; ++pattern) {
        flow::graph g; std::vector<std::tuple<kmsg, kmsg>> out;
        flow::join_node<std::tuple<kmsg, kmsg>, flow::key_matching<int>> j(g, [](const kmsg& m) { return m.first; }, [](const kmsg& m) { return m.first; });
        collect_sink<std::tuple<kmsg, kmsg>> sink(g, out, "join-key-matching", (size_t)K);
        flow::make_edge(j, sink);
        for (int i = 0; i < K; ++i) flow::input_port<0>(j).try_put(kmsg(pattern == 1 ? K - 1 - i : i, 1000 + (pattern == 1 ? K - 1 - i : i)));
        for (int i = 0; i < K; ++i) { int k = pattern == 2 ? (i * 7 + 3) % K : i; if (pattern == 2 && K % 7 == 0) k = i; flow::input_port<1>(j).try_put(kmsg(k, 2000 + k)); }
        g.wait_for_all();
        std::map<int, int> seen; bool ok = out.size() == (size_t)K;
        for (auto& t : out) { ok = ok && std::get<0>(t).first == std::get<1>(t).first && std::get<0>(t).second == 1000 + std::get<0>(t).first && std::get<1>(t).second == 2000 + std::get<1>(t).first; ++seen[std::get<0>(t).first]; }
        for (auto& kv : seen) ok = ok && kv.second == 1;
        if (!ok) { why = "join_node<tuple<pair,pair>, key_matching<int>> fed keys 0.." + std::to_string(K - 1) + " once per port (pattern " + std::to_string(pattern) + "): " + std::to_string(out.size()) + " tuples";
                   for (size_t i = 0; i < out.size() && i < 5; ++i) why += " [" + std::to_string(std::get<0>(out[i]).first) + ":" + std::to_string(std::get<0>(out[i]).second) + "|" + std::to_string(std::get<1>(out[i]).first) + ":" + std::to_string(std::get<1>(out[i]).second) + "]";
                   why += " -- expected one tuple per key whose components carry that key"; return true; }
    }
    return false;
}
int main(int argc, char** argv) {
    std::string job = argc > 1 ? argv[1] : "", why;
    if (job == "limiter.try_put.early_decrement") { if (limiter_settle_recipe(why, false)) { std::printf("REPRODUCED class=limiter-early-decrement-strands-predecessor %s\n", why.c_str()); return 0; } }
    else if (job.rfind("limiter", 0) == 0) { if (limiter_settle_recipe(why, true)) { std::printf("REPRODUCED class=limiter-withdrawn-attempt-strands-predecessor %s\n", why.c_str()); return 0; }
        if (limiter_recipe(why)) { std::printf("REPRODUCED class=limiter-threshold %s\n", why.c_str()); return 0; } }
    else if (job == "join.kport.try_put.duplicate_key") { if (key_duplicate_recipe(why)) { std::printf("REPRODUCED class=key-matching-duplicate-overwrites %s\n", why.c_str()); return 0; } }
    else if (job.rfind("join.", 0) == 0) {
        bool q = job.find("queueing") != std::string::npos || job.find("qport") != std::string::npos, r = job.find("reserving") != std::string::npos || job.find("rport") != std::string::npos,
             k = job.find("key") != std::string::npos || job.find("kport") != std::string::npos, all = !q && !r && !k;
        if ((q || all) && queueing_recipe(why)) { std::printf("REPRODUCED class=join-queueing %s\n", why.c_str()); return 0; }
        if ((r || all) && reserving_recipe(why)) { std::printf("REPRODUCED class=join-reserving %s\n", why.c_str()); return 0; }
        if ((k || all) && key_matching_recipe(why)) { std::printf("REPRODUCED class=join-key-matching %s\n", why.c_str()); return 0; }
    }
    else if (job == "sequencer.push.tagmax") { if (sequencer_recipe(why, true)) { std::printf("REPRODUCED class=sequencer-tag-SIZE_MAX %s\n", why.c_str()); return 0; } }
    else { if (sequencer_recipe(why, false)) { std::printf("REPRODUCED class=sequencer-order %s\n", why.c_str()); return 0; } if (limiter_recipe(why)) { std::printf("REPRODUCED class=limiter-threshold %s\n", why.c_str()); return 0; } }
    std::printf("NOT-REPRODUCED\n"); return 0;
}
