/* C15 harnesses.  *.inc generated from /repo on every run (specs/C15/spec.py). */
#include "verif.h"
#include <stdlib.h>

#ifdef LIM
typedef struct graph_task { int dummy; } graph_task;
static graph_task the_task;
/* ghost: P = in-flight puts already delivered to a successor but not yet counted; D = delivered and not yet decremented messages */
size_t P, D; bool meTry, meP; int g_mode; size_t g_delta;
struct limiter;
static struct limiter *L;
#include "limiter_decl.h"
static bool STUB_pred_empty(void) { return nondet_bool(); }
static bool STUB_succ_empty(void) { return nondet_bool(); }
static bool STUB_is_graph_active(void) { return nondet_bool(); }
static void section_end(void);
static bool STUB_pred_try_reserve(void) { section_end(); return nondet_bool(); }
static void STUB_pred_try_consume(void) {}
static void STUB_pred_try_release(void) {}
static graph_task *STUB_new_forward_task(void) { return &the_task; }
static void STUB_spawn(graph_task *t) {}
static graph_task *STUB_forward_task(struct limiter *s) { return nondet_bool() ? &the_task : NULL; }
#include "limiter.inc"
void h_lim_try_put(void) {
    struct limiter l; L = &l; lim_init(&l); g_mode = 0; in_section = false;
    graph_task *r = limiter_try_put_task_impl(&l);
    lim_end();
    VACUITY_END();
}
void h_lim_forward(void) {
    struct limiter l; L = &l; lim_init(&l); g_mode = 0; in_section = false;
    graph_task *r = limiter_forward_task(&l);
    lim_end();
    VACUITY_END();
}
long long IN_delta;
void h_lim_decrement(void) {
    struct limiter l; L = &l; lim_init(&l); g_mode = 1; in_section = false;
    long long delta = IN_delta = nondet_i64();
    __CPROVER_assume(delta > 0 && (size_t)delta <= l.my_threshold);     /* stated precondition; negative deltas and over-decrement are out of scope */
    g_delta = (size_t)delta;
    limiter_decrement_counter(&l, delta);
    lim_end();
    VACUITY_END();
}
#endif

#ifdef SEQ
typedef int item_type;
#define DESTROY_ITEM(p) ((void)0)
typedef struct sequencer_operation { item_type *elem; int status; } sequencer_operation;
enum { WAIT = 0, SUCCEEDED = 1, FAILED = 2 };
size_t g_tag, GH;   /* GH: ghost index of an arbitrary other item */
static size_t STUB_sequencer(item_type *e) { return g_tag; }
struct item_buffer;
static void item_buffer_grow_my_array(struct item_buffer *self, size_t minimum_size);
#include "item_buffer.inc"
#include "sequencer.inc"
#define POW2(x) ((x) != 0 && (((x) & ((x) - 1)) == 0))
#define MAXCAP ((size_t)1 << 20)
bool g_grew;
/* contract stub of grow_my_array (assumed here): capacity is a power of two >= the request and >= 2*old; head/tail untouched; the item and
   state at the ghost index are carried over; the slot of the tag being pushed, if it lay outside [head,tail), is empty */
static void item_buffer_grow_my_array(struct item_buffer *self, size_t minimum_size) {
    size_t old = self->my_array_size, ns = nondet_size_t();
    __CPROVER_assume(POW2(ns) && ns >= minimum_size && ns >= 2 * old && ns <= 2 * MAXCAP);
    aligned_space_item *na = malloc(ns * sizeof(aligned_space_item)); __CPROVER_assume(na != NULL);
    bool gh_in = GH >= self->my_head && GH < self->my_tail, tag_in = g_tag >= self->my_head && g_tag < self->my_tail;
    if (gh_in) na[GH & (ns - 1)] = self->my_array[GH & (old - 1)];
    if (tag_in) na[g_tag & (ns - 1)] = self->my_array[g_tag & (old - 1)];
    else __CPROVER_assume(na[g_tag & (ns - 1)].state == no_item);
    self->my_array = na; self->my_array_size = ns; g_grew = true;
}
static void mk_buffer(struct item_buffer *b) {
    b->my_array_size = nondet_size_t(); b->my_head = nondet_size_t(); b->my_tail = nondet_size_t();
    __CPROVER_assume(POW2(b->my_array_size) && b->my_array_size >= 4 && b->my_array_size <= MAXCAP);
    __CPROVER_assume(b->my_head <= b->my_tail && b->my_tail - b->my_head <= b->my_array_size && b->my_tail < SIZE_MAX - 2 * MAXCAP);
    b->my_array = malloc(b->my_array_size * sizeof(aligned_space_item)); __CPROVER_assume(b->my_array != NULL);
}
/* representation invariant at index j: a slot whose in-window index lies outside [head,tail) is empty; states are legal */
#define RI_EMPTY(b, j) (!((j) - (b)->my_head < (b)->my_array_size && (j) >= (b)->my_tail) || (b)->my_array[(j) & ((b)->my_array_size - 1)].state == no_item)
#define STATE_OK(b, j) ((b)->my_array[(j) & ((b)->my_array_size - 1)].state >= no_item && (b)->my_array[(j) & ((b)->my_array_size - 1)].state <= reserved_item)
static void push_common(bool tagmax) {
    struct item_buffer b; mk_buffer(&b);
    size_t tag = g_tag = nondet_size_t(); GH = nondet_size_t();
    if (tagmax) __CPROVER_assume(tag == SIZE_MAX); else __CPROVER_assume(tag < SIZE_MAX && (tag < b.my_head || tag - b.my_head < MAXCAP));
    __CPROVER_assume(RI_EMPTY(&b, tag) && RI_EMPTY(&b, GH) && STATE_OK(&b, tag) && STATE_OK(&b, GH));
    item_type v = nondet_int(); sequencer_operation op; op.elem = &v; op.status = WAIT;
    size_t head0 = b.my_head, tail0 = b.my_tail;
    bool gh_valid0 = GH >= head0 && GH < tail0 && item_buffer_element(&b, GH)->state != no_item; item_type gh_item0 = item_buffer_element(&b, GH)->item; int gh_state0 = item_buffer_element(&b, GH)->state;
    bool tag_valid0 = tag >= head0 && tag < tail0 && item_buffer_element(&b, tag)->state != no_item;
    g_grew = false;
    bool ok = sequencer_internal_push(&b, &op);
    OBLIGATION(ok == (op.status == SUCCEEDED) && (ok || op.status == FAILED), "C15.seq: status matches the result");
    OBLIGATION(!(tag < head0) || !ok, "C15.seq: a tag below head (already emitted) is rejected");
    OBLIGATION(!tag_valid0 || !ok, "C15.seq: an occupied tag is rejected (no duplicate)");
    OBLIGATION(b.my_head == head0 && b.my_tail >= tail0 && b.my_tail - b.my_head <= b.my_array_size, "C15.seq: head is untouched, tail only grows, the window fits the array");
    if (ok) {
        OBLIGATION(tag >= b.my_head && tag < b.my_tail, "C15.seq: an accepted item lies inside [head,tail)");
        OBLIGATION(item_buffer_element(&b, tag)->state == has_item && item_buffer_element(&b, tag)->item == v, "C15.seq: an accepted item sits at its own tag");
    } else
        OBLIGATION(b.my_tail == tail0 || tag >= head0, "C15.seq: a rejected old tag changes nothing");
    if (gh_valid0 && GH != tag)
        OBLIGATION(item_buffer_element(&b, GH)->state == gh_state0 && item_buffer_element(&b, GH)->item == gh_item0, "C15.seq: every other parked item keeps its slot, value and state");
}
void h_seq_push(void) { push_common(false); VACUITY_END(); }
void h_seq_push_tagmax(void) { push_common(true); VACUITY_END(); }
#endif
