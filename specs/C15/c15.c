/* C15 harnesses.  *.inc generated from /repo on every run (specs/C15/spec.py). */
#include "verif.h"
#include <stdlib.h>

#ifdef LIM
typedef struct graph_task { int dummy; } graph_task;
static graph_task the_task;
/* ghost: P = in-flight puts already delivered to a successor but not yet counted; D = delivered and not yet decremented messages */
size_t P, D; bool meTry, meP; int g_mode; size_t g_delta;
struct limiter;
static struct limiter *L;
#include "limiter_decl.h"
static bool STUB_pred_empty(void) { return nondet_bool(); }
static bool STUB_succ_empty(void) { return nondet_bool(); }
static bool STUB_is_graph_active(void) { return nondet_bool(); }
static void section_end(void);
static bool STUB_pred_try_reserve(void) { section_end(); return nondet_bool(); }
static void STUB_pred_try_consume(void) {}
static void STUB_pred_try_release(void) {}
static graph_task *STUB_new_forward_task(void) { return &the_task; }
static void STUB_spawn(graph_task *t) {}
static graph_task *STUB_forward_task(struct limiter *s) { return nondet_bool() ? &the_task : NULL; }
#include "limiter.inc"
void h_lim_try_put(void) {
    struct limiter l; L = &l; lim_init(&l); g_mode = 0; in_section = false;
    graph_task *r = limiter_try_put_task_impl(&l);
    lim_end();
    VACUITY_END();
}
void h_lim_forward(void) {
    struct limiter l; L = &l; lim_init(&l); g_mode = 0; in_section = false;
    graph_task *r = limiter_forward_task(&l);
    lim_end();
    VACUITY_END();
}
long long IN_delta;
void h_lim_decrement(void) {
    struct limiter l; L = &l; lim_init(&l); g_mode = 1; in_section = false;
    long long delta = IN_delta = nondet_i64();
    __CPROVER_assume(delta > 0 && (size_t)delta <= l.my_threshold);     /* stated precondition; negative deltas and over-decrement are out of scope */
    g_delta = (size_t)delta;
    limiter_decrement_counter(&l, delta);
    lim_end();
    VACUITY_END();
}
#endif

#ifdef SEQ
typedef int item_type;
#define DESTROY_ITEM(p) ((void)0)
typedef struct sequencer_operation { item_type *elem; int status; } sequencer_operation;
enum { WAIT = 0, SUCCEEDED = 1, FAILED = 2 };
size_t g_tag, GH, GH2;   /* GH, GH2: ghost indices (Skolem constants): facts are proved for two arbitrary positions at once */
static size_t STUB_sequencer(item_type *e) { return g_tag; }
#define POW2(x) ((x) != 0 && (((x) & ((x) - 1)) == 0))
#define initial_buffer_size ((size_t)4)
#define MAXCAP ((size_t)1 << 16)
static void *alloc_nofail(size_t n) { void *p = malloc(n); __CPROVER_assume(p != NULL); return p; }
#define SLOTN(b, j) ((b)->my_array[(j) & ((b)->my_array_size - 1)])
#define IB_SHAPE(b) (POW2((b)->my_array_size) && (b)->my_array_size >= 4 && (b)->my_array_size <= MAXCAP && (b)->my_head <= (b)->my_tail && (b)->my_tail - (b)->my_head <= (b)->my_array_size && (b)->my_tail < ((size_t)1 << 62))
/* grow_my_array, at an arbitrary index X: inside [head,tail) its state (and item, if any) is carried over; elsewhere in the new window the slot is empty */
#define GROW_POST(X) ((X >= self->my_head && X < self->my_tail) \
      ? (SLOTN(self, X).state == __CPROVER_old(SLOTN(self, X).state) && (SLOTN(self, X).state == no_item || SLOTN(self, X).item == __CPROVER_old(SLOTN(self, X).item))) \
      : (X - self->my_head < self->my_array_size ==> SLOTN(self, X).state == no_item))
#define CONTRACT_grow_my_array \
 __CPROVER_requires(__CPROVER_is_fresh(self, sizeof(*self)) && IB_SHAPE(self) && __CPROVER_is_fresh(self->my_array, self->my_array_size * sizeof(aligned_space_item)) && minimum_size <= 2 * MAXCAP) \
 __CPROVER_assigns(self->my_array, self->my_array_size, __CPROVER_object_whole(self->my_array)) __CPROVER_frees(self->my_array) \
 __CPROVER_ensures(POW2(self->my_array_size) && self->my_array_size >= minimum_size && self->my_array_size >= 2 * __CPROVER_old(self->my_array_size) && self->my_array_size <= 4 * MAXCAP) \
 __CPROVER_ensures(self->my_head == __CPROVER_old(self->my_head) && self->my_tail == __CPROVER_old(self->my_tail)) \
 __CPROVER_ensures(__CPROVER_is_fresh(self->my_array, self->my_array_size * sizeof(aligned_space_item))) \
 __CPROVER_ensures(GROW_POST(GH)) __CPROVER_ensures(GROW_POST(GH2))
#define LOOP_ibgrow_1 __CPROVER_assigns(new_size) __CPROVER_loop_invariant(POW2(new_size) && new_size >= 4 && new_size <= 4 * MAXCAP && new_size >= 2 * self->my_array_size) __CPROVER_decreases(8 * MAXCAP - new_size)
#define INIT_INV(X) ((X & (new_size - 1)) < i ==> new_array[X & (new_size - 1)].state == no_item)
#define LOOP_ibgrow_2 __CPROVER_assigns(i, __CPROVER_object_whole(new_array)) __CPROVER_loop_invariant(i <= new_size && INIT_INV(GH) && INIT_INV(GH2)) __CPROVER_decreases(new_size - i)
#define OLDS(j) (self->my_array[(j) & (self->my_array_size - 1)])
#define COPY_INV(X) ((X >= self->my_head && X < i) ? (new_array[X & (new_size - 1)].state == OLDS(X).state && (OLDS(X).state == no_item || new_array[X & (new_size - 1)].item == OLDS(X).item)) \
                                                  : (X - self->my_head < new_size ==> new_array[X & (new_size - 1)].state == no_item))
#define LOOP_ibgrow_3 __CPROVER_assigns(i, __CPROVER_object_whole(new_array)) \
   __CPROVER_loop_invariant(i >= self->my_head && i <= self->my_tail && POW2(new_size) && new_size >= 2 * self->my_array_size && new_size <= 4 * MAXCAP && COPY_INV(GH) && COPY_INV(GH2)) __CPROVER_decreases(self->my_tail - i)
#define LOOP_ibclean_1 __CPROVER_assigns(i, __CPROVER_object_whole(self->my_array)) __CPROVER_loop_invariant(i >= self->my_head && i <= self->my_tail) __CPROVER_decreases(self->my_tail - i)
#include "item_buffer.inc"
#include "sequencer.inc"
static struct item_buffer *mk_buffer(void) {
    struct item_buffer *b = malloc(sizeof(*b)); __CPROVER_assume(b != NULL);
    b->my_array_size = nondet_size_t(); b->my_head = nondet_size_t(); b->my_tail = nondet_size_t(); __CPROVER_assume(IB_SHAPE(b));
    b->my_array = malloc(b->my_array_size * sizeof(aligned_space_item)); __CPROVER_assume(b->my_array != NULL);
    return b;
}
void h_ib_grow(void) { struct item_buffer *b; size_t m; item_buffer_grow_my_array(b, m); VACUITY_END(); }
void h_ib_fifo(void) {
    struct item_buffer *b = mk_buffer();
    GH = nondet_size_t(); GH2 = b->my_tail;
    /* queue-shaped buffer: every index of [head,tail) holds an item; slots of the window beyond tail are empty */
    __CPROVER_assume(!(GH >= b->my_head && GH < b->my_tail) || SLOTN(b, GH).state == has_item);
    __CPROVER_assume(!(b->my_tail - b->my_head < b->my_array_size) || SLOTN(b, b->my_tail).state == no_item);
    __CPROVER_assume(b->my_head == b->my_tail || SLOTN(b, b->my_head).state == has_item);
    size_t h0 = b->my_head, t0 = b->my_tail; bool gh_in = GH >= h0 && GH < t0; item_type gh_item = SLOTN(b, GH).item, head_item = SLOTN(b, h0).item;
    if (nondet_bool()) {
        item_type v = nondet_int();
        bool ok = item_buffer_push_back(b, &v);
        OBLIGATION(ok && b->my_head == h0 && b->my_tail == t0 + 1 && b->my_tail - b->my_head <= b->my_array_size, "C15.buffer: push_back appends at tail (growing if full)");
        OBLIGATION(SLOTN(b, t0).state == has_item && SLOTN(b, t0).item == v, "C15.buffer: the pushed item sits at the old tail index");
        OBLIGATION(!gh_in || (SLOTN(b, GH).state == has_item && SLOTN(b, GH).item == gh_item), "C15.buffer: every item already queued keeps its index and value (FIFO order is the index order)");
    } else {
        item_type v = 0; bool ok = item_buffer_pop_front(b, &v);
        OBLIGATION(ok == (h0 != t0), "C15.buffer: pop_front fails only on an empty buffer");
        OBLIGATION(!ok || (v == head_item && b->my_head == h0 + 1 && b->my_tail == t0 && SLOTN(b, h0).state == no_item), "C15.buffer: pop_front returns the item at head - the oldest - and removes exactly it");
        OBLIGATION(!(gh_in && GH != h0) || (SLOTN(b, GH).state == has_item && SLOTN(b, GH).item == gh_item), "C15.buffer: the other items are untouched");
    }
    VACUITY_END();
}
/* representation invariant at index j: a slot whose in-window index lies outside [head,tail) is empty; states are legal */
#define RI_EMPTY(b, j) (!((j) - (b)->my_head < (b)->my_array_size && (j) >= (b)->my_tail) || SLOTN(b, j).state == no_item)
#define STATE_OK(b, j) (SLOTN(b, j).state >= no_item && SLOTN(b, j).state <= reserved_item)
static void push_common(bool tagmax) {
    struct item_buffer *b = mk_buffer();
    size_t tag = g_tag = nondet_size_t(); GH = nondet_size_t(); GH2 = tag;
    if (tagmax) __CPROVER_assume(tag == SIZE_MAX); else __CPROVER_assume(tag < SIZE_MAX && (tag < b->my_head || tag - b->my_head < MAXCAP));
    __CPROVER_assume(RI_EMPTY(b, tag) && RI_EMPTY(b, GH) && STATE_OK(b, tag) && STATE_OK(b, GH));
    item_type v = nondet_int(); sequencer_operation op; op.elem = &v; op.status = WAIT;
    size_t head0 = b->my_head, tail0 = b->my_tail;
    bool gh_valid0 = GH >= head0 && GH < tail0 && SLOTN(b, GH).state != no_item; item_type gh_item0 = SLOTN(b, GH).item; int gh_state0 = SLOTN(b, GH).state;
    bool tag_valid0 = tag >= head0 && tag < tail0 && SLOTN(b, tag).state != no_item;
    bool ok = sequencer_internal_push(b, &op);
    OBLIGATION(ok == (op.status == SUCCEEDED) && (ok || op.status == FAILED), "C15.seq: status matches the result");
    OBLIGATION(!(tag < head0) || !ok, "C15.seq: a tag below head (already emitted) is rejected");
    OBLIGATION(!tag_valid0 || !ok, "C15.seq: an occupied tag is rejected (no duplicate)");
    OBLIGATION(b->my_head == head0 && b->my_tail >= tail0 && b->my_tail - b->my_head <= b->my_array_size, "C15.seq: head is untouched, tail only grows, the window fits the array");
    if (ok) {
        OBLIGATION(tag >= b->my_head && tag < b->my_tail, "C15.seq: an accepted item lies inside [head,tail)");
        OBLIGATION(SLOTN(b, tag).state == has_item && SLOTN(b, tag).item == v, "C15.seq: an accepted item sits at its own tag");
    } else
        OBLIGATION(b->my_tail == tail0 || tag >= head0, "C15.seq: a rejected old tag changes nothing");
    if (gh_valid0 && GH != tag)
        OBLIGATION(SLOTN(b, GH).state == gh_state0 && SLOTN(b, GH).item == gh_item0, "C15.seq: every other parked item keeps its slot, value and state");
}
void h_seq_push(void) { push_common(false); VACUITY_END(); }
void h_seq_push_tagmax(void) { push_common(true); VACUITY_END(); }
#endif
