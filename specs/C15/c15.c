/* C15 harnesses.  *.inc generated from /repo on every run (specs/C15/spec.py). */
#include "verif.h"
#include <stdlib.h>

#ifdef LIM
typedef struct graph_task { int dummy; } graph_task;
static graph_task the_task;
/* ghost: P = in-flight puts already delivered to a successor but not yet counted; D = delivered and not yet decremented messages */
size_t P, D; bool meTry, meP; int g_mode; size_t g_delta;
struct limiter;
static struct limiter *L;
#include "limiter_decl.h"
static bool STUB_pred_empty(void) { return in_section ? g_pe : nondet_bool(); }
static bool STUB_succ_empty(void) { return in_section ? g_se : nondet_bool(); }
static bool STUB_is_graph_active(void) { return in_section ? g_ga : nondet_bool(); }
static void section_end(void);
static bool STUB_pred_try_reserve(void) { section_end(); return nondet_bool(); }
static void STUB_pred_try_consume(void) {}
static void STUB_pred_try_release(void) {}
static graph_task *STUB_new_forward_task(void) { g_fwd_made_sec++; return &the_task; }
static void STUB_spawn(graph_task *t) {}
size_t g_fwd_calls;
static graph_task *STUB_forward_task(struct limiter *s) { section_end(); g_fwd_calls++; return nondet_bool() ? &the_task : NULL; }
#include "limiter.inc"
static void lim_try_put(bool early_decrement) {
    struct limiter l; L = &l; lim_init(&l); g_mode = 0; in_section = false; g_dom_early_decrement = early_decrement; g_absorbed = false;
    graph_task *r = limiter_try_put_task_impl(&l);
    lim_end();
    __CPROVER_assume(g_absorbed == early_decrement);
}
void h_lim_try_put(void) { lim_try_put(false); VACUITY_END(); }
void h_lim_try_put_early(void) { lim_try_put(true); VACUITY_END(); }
void h_lim_forward(void) {
    struct limiter l; L = &l; lim_init(&l); g_mode = 0; in_section = false; g_dom_early_decrement = true; g_absorbed = false;
    graph_task *r = limiter_forward_task(&l);
    lim_end();
    VACUITY_END();
}
long long IN_delta;
void h_lim_decrement(void) {
    struct limiter l; L = &l; lim_init(&l); g_mode = 1; in_section = false; g_dom_early_decrement = true; g_absorbed = false;
    long long delta = IN_delta = nondet_i64();
    __CPROVER_assume(delta > 0 && (size_t)delta <= l.my_threshold);     /* stated precondition; negative deltas and over-decrement are out of scope */
    g_delta = (size_t)delta; g_fwd_calls = 0;
    limiter_decrement_counter(&l, delta);
    lim_end();
    OBLIGATION(g_fwd_calls == 1, "C15.limiter: a decrement is followed by one forwarding attempt (forward_task), which pulls a message a predecessor kept while the limiter was full");
    VACUITY_END();
}
#endif

#ifdef SEQ
typedef int item_type;
#define DESTROY_ITEM(p) ((void)0)
typedef struct sequencer_operation { item_type *elem; int status; } sequencer_operation;
enum { WAIT = 0, SUCCEEDED = 1, FAILED = 2 };
size_t g_tag, GH, GH2;   /* GH, GH2: ghost indices (Skolem constants): facts are proved for two arbitrary positions at once */
static size_t STUB_sequencer(item_type *e) { return g_tag; }
#define POW2(x) ((x) != 0 && (((x) & ((x) - 1)) == 0))
#define initial_buffer_size ((size_t)4)
#define MAXCAP ((size_t)1 << 16)
static void *alloc_nofail(size_t n) { void *p = malloc(n); __CPROVER_assume(p != NULL); return p; }
#define SLOTN(b, j) ((b)->my_array[(j) & ((b)->my_array_size - 1)])
#define IB_SHAPE(b) (POW2((b)->my_array_size) && (b)->my_array_size >= 4 && (b)->my_array_size <= MAXCAP && (b)->my_head <= (b)->my_tail && (b)->my_tail - (b)->my_head <= (b)->my_array_size && (b)->my_tail < ((size_t)1 << 62))
/* grow_my_array, at an arbitrary index X: inside [head,tail) its state (and item, if any) is carried over; elsewhere in the new window the slot is empty */
#define GROW_POST(X) ((X >= self->my_head && X < self->my_tail) \
      ? (SLOTN(self, X).state == __CPROVER_old(SLOTN(self, X).state) && (SLOTN(self, X).state == no_item || SLOTN(self, X).item == __CPROVER_old(SLOTN(self, X).item))) \
      : (X - self->my_head < self->my_array_size ==> SLOTN(self, X).state == no_item))
#define CONTRACT_grow_my_array \
 __CPROVER_requires(__CPROVER_is_fresh(self, sizeof(*self)) && IB_SHAPE(self) && __CPROVER_is_fresh(self->my_array, self->my_array_size * sizeof(aligned_space_item)) && minimum_size <= 2 * MAXCAP) \
 __CPROVER_assigns(self->my_array, self->my_array_size, __CPROVER_object_whole(self->my_array)) __CPROVER_frees(self->my_array) \
 __CPROVER_ensures(POW2(self->my_array_size) && self->my_array_size >= minimum_size && self->my_array_size >= 2 * __CPROVER_old(self->my_array_size) && self->my_array_size <= 4 * MAXCAP) \
 __CPROVER_ensures(self->my_head == __CPROVER_old(self->my_head) && self->my_tail == __CPROVER_old(self->my_tail)) \
 __CPROVER_ensures(__CPROVER_is_fresh(self->my_array, self->my_array_size * sizeof(aligned_space_item))) \
 __CPROVER_ensures(GROW_POST(GH)) __CPROVER_ensures(GROW_POST(GH2))
#define LOOP_ibgrow_1 __CPROVER_assigns(new_size) __CPROVER_loop_invariant(POW2(new_size) && new_size >= 4 && new_size <= 4 * MAXCAP && new_size >= 2 * self->my_array_size) __CPROVER_decreases(8 * MAXCAP - new_size)
#define INIT_INV(X) ((X & (new_size - 1)) < i ==> new_array[X & (new_size - 1)].state == no_item)
#define LOOP_ibgrow_2 __CPROVER_assigns(i, __CPROVER_object_whole(new_array)) __CPROVER_loop_invariant(i <= new_size && INIT_INV(GH) && INIT_INV(GH2)) __CPROVER_decreases(new_size - i)
#define OLDS(j) (self->my_array[(j) & (self->my_array_size - 1)])
#define COPY_INV(X) ((X >= self->my_head && X < i) ? (new_array[X & (new_size - 1)].state == OLDS(X).state && (OLDS(X).state == no_item || new_array[X & (new_size - 1)].item == OLDS(X).item)) \
                                                  : (X - self->my_head < new_size ==> new_array[X & (new_size - 1)].state == no_item))
#define LOOP_ibgrow_3 __CPROVER_assigns(i, __CPROVER_object_whole(new_array)) \
   __CPROVER_loop_invariant(i >= self->my_head && i <= self->my_tail && POW2(new_size) && new_size >= 2 * self->my_array_size && new_size <= 4 * MAXCAP && COPY_INV(GH) && COPY_INV(GH2)) __CPROVER_decreases(self->my_tail - i)
#define LOOP_ibclean_1 __CPROVER_assigns(i, __CPROVER_object_whole(self->my_array)) __CPROVER_loop_invariant(i >= self->my_head && i <= self->my_tail) __CPROVER_decreases(self->my_tail - i)
#include "item_buffer.inc"
#include "sequencer.inc"
static struct item_buffer *mk_buffer(void) {
    struct item_buffer *b = malloc(sizeof(*b)); __CPROVER_assume(b != NULL);
    b->my_array_size = nondet_size_t(); b->my_head = nondet_size_t(); b->my_tail = nondet_size_t(); __CPROVER_assume(IB_SHAPE(b));
    b->my_array = malloc(b->my_array_size * sizeof(aligned_space_item)); __CPROVER_assume(b->my_array != NULL);
    return b;
}
void h_ib_grow(void) { struct item_buffer *b; size_t m; item_buffer_grow_my_array(b, m); VACUITY_END(); }
void h_ib_fifo(void) {
    struct item_buffer *b = mk_buffer();
    GH = nondet_size_t(); GH2 = b->my_tail;
    /* queue-shaped buffer: every index of [head,tail) holds an item; slots of the window beyond tail are empty */
    __CPROVER_assume(!(GH >= b->my_head && GH < b->my_tail) || SLOTN(b, GH).state == has_item);
    __CPROVER_assume(!(b->my_tail - b->my_head < b->my_array_size) || SLOTN(b, b->my_tail).state == no_item);
    __CPROVER_assume(b->my_head == b->my_tail || SLOTN(b, b->my_head).state == has_item);
    size_t h0 = b->my_head, t0 = b->my_tail; bool gh_in = GH >= h0 && GH < t0; item_type gh_item = SLOTN(b, GH).item, head_item = SLOTN(b, h0).item;
    if (nondet_bool()) {
        item_type v = nondet_int();
        bool ok = item_buffer_push_back(b, &v);
        OBLIGATION(ok && b->my_head == h0 && b->my_tail == t0 + 1 && b->my_tail - b->my_head <= b->my_array_size, "C15.buffer: push_back appends at tail (growing if full)");
        OBLIGATION(SLOTN(b, t0).state == has_item && SLOTN(b, t0).item == v, "C15.buffer: the pushed item sits at the old tail index");
        OBLIGATION(!gh_in || (SLOTN(b, GH).state == has_item && SLOTN(b, GH).item == gh_item), "C15.buffer: every item already queued keeps its index and value (FIFO order is the index order)");
    } else {
        item_type v = 0; bool ok = item_buffer_pop_front(b, &v);
        OBLIGATION(ok == (h0 != t0), "C15.buffer: pop_front fails only on an empty buffer");
        OBLIGATION(!ok || (v == head_item && b->my_head == h0 + 1 && b->my_tail == t0 && SLOTN(b, h0).state == no_item), "C15.buffer: pop_front returns the item at head - the oldest - and removes exactly it");
        OBLIGATION(!(gh_in && GH != h0) || (SLOTN(b, GH).state == has_item && SLOTN(b, GH).item == gh_item), "C15.buffer: the other items are untouched");
    }
    VACUITY_END();
}
/* representation invariant at index j: a slot whose in-window index lies outside [head,tail) is empty; states are legal */
#define RI_EMPTY(b, j) (!((j) - (b)->my_head < (b)->my_array_size && (j) >= (b)->my_tail) || SLOTN(b, j).state == no_item)
#define STATE_OK(b, j) (SLOTN(b, j).state >= no_item && SLOTN(b, j).state <= reserved_item)
static void push_common(bool tagmax) {
    struct item_buffer *b = mk_buffer();
    size_t tag = g_tag = nondet_size_t(); GH = nondet_size_t(); GH2 = tag;
    if (tagmax) __CPROVER_assume(tag == SIZE_MAX); else __CPROVER_assume(tag < SIZE_MAX && (tag < b->my_head || tag - b->my_head < MAXCAP));
    __CPROVER_assume(RI_EMPTY(b, tag) && RI_EMPTY(b, GH) && STATE_OK(b, tag) && STATE_OK(b, GH));
    item_type v = nondet_int(); sequencer_operation op; op.elem = &v; op.status = WAIT;
    size_t head0 = b->my_head, tail0 = b->my_tail;
    bool gh_valid0 = GH >= head0 && GH < tail0 && SLOTN(b, GH).state != no_item; item_type gh_item0 = SLOTN(b, GH).item; int gh_state0 = SLOTN(b, GH).state;
    bool tag_valid0 = tag >= head0 && tag < tail0 && SLOTN(b, tag).state != no_item;
    bool ok = sequencer_internal_push(b, &op);
    OBLIGATION(ok == (op.status == SUCCEEDED) && (ok || op.status == FAILED), "C15.seq: status matches the result");
    OBLIGATION(!(tag < head0) || !ok, "C15.seq: a tag below head (already emitted) is rejected");
    OBLIGATION(!tag_valid0 || !ok, "C15.seq: an occupied tag is rejected (no duplicate)");
    OBLIGATION(b->my_head == head0 && b->my_tail >= tail0 && b->my_tail - b->my_head <= b->my_array_size, "C15.seq: head is untouched, tail only grows, the window fits the array");
    if (ok) {
        OBLIGATION(tag >= b->my_head && tag < b->my_tail, "C15.seq: an accepted item lies inside [head,tail)");
        OBLIGATION(SLOTN(b, tag).state == has_item && SLOTN(b, tag).item == v, "C15.seq: an accepted item sits at its own tag");
    } else
        OBLIGATION(b->my_tail == tail0 || tag >= head0, "C15.seq: a rejected old tag changes nothing");
    if (gh_valid0 && GH != tag)
        OBLIGATION(SLOTN(b, GH).state == gh_state0 && SLOTN(b, GH).item == gh_item0, "C15.seq: every other parked item keeps its slot, value and state");
}
void h_seq_push(void) { push_common(false); VACUITY_END(); }
void h_seq_push_tagmax(void) { push_common(true); VACUITY_END(); }
#define IN_WIN(b, j) ((j) >= (b)->my_head && (j) < (b)->my_tail)
/* queue-shaped buffer at an arbitrary index j: every index of [head,tail) holds an item, every other slot of the window is empty */
#define QRI(b, j) (IN_WIN(b, j) ? SLOTN(b, j).state == has_item : (!((j) - (b)->my_head < (b)->my_array_size) || SLOTN(b, j).state == no_item))
#define SHAPE_POST(b) (POW2((b)->my_array_size) && (b)->my_array_size >= 4 && (b)->my_head <= (b)->my_tail && (b)->my_tail - (b)->my_head <= (b)->my_array_size)
#ifdef JQP
/* join_node, queueing policy: queueing_port::handle_operations - ONE arbitrary operation in an arbitrary invariant state (inductive step of the batch loop)
   on the real item_buffer.  Ghost g_counted: this port is currently counted by the join as 'has an item' (it has decremented ports_with_no_items since the
   count was last re-armed); g_inwin: the join has re-armed the count (tuple accepted) and has not yet retired this port's front item. */
typedef struct graph_task { int d; } graph_task;
static graph_task T_enq, T_fwd;
#define SUCCESSFULLY_ENQUEUED (&T_enq)
typedef struct queueing_port_operation { char type; item_type my_val; item_type *my_arg; graph_task *bypass_t; int status; struct queueing_port_operation *next; } queueing_port_operation;
unsigned g_status_sets; size_t g_dec_calls; bool g_dec_handle, g_counted, g_inwin; graph_task *g_dec_ret;
#define SET_STATUS(op, st) do { __CPROVER_assert((op)->status == WAIT, "C15.join.qport: an operation gets exactly one final status"); (op)->status = (st); g_status_sets++; } while (0)
static graph_task *FE_decrement_port_count(struct item_buffer *self, bool handle_task) {
    OBLIGATION(!g_counted, "C15.join.qport: a port is counted as 'has an item' at most once per round");
    OBLIGATION(IN_WIN(self, self->my_head) && SLOTN(self, self->my_head).state == has_item, "C15.join.qport: a port reports an item to the join only while it holds one");
    g_counted = true; g_dec_calls++; g_dec_handle = handle_task;
    g_dec_ret = (!handle_task && nondet_bool()) ? &T_fwd : NULL;      /* contract of join_node_FE<queueing>::decrement_port_count (job join.fe.queueing.decrement) */
    return g_dec_ret;
}
#define LOOP_qpho_1
#include "queueing_port.inc"
#define QP_INV(b) (g_inwin ? (!g_counted && (b)->my_head < (b)->my_tail) : (g_counted == ((b)->my_head < (b)->my_tail)))
#ifndef OPK
#define OPK 0
#endif
int IN_type;
void h_qp_op(void) {
    struct item_buffer *b = mk_buffer();
    size_t h0 = b->my_head, t0 = b->my_tail; GH = nondet_size_t(); GH2 = t0;
    __CPROVER_assume(QRI(b, GH) && QRI(b, h0) && QRI(b, h0 + 1) && QRI(b, t0));       /* instances of the (universal) representation invariant */
    g_counted = nondet_bool(); g_inwin = nondet_bool(); __CPROVER_assume(QP_INV(b));
    g_status_sets = 0; g_dec_calls = 0; g_dec_ret = NULL; g_dec_handle = false;
    bool in0 = IN_WIN(b, GH); item_type x0 = SLOTN(b, GH).item, front0 = SLOTN(b, h0).item;
    int type = IN_type = OPK; item_type got = nondet_int(), got0 = got, v = nondet_int();
    queueing_port_operation op; op.type = (char)type; op.my_val = v; op.my_arg = NULL; op.bypass_t = NULL; op.status = WAIT; op.next = NULL;
    if (type == get__item) op.my_arg = &got;
    if (type == res_port) __CPROVER_assume(g_inwin);           /* reset_port is issued by tuple_accepted only: after reset_port_count, once per port (job join.fe.queueing.tuple) */
    if (type == try__put_task) __CPROVER_assume(t0 - h0 < MAXCAP && t0 + 1 < ((size_t)1 << 62));   /* stated size bound of the grow_my_array contract */
    qp_handle_operations(b, &op);
    if (type == res_port) g_inwin = false;
    size_t h1 = b->my_head, t1 = b->my_tail;
    OBLIGATION(g_status_sets == 1 && (op.status == SUCCEEDED || op.status == FAILED), "C15.join.qport: the operation gets exactly one status");
    OBLIGATION(SHAPE_POST(b) && QRI(b, GH), "C15.join.qport: the port buffer stays a gap-free queue (representation invariant at an arbitrary index)");
    OBLIGATION(QP_INV(b), "C15.join.qport: the port is counted by the join as 'has an item' exactly when it holds one (except between the re-arming of the count and the retirement of its front item)");
    OBLIGATION(g_dec_ret == NULL || op.bypass_t == g_dec_ret, "C15.join.qport: a forward task handed back by the join is passed on in the operation record, not dropped");
    if (type == try__put_task) {
        OBLIGATION(op.status == SUCCEEDED && h1 == h0 && t1 == t0 + 1 && SLOTN(b, t0).state == has_item && SLOTN(b, t0).item == v, "C15.join.qport: a put appends the message behind everything already queued (arrival order)");
        OBLIGATION(!in0 || SLOTN(b, GH).item == x0, "C15.join.qport: messages already queued keep their place and value");
        OBLIGATION(g_dec_calls == ((h0 == t0) ? 1 : 0), "C15.join.qport: the join is told 'this port now has an item' exactly when the port goes from empty to non-empty");
        OBLIGATION(op.bypass_t == g_dec_ret || (g_dec_calls == 0 && op.bypass_t == SUCCESSFULLY_ENQUEUED), "C15.join.qport: the put reports the join's forward task, or plain success");
    } else if (type == get__item) {
        OBLIGATION((op.status == SUCCEEDED) == (h0 < t0), "C15.join.qport: get_item fails exactly on an empty port");
        OBLIGATION(op.status == SUCCEEDED ? got == front0 : got == got0, "C15.join.qport: get_item hands out the front (oldest) message of the port");
        OBLIGATION(h1 == h0 && t1 == t0 && (!in0 || SLOTN(b, GH).item == x0) && g_dec_calls == 0, "C15.join.qport: get_item consumes nothing (the message stays queued until the tuple is accepted)");
    } else {
        OBLIGATION(op.status == SUCCEEDED && h1 == h0 + 1 && t1 == t0 && SLOTN(b, h0).state == no_item, "C15.join.qport: reset_port retires exactly the front message (the one that went into the accepted tuple)");
        OBLIGATION(!(in0 && GH != h0) || SLOTN(b, GH).item == x0, "C15.join.qport: the messages behind it keep their place and value");
        OBLIGATION(g_dec_calls == ((t0 - h0 > 1) ? 1 : 0), "C15.join.qport: after the retirement the port is counted again exactly when another message is waiting");
    }
    VACUITY_END();
}
#endif
#endif

#if defined(JFEQ) || defined(JFER)
/* join_node front ends (join_node_FE<queueing>, join_node_FE<reserving>) with the tuple recursion of join_helper<N>, N = tuple size, symbolic in 1..10.
   The ports are stubs with the behaviour that the port-handler jobs prove.  All facts are about ONE arbitrary port g_k (ghost index). */
typedef int item_type;
typedef struct graph_task { int d; } graph_task;
static graph_task T_fwd;
typedef struct output_type { item_type e[10]; } output_type;
#define TUPLE_AT(out, i) (&(out)->e[i])
int N, g_k;
struct fe; typedef struct fe ports_t;
static struct fe *F;
bool g_active; size_t g_made, g_spawned;
static bool STUB_is_graph_active(void) { return g_active; }
static graph_task *STUB_new_forward_task(struct fe *self) { g_made++; return &T_fwd; }
static void STUB_spawn(graph_task *t) { OBLIGATION(t == &T_fwd, "C15.join.fe: only a real task is spawned"); g_spawned++; }
#endif

#ifdef JFEQ
/* queueing policy.  Shared word: ports_with_no_items.  Ghost census: g_ck = port g_k is counted as 'has an item'; g_nco = number of counted ports among the
   N-1 others.  INV: ports_with_no_items + g_nco + g_ck == N.  A port is counted by its own (serialised) handler when it goes from empty to non-empty, or when
   its front item is retired and another one waits (jobs join.qport.*); the count is re-armed (all flags cleared) only by the join's exclusive forwarder. */
#include "join_fe_queueing_struct.inc"
#define CNT(f) ((f)->ports_with_no_items)
size_t g_nco; bool g_ck, g_inwin_k, g_armed; int g_role, g_dec_port;   /* g_role 0: a port handler counting port g_dec_port; 1: the forwarder (base handler) */
#define NC (g_nco + (g_ck ? 1 : 0))
#define FINV(f) (g_nco <= (size_t)(N - 1) && CNT(f) + NC == (size_t)N)
static void interfere(void) {
    size_t nco0 = g_nco; bool ck0 = g_ck;
    CNT(F) = nondet_size_t(); g_nco = nondet_size_t(); g_ck = nondet_bool();
    __CPROVER_assume(FINV(F));
    __CPROVER_assume(g_nco >= nco0 && (!ck0 || g_ck));                    /* rely: other threads only count ports; nobody but the forwarder re-arms */
    if (g_role == 0 && g_dec_port == g_k) __CPROVER_assume(g_ck == ck0);  /* only port g_k's own handler counts port g_k */
    if (g_role == 0 && g_dec_port != g_k) __CPROVER_assume(g_nco + 1 <= (size_t)(N - 1));   /* the calling port (one of the others) is still uncounted */
    if (g_inwin_k) __CPROVER_assume(g_ck == ck0);                         /* a non-empty port that waits for its retirement is not counted by a put */
}
size_t g_load; bool g_last_port;
#define ATOMIC_LOAD_AT(site, f) ({ interfere(); g_load = (f); g_load; })
#define ATOMIC_STORE_AT(site, f, v) do { interfere(); GHOSTPRE_##site; (f) = (v); GHOST_##site; __CPROVER_assert(FINV(F), "C15.join.fe guarantee: ports_with_no_items + (ports counted as non-empty) == N after " #site); } while (0)
#define ATOMIC_FETCH_SUB_AT(site, f, d) ({ interfere(); size_t old_ = (f); (f) = old_ - (d); GHOST_##site; __CPROVER_assert(FINV(F), "C15.join.fe guarantee: ports_with_no_items + (ports counted as non-empty) == N after " #site); old_; })
#define GHOSTPRE_reset_port_count_STORE_1 OBLIGATION(g_role == 1 && NC == (size_t)N, "C15.join.fe: the count is re-armed only by the forwarder, after a complete tuple (every port counted)")
#define GHOST_reset_port_count_STORE_1 do { g_nco = 0; g_ck = false; g_armed = true; g_inwin_k = true; } while (0)
#define GHOST_decrement_port_count_FETCH_SUB_1 do { if (g_dec_port == g_k) g_ck = true; else g_nco++; g_last_port = NC == (size_t)N; } while (0)
size_t g_gets, g_fails, g_get_k, g_resets, g_reset_k; item_type g_val_k;
static bool PORT_get_item(ports_t *f, int k, item_type *v) {
    OBLIGATION(k >= 0 && k < N, "C15.join.fe: only existing ports are addressed");
    bool ok = nondet_bool();
    if ((k == g_k && g_ck) || (k != g_k && g_nco == (size_t)(N - 1))) ok = true;     /* a counted port holds a message (job join.qport.*: invariant) and hands out its front one */
    g_gets++; if (!ok) { g_fails++; return false; }
    *v = nondet_int(); if (k == g_k) { g_get_k++; g_val_k = *v; }
    return true;
}
graph_task *fe_decrement_port_count(struct fe *self, bool handle_task);
static void PORT_reset_port(ports_t *f, int k) {
    OBLIGATION(k >= 0 && k < N, "C15.join.fe: only existing ports are addressed");
    OBLIGATION(g_armed, "C15.join.fe: the count is re-armed before any port is retired (a port that still holds a message is counted again by its retirement)");
    g_resets++;
    if (k == g_k) { g_reset_k++; g_inwin_k = false; }
    if (nondet_bool()) {            /* another message waits in the port: its handler counts the port again (job join.qport.reset_port) */
        if (k == g_k) __CPROVER_assume(!g_ck); else __CPROVER_assume(g_nco + 1 <= (size_t)(N - 1));
        int r0 = g_role; g_role = 0; g_dec_port = k;
        graph_task *t = fe_decrement_port_count(f, true);
        OBLIGATION(t == NULL, "C15.join.fe: with handle_task the forward task is spawned by the join, not returned");
        g_role = r0;
    }
}
static bool PORT_reserve(ports_t *f, int k, item_type *v) { __CPROVER_assert(0, "not used by the queueing policy"); return false; }
static void PORT_consume(ports_t *f, int k) { __CPROVER_assert(0, "not used by the queueing policy"); }
static void PORT_release(ports_t *f, int k) { __CPROVER_assert(0, "not used by the queueing policy"); }
#include "join_helper.inc"
#include "join_fe_queueing.inc"
static void feq_init(struct fe *f) {
    F = f; N = nondet_int(); g_k = nondet_int(); __CPROVER_assume(N >= 1 && N <= 10 && g_k >= 0 && g_k < N);
    CNT(f) = nondet_size_t(); g_nco = nondet_size_t(); g_ck = nondet_bool(); __CPROVER_assume(FINV(f));
    g_active = nondet_bool(); g_made = g_spawned = g_gets = g_fails = g_get_k = g_resets = g_reset_k = 0; g_inwin_k = g_armed = g_last_port = false; g_load = 1;
}
void h_feq_decrement(void) {
    struct fe f; feq_init(&f); g_role = 0; int p = g_dec_port = nondet_int(); __CPROVER_assume(p >= 0 && p < N);
    /* precondition (obligation of join.qport.*): the calling port is not counted yet */
    if (p == g_k) __CPROVER_assume(!g_ck); else __CPROVER_assume(g_nco + 1 <= (size_t)(N - 1));
    bool handle = nondet_bool();
    graph_task *t = fe_decrement_port_count(&f, handle);
    OBLIGATION((!(g_last_port && g_active) || g_made == 1) && g_made <= 1, "C15.join.fe: the decrement that makes the last port non-empty creates a forward task (while the graph is active), at most one");
    OBLIGATION(handle ? (t == NULL && g_spawned == g_made) : (g_spawned == 0 && (t != NULL) == (g_made == 1)), "C15.join.fe: the forward task is spawned (handle_task) or returned to the calling port - exactly one of the two");
    OBLIGATION(p != g_k || g_ck, "C15.join.fe: the calling port is counted");
    VACUITY_END();
}
void h_feq_make_tuple(void) {
    struct fe f; feq_init(&f); g_role = 1; g_dec_port = -1;
    output_type out; item_type e0 = nondet_int(); out.e[g_k] = e0;
    bool ok = fe_try_to_make_tuple(&f, &out);
    OBLIGATION(ok == (g_load == 0), "C15.join.fe: a tuple is built exactly when every port holds a message (ports_with_no_items == 0)");
    OBLIGATION(ok || g_gets == 0, "C15.join.fe: while a port is empty no port is asked");
    OBLIGATION(!ok || (g_fails == 0 && g_gets == (size_t)N), "C15.join.fe: only complete tuples: every port delivered a message");
    OBLIGATION(!ok || (g_get_k == 1 && out.e[g_k] == g_val_k), "C15.join.fe: component k of the tuple is the front message of port k, fetched exactly once");
    OBLIGATION(g_resets == 0 && g_made == 0, "C15.join.fe: building a tuple consumes nothing");
    bool may = fe_tuple_build_may_succeed(&f);
    OBLIGATION(may == (g_load == 0), "C15.join.fe: tuple_build_may_succeed reports whether every port holds a message");
    VACUITY_END();
}
void h_feq_accept_reject(void) {
    struct fe f; feq_init(&f); g_role = 1; g_dec_port = -1;
    __CPROVER_assume(NC == (size_t)N);     /* precondition (job join.base.*): tuple_accepted / tuple_rejected follow a successful try_to_make_tuple, under the base handler's exclusive forwarding */
    if (nondet_bool()) {
        fe_tuple_accepted(&f);
        interfere();
        OBLIGATION(g_reset_k == 1 && g_resets == (size_t)N, "C15.join.fe: an accepted tuple retires the front message of every port exactly once");
        OBLIGATION(FINV(&f), "C15.join.fe: afterwards the count again equals the number of ports without a message");
        OBLIGATION(g_made == g_spawned && g_made <= 1, "C15.join.fe: a forward task for the next tuple is created at most once and spawned");
    } else {
        fe_tuple_rejected(&f);
        interfere();
        OBLIGATION(g_resets == 0 && g_gets == 0 && NC == (size_t)N && CNT(&f) == 0, "C15.join.fe: a rejected tuple consumes nothing: every port keeps its message and stays counted");
    }
    VACUITY_END();
}
#endif

#ifdef JFER
/* reserving policy.  Shared word: ports_with_no_inputs.  Ghost census: g_np_k = port g_k has no predecessor (is counted); g_npo = number of such ports among the
   N-1 others.  INV: ports_with_no_inputs == g_npo + g_np_k.  Any port handler may count / uncount its own port at any time (edges come and go). */
#include "join_fe_reserving_struct.inc"
#define CNT(f) ((f)->ports_with_no_inputs)
size_t g_npo; bool g_np_k, g_last_port, g_role_dec; int g_role, g_port;
#define FINV(f) (g_npo <= (size_t)(N - 1) && CNT(f) == g_npo + (g_np_k ? 1 : 0))
static void interfere(void) {
    bool k0 = g_np_k;
    CNT(F) = nondet_size_t(); g_npo = nondet_size_t(); g_np_k = nondet_bool();
    __CPROVER_assume(FINV(F));
    if (g_role == 0 && g_port == g_k) __CPROVER_assume(g_np_k == k0);                                   /* only port g_k's own handler changes its flag */
    if (g_role == 0 && g_port != g_k) __CPROVER_assume(g_role_dec ? g_npo >= 1 : g_npo + 1 <= (size_t)(N - 1));   /* the calling port's own flag is stable */
}
size_t g_load;
#define ATOMIC_LOAD_AT(site, f) ({ interfere(); g_load = (f); g_load; })
#define ATOMIC_FETCH_SUB_AT(site, f, d) ({ interfere(); size_t old_ = (f); (f) = old_ - (d); GHOST_##site; __CPROVER_assert(FINV(F), "C15.join.fe guarantee: ports_with_no_inputs == number of ports without predecessor after " #site); old_; })
#define ATOMIC_PREINC_AT(site, f) ({ interfere(); (f) = (f) + 1; GHOST_##site; __CPROVER_assert(FINV(F), "C15.join.fe guarantee: ports_with_no_inputs == number of ports without predecessor after " #site); (f); })
#define GHOST_decrement_port_count_FETCH_SUB_1 do { if (g_port == g_k) g_np_k = false; else g_npo--; g_last_port = g_npo + (g_np_k ? 1 : 0) == 0; } while (0)
#define GHOST_increment_port_count_PREINC_1 do { if (g_port == g_k) g_np_k = true; else g_npo++; } while (0)
size_t g_nres, g_nrel, g_ncon, g_res_k, g_rel_k, g_con_k; bool g_resd_k; item_type g_val_k;
void fe_increment_port_count(struct fe *self);
static bool PORT_reserve(ports_t *f, int k, item_type *v) {
    OBLIGATION(k >= 0 && k < N, "C15.join.fe: only existing ports are addressed");
    bool ok = nondet_bool();
    if (k == g_k && g_resd_k) ok = false;                 /* a port that holds a reservation refuses a second one (job join.rport.res_item) */
    if (!ok) {
        if (nondet_bool()) {                              /* the port found its last predecessor gone: it counts itself as without input (job join.rport.res_item) */
            if (k == g_k) __CPROVER_assume(!g_np_k); else __CPROVER_assume(g_npo + 1 <= (size_t)(N - 1));
            int r0 = g_role; g_role = 0; g_role_dec = false; g_port = k; fe_increment_port_count(f); g_role = r0;
        }
        return false;
    }
    *v = nondet_int(); g_nres++;
    if (k == g_k) { g_resd_k = true; g_res_k++; g_val_k = *v; }
    return true;
}
static void PORT_release(ports_t *f, int k) {
    OBLIGATION(k >= 0 && k < N, "C15.join.fe: only existing ports are addressed");
    g_nrel++;
    if (k == g_k) { OBLIGATION(g_resd_k, "C15.join.fe: only a port that holds a reservation is released"); g_resd_k = false; g_rel_k++; }
}
static void PORT_consume(ports_t *f, int k) {
    OBLIGATION(k >= 0 && k < N, "C15.join.fe: only existing ports are addressed");
    g_ncon++;
    if (k == g_k) { OBLIGATION(g_resd_k, "C15.join.fe: only a reserved message is consumed"); g_resd_k = false; g_con_k++; }
}
static bool PORT_get_item(ports_t *f, int k, item_type *v) { __CPROVER_assert(0, "not used by the reserving policy"); return false; }
static void PORT_reset_port(ports_t *f, int k) { __CPROVER_assert(0, "not used by the reserving policy"); }
#include "join_helper.inc"
#include "join_fe_reserving.inc"
static void fer_init(struct fe *f) {
    F = f; N = nondet_int(); g_k = nondet_int(); __CPROVER_assume(N >= 1 && N <= 10 && g_k >= 0 && g_k < N);
    CNT(f) = nondet_size_t(); g_npo = nondet_size_t(); g_np_k = nondet_bool(); __CPROVER_assume(FINV(f));
    g_active = nondet_bool(); g_made = g_spawned = g_nres = g_nrel = g_ncon = g_res_k = g_rel_k = g_con_k = 0; g_resd_k = false; g_last_port = false; g_load = 1;
}
void h_fer_count(void) {
    struct fe f; fer_init(&f); g_role = 0; int p = g_port = nondet_int(); __CPROVER_assume(p >= 0 && p < N);
    if (nondet_bool()) {
        g_role_dec = true;     /* precondition (job join.rport.reg_pred): the calling port is counted as without predecessor and has just got one */
        if (p == g_k) __CPROVER_assume(g_np_k); else __CPROVER_assume(g_npo >= 1);
        graph_task *t = fe_decrement_port_count(&f);
        OBLIGATION((!(g_last_port && g_active) || g_made == 1) && g_made <= 1, "C15.join.fe: the decrement that gives the last port a predecessor creates a forward task (while the graph is active), at most one");
        OBLIGATION(t == NULL && g_spawned == g_made, "C15.join.fe: that forward task is spawned, exactly once");
        OBLIGATION(p != g_k || !g_np_k, "C15.join.fe: the calling port is no longer counted as without predecessor");
    } else {
        g_role_dec = false;    /* precondition (jobs join.rport.rem_pred / res_item): the calling port has just lost its last predecessor */
        if (p == g_k) __CPROVER_assume(!g_np_k); else __CPROVER_assume(g_npo + 1 <= (size_t)(N - 1));
        fe_increment_port_count(&f);
        OBLIGATION(g_made == 0 && g_spawned == 0 && (p != g_k || g_np_k), "C15.join.fe: the calling port is counted as without predecessor; nothing is forwarded");
    }
    VACUITY_END();
}
void h_fer_make_tuple(void) {
    struct fe f; fer_init(&f); g_role = 1; g_port = -1;
    output_type out;
    bool ok = fe_try_to_make_tuple(&f, &out);
    OBLIGATION(!ok || (g_resd_k && g_res_k == 1 && g_rel_k == 0 && g_nres == (size_t)N && g_nrel == 0), "C15.join.fe: a tuple is made only when every port could be reserved: each port holds exactly one reservation");
    OBLIGATION(!ok || out.e[g_k] == g_val_k, "C15.join.fe: component k of the tuple is the message reserved at port k");
    OBLIGATION(ok || (!g_resd_k && g_res_k == g_rel_k && g_nres == g_nrel), "C15.join.fe: when some port cannot be reserved every reservation already taken is released again (none left dangling)");
    OBLIGATION(g_ncon == 0, "C15.join.fe: building a tuple consumes nothing");
    VACUITY_END();
}
void h_fer_accept_reject(void) {
    struct fe f; fer_init(&f); g_role = 1; g_port = -1;
    g_resd_k = true;           /* precondition (job join.base.*): tuple_accepted / tuple_rejected follow a successful try_to_make_tuple: every port holds a reservation */
    if (nondet_bool()) {
        fe_tuple_accepted(&f);
        OBLIGATION(g_con_k == 1 && g_rel_k == 0 && g_ncon == (size_t)N && g_nrel == 0 && !g_resd_k, "C15.join.fe: an accepted tuple consumes the reserved message of every port exactly once");
    } else {
        fe_tuple_rejected(&f);
        OBLIGATION(g_rel_k == 1 && g_con_k == 0 && g_nrel == (size_t)N && g_ncon == 0 && !g_resd_k, "C15.join.fe: a rejected tuple releases the reservation of every port exactly once (the messages stay with their senders)");
    }
    VACUITY_END();
}
#endif

#ifdef JRP
/* join_node, reserving policy: reserving_port::handle_operations - ONE arbitrary operation in an arbitrary invariant state.  The predecessor cache
   (reservable_predecessor_cache, proved under C14 jobs pull.reservable.*) is a ghost: g_npred cached predecessors, g_cres = a reservation is open on one of them.
   g_counted: the join counts this port as 'without predecessor'. */
typedef int item_type;
typedef struct pred { int d; } predecessor_type;
typedef struct graph_task { int d; } graph_task;
typedef struct reserving_port_operation { char type; item_type *my_arg; predecessor_type *my_pred; int status; struct reserving_port_operation *next; } reserving_port_operation;
unsigned g_status_sets; size_t g_npred, g_adds, g_rems, g_tries, g_rels, g_cons, g_decs, g_incs; bool g_cres, g_counted; item_type g_given; predecessor_type *g_pred_arg;
#define SET_STATUS(op, st) do { __CPROVER_assert((op)->status == WAIT, "C15.join.rport: an operation gets exactly one final status"); (op)->status = (st); g_status_sets++; } while (0)
struct rport;
static bool PC_empty(struct rport *self) { return g_npred == 0; }
static void PC_add(struct rport *self, predecessor_type *p) { OBLIGATION(p == g_pred_arg, "C15.join.rport: the predecessor that is added is the caller's"); g_npred++; g_adds++; }
static void PC_remove(struct rport *self, predecessor_type *p) { OBLIGATION(p == g_pred_arg, "C15.join.rport: the predecessor that is removed is the caller's"); if (nondet_bool()) g_npred--; g_rems++; }
static bool PC_try_reserve(struct rport *self, item_type *v) {
    g_tries++;
    if (g_cres) return false;                                            /* an open reservation refuses a second one and touches nothing (C14 pull.reservable.try_reserve) */
    if (g_npred > 0 && nondet_bool()) { size_t n = nondet_size_t(); __CPROVER_assume(n >= 1 && n <= g_npred); g_npred = n; g_given = nondet_int(); *v = g_given; g_cres = true; return true; }
    g_npred = 0; return false;                                           /* fails only after every cached predecessor was asked, had nothing and was dropped (edge back in push mode) */
}
static void PC_try_release(struct rport *self) { OBLIGATION(g_cres, "C15.join.rport: release is forwarded only while a reservation is open"); g_cres = false; g_rels++; }
static void PC_try_consume(struct rport *self) { OBLIGATION(g_cres, "C15.join.rport: consume is forwarded only while a reservation is open"); g_cres = false; g_cons++; }
static graph_task *FE_decrement_port_count(struct rport *self) { OBLIGATION(g_counted, "C15.join.rport: only a port that is counted as 'without predecessor' is uncounted"); g_counted = false; g_decs++; return NULL; }
static void FE_increment_port_count(struct rport *self) { OBLIGATION(!g_counted, "C15.join.rport: a port is counted as 'without predecessor' at most once"); g_counted = true; g_incs++; }
enum { WAIT = 0, SUCCEEDED = 1, FAILED = 2 };
#define LOOP_rpho_1
#include "reserving_port.inc"
#define RP_INV(p) (g_counted == (g_npred == 0) && (p)->reserved == g_cres && (!g_cres || g_npred >= 1))
#ifndef OPK
#define OPK 0
#endif
int IN_type;
void h_rp_op(void) {
    struct rport p; p.reserved = nondet_bool(); g_npred = nondet_size_t(); g_cres = nondet_bool(); g_counted = nondet_bool(); __CPROVER_assume(RP_INV(&p) && g_npred < ((size_t)1 << 32));
    g_status_sets = 0; g_adds = g_rems = g_tries = g_rels = g_cons = g_decs = g_incs = 0;
    int type = IN_type = OPK; item_type v = nondet_int(), v0 = v; predecessor_type pr; g_pred_arg = &pr; size_t n0 = g_npred; bool res0 = p.reserved;
    reserving_port_operation op; op.type = (char)type; op.my_arg = &v; op.my_pred = &pr; op.status = WAIT; op.next = NULL;
    if (type == rel_res || type == con_res) __CPROVER_assume(res0);    /* only a port that holds a reservation is released / consumed (jobs join.fe.reserving.*) */
    if (type == res_item) __CPROVER_assume(n0 >= 1);                   /* reserve is attempted only while ports_with_no_inputs == 0; edges are not removed while the join forwards (stated assumption) */
    if (type == rem_pred) __CPROVER_assume(!res0);                     /* stated assumption: no edge removal while a reservation is open on the port */
    rp_handle_operations(&p, &op);
    OBLIGATION(g_status_sets == 1 && (op.status == SUCCEEDED || op.status == FAILED), "C15.join.rport: the operation gets exactly one status");
    OBLIGATION(RP_INV(&p), "C15.join.rport: the join counts the port as 'without predecessor' exactly when its predecessor cache is empty; the reserved flag mirrors the open reservation");
    if (type == reg_pred) OBLIGATION(op.status == SUCCEEDED && g_adds == 1 && g_npred == n0 + 1 && g_decs == (n0 == 0 ? 1 : 0) && g_incs == 0 && g_tries == 0, "C15.join.rport: the predecessor is cached; the port is uncounted exactly when it had none before");
    if (type == rem_pred) OBLIGATION(op.status == SUCCEEDED && g_rems == (n0 > 0 ? 1 : 0) && g_decs == 0 && g_incs == ((n0 > 0 && g_npred == 0) ? 1 : 0) && g_tries == 0, "C15.join.rport: the predecessor is removed; the port is counted exactly when it lost its last one");
    if (type == res_item) {
        OBLIGATION((op.status == SUCCEEDED) ? (!res0 && p.reserved && v == g_given && g_tries == 1) : (p.reserved == res0 && v == v0), "C15.join.rport: a reservation is granted only when none is open and a predecessor gave a message, which is what the join receives");
        OBLIGATION(!res0 || (g_tries == 0 && g_incs == 0), "C15.join.rport: while a reservation is open a second reserve fails and touches nothing");
        OBLIGATION(g_rels == 0 && g_cons == 0 && g_decs == 0, "C15.join.rport: reserving neither releases nor consumes");
    }
    if (type == rel_res) OBLIGATION(op.status == SUCCEEDED && !p.reserved && g_rels == 1 && g_cons == 0 && g_incs == 0 && g_decs == 0, "C15.join.rport: release closes the reservation and gives the message back to its sender, exactly once");
    if (type == con_res) OBLIGATION(op.status == SUCCEEDED && !p.reserved && g_cons == 1 && g_rels == 0 && g_incs == 0 && g_decs == 0, "C15.join.rport: consume closes the reservation and consumes the sender's message, exactly once");
    VACUITY_END();
}
#endif

#ifdef JB
/* join_node_base::handle_operations - ONE arbitrary operation.  The front end (any policy) is a stub that follows a protocol:
   g_phase 0 no tuple in hand; 1 a tuple was built; 2 a successor accepted it; 3 every successor rejected it. */
typedef int item_type;
typedef struct graph_task { int d; } graph_task;
typedef struct graph { int d; } graph;
static graph_task T_enq, T_real; static graph G;
#define SUCCESSFULLY_ENQUEUED (&T_enq)
typedef struct output_type { item_type e[10]; } output_type;
struct task_pair { graph_task *first, *second; };
typedef struct join_node_base_operation { char type; output_type *my_arg; void *my_succ; graph_task *bypass_t; int status; struct join_node_base_operation *next; } join_node_base_operation;
enum { WAIT = 0, SUCCEEDED = 1, FAILED = 2 };
unsigned g_status_sets; int g_phase, g_k; bool g_active, g_pull, g_may_last, g_any_ok; size_t g_builds, g_puts, g_put_ok, g_acc, g_rej, g_made, g_spawned, g_newfwd, g_reg, g_rem, g_mays; item_type g_tuple_k; void *g_succ_arg;
#define SET_STATUS(op, st) do { __CPROVER_assert((op)->status == WAIT, "C15.join.base: an operation gets exactly one final status"); (op)->status = (st); g_status_sets++; } while (0)
#define TASK3(t) ((t) == NULL || (t) == &T_enq || (t) == &T_real)
struct jbase;
static graph *STUB_graph(void) { return &G; }
static bool STUB_is_graph_active(void) { return g_active; }
static graph_task *STUB_new_forward_task(struct jbase *self) { g_newfwd++; g_made++; return &T_real; }
static struct task_pair STUB_order_tasks(graph_task *l, graph_task *r) { struct task_pair p; if (nondet_bool()) { p.first = l; p.second = r; } else { p.first = r; p.second = l; } return p; }
static void STUB_spawn(graph_task *t) { OBLIGATION(t == &T_real, "C15.join.base: only real tasks are spawned (never NULL or the SUCCESSFULLY_ENQUEUED sentinel)"); g_spawned++; }
static void STUB_succ_register(struct jbase *self, void *r) { OBLIGATION(r == g_succ_arg, "C15.join.base: the successor that is registered is the caller's"); g_reg++; }
static void STUB_succ_remove(struct jbase *self, void *r) { OBLIGATION(r == g_succ_arg, "C15.join.base: the successor that is removed is the caller's"); g_rem++; }
static bool FE_tuple_build_may_succeed(struct jbase *self) { g_mays++; g_may_last = nondet_bool(); return g_may_last; }
static bool FE_try_to_make_tuple(struct jbase *self, output_type *out) {
    OBLIGATION(g_phase == 0, "C15.join.base: a new tuple is built only after the previous one was settled (accepted or rejected)");
    if (nondet_bool()) return false;
    output_type fresh; *out = fresh;                  /* an arbitrary tuple (uninitialised locals are nondeterministic) */
    g_tuple_k = out->e[g_k]; g_phase = 1; g_builds++;
    return true;
}
static graph_task *STUB_succ_try_put_task(struct jbase *self, const output_type *t) {     /* broadcast_cache::try_put_task (C14 job cache.broadcast.try_put_task) */
    OBLIGATION(g_phase == 1, "C15.join.base: only a freshly built tuple is offered to the successors, once");
    OBLIGATION(t->e[g_k] == g_tuple_k, "C15.join.base: what is offered is the tuple that was built");
    g_puts++;
    if (nondet_bool()) { g_phase = 3; return NULL; }
    g_phase = 2; g_put_ok++; g_any_ok = true;
    if (nondet_bool()) return SUCCESSFULLY_ENQUEUED;
    g_made++; return &T_real;
}
static void FE_tuple_accepted(struct jbase *self) {
    OBLIGATION(g_phase == 2 || (g_pull && g_phase == 1), "C15.join.base: input messages are consumed only for a tuple that a successor accepted (or that is handed to a pulling successor)");
    g_phase = 0; g_acc++;
}
static void FE_tuple_rejected(struct jbase *self) {
    OBLIGATION(g_phase == 3, "C15.join.base: tuple_rejected is reported only for a tuple that every successor rejected");
    g_phase = 0; g_rej++;
}
#define LOOP_jbho_1
#define LOOP_jbfwd_1 __CPROVER_assigns(build_succeeded, last_task, out, g_phase, g_builds, g_puts, g_put_ok, g_any_ok, g_acc, g_rej, g_made, g_spawned, g_tuple_k) \
  __CPROVER_loop_invariant(g_phase == 0 && g_rej == 0 && g_acc == g_put_ok && g_puts == g_put_ok && g_builds == g_puts && TASK3(last_task) && ((last_task != NULL) == g_any_ok) \
     && g_made == g_spawned + (last_task == &T_real ? 1 : 0))
#include "join_base.inc"
#ifndef OPK
#define OPK 0
#endif
int IN_type;
void h_jb_op(void) {
    struct jbase b; b.forwarder_busy = nondet_bool(); bool fb0 = b.forwarder_busy;
    g_k = nondet_int(); __CPROVER_assume(g_k >= 0 && g_k < 10);
    g_active = nondet_bool(); g_phase = 0; g_status_sets = 0; g_builds = g_puts = g_put_ok = g_acc = g_rej = g_made = g_spawned = g_newfwd = g_reg = g_rem = g_mays = 0; g_may_last = g_any_ok = false;
    int type = IN_type = OPK; __CPROVER_assume(type != do_fwrd);       /* do_fwrd is a dead enumerator: no caller issues it, the handler has no case for it */
    g_pull = type == try__get;
    output_type arg; int succ; g_succ_arg = &succ;
    join_node_base_operation op; op.type = (char)type; op.my_arg = &arg; op.my_succ = &succ; op.bypass_t = NULL; op.status = WAIT; op.next = NULL;
    if (type == do_fwrd_bypass) __CPROVER_assume(fb0);                 /* issued by the forward task only, which exists only while forwarder_busy */
    jb_handle_operations(&b, &op);
    bool fb1 = b.forwarder_busy;
    OBLIGATION(g_status_sets == 1 && (op.status == SUCCEEDED || op.status == FAILED), "C15.join.base: the operation gets exactly one status");
    OBLIGATION(g_phase == 0, "C15.join.base: every tuple that was built is settled before the handler returns: its input messages are consumed exactly when a successor accepted it and kept (reservations released) when it was rejected");
    OBLIGATION(g_acc == g_put_ok + (g_pull ? g_builds : 0) && g_rej == g_puts - g_put_ok, "C15.join.base: one tuple_accepted per accepted tuple, one tuple_rejected per rejected tuple");
    OBLIGATION(TASK3(op.bypass_t) && g_made == g_spawned + (op.bypass_t == &T_real ? 1 : 0), "C15.join.base: every task produced inside the handler (by an accepting successor or a new forwarder) is spawned or handed back in the operation record - none dropped, none twice");
    OBLIGATION(!(fb1 && !fb0) || g_newfwd == 1, "C15.join.base: forwarder_busy is set only together with the creation of a forward task");
    OBLIGATION(g_newfwd <= 1 && (g_newfwd == 0 || fb1), "C15.join.base: a forward task is created at most once and leaves forwarder_busy set");
    if (type == reg_succ) {
        OBLIGATION(g_reg == 1 && op.status == SUCCEEDED && g_builds == 0, "C15.join.base: the successor is registered; nothing is consumed");
        OBLIGATION(!(g_may_last && g_active) || fb1, "C15.join.base: when a successor registers while a tuple may be available a forward task is outstanding");
        OBLIGATION(!fb0 || fb1, "C15.join.base: forwarder_busy is cleared only by the forward task");
    } else if (type == rem_succ) {
        OBLIGATION(g_rem == 1 && op.status == SUCCEEDED && g_builds == 0 && fb1 == fb0, "C15.join.base: the successor is removed; nothing is consumed");
    } else if (type == try__get) {
        OBLIGATION((op.status == SUCCEEDED) == (g_builds == 1) && g_builds <= 1 && g_puts == 0 && fb1 == fb0, "C15.join.base: try_get succeeds exactly when a complete tuple could be built, which is then consumed once");
        OBLIGATION(op.status != SUCCEEDED || arg.e[g_k] == g_tuple_k, "C15.join.base: the pulling successor receives the tuple that was built");
    } else {
        OBLIGATION(op.status == SUCCEEDED && !fb1, "C15.join.base: the forward task's operation ends with forwarder_busy cleared");
        OBLIGATION((op.bypass_t != NULL) == g_any_ok, "C15.join.base: the forward task hands back a successor's task exactly when a tuple was accepted");
    }
    VACUITY_END();
}
#endif

#ifdef JKP
/* join_node, key_matching policy: key_matching_port::handle_operations + hash_buffer_impl::insert_with_key / find_with_key / find_ref_with_key - ONE arbitrary
   operation.  The table is abstract: for ONE arbitrary key g_key, g.has = the port holds a message with that key, g.ek = the element that stores it.
   The chain walks (find_element_ref_with_key, delete_with_key, internal_insert_with_key, grow_array) are stubs over that view. */
typedef int key_type;
typedef struct value_type { key_type key; int payload; } value_type;          /* a message: its key and the rest */
typedef struct element_type { value_type value; } element_type;
struct hb_ghost { bool has; element_type ek, eo; };
typedef struct key_matching_port_operation { char type; value_type my_val; value_type *my_arg; int status; struct key_matching_port_operation *next; } key_matching_port_operation;
enum { WAIT = 0, SUCCEEDED = 1, FAILED = 2 };
key_type g_key, g_cur; unsigned g_status_sets; size_t g_dels, g_inserts;
#define SET_STATUS(op, st) do { __CPROVER_assert((op)->status == WAIT, "C15.join.kport: an operation gets exactly one final status"); (op)->status = (st); g_status_sets++; } while (0)
#define KEY_OF(v) ((v)->key)
#define ELEM_value_ptr(e) (&(e)->value)
struct hashbuf;
static bool HB_find_element_ref_with_key(struct hashbuf *h, key_type k, element_type **p);
static void ELEM_destroy(struct hashbuf *h, element_type *p) { }
static void ELEM_create(struct hashbuf *h, element_type *p, value_type *v) { p->value = *v; }
static void HB_grow_array(struct hashbuf *h);
static void HB_internal_insert_with_key(struct hashbuf *h, value_type *v);
static void HB_delete_with_key(struct hashbuf *h, key_type k);
static key_type FE_current_key(struct hashbuf *h) { return g_cur; }
#define LOOP_kpho_1
#include "hash_buffer.inc"
static bool HB_find_element_ref_with_key(struct hashbuf *h, key_type k, element_type **p) {
    if (k == g_key) { if (!h->g.has) return false; *p = &h->g.ek; return true; }
    if (nondet_bool()) return false;
    h->g.eo.value.key = k; h->g.eo.value.payload = nondet_int(); *p = &h->g.eo; return true;      /* some element of another key */
}
static void HB_grow_array(struct hashbuf *h) { h->my_size = h->my_size * 2; }                    /* keeps every element (not proved here: residue) */
static void HB_internal_insert_with_key(struct hashbuf *h, value_type *v) {
    g_inserts++;
    if (KEY_OF(v) == g_key) { OBLIGATION(!h->g.has, "C15.join.kport: a port never holds two messages with one key"); h->g.has = true; h->g.ek.value = *v; }
}
static void HB_delete_with_key(struct hashbuf *h, key_type k) {
    g_dels++;
    if (k == g_key) { OBLIGATION(h->g.has, "TBB_ASSERT: key not found for delete"); h->g.has = false; }
    h->nelements--;
}
#include "key_port.inc"
#ifndef OPK
#define OPK 0
#endif
int IN_type;
static void kp_one(int type, bool dup_domain) {
    struct hashbuf h; h.my_size = nondet_size_t(); h.nelements = nondet_size_t(); __CPROVER_assume(h.my_size >= 8 && h.my_size <= ((size_t)1 << 40) && h.nelements * 2 <= h.my_size);
    g_key = nondet_int(); g_cur = nondet_int(); h.g.has = nondet_bool(); h.g.ek.value.key = g_key; h.g.ek.value.payload = nondet_int();
    bool has0 = h.g.has; value_type old = h.g.ek.value; g_status_sets = 0; g_dels = g_inserts = 0;
    value_type m; m.key = nondet_int(); m.payload = nondet_int(); value_type got; got.key = nondet_int(); got.payload = nondet_int();
    key_matching_port_operation op; op.type = (char)type; op.my_val = m; op.my_arg = &got; op.status = WAIT; op.next = NULL; IN_type = type;
    bool dup = type == try__put && m.key == g_key && has0;
    __CPROVER_assume(dup == dup_domain);
    if (type != try__put && g_cur == g_key) __CPROVER_assume(has0);    /* get_item / reset_port name a key only after every port counted a message with it (job join.fe.key.inc_count) */
    kp_handle_operations(&h, &op);
    OBLIGATION(g_status_sets == 1 && (op.status == SUCCEEDED || op.status == FAILED), "C15.join.kport: the operation gets exactly one status");
    OBLIGATION(!h.g.has || h.g.ek.value.key == g_key, "C15.join.kport: a stored message is filed under its own key");
    if (type == try__put) {
        if (dup) {
            OBLIGATION(op.status == FAILED && g_inserts == 0, "C15.join.kport: a second message with a key the port already holds is rejected");
            OBLIGATION(h.g.has && h.g.ek.value.key == old.key && h.g.ek.value.payload == old.payload, "C15.join.kport: a put that is reported as rejected leaves the message the port holds for that key untouched (the accepted message is not lost, the rejected one is not used)");
        } else if (m.key == g_key) {
            OBLIGATION(op.status == SUCCEEDED && h.g.has && h.g.ek.value.key == m.key && h.g.ek.value.payload == m.payload, "C15.join.kport: an accepted put stores the message under its key");
        } else
            OBLIGATION(h.g.has == has0 && h.g.ek.value.payload == old.payload, "C15.join.kport: messages with other keys are untouched");
        OBLIGATION(g_dels == 0, "C15.join.kport: a put removes nothing");
    } else if (type == get__item) {
        OBLIGATION(g_cur != g_key || (op.status == SUCCEEDED && got.key == g_cur && got.payload == old.payload), "C15.join.kport: get_item hands out the port's message whose key is the join's current key");
        OBLIGATION(h.g.has == has0 && h.g.ek.value.payload == old.payload && g_dels == 0 && g_inserts == 0, "C15.join.kport: get_item consumes nothing");
    } else {
        OBLIGATION(op.status == SUCCEEDED && g_dels == 1 && g_inserts == 0, "C15.join.kport: reset_port retires one message");
        OBLIGATION(g_cur == g_key ? !h.g.has : (h.g.has == has0 && h.g.ek.value.payload == old.payload), "C15.join.kport: the message retired is exactly the one with the join's current key; other keys are untouched");
    }
}
void h_kp_op(void) { kp_one(OPK, false); VACUITY_END(); }
void h_kp_dup(void) { kp_one(try__put, true); VACUITY_END(); }
#endif

#ifdef JKF
/* join_node, key_matching policy: join_node_FE<key_matching>::handle_operations + fill_output_buffer (+ join_helper<N>::get_items / reset_ports and the
   real hash_buffer_impl::insert_with_key / find_ref_with_key on the count table) - ONE arbitrary operation.  Facts are about ONE arbitrary key g_key and ONE
   arbitrary port g_k.  Ghost census for g_key: g_ck = port g_k's message with key g_key has been counted, g_nco = number of other ports whose message with that
   key has been counted.  INV: the count table holds an entry for g_key iff g_nco + g_ck >= 1, and its value is g_nco + g_ck (< N at rest).
   The table is abstract: two tracked keys, g_key (g.has / g.ek) and - when different - the key of the operation (g.oth / g.eo). */
typedef int key_type;
typedef struct item_type { key_type key; int payload; } item_type;                       /* a message: its key and the rest */
typedef struct value_type { key_type my_key; size_t my_value; } value_type;            /* count_element<K> */
typedef struct element_type { value_type value; } element_type;
struct hb_ghost { bool has, oth; element_type ek, eo; };
typedef struct graph_task { int d; } graph_task;
static graph_task T_fwd;
typedef struct output_type { item_type e[10]; } output_type;
#define TUPLE_AT(out, i) (&(out)->e[i])
typedef struct key_matching_FE_operation { char type; key_type my_val; output_type *my_output; graph_task *bypass_t; int status; struct key_matching_FE_operation *next; } key_matching_FE_operation;
enum { WAIT = 0, SUCCEEDED = 1, FAILED = 2 };
struct hashbuf; typedef struct hashbuf ports_t;
int N, g_k; key_type g_key, g_opkey; unsigned g_status_sets; bool g_active, g_ck, g_all; size_t g_nco, g_made, g_dels, g_del_k, g_inserts, g_gets, g_get_k, g_resets, g_reset_k, g_ob_n, g_ob_pushes, g_ob_pops; int g_mk;
output_type g_pushed, g_front;
#define SET_STATUS(op, st) do { __CPROVER_assert((op)->status == WAIT, "C15.join.kfe: an operation gets exactly one final status"); (op)->status = (st); g_status_sets++; } while (0)
#define KEY_OF(v) ((v)->my_key)
#define ELEM_value_ptr(e) (&(e)->value)
static bool STUB_is_graph_active(void) { return g_active; }
static graph_task *STUB_new_forward_task(struct hashbuf *self) { g_made++; return &T_fwd; }
static bool HB_find_element_ref_with_key(struct hashbuf *h, key_type k, element_type **p);
static void ELEM_destroy(struct hashbuf *h, element_type *p) { }
static void ELEM_create(struct hashbuf *h, element_type *p, value_type *v) { p->value = *v; }
static void HB_grow_array(struct hashbuf *h);
static void HB_internal_insert_with_key(struct hashbuf *h, value_type *v);
static void HB_delete_with_key(struct hashbuf *h, key_type k);
#include "hash_buffer_fe.inc"
static bool HB_find_element_ref_with_key(struct hashbuf *h, key_type k, element_type **p) {
    if (k == g_key) { if (!h->g.has) return false; *p = &h->g.ek; return true; }
    if (h->g.oth && h->g.eo.value.my_key == k) { *p = &h->g.eo; return true; }
    return false;
}
static void HB_grow_array(struct hashbuf *h) { h->my_size = h->my_size * 2; }                    /* keeps every element (not proved here: residue) */
static void HB_internal_insert_with_key(struct hashbuf *h, value_type *v) {
    g_inserts++;
    if (KEY_OF(v) == g_key) { OBLIGATION(!h->g.has, "C15.join.kfe: the count table never holds two entries for one key"); h->g.has = true; h->g.ek.value = *v; }
    else { OBLIGATION(!(h->g.oth && h->g.eo.value.my_key == KEY_OF(v)), "C15.join.kfe: the count table never holds two entries for one key"); h->g.oth = true; h->g.eo.value = *v; }
}
static void HB_delete_with_key(struct hashbuf *h, key_type k) {
    g_dels++;
    if (k == g_key) { OBLIGATION(h->g.has, "TBB_ASSERT: key not found for delete"); h->g.has = false; g_del_k++; }
    else if (h->g.oth && h->g.eo.value.my_key == k) h->g.oth = false;
    h->nelements--;
}
/* the output buffer (item_buffer<OutputTuple>): FIFO of completed tuples (push_back / front / destroy_front: job buffer.push_pop) */
static bool OB_buffer_empty(struct hashbuf *h) { return g_ob_n == 0; }
static void OB_push_back(struct hashbuf *h, output_type *t) { g_ob_pushes++; g_ob_n++; g_pushed = *t; }
static const output_type *OB_front(struct hashbuf *h) { OBLIGATION(g_ob_n > 0, "C15.join.kfe: the front of an empty output buffer is never read"); return &g_front; }
static void OB_destroy_front(struct hashbuf *h) { OBLIGATION(g_ob_n > 0, "C15.join.kfe: nothing is removed from an empty output buffer"); g_ob_n--; g_ob_pops++; }
static struct hashbuf *F;
static key_type cur_key(struct hashbuf *h);
/* the ports (jobs join.kport.*): get_item hands out the port's message filed under the join's current key; reset_port retires it */
static bool PORT_get_item(ports_t *f, int k, item_type *v) {
    OBLIGATION(k >= 0 && k < N, "C15.join.kfe: only existing ports are addressed");
    OBLIGATION(cur_key(f) == g_opkey, "C15.join.kfe: every port is asked for the key whose count has just reached N");
    OBLIGATION(cur_key(f) != g_key || g_all, "C15.join.kfe: ports are asked for a key only after all N ports have counted a message with it");
    g_gets++; v->key = cur_key(f); v->payload = nondet_int();
    if (k == g_k && cur_key(f) == g_key) { g_get_k++; v->payload = g_mk; }
    return true;
}
static void PORT_reset_port(ports_t *f, int k) {
    OBLIGATION(k >= 0 && k < N, "C15.join.kfe: only existing ports are addressed");
    OBLIGATION(cur_key(f) == g_opkey, "C15.join.kfe: every port retires the message with the key whose count has just reached N");
    OBLIGATION(g_ob_pushes == 1, "C15.join.kfe: input messages are retired only after the tuple made of them is stored in the output buffer");
    g_resets++; if (k == g_k && cur_key(f) == g_key) g_reset_k++;
}
static bool PORT_reserve(ports_t *f, int k, item_type *v) { __CPROVER_assert(0, "not used by the key_matching policy"); return false; }
static void PORT_consume(ports_t *f, int k) { __CPROVER_assert(0, "not used by the key_matching policy"); }
static void PORT_release(ports_t *f, int k) { __CPROVER_assert(0, "not used by the key_matching policy"); }
#include "join_helper.inc"
#define LOOP_fkho_1
#include "key_fe.inc"
static key_type cur_key(struct hashbuf *h) { return h->current_key; }
#define KINV(h) ((h)->g.has == (g_nco + (g_ck ? 1 : 0) >= 1) && (!(h)->g.has || ((h)->g.ek.value.my_key == g_key && (h)->g.ek.value.my_value == g_nco + (g_ck ? 1 : 0))) && g_nco <= (size_t)(N - 1) && g_nco + (g_ck ? 1 : 0) < (size_t)N)
#ifndef OPK
#define OPK 0
#endif
int IN_type;
void h_kfe_op(void) {
    struct hashbuf h; F = &h; h.my_size = nondet_size_t(); h.nelements = nondet_size_t(); __CPROVER_assume(h.my_size >= 8 && h.my_size <= ((size_t)1 << 40) && h.nelements * 2 <= h.my_size);
    N = nondet_int(); g_k = nondet_int(); __CPROVER_assume(N >= 1 && N <= 10 && g_k >= 0 && g_k < N);
    g_key = nondet_int(); key_type t = g_opkey = nondet_int(); h.current_key = nondet_int(); g_mk = nondet_int();
    h.g.has = nondet_bool(); h.g.ek.value.my_key = g_key; h.g.ek.value.my_value = nondet_size_t(); g_nco = nondet_size_t(); g_ck = nondet_bool(); __CPROVER_assume(KINV(&h));
    h.g.oth = nondet_bool(); h.g.eo.value.my_key = t; h.g.eo.value.my_value = nondet_size_t(); __CPROVER_assume(t != g_key && (!h.g.oth || (h.g.eo.value.my_value >= 1 && h.g.eo.value.my_value < (size_t)N)) || (t == g_key && !h.g.oth));
    g_active = nondet_bool(); g_status_sets = 0; g_made = g_dels = g_del_k = g_inserts = g_gets = g_get_k = g_resets = g_reset_k = g_ob_pushes = g_ob_pops = 0; g_all = false;
    g_ob_n = nondet_size_t(); __CPROVER_assume(g_ob_n < ((size_t)1 << 32)); size_t n0 = g_ob_n; item_type f0; f0.key = nondet_int(); f0.payload = nondet_int(); g_front.e[g_k] = f0;
    int type = IN_type = OPK; output_type out;
    key_matching_FE_operation op; op.type = (char)type; op.my_val = t; op.my_output = &out; op.bypass_t = NULL; op.status = WAIT; op.next = NULL;
    bool has0 = h.g.has; size_t v0 = h.g.ek.value.my_value; bool oth_complete = false;
    if (type == inc_count) {
        /* the operation reports that one port (p) has stored a message with key t that was not counted before (job join.kport.try_put: accepted puts only) */
        int p = nondet_int(); __CPROVER_assume(p >= 0 && p < N);
        if (t == g_key) { if (p == g_k) { __CPROVER_assume(!g_ck); g_ck = true; } else { __CPROVER_assume(g_nco + 1 <= (size_t)(N - 1)); g_nco++; } g_all = g_nco + (g_ck ? 1 : 0) == (size_t)N; }
        else oth_complete = (h.g.oth ? h.g.eo.value.my_value : 0) + 1 == (size_t)N;
    }
    if (type == res_count) __CPROVER_assume(n0 >= 1);      /* reset_port_count is issued by tuple_accepted only, after a successful try_to_make_tuple (job join.base.*) */
    fek_handle_operations(&h, &op);
    OBLIGATION(g_status_sets == 1 && (op.status == SUCCEEDED || op.status == FAILED), "C15.join.kfe: the operation gets exactly one status");
    if (type == inc_count) {
        OBLIGATION(op.status == SUCCEEDED, "C15.join.kfe: counting succeeds");
        if (t == g_key && g_all) {
            OBLIGATION(g_gets == (size_t)N && g_get_k == 1 && g_ob_pushes == 1 && g_ob_n == n0 + 1, "C15.join.kfe: when the N-th message with a key is counted exactly one tuple is made, from one message of every port");
            OBLIGATION(g_pushed.e[g_k].key == g_key && g_pushed.e[g_k].payload == g_mk, "C15.join.kfe: component k of the tuple is port k's message with that key (all components carry the same key)");
            OBLIGATION(g_resets == (size_t)N && g_reset_k == 1, "C15.join.kfe: every port retires its message with that key exactly once (each message is used once)");
            OBLIGATION(!h.g.has && g_del_k == 1, "C15.join.kfe: the key's count entry is removed, so that counting starts afresh for the next message with this key");
            OBLIGATION((!(n0 == 0 && g_active) || g_made == 1) && g_made <= 1 && op.bypass_t == (g_made ? &T_fwd : NULL), "C15.join.kfe: when the output buffer was empty (graph active) a forward task is created; a task that is created is handed back in the operation record, not dropped");
            g_nco = 0; g_ck = false;
        } else if (t == g_key) {
            OBLIGATION(g_gets == 0 && g_resets == 0 && g_ob_pushes == 0 && g_made == 0 && op.bypass_t == NULL, "C15.join.kfe: no tuple is made before all N ports have counted a message with the key (only complete tuples)");
        } else {
            OBLIGATION(g_get_k == 0 && g_reset_k == 0 && g_del_k == 0, "C15.join.kfe: messages and count of other keys are untouched");
            OBLIGATION((g_ob_pushes == 1) == oth_complete && g_gets == (oth_complete ? (size_t)N : 0), "C15.join.kfe: a tuple is made exactly when the count of the operation's key reaches N");
        }
        OBLIGATION(KINV(&h), "C15.join.kfe: the count entry of a key equals the number of ports that have counted a message with it");
    } else {
        OBLIGATION(h.g.has == has0 && h.g.ek.value.my_value == v0 && g_gets == 0 && g_resets == 0 && g_ob_pushes == 0 && g_made == 0, "C15.join.kfe: operations of the back end touch neither counts nor ports");
        if (type == may_succeed) OBLIGATION((op.status == SUCCEEDED) == (n0 > 0) && g_ob_n == n0, "C15.join.kfe: tuple_build_may_succeed reports whether a completed tuple is waiting");
        if (type == try_make) OBLIGATION((op.status == SUCCEEDED) == (n0 > 0) && g_ob_n == n0 && (op.status != SUCCEEDED || (out.e[g_k].key == f0.key && out.e[g_k].payload == f0.payload)), "C15.join.kfe: try_to_make_tuple hands out the oldest completed tuple and leaves it in the output buffer");
        if (type == res_count) OBLIGATION(op.status == SUCCEEDED && g_ob_pops == 1 && g_ob_n == n0 - 1, "C15.join.kfe: an accepted tuple is removed from the output buffer exactly once");
    }
    VACUITY_END();
}
#endif

#ifdef PQ
/* priority_queue_node on the real item_buffer (one flattened object: item_buffer + my_reserved + forwarder_busy + mark + reserved_item; Compare = std::less<int>).
   The heap lives at indices [0,mark) (my_head == 0 always), items [mark,tail) are pushed but not yet merged.  All heap facts are about ONE arbitrary index GH. */
#include "c15_prelude.inc"      /* the SEQ prelude of this file (types, IB_SHAPE, CONTRACT_grow_my_array and its loop invariants), cut out by spec.py */
typedef struct graph_task { int d; } graph_task;
typedef struct graph { int d; } graph;
static graph_task T_enq, T_real; static graph G;
#define SUCCESSFULLY_ENQUEUED (&T_enq)
enum { reg_succ, rem_succ, req_item, res_item, rel_res, con_res, put_item, try_fwd_task };
typedef struct buffer_operation { char type; item_type *elem; graph_task *ltask; void *r; int status; struct buffer_operation *next; } buffer_operation;
typedef buffer_operation prio_operation;
struct task_pair { graph_task *first, *second; };
struct item_buffer;
#define COMPARE(a, b) ((a) < (b))                       /* Compare = std::less<int> */
#ifdef PQ_LOOPS
#define VALID_ASSERT(c, m) ((void)0)                    /* see spec.py: validity of a state-dependent slot is a universal fact (not decided in the heap-loop jobs) */
#else
#define VALID_ASSERT(c, m) VERIF_ASSERT(c, m)
#endif
#define EMPTY_ASSERT(c, m) VERIF_ASSERT(c, m)
#define VALI(i) (SLOTN(self, i).item)
#define STATE(i) (SLOTN(self, i).state)
#define GE(u, v) (!COMPARE(VALI(u), VALI(v)))           /* item[u] >= item[v] */
#define EDGE(u, v) ((v) >= self->mark || GE(u, v))      /* heap edge u -> v (v a child of u), if v lies in the heap region */
#define PAR(i) (((i) - 1) >> 1)
#define HEAPAT(g) ((g) == 0 || (g) >= self->mark || GE(PAR(g), g))
/* slot states of the node at an arbitrary index: an item at every index of [0,tail), nothing elsewhere in the array */
#define PRI(b, j) ((j) < (b)->my_tail ? SLOTN(b, j).state == has_item : (!((j) < (b)->my_array_size) || SLOTN(b, j).state == no_item))
#define PQ_FRESH(self) (__CPROVER_is_fresh(self, sizeof(*self)) && IB_SHAPE(self) && self->my_head == 0 && self->mark <= self->my_tail \
     && __CPROVER_is_fresh(self->my_array, self->my_array_size * sizeof(aligned_space_item)))
#define PQ_SAME(self) (self->my_array == __CPROVER_old(self->my_array) && self->my_array_size == __CPROVER_old(self->my_array_size) && self->my_head == 0 \
     && self->my_tail == __CPROVER_old(self->my_tail) && self->my_reserved == __CPROVER_old(self->my_reserved) && self->forwarder_busy == __CPROVER_old(self->forwarder_busy) \
     && self->reserved_item == __CPROVER_old(self->reserved_item))
/* ---- reheap: the root was replaced; every heap edge that does not start at the root holds (instances at GH: the edge into GH and the two edges out of GH) ---- */
#define RH_PRE(g) ((g) == 0 || (g) >= self->mark || ((PAR(g) == 0 || GE(PAR(g), g)) && EDGE(g, 2 * (g) + 1) && EDGE(g, 2 * (g) + 2)))
#define RH_INV(g) ((g) == 0 || (g) >= self->mark || ( \
       ((cur_pos != PAR(g) && cur_pos != (g)) ? GE(PAR(g), g) : 1) \
    && ((cur_pos <= PAR(g)) ? (EDGE(g, 2 * (g) + 1) && EDGE(g, 2 * (g) + 2)) : 1) \
    && ((cur_pos == (g)) ? (GE(PAR(g), g) && EDGE(PAR(g), 2 * (g) + 1) && EDGE(PAR(g), 2 * (g) + 2)) : 1)))
#define CONTRACT_pq_reheap \
  __CPROVER_requires(PQ_FRESH(self) && RH_PRE(GH) && PRI(self, GH)) \
  __CPROVER_assigns(__CPROVER_object_whole(self->my_array)) \
  __CPROVER_ensures(PQ_SAME(self) && self->mark == __CPROVER_old(self->mark)) \
  __CPROVER_ensures(HEAPAT(GH)) \
  __CPROVER_ensures(GH < self->mark || GH >= self->my_array_size || VALI(GH) == __CPROVER_old(VALI(GH))) \
  __CPROVER_ensures(PRI(self, GH))
#define LOOP_pqreheap_1 __CPROVER_assigns(cur_pos, child, __CPROVER_object_whole(self->my_array)) \
  __CPROVER_loop_invariant(child == 2 * cur_pos + 1 && cur_pos <= self->mark && RH_INV(GH) && (GH < self->mark || GH >= self->my_array_size || VALI(GH) == __CPROVER_loop_entry(VALI(GH))) \
     && (GH >= self->my_array_size || STATE(GH) == __CPROVER_loop_entry(STATE(GH)) || (GH < self->mark && STATE(GH) == has_item))) \
  __CPROVER_decreases(self->mark - cur_pos)
/* ---- heapify: merges the items [mark,tail) into the heap one by one.
   (1) One merge (the body of the outer loop, outlined by spec.py into pq_heapify_merge_one because dfcc cannot digest the two nested loops) re-establishes
       heap order at an arbitrary index x from heap order at x and at parent(x): lemma MO_PRE1(x) ==> MO_POST1(x), ENFORCED for x = GH (job prio.heapify.merge_one).
   (2) The outer loop keeps heap order on the whole path from GH to the root (closure under `parent`; ANCK(k) is the k-th ancestor of GH, 17 levels cover
       every index below 2^16, the stated buffer bound); it USES the lemma at the 17 path nodes (instances of (1) for other values of the arbitrary GH). ---- */
#define HEAPB(x, M) ((x) == 0 || (x) >= (M) || GE(PAR(x), x))
#define MO_PRE1(x) (HEAPB(x, self->mark) && ((x) == 0 || HEAPB(PAR(x), self->mark)))
#define MO_POST1(x) HEAPB(x, self->mark + 1)
#define ANCK(k) ((((GH) + 1) >> (k)) - 1)
#define ALL17(F) (F(ANCK(0)) && F(ANCK(1)) && F(ANCK(2)) && F(ANCK(3)) && F(ANCK(4)) && F(ANCK(5)) && F(ANCK(6)) && F(ANCK(7)) && F(ANCK(8)) && F(ANCK(9)) && F(ANCK(10)) && F(ANCK(11)) \
                  && F(ANCK(12)) && F(ANCK(13)) && F(ANCK(14)) && F(ANCK(15)) && F(ANCK(16)))
#define HEAPM(x) HEAPB(x, self->mark)
#define HP_PATH (GH >= self->my_tail || ALL17(HEAPM))
#ifdef PQ_MERGE_ENFORCE
#define MO_REQ MO_PRE1(GH)
#define MO_ENS MO_POST1(GH)
#else
#define MO_REQ (GH >= self->my_tail || ALL17(MO_PRE1))
#define MO_ENS (GH >= self->my_tail || ALL17(MO_POST1))
#endif
/* inner loop at the fixed index g: hole at cur_pos, item to_place in hand, region [0..mark]: the edge into g holds unless it touches the hole; a child of the
   hole is dominated by the item in hand and by the hole's parent; the edge into parent(g) is intact while the hole is below parent(g) */
#define HI(g) ((g) == 0 || (g) > self->mark || ( \
      (((g) != cur_pos && PAR(g) != cur_pos) ? GE(PAR(g), g) : 1) \
   && ((PAR(g) == cur_pos) ? (!COMPARE(to_place, VALI(g)) && (cur_pos == 0 || GE(PAR(cur_pos), g))) : 1) \
   && ((cur_pos > PAR(g) && PAR(g) > 0) ? GE(PAR(PAR(g)), PAR(g)) : 1)))
#define CONTRACT_pq_heapify
#define CONTRACT_pq_merge_one \
  __CPROVER_requires(PQ_FRESH(self) && self->mark >= 1 && self->mark < self->my_tail && MO_REQ && PRI(self, GH)) \
  __CPROVER_assigns(__CPROVER_object_whole(self->my_array)) \
  __CPROVER_ensures(PQ_SAME(self) && self->mark == __CPROVER_old(self->mark)) \
  __CPROVER_ensures(MO_ENS) \
  __CPROVER_ensures(PRI(self, GH))
#ifdef PQ_MERGE_STUB
#define LOOP_pqheapify_1 __CPROVER_assigns(self->mark, g_expect, g_merges) \
  __CPROVER_loop_invariant(self->mark >= 1 && self->mark <= self->my_tail && g_expect == self->mark && g_merges == self->mark - g_mark1) __CPROVER_decreases(self->my_tail - self->mark)
#else
#define LOOP_pqheapify_1
#endif
#define LOOP_pqheapify_2 __CPROVER_assigns(cur_pos, __CPROVER_object_whole(self->my_array)) \
  __CPROVER_loop_invariant(cur_pos >= 1 && cur_pos <= self->mark && self->mark < self->my_tail && STATE(cur_pos) == no_item && HI(GH) \
     && (GH == cur_pos || PRI(self, GH))) __CPROVER_decreases(cur_pos)
#define LOOP_bnho_1
#define LOOP_bnfwd_1
/* stubs of the handler part (used by the operation jobs) */
size_t g_nsucc; bool g_active; unsigned g_status_sets; size_t g_made, g_spawned, g_newfwd, g_reg, g_rem, g_offers, g_accepts; item_type g_offered_val; bool g_offer_acc;
#define SET_STATUS(op, st) do { __CPROVER_assert((op)->status == WAIT, "C15.prio: an operation gets exactly one final status"); (op)->status = (st); g_status_sets++; } while (0)
static graph *STUB_graph(void) { return &G; }
static bool STUB_is_graph_active(void) { return g_active; }
static graph_task *STUB_new_forward_task(struct item_buffer *self) { g_newfwd++; g_made++; return &T_real; }
static struct task_pair STUB_order_tasks(graph_task *l, graph_task *r) { struct task_pair p; if (nondet_bool()) { p.first = l; p.second = r; } else { p.first = r; p.second = l; } return p; }
static void STUB_spawn(graph_task *t) { OBLIGATION(t == &T_real, "C15.prio: only real tasks are spawned"); g_spawned++; }
static size_t STUB_succ_size(struct item_buffer *self) { return g_nsucc; }
static void STUB_succ_register(struct item_buffer *self, void *r) { g_nsucc++; g_reg++; }
static void STUB_succ_remove(struct item_buffer *self, void *r) { if (g_nsucc > 0 && nondet_bool()) g_nsucc--; g_rem++; }
static graph_task *STUB_succ_try_put_task(struct item_buffer *self, const item_type *it);
#define DERIVED_order pq_order
#define DERIVED_is_item_valid pq_is_item_valid
#define DERIVED_try_put_and_add_task pq_try_put_and_add_task
#define VIRT_internal_reg_succ bn_internal_reg_succ
#define VIRT_internal_rem_succ bn_internal_rem_succ
#define VIRT_internal_pop pq_internal_pop
#define VIRT_internal_reserve pq_internal_reserve
#define VIRT_internal_release pq_internal_release
#define VIRT_internal_consume pq_internal_consume
#define VIRT_internal_push pq_internal_push
#define VIRT_internal_forward_task pq_internal_forward_task
size_t g_expect, g_merges, g_mark1;
#ifdef PQ_MERGE_STUB
/* outer loop of heapify: the merge step (its own job) is a stub that only records how it is called */
static void STUB_merge_one(struct item_buffer *self);
#define CALL_pq_heapify_merge_one STUB_merge_one
#else
#define CALL_pq_heapify_merge_one pq_heapify_merge_one
#endif
#include "priority_node.inc"
#ifdef PQ_MERGE_STUB
static void STUB_merge_one(struct item_buffer *self) {
    OBLIGATION(self->mark >= 1 && self->mark < self->my_tail, "C15.prio: heapify merges an item only while unmerged items exist, never the root slot (precondition of the merge step)");
    OBLIGATION(self->mark == g_expect, "C15.prio: heapify merges the unmerged items one by one in index order, each exactly once");
    g_expect = self->mark + 1; g_merges++;
}
#endif
static graph_task *STUB_succ_try_put_task(struct item_buffer *self, const item_type *it) {
    g_offers++; g_offered_val = *it; g_offer_acc = nondet_bool();
    if (!g_offer_acc) return NULL;
    g_accepts++; if (nondet_bool()) return SUCCESSFULLY_ENQUEUED; g_made++; return &T_real;
}
static struct item_buffer *mk_pq(void) {
    struct item_buffer *b = malloc(sizeof(*b)); __CPROVER_assume(b != NULL);
    b->my_array_size = nondet_size_t(); b->my_head = 0; b->my_tail = nondet_size_t(); b->mark = nondet_size_t(); b->my_reserved = nondet_bool(); b->forwarder_busy = nondet_bool(); b->reserved_item = nondet_int();
    __CPROVER_assume(IB_SHAPE(b) && b->mark <= b->my_tail);
    b->my_array = malloc(b->my_array_size * sizeof(aligned_space_item)); __CPROVER_assume(b->my_array != NULL);
    return b;
}
void h_pq_reheap(void) { struct item_buffer *b; pq_reheap(b); VACUITY_END(); }
void h_pq_merge_one(void) { struct item_buffer *b; pq_heapify_merge_one(b); VACUITY_END(); }
static struct item_buffer PQB;
void h_pq_heapify(void) {
    struct item_buffer *self = &PQB;
    self->my_array_size = nondet_size_t(); self->my_head = 0; self->my_tail = nondet_size_t(); self->mark = nondet_size_t(); __CPROVER_assume(IB_SHAPE(self) && self->mark <= self->my_tail);
    self->my_array = malloc(self->my_array_size * sizeof(aligned_space_item)); __CPROVER_assume(self->my_array != NULL);
    size_t t0 = self->my_tail, m0 = self->mark; g_mark1 = m0 ? m0 : 1; g_expect = g_mark1; g_merges = 0;
    pq_heapify(self);
    OBLIGATION(self->mark == self->my_tail && self->my_tail == t0 && self->my_head == 0, "C15.prio: heapify ends with mark == tail and moves neither end of the buffer");
    OBLIGATION(t0 == 0 ? g_merges == 0 : g_merges == t0 - g_mark1, "C15.prio: exactly the items of [max(mark,1),tail) are merged, each once");
    VACUITY_END();
}
/* the outer loop's invariant `heap order on the whole path of GH` supplies the precondition instances of the merge lemma at the 17 path nodes (closure under parent) */
void h_pq_closure(void) {
    struct item_buffer *self = mk_pq(); GH = nondet_size_t();
    __CPROVER_assume(self->mark >= 1 && self->mark < self->my_tail && HP_PATH);
    OBLIGATION(GH >= self->my_tail || ALL17(MO_PRE1), "C15.prio: heap order along the path of an arbitrary index implies, at each of the 17 path nodes, the precondition of the merge lemma (order at the node and at its parent)");
    size_t m = self->mark; __CPROVER_assume(GH >= self->my_tail || ALL17(MO_POST1)); self->mark = m + 1;
    OBLIGATION(HP_PATH, "C15.prio: the lemma's postcondition at the 17 path nodes is the path invariant for mark + 1");
    VACUITY_END();
}
void h_pq_swap(void) {
    struct item_buffer *self = mk_pq(); size_t i = nondet_size_t(), j = nondet_size_t(); GH = nondet_size_t();
    __CPROVER_assume(i < self->my_tail && j < self->my_tail && PRI(self, i) && PRI(self, j) && PRI(self, GH));
    item_type vi = VALI(i), vj = VALI(j), vg = VALI(GH); int sg = STATE(GH);
    item_buffer_swap_items(self, i, j);
    OBLIGATION(VALI(i) == vj && VALI(j) == vi && STATE(i) == has_item && STATE(j) == has_item, "C15.prio: swap_items exchanges the two items");
    OBLIGATION((SLOTN(self, GH).item == vg && STATE(GH) == sg) || (GH & (self->my_array_size - 1)) == i || (GH & (self->my_array_size - 1)) == j, "C15.prio: swap_items touches no other slot");
    VACUITY_END();
}
#endif
