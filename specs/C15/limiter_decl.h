/* ghost invariant of limiter_node's counters (members harvested into struct limiter by the generated limiter.inc) */
#include "limiter_struct.inc"
#define LBOUND(l) ((l)->my_threshold < ((size_t)1 << 40) && (l)->my_count < ((size_t)1 << 41) && (l)->my_tries < ((size_t)1 << 41) && (l)->my_future_decrement < ((size_t)1 << 41) && P < ((size_t)1 << 41) && D < ((size_t)1 << 41))
#define LINV(l) (D + (l)->my_future_decrement == (l)->my_count + P && P + (size_t)(meTry && !meP) <= (l)->my_tries && (l)->my_count + (l)->my_tries <= (l)->my_threshold \
                 && ((l)->my_future_decrement == 0 || (l)->my_count == 0) && (l)->my_future_decrement <= P && (l)->my_tries >= (size_t)meTry && P >= (size_t)meP)
static void havoc_l(struct limiter *l) { l->my_count = nondet_size_t(); l->my_tries = nondet_size_t(); l->my_future_decrement = nondet_size_t(); P = nondet_size_t(); D = nondet_size_t(); }
static void lim_init(struct limiter *l) { l->my_threshold = nondet_size_t(); havoc_l(l); meTry = meP = false; __CPROVER_assume(LINV(l) && LBOUND(l)); }
/* Each locked section is one atomic step.  The ghost bookkeeping of this thread's own put attempt is derived from what the section did to
   my_tries (+1: my try is registered; -1: my try is settled -- counted if it had been delivered, withdrawn otherwise). */
static size_t tries_at_entry, sum_at_entry, g_fwd_made_sec; static bool in_section;
/* what the section reads of its surroundings (predecessor cache, successor cache, graph activity): one snapshot per locked section */
bool g_pe, g_se, g_ga;
bool g_dom_early_decrement, g_absorbed;
static void section_end(void) {
    if (!in_section) return;
    in_section = false; bool settled_delivered = false;
    if (L->my_tries == tries_at_entry + 1) { __CPROVER_assert(!meTry, "C15.limiter: one try per call"); meTry = true; }
    else if (L->my_tries + 1 == tries_at_entry) { __CPROVER_assert(meTry, "C15.limiter: only a registered try is withdrawn"); settled_delivered = meP; if (meP) { P--; meP = false; } meTry = false; }
    else __CPROVER_assert(L->my_tries == tries_at_entry, "C15.limiter: a section changes my_tries by at most one");
    __CPROVER_assert(LINV(L), "guarantee: the limiter invariant holds whenever this thread is outside its locked sections (counters account exactly for delivered minus decremented messages)");
    __CPROVER_assert(D <= L->my_threshold, "C15.limiter: delivered-and-not-decremented messages never exceed the threshold");
    /* a section that frees capacity by withdrawing a failed attempt is the only place that can start the pull of a message which a predecessor kept (and
       flipped its edge to pull mode for) while the attempt was in flight */
    if (g_mode == 0 && L->my_count + L->my_tries < sum_at_entry) {
        bool pull_due = L->my_count + L->my_tries < L->my_threshold && !g_pe && !g_se && g_ga;
        if (settled_delivered) {          /* my_count + my_tries fell although the attempt was delivered: an early decrement (my_future_decrement) was absorbed */
            __CPROVER_assume(g_dom_early_decrement);      /* domain split: this half of the domain has its own job (limiter.try_put.early_decrement) */
            g_absorbed = true;
            __CPROVER_assert(!pull_due || g_fwd_made_sec >= 1,
                             "C15.limiter: when a delivered attempt absorbs an early decrement and then capacity is available, a predecessor is waiting, a successor is present and the graph is active, a forward task is created (a rejected message kept by its sender is pulled, not stranded)");
        } else
            __CPROVER_assert(!pull_due || g_fwd_made_sec >= 1,
                             "C15.limiter: when a failed attempt is withdrawn and then capacity is available, a predecessor is waiting, a successor is present and the graph is active, a forward task is created (a rejected message kept by its sender is pulled, not stranded)");
    }
}
/* a locked section starts: whatever other threads did since my last section preserved the invariant (rely) */
static void LOCKED_SECTION(void) {
    section_end();
    havoc_l(L); __CPROVER_assume(LINV(L) && LBOUND(L));
    if (g_mode == 1) { __CPROVER_assume(g_delta <= D); D -= g_delta; }   /* the decrement takes effect in its locked section; precondition: not more than was delivered */
    tries_at_entry = L->my_tries; sum_at_entry = L->my_count + L->my_tries; g_fwd_made_sec = 0; g_pe = nondet_bool(); g_se = nondet_bool(); g_ga = nondet_bool(); in_section = true;
}
static graph_task *STUB_succ_try_put_task(void) {
    section_end();
    __CPROVER_assert(meTry, "C15.limiter: a put is only attempted after its try was registered");
    if (nondet_bool()) return NULL;
    P++; D++; meP = true;                      /* delivered to a successor outside the lock */
    __CPROVER_assert(D <= L->my_threshold, "C15.limiter: delivered-and-not-decremented messages never exceed the threshold");
    return &the_task;
}
static void lim_end(void) {
    section_end();
    __CPROVER_assert(!meTry && !meP, "C15.limiter: every registered try is settled before the call returns (my_tries returns to its old value)");
}
