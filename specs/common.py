"""Extraction pieces shared by several properties."""
import re
import os
import sys
sys.path.insert(0, os.path.join(os.path.dirname(os.path.abspath(__file__)), '..', 'tools'))
import cxx2c
from cxx2c import Rewriter, slice_block, slice_stmt, ExtractionBreak

MACHINE_H = 'include/oneapi/tbb/detail/_machine.h'
UTILS_H = 'include/oneapi/tbb/detail/_utils.h'


# the configuration the pinned build uses (g++ 12, x86-64 linux, RelWithDebInfo)
TARGET_MACROS = {'__GNUC__': 12, '__clang__': None, '_MSC_VER': None, '__i386__': None, '__i386': None, '__MINGW32__': None,
                 '__powerpc__': None, '__POWERPC__': None, '__sparc': None, '__TBB_WORDSIZE': 8, 'TBB_USE_DEBUG': 0, 'TBB_USE_ASSERT': 0,
                 '__INTEL_COMPILER': None, '__linux__': 1, '_WIN32': None, '_WIN64': None, '__APPLE__': None}


def write(ctx, name, text):
    p = os.path.join(ctx.work, name)
    with open(p, 'w') as f:
        f.write(text)
    return p


def pick_gnuc_branch(rw, text):
    """keep the `#if defined(__GNUC__) || defined(__clang__)` arm of an #if/#elif chain"""
    return rw.sub(text, r'(?s)#if defined\(__GNUC__\) \|\| defined\(__clang__\)\n(.*?)\n#elif.*?#endif[^\n]*', r'\1', 1, 1, name='pick-#if-GNUC')


def log2_c(ctx, sliced):
    """number_of_bits<uintptr_t>, gnu_builtins::clz(unsigned long), machine_log2, log2<uintptr_t> -> C"""
    rw = Rewriter('log2')
    nb = slice_block(MACHINE_H, r'constexpr std::uintptr_t number_of_bits\(\)')
    t_nb = rw.sub(nb.text, r'constexpr std::uintptr_t number_of_bits\(\)', 'static uintptr_t number_of_bits_T(void)', 1, 1, name='sig')
    t_nb = rw.sub(t_nb, r'sizeof\(T\)', 'sizeof(uintptr_t)', 1, 1, name='bind-template(T:=uintptr_t)')
    clz = slice_block(MACHINE_H, r'inline uintptr_t clz\(unsigned long int x\)')
    t_clz = rw.sub(clz.text, r'inline uintptr_t clz\(unsigned long int x\)', 'static uintptr_t gnu_builtins_clz(unsigned long int x)', 1, 1, name='sig')
    t_clz = rw.casts(t_clz, 1)
    ml = slice_block(MACHINE_H, r'static inline uintptr_t machine_log2\(uintptr_t x\)')
    t_ml = cxx2c.cpp_resolve(ml.text, TARGET_MACROS, 'machine_log2')
    rw.fired['cpp-resolve(__GNUC__, x86-64 linux)'] = 1
    t_ml = rw.sub(t_ml, r'number_of_bits<decltype\(x\)>\(\)', 'number_of_bits_T()', 1, 1, name='bind-template(decltype(x):=uintptr_t)')
    t_ml = rw.sub(t_ml, r'gnu_builtins::clz\(', 'gnu_builtins_clz(', 1, 1, name='ns-strip')
    t_ml = rw.std(t_ml)
    lg = slice_block(UTILS_H, r'std::uintptr_t log2\(T in\)')
    t_lg = rw.sub(lg.text, r'std::uintptr_t log2\(T in\)', 'static uintptr_t tbb_log2(uintptr_t in)', 1, 1, name='sig+bind-template(T:=uintptr_t)')
    t_lg = rw.asserts(t_lg, 1)
    t_lg = rw.std(t_lg)
    for s in (nb, clz, ml, lg):
        sliced.append('%s:%d' % (s.rel, s.line))
    return '\n'.join([t_nb, t_clz, t_ml, t_lg]) + '\n', rw.fired
