"""C02 -- no lost wake-up, safety core: the wait/notify protocol of concurrent_monitor_base (wait set + per-node signal) under rely/guarantee,
the intrusive list it is built on, the per-node semaphore (futex word), sleep_node / resume_node, the address-waiter table, and the users
(tbb::mutex, rw_mutex blocking side, the arena's EMPTY/FULL flag against sleeping external threads)."""
import os
import sys
import re
HERE = os.path.dirname(os.path.abspath(__file__))
sys.path.insert(0, os.path.join(HERE, '..'))
sys.path.insert(0, os.path.join(HERE, '..', '..', 'tools'))
import common
import native
import cxx2c
from cxx2c import Rewriter, slice_block, slice_stmt, tag_loops, ExtractionBreak, load, mask
from prove import Job

CM = 'src/tbb/concurrent_monitor.h'
SEM = 'src/tbb/semaphore.h'
TCM = 'src/tbb/thread_control_monitor.h'
AW = 'src/tbb/address_waiter.cpp'
WA = 'include/oneapi/tbb/detail/_waitable_atomic.h'
MX = 'include/oneapi/tbb/mutex.h'
RWM = 'include/oneapi/tbb/rw_mutex.h'
AH = 'src/tbb/arena.h'
AC = 'src/tbb/arena.cpp'
WH = 'src/tbb/waiters.h'
TK = 'src/tbb/task.cpp'
TASKH = 'include/oneapi/tbb/detail/_task.h'

LISTC = r'class circular_doubly_linked_list_with_sentinel \{'
MONC = r'class concurrent_monitor_base \{'
WNC = r'class wait_node : public base_node \{'
SNC = r'class sleep_node : public wait_node<Context> \{'

MACROS = dict(common.TARGET_MACROS)
MACROS.update({'__TBB_GLIBCXX_VERSION': 120200, '__TBB_GCC_VERSION': 120200, '__TBB_USE_FUTEX': 1, '__OpenBSD__': None, '__TBB_RESUMABLE_TASKS': 1,
               '__TBB_PREVIEW_CRITICAL_TASKS': 1})


def _lock_rule(rw, t):
    return rw.scoped_locks(t, r'concurrent_monitor_mutex::scoped_lock \w+\(([^)]*)\);', 0, None)


# =====================================================================================================================
# the intrusive list (jobs list.*)
# =====================================================================================================================
def extract_list(ctx, sliced, fired):
    rw = Rewriter('base_list')
    out = []
    cls = slice_block(CM, LISTC).text
    for pat, what in ((r'struct base_node \{\s*base_node\* next;\s*base_node\* prev;', 'base_node {next, prev}'),
                      (r'std::atomic<std::size_t> count;\s*base_node head;', 'list members count, head'),
                      (r'constexpr base_node\(base_node\* n, base_node\* p\) : next\(n\), prev\(p\) \{\}', 'base_node(n, p) constructor')):
        if not re.search(pat, cls):
            raise ExtractionBreak('concurrent_monitor.h: %s changed' % what)
    # constructor: count(0), head(&head, &head)  (declared order: count, head)
    m = re.search(r'constexpr circular_doubly_linked_list_with_sentinel\(\) : count\((\w+)\), head\(([^,()]*), ([^,()]*)\) \{\}', cls)
    if not m:
        raise ExtractionBreak('concurrent_monitor.h: list constructor changed')
    out.append('static void base_list_ctor(struct base_list* self) {\n    self->count = %s;\n    self->head.next = %s;\n    self->head.prev = %s;\n}' % (
        m.group(1), m.group(2).replace('&head', '&self->head'), m.group(3).replace('&head', '&self->head')))
    rw.fired['ctor-init-list->assignments(declared order)'] = 3

    def conv(sig, csig, nm, lst_param=False):
        s = slice_block(CM, sig, within=LISTC)
        sliced.append('%s:%d circular_doubly_linked_list_with_sentinel::%s' % (CM, s.line, nm))
        t = rw.sub(s.text, sig, csig, 1, 1, name='sig')
        t = rw.sub(t, r'\bn\.', 'n->', 0, name='ref-param')
        if lst_param:
            t = rw.sub(t, r'\blst\.', 'lst->', 0, name='ref-param')
            t = rw.sub(t, r'&lst->head', '&lst->head', 0, name='(identity)')
        t = rw.sub(t, r'(?<![\w.>])head\.', 'self->head.', 0, name='field')
        t = rw.sub(t, r'&head\b', '&self->head', 0, name='field')
        t = rw.sub(t, r'(?<![\w.>])count\.', 'self->count.', 0, name='field')
        t = rw.sub(t, r'(?<![\w.>:])(size|clear)\(\)', r'base_list_\1(self)', 0, name='method')
        t = rw.atomics(t, ['count'], 0)
        t = rw.asserts(t, 0)
        t = rw.sub(t, r"(?<!struct )\bbase_node\s*\*", "struct base_node *", 0, name="type")
        t = rw.std(t)
        t = rw.number_sites(t, 'l' + nm, by_kind=True)
        out.append(t)
    conv(r'inline std::size_t size\(\) const', 'static size_t base_list_size(const struct base_list* self)', 'size')
    conv(r'inline bool empty\(\) const', 'static bool base_list_empty(const struct base_list* self)', 'empty')
    conv(r'inline base_node\* front\(\) const', 'static struct base_node* base_list_front(const struct base_list* self)', 'front')
    conv(r'inline base_node\* last\(\) const', 'static struct base_node* base_list_last(const struct base_list* self)', 'last')
    conv(r'inline const base_node\* end\(\) const', 'static const struct base_node* base_list_end(const struct base_list* self)', 'end')
    conv(r'inline void add\( base_node\* n \)', 'static void base_list_add(struct base_list* self, struct base_node* n)', 'add')
    conv(r'inline void remove\( base_node& n \)', 'static void base_list_remove(struct base_list* self, struct base_node* n)', 'remove')
    # clear() must precede flush_to (C: declaration before use)
    conv(r'void clear\(\)', 'static void base_list_clear(struct base_list* self)', 'clear')
    conv(r'inline void flush_to\( circular_doubly_linked_list_with_sentinel& lst \)', 'static void base_list_flush_to(struct base_list* self, struct base_list* lst)', 'flush_to', lst_param=True)
    common.write(ctx, 'list.inc', '\n'.join(out) + '\n')
    fired['base_list'] = rw.fired


# =====================================================================================================================
# concurrent_monitor_base<Context>: sleeper side (prepare_wait / commit_wait / cancel_wait / wait / guarded_call), notifier side
# =====================================================================================================================
def _wait_node_shape():
    wn = cxx2c.cpp_resolve(slice_block(CM, WNC).text, MACROS, 'wait_node')
    for pat, what in ((r'Context my_context\{\};', 'my_context'), (r'std::atomic<bool> my_is_in_list\{false\};', 'my_is_in_list{false}'),
                      (r'bool my_initialized\{false\};', 'my_initialized{false}'), (r'bool my_skipped_wakeup\{false\};', 'my_skipped_wakeup{false}'),
                      (r'bool my_aborted\{false\};', 'my_aborted{false}'), (r'unsigned my_epoch\{0\};', 'my_epoch{0}')):
        if not re.search(pat, wn):
            raise ExtractionBreak('concurrent_monitor.h: wait_node member %s changed (a fresh node is not in the list, not initialised, owes no wake-up)' % what)
    mon = slice_block(CM, MONC).text
    for pat, what in ((r'concurrent_monitor_mutex my_mutex\{\};', 'my_mutex'), (r'base_list my_waitset\{\};', 'my_waitset'), (r'std::atomic<unsigned> my_epoch\{\};', 'my_epoch'),
                      (r'wait_node<Context>\* to_wait_node\( base_node\* node \) \{ return static_cast<wait_node<Context>\*>\(node\); \}', 'to_wait_node')):
        if not re.search(pat, mon):
            raise ExtractionBreak('concurrent_monitor.h: concurrent_monitor_base member %s changed' % what)


def extract_sleeper(ctx, sliced, fired):
    rw = Rewriter('monitor.sleeper')
    _wait_node_shape()
    out = []

    def body(t):
        t = rw.sub(t, r'\bnode\.', 'node->', 0, name='ref-param')
        t = rw.sub(t, r'node->init\(\);', 'NODE_INIT(node);', 0, name='virtual call wait_node::init -> stub (sleep_node / resume_node: jobs node.*)')
        t = rw.sub(t, r'node->reset\(\);', 'NODE_RESET(node);', 0, name='virtual call wait_node::reset -> stub')
        t = rw.sub(t, r'node->wait\(\);', 'NODE_WAIT(node); EXC_PROPAGATE(false);', 0, name='virtual call wait_node::wait -> stub (may throw user_abort: exception edge made explicit)')
        t = rw.sub(t, r'my_waitset\.add\(&node\);', 'WS_ADD(self, node);', 0, name='list op on the wait set -> contract stub (jobs list.*)')
        t = rw.sub(t, r'my_waitset\.remove\(node\);', 'WS_REMOVE(self, node);', 0, name='list op on the wait set -> contract stub (jobs list.*)')
        t = _lock_rule(rw, t)
        t = rw.sub(t, r'atomic_fence_seq_cst\(\);', 'FENCE_SEQ_CST();', 0, name='full fence (SC assumed: a scheduling point)')
        t = rw.fields(t, ['my_mutex', 'my_epoch', 'my_waitset'], 0)
        t = rw.atomics(t, ['my_epoch', 'my_is_in_list'], 0)
        t = rw.sub(t, r'(?<![\w.>:])(cancel_wait|commit_wait|prepare_wait)\(\s*node\s*\)', r'mon_\1(self, node)', 0, name='method')
        t = rw.asserts(t, 0)
        t = rw.std(t)
        return t
    s = slice_block(CM, r'void cancel_wait\( wait_node<Context>& node \)', within=MONC)
    sliced.append('%s:%d concurrent_monitor_base::cancel_wait' % (CM, s.line))
    t = rw.sub(s.text, r'void cancel_wait\( wait_node<Context>& node \)', 'static void mon_cancel_wait(struct monitor* self, struct wait_node* node)', 1, 1, name='sig')
    out.append(rw.number_sites(body(t), 'cancel', by_kind=True))
    s = slice_block(CM, r'void prepare_wait\( wait_node<Context>& node\)', within=MONC)
    sliced.append('%s:%d concurrent_monitor_base::prepare_wait' % (CM, s.line))
    t = rw.sub(s.text, r'void prepare_wait\( wait_node<Context>& node\)', 'static void mon_prepare_wait(struct monitor* self, struct wait_node* node)', 1, 1, name='sig')
    out.append(rw.number_sites(body(t), 'prepare', by_kind=True))
    s = slice_block(CM, r'inline bool commit_wait\( wait_node<Context>& node \)', within=MONC)
    sliced.append('%s:%d concurrent_monitor_base::commit_wait' % (CM, s.line))
    t = rw.sub(s.text, r'inline bool commit_wait\( wait_node<Context>& node \)', 'static bool mon_commit_wait(struct monitor* self, struct wait_node* node)', 1, 1, name='sig')
    out.append(rw.number_sites(body(t), 'commit', by_kind=True))
    s = slice_block(CM, r'bool guarded_call\(Pred&& predicate, NodeType& node\)', within=MONC)
    sliced.append('%s:%d concurrent_monitor_base::guarded_call' % (CM, s.line))
    t = rw.sub(s.text, r'bool guarded_call\(Pred&& predicate, NodeType& node\)', 'static bool mon_guarded_call(struct monitor* self, struct wait_node* node)', 1, 1, name='sig (the predicate object becomes the harness stub STUB_pred)')
    t = rw.sub(t, r'(?s)tbb::detail::d0::try_call\( \[&\] \{(.*?)\}\)\.on_exception\( \[&\] \{(.*?)\}\);', r'{ \1 } if (EXC_PENDING()) { { \2 } EXC_RETHROW(false); }', 1, 1,
               name='try_call(body).on_exception(handler) -> { body; if (exception pending) { handler; rethrow } }')
    t = rw.sub(t, r'std::forward<Pred>\(predicate\)\(\)', 'STUB_pred()', 1, 1, name='predicate call')
    out.append(body(t))
    s = slice_block(CM, r'bool wait\(Pred&& pred, NodeType&& node\)', within=MONC)
    sliced.append('%s:%d concurrent_monitor_base::wait' % (CM, s.line))
    t = rw.sub(s.text, r'bool wait\(Pred&& pred, NodeType&& node\)', 'static bool mon_wait(struct monitor* self, struct wait_node* node)', 1, 1, name='sig')
    t = rw.sub(t, r'while \(!guarded_call\(std::forward<Pred>\(pred\), node\)\) \{', 'while (!mon_guarded_call(self, node) && !EXC_PENDING()) {', 1, 1,
               name='method; the exception edge of the predicate leaves the loop')
    t = rw.sub(t, r'(if \(commit_wait\(node\)\) \{\s*return true;\s*\})', r'\1 EXC_PROPAGATE(false);', 0, name='commit_wait may throw (user_abort): exception edge made explicit')
    mk_ = mask(t)
    w_ = mk_.find('while (!mon_guarded_call')
    if w_ < 0:
        raise ExtractionBreak('wait(): predicate loop not found')
    e_ = cxx2c.match_close(mk_, mk_.find('{', w_))
    t = t[:e_ + 1] + ' EXC_PROPAGATE(false); /* exception edge of the predicate: the loop was left by the throw */' + t[e_ + 1:]
    rw.fired['exception edge after the loop'] = 1
    t = body(t)
    t = tag_loops(t, 'wait', rw, expect=1)
    out.append(t)
    common.write(ctx, 'sleeper.inc', '\n'.join(out) + '\n')
    fired['monitor.sleeper'] = rw.fired


def extract_notifier(ctx, sliced, fired):
    rw = Rewriter('monitor.notifier')
    out = []

    def body(t, nm):
        t = cxx2c.cpp_resolve(t, MACROS, nm)
        t = rw.sub(t, r'#pragma[^\n]*', '', 0, name='#pragma GCC diagnostic dropped')
        t = rw.sub(t, r'base_list temp;', 'struct base_list temp; TEMP_CTOR(&temp);', 0, name='local list object -> declaration + constructor call')
        t = rw.sub(t, r'my_waitset\.empty\(\)', 'WS_EMPTY(self)', 0, name='list op on the wait set')
        t = rw.sub(t, r'my_waitset\.size\(\)', 'WS_SIZE(self)', 0, name='list op on the wait set')
        t = rw.sub(t, r'my_waitset\.end\(\)', 'WS_END(self)', 0, name='list op on the wait set')
        t = rw.sub(t, r'my_waitset\.front\(\)', 'WS_FRONT(self)', 0, name='list op on the wait set')
        t = rw.sub(t, r'my_waitset\.last\(\)', 'WS_LAST(self)', 0, name='list op on the wait set')
        t = rw.sub(t, r'my_waitset\.remove\(\*(\w+)\);', r'WS_REMOVE(self, \1);', 0, name='list op on the wait set')
        t = rw.sub(t, r'my_waitset\.flush_to\(temp\);', 'WS_FLUSH_TO(self, &temp);', 0, name='list op on the wait set')
        t = rw.sub(t, r'temp\.end\(\)', 'TEMP_END(&temp)', 0, name='list op on the local list')
        t = rw.sub(t, r'temp\.front\(\)', 'TEMP_FRONT(&temp)', 0, name='list op on the local list')
        t = rw.sub(t, r'temp\.add\((\w+)\);', r'TEMP_ADD(&temp, \1);', 0, name='list op on the local list')
        t = rw.sub(t, r'\b(\w+)->next\b', r'NODE_NEXT(\1)', 0, name='link read -> accessor')
        t = rw.sub(t, r'\b(\w+)->prev\b', r'NODE_PREV(\1)', 0, name='link read -> accessor')
        t = rw.sub(t, r'auto\* node = static_cast<wait_node<Context>\*>\((\w+)\);', r'struct base_node* node = TO_WAIT_NODE(\1);', 0, name='downcast')
        t = rw.sub(t, r'to_wait_node\((\w+)\)->my_is_in_list\.store\((\w+), std::memory_order_relaxed\);', r'NODE_STORE_IN_LIST(TO_WAIT_NODE(\1), \2);', 0, name='node field store -> accessor')
        t = rw.sub(t, r'\bnode->my_is_in_list\.store\((\w+), std::memory_order_relaxed\);', r'NODE_STORE_IN_LIST(node, \1);', 0, name='node field store -> accessor')
        t = rw.sub(t, r'to_wait_node\((\w+)\)->my_aborted = (\w+);', r'NODE_STORE_ABORTED(TO_WAIT_NODE(\1), \2);', 0, name='node field store -> accessor')
        t = rw.sub(t, r'to_wait_node\((\w+)\)->notify\(\);', r'NODE_NOTIFY(TO_WAIT_NODE(\1));', 0, name='virtual call wait_node::notify -> stub')
        t = rw.sub(t, r'predicate\(node->my_context\)', 'PREDICATE(node)', 0, name='predicate call on the node context')
        t = _lock_rule(rw, t)
        t = rw.sub(t, r'atomic_fence_seq_cst\(\);', 'FENCE_SEQ_CST();', 0, name='full fence (SC assumed: a scheduling point)')
        t = rw.fields(t, ['my_mutex', 'my_epoch'], 0)
        t = rw.atomics(t, ['my_epoch'], 0)
        t = rw.sub(t, r'(?<![\w.>:])(notify_one_relaxed|notify_all_relaxed|abort_all_relaxed)\(\)', r'mon_\1(self)', 0, name='method')
        t = rw.sub(t, r'(?<![\w.>:])notify_relaxed\(\s*predicate\s*\)', r'mon_notify_relaxed(self)', 0, name='method')
        t = rw.sub(t, r'this->abort_all\(\)', 'mon_abort_all(self)', 0, name='method')
        t = rw.sub(t, r"(?<!struct )\bbase_node\s*\*", "struct base_node *", 0, name="type")
        t = rw.sub(t, r'struct base_node \* next\{\};', 'struct base_node * next = 0;', 0, name='brace-init')
        t = rw.asserts(t, 0)
        t = rw.std(t)
        t = rw.number_sites(t, nm, by_kind=True)
        return t
    fns = [('notify_one_relaxed', r'void notify_one_relaxed\(\) \{', 'static void mon_notify_one_relaxed(struct monitor* self) {', 0, 'n1'),
           ('notify_all_relaxed', r'void notify_all_relaxed\(\) \{', 'static void mon_notify_all_relaxed(struct monitor* self) {', 2, 'nall'),
           ('notify_relaxed', r'void notify_relaxed\( const P& predicate \) \{', 'static void mon_notify_relaxed(struct monitor* self) {', 2, 'npred'),
           ('notify_one_relaxed(pred)', r'void notify_one_relaxed\( const P& predicate \) \{', 'static void mon_notify_one_relaxed_pred(struct monitor* self) {', 1, 'n1pred'),
           ('abort_all_relaxed', r'void abort_all_relaxed\(\) \{', 'static void mon_abort_all_relaxed(struct monitor* self) {', 2, 'abort'),
           ('notify_one', r'void notify_one\(\) \{', 'static void mon_notify_one(struct monitor* self) {', 0, 'w1'),
           ('notify_all', r'void notify_all\(\) \{', 'static void mon_notify_all(struct monitor* self) {', 0, 'wall'),
           ('notify', r'void notify\( const P& predicate \) \{', 'static void mon_notify(struct monitor* self) {', 0, 'wpred'),
           ('abort_all', r'void abort_all\(\) \{', 'static void mon_abort_all(struct monitor* self) {', 0, 'wabort')]
    for nm, sig, csig, nloops, short in fns:
        s = slice_block(CM, sig, within=MONC)
        sliced.append('%s:%d concurrent_monitor_base::%s' % (CM, s.line, nm))
        t = rw.sub(s.text, sig, csig, 1, 1, name='sig')
        t = body(t, short)
        t = tag_loops(t, short, rw)
        out.append('#ifdef WANT_%s\n%s\n#endif' % (short, t))
    common.write(ctx, 'notifier.inc', '\n'.join(out) + '\n')
    fired['monitor.notifier'] = rw.fired


# =====================================================================================================================
# binary_semaphore (futex word), sleep_node, resume_node (jobs sem.*, node.*)
# =====================================================================================================================
def _futex_semaphore_class():
    """the `class binary_semaphore` that is compiled on Linux: the one built on futex_wait / futex_wakeup_one"""
    txt = load(SEM)
    if not re.search(r'#if defined\(SYS_futex\)[\s\S]*?#define __TBB_USE_FUTEX 1', txt):
        raise ExtractionBreak('semaphore.h: __TBB_USE_FUTEX is no longer defined under SYS_futex')
    for nth in range(6):
        try:
            s = slice_block(SEM, r'class binary_semaphore : no_copy \{', nth=nth)
        except ExtractionBreak:
            break
        if 'futex_wait' in s.text:
            return nth, s
    raise ExtractionBreak('semaphore.h: no binary_semaphore built on futex_wait found')


def extract_sem(ctx, sliced, fired):
    rw = Rewriter('binary_semaphore')
    nth, cls = _futex_semaphore_class()
    if not re.search(r'std::atomic<int> my_sem;', cls.text):
        raise ExtractionBreak('binary_semaphore: my_sem is no longer std::atomic<int>')
    out = []
    within = r'class binary_semaphore : no_copy \{'

    def meth(sig, csig, nm, ctor=False):
        text = load(SEM)
        m = mask(text)
        hits = list(re.finditer(within, m))
        lo = hits[nth].start()
        hi = cxx2c.match_close(m, m.find('{', hits[nth].end() - 1)) + 1
        h = re.search(sig, m[lo:hi])
        if not h:
            raise ExtractionBreak('binary_semaphore (futex): %s not found' % nm)
        b = m.find('{', lo + h.end() - 1)
        e = cxx2c.match_close(m, b)
        t = cxx2c.strip_comments(text[lo + h.start():e + 1])
        sliced.append('%s:%d binary_semaphore::%s (futex)' % (SEM, cxx2c.line_of(text, lo + h.start()), nm))
        t = rw.sub(t, sig, csig, 1, 1, name='sig')
        t = rw.sub(t, r'(?<![\w.>])my_sem = (\w+);', r'my_sem.store(\1);', 0, name='atomic assignment -> store')
        t = rw.fields(t, ['my_sem'], 0)
        t = rw.atomics(t, ['my_sem'], 0)
        t = rw.sub(t, r'\bfutex_wait\(', 'STUB_futex_wait(', 0, name='callee stub (futex syscall)')
        t = rw.sub(t, r'\bfutex_wakeup_one\(', 'STUB_futex_wakeup_one(', 0, name='callee stub (futex syscall)')
        t = rw.asserts(t, 0)
        t = rw.std(t)
        t = rw.number_sites(t, 'sem' + nm, by_kind=True)
        t = tag_loops(t, 'sem' + nm, rw)
        out.append(t)
    meth(r'binary_semaphore\(\) \{', 'static void sem_ctor(struct binary_semaphore* self) {', 'ctor')
    meth(r'void P\(\) \{', 'static void sem_P(struct binary_semaphore* self) {', 'P')
    meth(r'void V\(\) \{', 'static void sem_V(struct binary_semaphore* self) {', 'V')
    common.write(ctx, 'sem.inc', '\n'.join(out) + '\n')
    fired['binary_semaphore'] = rw.fired


def extract_nodes(ctx, sliced, fired):
    rw = Rewriter('wait nodes')
    out = []
    # wait_node::init / reset (base class)
    for nm, sig in (('init', r'virtual void init\(\) \{'), ('reset', r'virtual void reset\(\) \{')):
        s = slice_block(CM, sig, within=WNC)
        sliced.append('%s:%d wait_node::%s' % (CM, s.line, nm))
        t = rw.sub(s.text, sig, 'static void wait_node_%s(struct wait_node* self) {' % nm, 1, 1, name='sig')
        t = rw.fields(t, ['my_initialized', 'my_skipped_wakeup'], 0)
        t = rw.asserts(t, 0)
        t = rw.std(t)
        out.append(t)
    common.write(ctx, 'wait_node.inc', '\n'.join(out) + '\n')
    out = []
    if not re.search(r'binary_semaphore& semaphore\(\) \{ return \*sema\.begin\(\); \}', slice_block(CM, SNC).text):
        raise ExtractionBreak('sleep_node::semaphore() changed')

    def sn(sig, csig, nm):
        s = slice_block(CM, sig, within=SNC)
        sliced.append('%s:%d sleep_node::%s' % (CM, s.line, nm))
        t = rw.sub(s.text, sig, csig, 1, 1, name='sig')
        t = rw.this_arrow(t, 0)
        t = rw.sub(t, r'new \(sema\.begin\(\)\) binary_semaphore;', 'SEM_CTOR(SEMAPHORE(self));', 0, name='placement new -> constructor call')
        t = rw.sub(t, r'semaphore\(\)\.~binary_semaphore\(\);', 'SEM_DTOR(SEMAPHORE(self));', 0, name='explicit destructor call')
        t = rw.sub(t, r'semaphore\(\)\.P\(\);', 'SEM_P(SEMAPHORE(self));', 0, name='callee (binary_semaphore::P, jobs sem.*)')
        t = rw.sub(t, r'semaphore\(\)\.V\(\);', 'SEM_V(SEMAPHORE(self));', 0, name='callee (binary_semaphore::V, jobs sem.*)')
        t = rw.sub(t, r'base_type::(init|reset)\(\);', r'wait_node_\1(self);', 0, name='base-class method')
        t = rw.sub(t, r'throw_exception\(exception_id::user_abort\);', 'EXC_THROW(user_abort);', 0, name='throw -> pending-exception flag')
        t = rw.atomics(t, ['my_is_in_list'], 0)
        t = rw.asserts(t, 0)
        t = rw.std(t)
        t = rw.number_sites(t, 'sn' + nm, by_kind=True)
        out.append(t)
    sn(r'~sleep_node\(\) override \{', 'static void sleep_node_dtor(struct wait_node* self) {', 'dtor')
    sn(r'void init\(\) override \{', 'static void sleep_node_init(struct wait_node* self) {', 'init')
    sn(r'void wait\(\) override \{', 'static void sleep_node_wait(struct wait_node* self) {', 'wait')
    sn(r'void reset\(\) override \{', 'static void sleep_node_reset(struct wait_node* self) {', 'reset')
    sn(r'void notify\(\) override \{', 'static void sleep_node_notify(struct wait_node* self) {', 'notify')
    common.write(ctx, 'nodes.inc', '\n'.join(out) + '\n')
    # resume_node
    out = []
    RNC = r'class resume_node : public wait_node<market_context> \{'
    cls = slice_block(TCM, RNC).text
    if not re.search(r'std::atomic<int> my_notify_calls\{0\};', cls):
        raise ExtractionBreak('resume_node: my_notify_calls{0} changed')

    def rn(sig, csig, nm):
        s = slice_block(TCM, sig, within=RNC)
        sliced.append('%s:%d resume_node::%s' % (TCM, s.line, nm))
        t = rw.sub(s.text, sig, csig, 1, 1, name='sig')
        t = rw.this_arrow(t, 0)
        t = rw.sub(t, r'\+\+my_notify_calls\b', 'ATOMIC_PREINC(self->my_notify_calls)', 0, name='atomic ++')
        t = rw.sub(t, r'spin_wait_until_eq\(self->my_notify_calls, 1\);', 'SPIN_WAIT_UNTIL_EQ(self->my_notify_calls, 1);', 0, name='spin-wait')
        t = rw.sub(t, r'(?<![\w.>])my_notify_calls\.', 'self->my_notify_calls.', 0, name='field')
        t = rw.sub(t, r'r1::resume\(my_suspend_point\);', 'STUB_resume(self);', 0, name='callee stub (r1::resume: C20)')
        t = rw.sub(t, r'my_curr_dispatcher->resume\(\*my_target_dispatcher\);', 'STUB_switch_stack(self);', 0, name='callee stub (task_dispatcher::resume: stack switch, C20)')
        t = rw.sub(t, r'poison_pointer\(\w+\);', 'RG_NOP();', 0, name='poison -> RG_NOP')
        t = rw.sub(t, r'base_type::(init|reset)\(\);', r'wait_node_\1(RN_BASE(self));', 0, name='base-class method')
        t = rw.atomics(t, ['my_notify_calls', 'my_is_in_list'], 0)
        t = rw.asserts(t, 0)
        t = rw.std(t)
        t = rw.number_sites(t, 'rn' + nm, by_kind=True)
        out.append(t)
    rn(r'~resume_node\(\) override \{', 'static void resume_node_dtor(struct resume_node* self) {', 'dtor')
    rn(r'void init\(\) override \{', 'static void resume_node_init(struct resume_node* self) {', 'init')
    rn(r'void wait\(\) override \{', 'static void resume_node_wait(struct resume_node* self) {', 'wait')
    rn(r'void reset\(\) override \{', 'static void resume_node_reset(struct resume_node* self) {', 'reset')
    rn(r'void notify\(\) override \{', 'static void resume_node_notify(struct resume_node* self) {', 'notify')
    common.write(ctx, 'resume_node.inc', '\n'.join(out) + '\n')
    fired['wait nodes'] = rw.fired


# =====================================================================================================================
# address_waiter.cpp: the table of monitors keyed by address (jobs aw.*)
# =====================================================================================================================
def extract_aw(ctx, sliced, fired):
    rw = Rewriter('address_waiter')
    out = []
    st = slice_stmt(AW, r'static constexpr std::size_t num_address_waiters =')
    m = re.match(r'static constexpr std::size_t num_address_waiters = ([^;]*);', st.text)
    if not m:
        raise ExtractionBreak('address_waiter.cpp: num_address_waiters changed shape')
    common.write(ctx, 'aw_decl.inc', '#define num_address_waiters ((size_t)(%s))\n' % m.group(1))
    sliced.append('%s:%d num_address_waiters' % (AW, st.line))
    src = load(AW)
    for pat, what in ((r'static address_waiter address_waiter_table\[num_address_waiters\];', 'address_waiter_table'),
                      (r'class address_waiter : public concurrent_monitor_base<address_context> \{', 'address_waiter is a concurrent_monitor_base<address_context>'),
                      (r'using thread_context = sleep_node<address_context>;', 'address_waiter::thread_context is a sleep_node'),
                      (r'address_context\(void\* address, std::uintptr_t context\) :\s*my_address\(address\), my_context\(context\)\s*\{\}', 'address_context(address, context) constructor'),
                      (r'void\* my_address\{nullptr\};\s*std::uintptr_t my_context\{0\};', 'address_context members')):
        if not re.search(pat, src):
            raise ExtractionBreak('address_waiter.cpp: %s changed' % what)
    s = slice_block(AW, r'static address_waiter& get_address_waiter\(void\* address\)')
    sliced.append('%s:%d get_address_waiter' % (AW, s.line))
    ids = set(re.findall(r'[A-Za-z_]\w*', mask(s.text[s.text.find('{'):])))
    extra = ids - {'std', 'uintptr_t', 'tag', 'address', 'address_waiter_table', 'num_address_waiters', 'return', 'size_t'}
    if extra:
        raise ExtractionBreak('get_address_waiter reads something besides its argument (%s): the monitor must be a function of the address alone' % ', '.join(sorted(extra)))
    rw.fired['scan: get_address_waiter depends on the address only'] = 1
    t = rw.sub(s.text, r'static address_waiter& get_address_waiter\(void\* address\)', 'static struct address_waiter* get_address_waiter(void* address)', 1, 1, name='sig (reference result -> pointer)')
    t = rw.sub(t, r'return address_waiter_table\[(.*)\];', r'return &address_waiter_table[\1];', 1, 1, name='reference result -> pointer')
    t = rw.fcasts(t, ['std::uintptr_t'], 0)
    t = rw.std(t)
    out.append(t)
    s = slice_block(AW, r'void wait_on_address\(void\* address, d1::delegate_base& predicate, std::uintptr_t context\)')
    sliced.append('%s:%d wait_on_address' % (AW, s.line))
    t = rw.sub(s.text, r'void wait_on_address\(void\* address, d1::delegate_base& predicate, std::uintptr_t context\)', 'static void wait_on_address(void* address, struct delegate_base* predicate, uintptr_t context)', 1, 1, name='sig')
    t = rw.sub(t, r'address_waiter& waiter = get_address_waiter\(([^;]*)\);', r'struct address_waiter* waiter = GET_ADDRESS_WAITER(\1);', 1, 1, name='ref-local; callee get_address_waiter (job aw.table)')
    t = rw.sub(t, r'waiter\.wait<address_waiter::thread_context>\((\w+), address_context\{(\w+), (\w+)\}\);', r'STUB_monitor_wait(waiter, \1, (struct address_context){ \2, \3 });', 0, None,
               name='callee stub (concurrent_monitor_base::wait with a sleep_node built from the context: jobs mon.wait, node.sleep_node)')
    t = rw.std(t)
    out.append(t)
    for fn, callee in (('notify_by_address', 'notify_relaxed'), ('notify_by_address_one', 'notify_one_relaxed'), ('notify_by_address_all', 'notify_relaxed')):
        sig = r'void %s\(void\* address(, std::uintptr_t target_context)?\)' % fn
        s = slice_block(AW, sig)
        sliced.append('%s:%d %s (+ its predicate lambda)' % (AW, s.line, fn))
        lm = re.search(r'auto predicate = \[(?P<cap>[^\]]*)\] \(address_context ctx\) \{(?P<body>[^}]*)\};', s.text)
        if not lm:
            raise ExtractionBreak('%s: predicate lambda changed shape' % fn)
        caps = [c.strip() for c in lm.group('cap').split(',') if c.strip()]
        for c in caps:
            if c not in ('address', 'target_context'):
                raise ExtractionBreak('%s: lambda captures %s' % (fn, c))
        pb = rw.sub(lm.group('body'), r'\bctx\.', 'ctx.', 0, name='(identity)')
        out.append('static bool pred_%s(void* address, uintptr_t target_context, struct address_context ctx) {%s}' % (fn, pb))
        rw.fired['lambda -> function (captures become parameters)'] = rw.fired.get('lambda -> function (captures become parameters)', 0) + 1
        t = rw.sub(s.text, sig, 'static void %s(void* address%s)' % (fn, ', uintptr_t target_context' if fn == 'notify_by_address' else ''), 1, 1, name='sig')
        t = rw.sub(t, r'auto predicate = \[[^\]]*\] \(address_context ctx\) \{[^}]*\};', 'RG_NOP(); /* predicate lambda: sliced as pred_%s */' % fn, 1, 1, name='lambda definition (sliced as a function)')
        t = rw.sub(t, r'address_waiter& waiter = get_address_waiter\(([^;]*)\);', r'struct address_waiter* waiter = GET_ADDRESS_WAITER(\1);', 1, 1, name='ref-local; callee get_address_waiter (job aw.table)')
        t = rw.sub(t, r'waiter\.(notify_relaxed|notify_one_relaxed|notify|notify_one|notify_all|notify_all_relaxed)\(\s*predicate\s*\);',
                   r'STUB_monitor_\1(waiter, pred_%s, address, %s);' % (fn, 'target_context' if fn == 'notify_by_address' else '0'), 0, None,
                   name='callee stub (concurrent_monitor_base::notify*: jobs mon.notify_*) with the sliced predicate')
        t = rw.std(t)
        out.append(t)
    common.write(ctx, 'aw.inc', '\n'.join(out) + '\n')
    fired['address_waiter'] = rw.fired


# =====================================================================================================================
# users: rw_mutex (blocking side), tbb::mutex, waitable_atomic, adaptive_wait_on_address (jobs rwm.wake.*, mutex.*, watom.*)
# =====================================================================================================================
RWMC = r'class rw_mutex \{'
RWM_METHODS = [('try_lock', r'bool try_lock\(\)', 0), ('lock', r'void lock\(\)', 1), ('unlock', r'void unlock\(\)', 0), ('try_lock_shared', r'bool try_lock_shared\(\)', 0),
               ('lock_shared', r'void lock_shared\(\)', 1), ('unlock_shared', r'void unlock_shared\(\)', 0), ('upgrade', r'bool upgrade\(\)', 2), ('downgrade', r'void downgrade\(\)', 0)]


def extract_rwm(ctx, sliced, fired):
    rw = Rewriter('rw_mutex (blocking side)')
    cls = slice_block(RWM, RWMC).text
    decl = []
    if not re.search(r'using state_type = std::intptr_t;', cls) or not re.search(r'using context_type = std::uintptr_t;', cls):
        raise ExtractionBreak('rw_mutex.h: state_type / context_type changed')
    for nm, ty in (('WRITER', 'state_type'), ('WRITER_PENDING', 'state_type'), ('READERS', 'state_type'), ('ONE_READER', 'state_type'), ('BUSY', 'state_type'),
                   ('WRITER_CONTEXT', 'context_type'), ('READER_CONTEXT', 'context_type')):
        m = re.search(r'static constexpr %s %s = ([^;]*);' % (ty, nm), cls)
        if not m:
            raise ExtractionBreak('rw_mutex.h: constant %s not found' % nm)
        decl.append('#define %s ((%s)(%s))' % (nm, ty, m.group(1)))
    sliced.append('%s rw_mutex constants' % RWM)
    # sleeper classes: every adaptive_wait_on_address call with its predicate lambda and context
    classes = []
    body_all = mask(cls)
    nwaits = len(re.findall(r'adaptive_wait_on_address\(', body_all))
    out = []
    for name, sig, nloops in RWM_METHODS:
        s = slice_block(RWM, sig, within=RWMC)
        sliced.append('%s:%d rw_mutex::%s' % (RWM, s.line, name))
        t = s.text
        lm = re.search(r'auto wakeup_condition = \[&\] \{ return ([^;]*); \};', t)
        wm = re.search(r'adaptive_wait_on_address\(this, wakeup_condition, (\w+)\);', t)
        if bool(lm) != bool(wm):
            raise ExtractionBreak('rw_mutex::%s: wake-up lambda / adaptive_wait_on_address call changed shape' % name)
        if lm:
            pre = ''
            hm = re.search(r'state_type has_writer = [^;]*;', t)
            if 'has_writer' in lm.group(1):
                if not hm:
                    raise ExtractionBreak('rw_mutex::%s: has_writer declaration not found' % name)
                pre = hm.group(0) + ' '
            expr = lm.group(1)
            if len(re.findall(r'm_state\.load\(std::memory_order_relaxed\)', expr)) != 1:
                raise ExtractionBreak('rw_mutex::%s: wake-up condition no longer reads m_state once' % name)
            expr = expr.replace('m_state.load(std::memory_order_relaxed)', 's_')
            decl.append('static bool rwm_pred_%s(state_type s_) { %sreturn %s; }' % (name, pre, expr))
            decl.append('#define RWM_CTX_%s %s' % (name, wm.group(1)))
            classes.append(name)
            rw.fired['wake-up lambda -> function of the state word'] = rw.fired.get('wake-up lambda -> function of the state word', 0) + 1
        t = rw.sub(t, r'^(void|bool) (\w+)\(\)', r'static \1 rwm_\2(void)', 1, 1, name='sig')
        t = rw.sub(t, r'call_itt_notify\([^;]*\)[;,]', 'RG_NOP();', 0, name='itt->RG_NOP')
        t = rw.sub(t, r'auto wakeup_condition = \[&\] \{ return [^;]*; \};', 'RG_NOP(); /* wake-up condition: sliced as rwm_pred_%s */' % name, 0, name='lambda definition (sliced as a function)')
        t = rw.sub(t, r'adaptive_wait_on_address\(this, wakeup_condition, (\w+)\);', r'STUB_wait(THIS, rwm_pred_%s, \1);' % name, 0, name='callee stub (adaptive_wait_on_address: job watom.adaptive_wait)')
        t = rw.sub(t, r'r1::notify_by_address\(this, (\w+)\);', r'STUB_notify_by_address(THIS, \1);', 0, name='callee stub (notify_by_address: job aw.notify_by_address)')
        t = rw.sub(t, r'r1::notify_by_address_all\(this\);', r'STUB_notify_by_address_all(THIS);', 0, name='callee stub (notify_by_address_all)')
        t = rw.sub(t, r'r1::notify_by_address_one\(this\);', r'STUB_notify_by_address_one(THIS);', 0, name='callee stub (notify_by_address_one)')
        t = rw.asserts(t, 0)
        f = 'm_state'
        t = rw.sub(t, r'\b%s\.load\([^)]*\)' % f, 'ATOMIC_LOAD(%s)' % f, 0, name='atomic-load')
        t = rw.sub(t, r'\b%s\.compare_exchange_strong\((\w+),\s*([^;]*?)\)\)' % f, r'ATOMIC_CAS(%s, &\1, \2))' % f, 0, name='atomic-cas')
        t = rw.sub(t, r'\b%s\.fetch_add\(([^)]*)\)' % f, r'ATOMIC_FETCH_ADD(%s, \1)' % f, 0, name='atomic-fetch_add')
        t = rw.sub(t, r'\(%s &= ([^;]*)\);' % f, r'ATOMIC_AND_FETCH(%s, \1);' % f, 0, name='atomic-and-fetch')
        t = rw.sub(t, r'\(%s -= ([^;]*)\);' % f, r'ATOMIC_ADD_FETCH(%s, -(\1));' % f, 0, name='atomic-sub-fetch')
        t = rw.sub(t, r'\b%s \|= ([^;]*);' % f, r'ATOMIC_FETCH_OR(%s, \1);' % f, 0, name='atomic-or=')
        t = rw.sub(t, r'\b%s &= ([^;]*);' % f, r'ATOMIC_FETCH_AND(%s, \1);' % f, 0, name='atomic-and=')
        t = rw.sub(t, r'\b%s -= ([^;]*);' % f, r'ATOMIC_FETCH_ADD(%s, -(\1));' % f, 0, name='atomic--=')
        t = rw.sub(t, r'\b%s \+= ([^;]*);' % f, r'ATOMIC_FETCH_ADD(%s, \1);' % f, 0, name='atomic-+=')
        t = rw.sub(t, r'(?<![\w(,])\(m_state &', '(ATOMIC_LOAD(m_state) &', 0, name='implicit-load')
        t = rw.sub(t, r'!\(m_state &', '!(ATOMIC_LOAD(m_state) &', 0, name='implicit-load')
        t = rw.sub(t, r'(?<![\w.>])(unlock_shared|lock|try_lock|try_lock_shared)\(\)', r'rwm_\1()', 0, name='self-call')
        t = rw.sub(t, r'VERIF_ASSERT\(\(?ATOMIC_LOAD\(m_state\)[^;]*;', 'RG_NOP(); /* debug assertion on the state word: C08 */', 0, name='state assertions belong to C08')
        t = rw.sub(t, r'VERIF_ASSERT\(\(?m_state &[^;]*;', 'RG_NOP(); /* debug assertion on the state word: C08 */', 0, name='state assertions belong to C08')
        t = rw.sub(t, r'VERIF_ASSERT\(s & READERS[^;]*;', 'RG_NOP(); /* debug assertion on the state word: C08 */', 0, name='state assertions belong to C08')
        t = rw.number_sites(t, 'rwm_' + name, ops=('LOAD', 'CAS', 'FETCH_ADD', 'FETCH_OR', 'FETCH_AND', 'AND_FETCH', 'ADD_FETCH'), by_kind=True)
        t = tag_loops(t, 'rwm_' + name, rw)
        t = rw.std(t)
        out.append(t)
    if nwaits != len(classes):
        raise ExtractionBreak('rw_mutex.h: %d adaptive_wait_on_address calls but %d sleeper classes harvested' % (nwaits, len(classes)))
    decl.append('enum { ' + ', '.join('RWM_CLS_%s' % c for c in classes) + ', RWM_NCLS };')
    decl.append('static bool rwm_pred(int c, state_type s_) { ' + ' '.join('if (c == RWM_CLS_%s) return rwm_pred_%s(s_);' % (c, c) for c in classes) + ' return false; }')
    decl.append('static context_type rwm_ctx(int c) { ' + ' '.join('if (c == RWM_CLS_%s) return RWM_CTX_%s;' % (c, c) for c in classes) + ' return 0; }')
    protos = ['static bool rwm_try_lock(void);', 'static void rwm_lock(void);', 'static bool rwm_try_lock_shared(void);', 'static void rwm_unlock_shared(void);']
    common.write(ctx, 'rwm_decl.inc', '\n'.join(decl) + '\n')
    common.write(ctx, 'rwm_wake.inc', '\n'.join(protos + out) + '\n')
    ctx.rwm_classes = classes
    fired['rw_mutex (blocking side)'] = rw.fired


WAC = r'class waitable_atomic \{'
MXC = r'class mutex \{'


def extract_mutex(ctx, sliced, fired):
    rw = Rewriter('mutex / waitable_atomic')
    out = []
    if not re.search(r'std::atomic<T> my_atomic\{\};', slice_block(WA, WAC).text) or not re.search(r'waitable_atomic<bool> my_flag\{0\};', slice_block(MX, MXC).text):
        raise ExtractionBreak('waitable_atomic::my_atomic / mutex::my_flag changed')
    # adaptive_wait_on_address
    s = slice_block(WA, r'void adaptive_wait_on_address\(void\* address, Predicate wakeup_condition, std::uintptr_t context\)')
    sliced.append('%s:%d adaptive_wait_on_address' % (WA, s.line))
    t = rw.sub(s.text, r'void adaptive_wait_on_address\(void\* address, Predicate wakeup_condition, std::uintptr_t context\)', 'static void adaptive_wait_on_address(void* address, cond_fn wakeup_condition, uintptr_t context)', 1, 1, name='sig')
    t = rw.sub(t, r'timed_spin_wait_until\(wakeup_condition\)', 'STUB_timed_spin_wait_until(wakeup_condition)', 0, name='callee stub (bounded spinning on the condition)')
    t = rw.sub(t, r'd1::delegated_function<Predicate> pred\(wakeup_condition\);', 'cond_fn pred = wakeup_condition;', 0, name='delegated_function wrapper -> the function itself')
    t = rw.sub(t, r'r1::wait_on_address\(', 'STUB_wait_on_address(', 0, name='callee stub (wait_on_address: job aw.wait_on_address)')
    t = rw.std(t)
    out.append(t)
    # waitable_atomic<bool>
    for nm, sig, csig in (('exchange', r'T exchange\(T desired\) noexcept', 'static bool watom_exchange(struct waitable_atomic* self, bool desired)'),
                          ('load', r'T load\(std::memory_order order\) const noexcept', 'static bool watom_load(struct waitable_atomic* self)'),
                          ('notify_one_relaxed', r'void notify_one_relaxed\(\)', 'static void watom_notify_one_relaxed(struct waitable_atomic* self)'),
                          ('wait', r'void wait\(T old, std::uintptr_t context, std::memory_order order\)', 'static void watom_wait(struct waitable_atomic* self, bool old, uintptr_t context)')):
        s = slice_block(WA, sig, within=WAC)
        sliced.append('%s:%d waitable_atomic::%s' % (WA, s.line, nm))
        t = s.text
        if nm == 'wait':
            lm = re.search(r'auto wakeup_condition = \[&\] \{ return ([^;]*); \};', t)
            if not lm:
                raise ExtractionBreak('waitable_atomic::wait: wake-up lambda changed shape')
            c = 'static struct waitable_atomic* g_wc_self; static bool g_wc_old;\nstatic bool watom_wakeup_condition(void) { struct waitable_atomic* self = g_wc_self; bool old = g_wc_old; return %s; }' % lm.group(1)
            c = rw.sub(c, r'my_atomic\.load\(order\)', 'my_atomic.load()', 1, 1, name='memory order parameter dropped')
            c = rw.fields(c, ['my_atomic'], 1)
            c = rw.atomics(c, ['my_atomic'], 1)
            c = rw.number_sites(c, 'wcond', by_kind=True)
            out.append(c)
            t = rw.sub(t, r'auto wakeup_condition = \[&\] \{ return [^;]*; \};', 'g_wc_self = self; g_wc_old = old; /* wake-up lambda (captures by reference): sliced as watom_wakeup_condition */', 1, 1, name='lambda definition (sliced as a function)')
            t = rw.sub(t, r'timed_spin_wait_until\(wakeup_condition\)', 'STUB_timed_spin_wait_until(watom_wakeup_condition)', 0, name='callee stub (bounded spinning on the condition)')
            t = rw.sub(t, r'd1::delegated_function<decltype\(wakeup_condition\)> pred\(wakeup_condition\);', 'cond_fn pred = watom_wakeup_condition;', 0, name='delegated_function wrapper -> the function itself')
            t = rw.sub(t, r'!wakeup_condition\(\)', '!watom_wakeup_condition()', 0, name='lambda call')
        t = rw.sub(t, sig, csig, 1, 1, name='sig')
        t = rw.sub(t, r'my_atomic\.load\(order\)', 'my_atomic.load()', 0, name='memory order parameter dropped')
        t = rw.sub(t, r'r1::wait_on_address\(', 'STUB_wait_on_address(', 0, name='callee stub (wait_on_address)')
        t = rw.sub(t, r'r1::notify_by_address_one\(', 'STUB_notify_by_address_one(', 0, name='callee stub (notify_by_address_one)')
        t = rw.sub(t, r'\bthis\b', 'self', 0, name='this')
        t = rw.fields(t, ['my_atomic'], 0)
        t = rw.atomics(t, ['my_atomic'], 0)
        t = rw.std(t)
        t = rw.number_sites(t, 'wa_' + nm, by_kind=True)
        t = tag_loops(t, 'wa_' + nm, rw)
        out.append(t)
    out.append('static bool mutex_try_lock(struct mutex* self);')
    for nm, sig, csig in (('try_lock', r'bool try_lock\(\)', 'static bool mutex_try_lock(struct mutex* self)'), ('lock', r'void lock\(\)', 'static void mutex_lock(struct mutex* self)'),
                          ('unlock', r'void unlock\(\)', 'static void mutex_unlock(struct mutex* self)')):
        s = slice_block(MX, sig, within=MXC)
        sliced.append('%s:%d mutex::%s' % (MX, s.line, nm))
        t = rw.sub(s.text, sig, csig, 1, 1, name='sig')
        t = rw.sub(t, r'call_itt_notify\([^;]*\);', 'RG_NOP();', 0, name='itt->RG_NOP')
        t = rw.sub(t, r'my_flag\.load\(std::memory_order_relaxed\)', 'watom_load(&self->my_flag)', 0, name='waitable_atomic method')
        t = rw.sub(t, r'my_flag\.exchange\(([^)]*)\)', r'watom_exchange(&self->my_flag, \1)', 0, name='waitable_atomic method')
        t = rw.sub(t, r'my_flag\.wait\(([^,]*), (?:/\*[^*]*\*/\s*)?([^,]*), std::memory_order_relaxed\)', r'watom_wait(&self->my_flag, \1, \2)', 0, name='waitable_atomic method')
        t = rw.sub(t, r'my_flag\.notify_one_relaxed\(\)', 'watom_notify_one_relaxed(&self->my_flag)', 0, name='waitable_atomic method')
        t = rw.sub(t, r'(?<![\w.>])try_lock\(\)', 'mutex_try_lock(self)', 0, name='method')
        t = rw.std(t)
        t = tag_loops(t, 'mx_' + nm, rw)
        out.append(t)
    common.write(ctx, 'mutex.inc', '\n'.join(out) + '\n')
    fired['mutex / waitable_atomic'] = rw.fired


# =====================================================================================================================
# the arena's EMPTY/FULL word against threads that sleep in the waiting-threads monitor (jobs arena.*)
# =====================================================================================================================
AFC = r'class atomic_flag\b'
ARC = r'class arena\s*:'


def extract_arena(ctx, sliced, fired):
    rw = Rewriter('arena sleep/wake')
    out = []
    defs = []
    for nm in ('SET', 'UNSET'):
        st = slice_stmt(AH, r'static const std::uintptr_t %s\s*=' % nm)
        m = re.search(r'%s\s*=\s*(\d+)\s*;' % nm, st.text)
        if not m:
            raise ExtractionBreak('atomic_flag::%s is no longer an integer literal' % nm)
        defs.append('#define FLAG_%s ((uintptr_t)%s)' % (nm, m.group(1)))
    if not re.search(r'std::atomic<std::uintptr_t> my_state\{UNSET\};', slice_block(AH, AFC).text):
        raise ExtractionBreak('atomic_flag::my_state{UNSET} changed')
    st = slice_stmt(TASKH, r'static constexpr std::uint64_t overflow_mask =')
    m = re.match(r'static constexpr std::uint64_t overflow_mask = ([^;]*);', st.text)
    if not m:
        raise ExtractionBreak('wait_context::overflow_mask changed shape')
    defs.append('#define overflow_mask ((uint64_t)(%s))' % m.group(1))
    common.write(ctx, 'arena_decl.inc', '\n'.join(defs) + '\n')

    def flagfn(sig, csig, nm, short):
        s = slice_block(AH, sig, within=AFC)
        sliced.append('%s:%d atomic_flag::%s' % (AH, s.line, nm))
        t = rw.sub(s.text, sig, csig, 1, 1, name='sig')
        t = rw.sub(t, r'(?<![\w.>:])pred\(\)', 'pred(parg)', 0, name='predicate object -> function pointer + argument')
        t = rw.sub(t, r'my_state\.load\(order\)', 'my_state.load()', 0, name='memory order parameter dropped')
        t = rw.atomics(t, ['my_state'], 0)
        t = rw.fields(t, ['my_state'], 0)
        t = rw.sub(t, r'\b(SET|UNSET)\b', r'FLAG_\1', 0, name='class constant -> macro')
        t = rw.sub(t, r'__TBB_fallthrough;', 'RG_NOP();', 0, name='[[fallthrough]] -> RG_NOP()')
        t = rw.std(t)
        t = rw.fcasts(t, ['uintptr_t'], 0)
        t = rw.number_sites(t, short, by_kind=True)
        out.append(t)
    flagfn(r'bool test_and_set\(\)', 'static bool flag_test_and_set(struct atomic_flag* self)', 'test_and_set', 'tas')
    flagfn(r'bool try_clear_if\(Pred&& pred\)', 'static bool flag_try_clear_if(struct atomic_flag* self, bool (*pred)(struct arena_w*), struct arena_w* parg)', 'try_clear_if', 'tci')
    flagfn(r'bool test\(std::memory_order order = std::memory_order_acquire\)', 'static bool flag_test(struct atomic_flag* self)', 'test', 'tst')
    st = slice_block(AH, r'enum new_work_type', within=ARC)
    sliced.append('%s:%d arena::new_work_type' % (AH, st.line))
    out.append(st.text + ';')
    s = slice_block(AH, r'bool is_arena_workerless\(\) const', within=ARC)
    t = rw.sub(s.text, r'bool is_arena_workerless\(\) const', 'static bool arena_is_arena_workerless(struct arena_w* self)', 1, 1, name='sig')
    out.append(rw.fields(t, ['my_max_num_workers'], 1))
    s = slice_block(AH, r'bool is_empty\(\)', within=ARC)
    sliced.append('%s:%d arena::is_empty' % (AH, s.line))
    t = rw.sub(s.text, r'bool is_empty\(\)', 'static bool arena_is_empty(struct arena_w* self)', 1, 1, name='sig')
    t = rw.sub(t, r'my_pool_state\.test\(\)', 'flag_test(&self->my_pool_state)', 1, 1, name='method')
    out.append(rw.std(t))
    # request_workers (+ its predicate)
    s = slice_block(AC, r'void arena::request_workers\(int mandatory_delta, int workers_delta, bool wakeup_threads\)')
    sliced.append('%s:%d arena::request_workers (+ its predicate lambda)' % (AC, s.line))
    lm = re.search(r'get_waiting_threads_monitor\(\)\.(\w+)\(\[&\] \(market_context context\) \{(?P<body>[^}]*)\}\);', s.text)
    if not lm:
        raise ExtractionBreak('arena::request_workers: notification with a market_context predicate changed shape')
    pb = rw.sub(lm.group('body'), r'\bthis\b', 'self', 1, name='this')
    out.append('static bool request_workers_pred(struct arena_w* self, struct market_context context) {%s}' % pb)
    t = rw.sub(s.text, r'void arena::request_workers\(int mandatory_delta, int workers_delta, bool wakeup_threads\)', 'static void arena_request_workers(struct arena_w* self, int mandatory_delta, int workers_delta, bool wakeup_threads)', 1, 1, name='sig')
    t = rw.sub(t, r'my_threading_control->adjust_demand\(my_tc_client, mandatory_delta, workers_delta\);', 'STUB_adjust_demand(self, mandatory_delta, workers_delta);', 0, name='callee stub (threading_control::adjust_demand: C16)')
    t = rw.sub(t, r'get_waiting_threads_monitor\(\)\.(\w+)\(\[&\] \(market_context context\) \{[^}]*\}\);', r'STUB_monitor_\1(ARENA_MONITOR(self), request_workers_pred, self);', 0, name='callee stub (thread_control_monitor::notify: jobs mon.notify_*) with the sliced predicate')
    out.append(rw.std(t))
    # advertise_new_work
    s = slice_block(AH, r'void arena::advertise_new_work\(\)')
    sliced.append('%s:%d arena::advertise_new_work<work_type>' % (AH, s.line))
    t = rw.sub(s.text, r'void arena::advertise_new_work\(\)', 'static void arena_advertise_new_work(struct arena_w* self, const enum new_work_type work_type)', 1, 1, name='sig + template parameter -> parameter')
    t = rw.sub(t, r'atomic_fence_seq_cst\(\);', 'FENCE_SEQ_CST();', 0, name='full fence (SC assumed)')
    t = rw.sub(t, r'\bmy_pool_state\.test_and_set\(\)', 'flag_test_and_set(&self->my_pool_state)', 0, name='method (real code, inlined)')
    t = rw.sub(t, r'\bmy_mandatory_concurrency\.test_and_set\(\)', 'STUB_mandatory_test_and_set(self)', 0, name='callee stub (the mandatory-concurrency flag concerns worker demand: C16)')
    t = rw.fields(t, ['my_num_slots', 'my_num_reserved_slots', 'my_max_num_workers'], 1)
    t = rw.sub(t, r'(?<![\w.>:])is_arena_workerless\(\)', 'arena_is_arena_workerless(self)', 0, name='method')
    t = rw.sub(t, r'(?<![\w.>:])request_workers\(', 'REQUEST_WORKERS(self, ', 0, name='method (wrapped: the harness records the call, then runs the sliced arena::request_workers)')
    out.append(rw.std(t))
    # out_of_work (+ its two predicates)
    s = slice_block(AC, r'void arena::out_of_work\(\)')
    sliced.append('%s:%d arena::out_of_work (+ its predicate lambdas)' % (AC, s.line))
    t = s.text
    for fld in ('my_mandatory_concurrency', 'my_pool_state'):
        lm = re.search(r'\b%s\.try_clear_if\(\[this\] \{ return ([^;]*); \}\)' % fld, t)
        if not lm:
            raise ExtractionBreak('arena::out_of_work: try_clear_if on %s changed shape' % fld)
        e = lm.group(1)
        e = rw.sub(e, r'(?<![\w.>:])has_enqueued_tasks\(\)', 'STUB_has_enqueued_tasks(self)', 0, name='callee stub: fifo stream not empty')
        e = rw.sub(e, r'(?<![\w.>:])has_tasks\(\)', 'STUB_has_tasks(self)', 0, name='callee stub: any slot / stream holds a task (C16 empty.has_tasks)')
        out.append('static bool out_of_work_pred_%s(struct arena_w* self) { return %s; }' % (fld, e))
    t = rw.sub(t, r'void arena::out_of_work\(\)', 'static void arena_out_of_work(struct arena_w* self)', 1, 1, name='sig')
    t = rw.sub(t, r'\bmy_pool_state\.try_clear_if\(\[this\] \{ return [^;]*; \}\)', 'flag_try_clear_if(&self->my_pool_state, out_of_work_pred_my_pool_state, self)', 0, name='method (real code, inlined) with the sliced predicate')
    t = rw.sub(t, r'\bmy_mandatory_concurrency\.try_clear_if\(\[this\] \{ return [^;]*; \}\)', 'STUB_mandatory_try_clear_if(self, out_of_work_pred_my_mandatory_concurrency)', 0, name='callee stub (mandatory flag: C16)')
    t = rw.fields(t, ['my_max_num_workers'], 1)
    t = rw.sub(t, r'(?<![\w.>:])is_arena_workerless\(\)', 'arena_is_arena_workerless(self)', 0, name='method')
    t = rw.sub(t, r'(?<![\w.>:])request_workers\(([^;]*)\);', r'REQUEST_WORKERS(self, \1, false); /* default argument wakeup_threads = false */', 0, name='method + default argument')
    if not re.search(r'void request_workers\(int mandatory_delta, int workers_delta, bool wakeup_threads = false\);', load(AH)):
        raise ExtractionBreak('arena::request_workers default argument changed')
    out.append(rw.std(t))
    common.write(ctx, 'arena.inc', '\n'.join(out) + '\n')
    # ---- the sleepers: waiter_base::pause, sleep_waiter::sleep, external_waiter::pause, coroutine_waiter::pause --------------------
    out = []
    s = slice_block(WH, r'bool pause\(\)', within=r'class waiter_base \{')
    sliced.append('%s:%d waiter_base::pause' % (WH, s.line))
    t = rw.sub(s.text, r'bool pause\(\)', 'static bool waiter_base_pause(struct waiter* self)', 1, 1, name='sig')
    t = rw.sub(t, r'my_backoff\.pause\(\)', 'STUB_backoff_pause(self)', 1, 1, name='callee stub (stealing_loop_backoff::pause: spin/yield counters)')
    t = rw.sub(t, r'my_arena\.out_of_work\(\);', 'STUB_out_of_work(self->my_arena);', 0, name='callee (arena::out_of_work: job arena.out_of_work)')
    out.append(rw.std(t))
    s = slice_block(WH, r'void sleep\(std::uintptr_t uniq_tag, Pred wakeup_condition\)', within=r'class sleep_waiter : public waiter_base \{')
    sliced.append('%s:%d sleep_waiter::sleep' % (WH, s.line))
    t = rw.sub(s.text, r'void sleep\(std::uintptr_t uniq_tag, Pred wakeup_condition\)', 'static void sleep_waiter_sleep(struct waiter* self, uintptr_t uniq_tag, wcond_fn wakeup_condition)', 1, 1, name='sig')
    t = rw.sub(t, r'my_arena\.get_waiting_threads_monitor\(\)\.wait<thread_control_monitor::thread_context>\(wakeup_condition,\s*market_context\{([^{}]*)\}\);',
               r'STUB_monitor_wait(ARENA_MONITOR(self->my_arena), wakeup_condition, self, (struct market_context){ \1 });', 0, None,
               name='callee stub (thread_control_monitor::wait with a sleep_node built from the context: job mon.wait)')
    t = rw.sub(t, r'&my_arena\b', 'self->my_arena', 0, name='reference member -> pointer')
    t = rw.sub(t, r'(?<![\w.>:])reset_wait\(\);', 'STUB_reset_wait(self);', 0, name='callee stub (backoff counters)')
    out.append(rw.std(t))
    for cls, nm, cond_pat in ((r'class external_waiter : public sleep_waiter \{', 'external_waiter', None), (r'class coroutine_waiter : public sleep_waiter \{', 'coroutine_waiter', None)):
        s = slice_block(WH, r'void pause\(arena_slot&(?: slot)?\)', within=cls)
        sliced.append('%s:%d %s::pause (+ its wake-up lambda)' % (WH, s.line, nm))
        t = s.text
        lm = re.search(r'auto wakeup_condition = \[&\] \{ return ([^;]*); \};', t)
        if not lm:
            raise ExtractionBreak('%s::pause: wake-up lambda changed shape' % nm)
        e = lm.group(1)
        e = rw.sub(e, r'my_arena\.is_empty\(\)', 'ARENA_IS_EMPTY(self->my_arena)', 0, name='method (arena::is_empty, sliced)')
        e = rw.sub(e, r'my_wait_ctx\.continue_execution\(\)', 'WAIT_CTX_CONTINUE(self->my_wait_ctx)', 0, name='method (wait_context::continue_execution, sliced)')
        e = rw.sub(e, r'sp->m_is_owner_recalled\.load\(std::memory_order_relaxed\)', 'OWNER_RECALLED(self->sp)', 0, name='atomic load')
        out.append('static bool %s_wakeup_condition(struct waiter* self) { return %s; }' % (nm, e))
        t = rw.sub(t, r'void pause\(arena_slot&(?: slot)?\)', 'static void %s_pause(struct waiter* self)' % nm, 1, 1, name='sig')
        t = rw.sub(t, r'sleep_waiter::pause\(\)', 'waiter_base_pause(self)', 1, 1, name='base-class method')
        t = rw.sub(t, r'auto wakeup_condition = \[&\] \{ return [^;]*; \};', 'RG_NOP(); /* wake-up lambda: sliced as %s_wakeup_condition */' % nm, 1, 1, name='lambda definition (sliced as a function)')
        t = rw.sub(t, r'suspend_point_type\* sp = slot\.default_task_dispatcher\(\)\.m_suspend_point;', 'struct suspend_point* sp = self->sp = SLOT_SUSPEND_POINT(self);', 0, name='field path')
        t = rw.sub(t, r'(?<![\w.>:])sleep\(std::uintptr_t\(([^()]*)\), wakeup_condition\);', r'sleep_waiter_sleep(self, ((uintptr_t)(\1)), %s_wakeup_condition);' % nm, 0, name='method')
        t = rw.sub(t, r'&my_wait_ctx\b', 'self->my_wait_ctx', 0, name='reference member -> pointer')
        t = rw.sub(t, r'&my_arena\b', 'self->my_arena', 0, name='reference member -> pointer')
        out.append(rw.std(t))
    common.write(ctx, 'waiters.inc', '\n'.join(out) + '\n')
    # ---- wait_context::add_reference / continue_execution, r1::notify_waiters ------------------------------------------------------
    out = []
    WCC = r'class wait_context \{'
    s = slice_block(TASKH, r'bool continue_execution\(\) const', within=WCC)
    sliced.append('%s:%d wait_context::continue_execution' % (TASKH, s.line))
    t = rw.sub(s.text, r'bool continue_execution\(\) const', 'static bool wait_context_continue_execution(struct wait_context* self)', 1, 1, name='sig')
    t = rw.fields(t, ['m_ref_count'], 1)
    t = rw.atomics(t, ['m_ref_count'], 1)
    t = rw.sub(t, r'__TBB_ASSERT_EX\(', '__TBB_ASSERT(', 0, name='assert_ex')
    t = rw.asserts(t, 0)
    t = rw.std(t)
    out.append(rw.number_sites(t, 'wce', by_kind=True))
    s = slice_block(TASKH, r'void add_reference\(std::int64_t delta\)', within=WCC)
    sliced.append('%s:%d wait_context::add_reference' % (TASKH, s.line))
    t = rw.sub(s.text, r'void add_reference\(std::int64_t delta\)', 'static void wait_context_add_reference(struct wait_context* self, int64_t delta)', 1, 1, name='sig')
    t = rw.sub(t, r'call_itt_task_notify\([^;]*\);', 'RG_NOP();', 0, name='itt->RG_NOP')
    t = rw.fields(t, ['m_ref_count'], 1)
    t = rw.atomics(t, ['m_ref_count'], 1)
    t = rw.sub(t, r'std::uintptr_t\(this\)', '((uintptr_t)(self))', 0, name='fcast + this')
    t = rw.sub(t, r'r1::notify_waiters\(', 'STUB_notify_waiters(', 0, name='callee (r1::notify_waiters, sliced below)')
    t = rw.sub(t, r'__TBB_ASSERT_EX\(', '__TBB_ASSERT(', 0, name='assert_ex')
    t = rw.asserts(t, 0)
    t = rw.casts(t, 0)
    t = rw.std(t)
    out.append(rw.number_sites(t, 'wca', by_kind=True))
    s = slice_block(TK, r'void notify_waiters\(std::uintptr_t wait_ctx_addr\)')
    sliced.append('%s:%d r1::notify_waiters (+ its predicate lambda)' % (TK, s.line))
    lm = re.search(r'auto is_related_wait_ctx = \[&\] \(market_context context\) \{(?P<body>[^}]*)\};', s.text)
    if not lm:
        raise ExtractionBreak('notify_waiters: predicate lambda changed shape')
    out.append('static bool notify_waiters_pred(uintptr_t wait_ctx_addr, struct market_context context) {%s}' % lm.group('body'))
    t = rw.sub(s.text, r'void notify_waiters\(std::uintptr_t wait_ctx_addr\)', 'static void notify_waiters(uintptr_t wait_ctx_addr)', 1, 1, name='sig')
    t = rw.sub(t, r'auto is_related_wait_ctx = \[&\] \(market_context context\) \{[^}]*\};', 'RG_NOP(); /* predicate lambda: sliced as notify_waiters_pred */', 1, 1, name='lambda definition (sliced as a function)')
    t = rw.sub(t, r'governor::get_thread_data\(\)->my_arena->get_waiting_threads_monitor\(\)\.(\w+)\(is_related_wait_ctx\);', r'STUB_monitor_\1_wc(CURRENT_ARENA_MONITOR(), notify_waiters_pred, wait_ctx_addr);', 0,
               name='callee stub (thread_control_monitor::notify) with the sliced predicate')
    out.append(rw.std(t))
    common.write(ctx, 'wait_context.inc', '\n'.join(out) + '\n')
    # every arena of one threading_control shares ONE waiting-threads monitor
    if not re.search(r'thread_control_monitor& arena::get_waiting_threads_monitor\(\) \{\s*return my_threading_control->get_waiting_threads_monitor\(\);\s*\}', load(AC)):
        raise ExtractionBreak('arena::get_waiting_threads_monitor no longer forwards to its threading_control')
    fired['arena sleep/wake'] = rw.fired


# =====================================================================================================================
# concurrent_monitor_mutex: the mutex that protects the wait set (jobs mmutex.*)
# =====================================================================================================================
MMX = 'src/tbb/concurrent_monitor_mutex.h'
MMXC = r'class concurrent_monitor_mutex \{'


def extract_mmutex(ctx, sliced, fired):
    rw = Rewriter('concurrent_monitor_mutex')
    out = []
    cls = cxx2c.cpp_resolve(slice_block(MMX, MMXC).text, MACROS, 'concurrent_monitor_mutex')
    for pat, what in ((r'std::atomic<int> my_flag\{0\};', 'my_flag{0}'), (r'std::atomic<int> my_waiters\{0\};', 'my_waiters{0}'), (r'using scoped_lock = std::lock_guard<concurrent_monitor_mutex>;', 'scoped_lock = lock_guard')):
        if not re.search(pat, cls):
            raise ExtractionBreak('concurrent_monitor_mutex: %s changed' % what)
    for nm, sig in (('wait', r'void wait\(\) \{'), ('wakeup', r'void wakeup\(\) \{'), ('lock', r'void lock\(\) \{'), ('unlock', r'void unlock\(\) \{')):
        s = slice_block(MMX, sig, within=MMXC)
        sliced.append('%s:%d concurrent_monitor_mutex::%s' % (MMX, s.line, nm))
        t = cxx2c.cpp_resolve(s.text, MACROS, 'concurrent_monitor_mutex::' + nm)
        if nm == 'lock':
            lm = re.search(r'auto wakeup_condition = \[&\] \{\s*return ([^;]*);\s*\};', t)
            if not lm:
                raise ExtractionBreak('concurrent_monitor_mutex::lock: wake-up lambda changed shape')
            c = 'static bool mmx_wakeup_condition(struct mmutex* self) { return %s; }' % lm.group(1)
            c = rw.fields(c, ['my_flag'], 1)
            c = rw.atomics(c, ['my_flag'], 1)
            out.append(rw.number_sites(c, 'mmxcond', by_kind=True))
            t = rw.sub(t, r'auto wakeup_condition = \[&\] \{\s*return [^;]*;\s*\};', 'RG_NOP(); /* wake-up lambda: sliced as mmx_wakeup_condition */', 1, 1, name='lambda definition (sliced as a function)')
            t = rw.sub(t, r'timed_spin_wait_until\(wakeup_condition\)', 'STUB_timed_spin_wait_until(self)', 0, name='callee stub (bounded spinning on the condition)')
            t = rw.sub(t, r'(?<![\w.>:])wakeup_condition\(\)', 'mmx_wakeup_condition(self)', 0, name='lambda call')
        t = rw.sub(t, sig, 'static void mmx_%s(struct mmutex* self) {' % nm, 1, 1, name='sig')
        t = rw.sub(t, r'\+\+my_waiters;', 'ATOMIC_PREINC(my_waiters);', 0, name='atomic ++')
        t = rw.sub(t, r'--my_waiters;', 'ATOMIC_PREDEC(my_waiters);', 0, name='atomic --')
        t = rw.sub(t, r'futex_wait\(&my_flag, (\w+)\);', r'STUB_futex_wait(&self->my_flag, \1);', 0, name='callee stub (futex syscall)')
        t = rw.sub(t, r'futex_wakeup_one\(&my_flag\);', 'STUB_futex_wakeup_one(&self->my_flag);', 0, name='callee stub (futex syscall)')
        t = rw.sub(t, r'(?<![\w.>:])(wait|wakeup)\(\);', r'mmx_\1(self);', 0, name='method')
        t = rw.fields(t, ['my_flag', 'my_waiters'], 0)
        t = rw.atomics(t, ['my_flag', 'my_waiters'], 0)
        t = rw.std(t)
        t = rw.number_sites(t, 'mmx' + nm, by_kind=True)
        t = tag_loops(t, 'mmx' + nm, rw)
        out.append(t)
    common.write(ctx, 'mmutex.inc', '\n'.join(out) + '\n')
    fired['concurrent_monitor_mutex'] = rw.fired


# =====================================================================================================================
# rml::internal::thread_monitor (the per-worker sleep object of private_server) (jobs rml.*)
# =====================================================================================================================
RTM = 'src/tbb/rml_thread_monitor.h'


def extract_rml(ctx, sliced, fired):
    rw = Rewriter('rml thread_monitor')
    out = []
    if not re.search(r'std::atomic<bool> my_notified\{ false \};\s*binary_semaphore my_sema;', load(RTM)):
        raise ExtractionBreak('thread_monitor members my_notified{false}, my_sema changed')
    for nm in ('notify', 'wait'):
        s = slice_block(RTM, r'inline void thread_monitor::%s\(\)' % nm)
        sliced.append('%s:%d rml::internal::thread_monitor::%s' % (RTM, s.line, nm))
        t = rw.sub(s.text, r'inline void thread_monitor::%s\(\)' % nm, 'static void thread_monitor_%s(struct thread_monitor* self)' % nm, 1, 1, name='sig')
        t = rw.sub(t, r'my_sema\.V\(\);', 'SEM_V(&self->my_sema);', 0, name='callee (binary_semaphore::V, job sem.V)')
        t = rw.sub(t, r'my_sema\.P\(\);', 'SEM_P(&self->my_sema);', 0, name='callee (binary_semaphore::P, job sem.P)')
        t = rw.fields(t, ['my_notified'], 0)
        t = rw.atomics(t, ['my_notified'], 0)
        t = rw.std(t)
        out.append(rw.number_sites(t, 'tm' + nm, by_kind=True))
    common.write(ctx, 'rml.inc', '\n'.join(out) + '\n')
    fired['rml thread_monitor'] = rw.fired


def extract(ctx):
    sliced, fired = [], {}
    extract_list(ctx, sliced, fired)
    extract_sleeper(ctx, sliced, fired)
    extract_notifier(ctx, sliced, fired)
    extract_sem(ctx, sliced, fired)
    extract_nodes(ctx, sliced, fired)
    extract_aw(ctx, sliced, fired)
    extract_rwm(ctx, sliced, fired)
    extract_mutex(ctx, sliced, fired)
    extract_arena(ctx, sliced, fired)
    extract_mmutex(ctx, sliced, fired)
    extract_rml(ctx, sliced, fired)
    return sliced, fired


def build(ctx):
    sliced, fired = extract(ctx)
    C = os.path.join(HERE, 'c02.c')
    jobs = [
        Job('list.ctor', C, 'h_list_ctor', route='LF', defines=['LIST'], target='circular_doubly_linked_list_with_sentinel constructor, size, empty, front, last, end', source=CM),
        Job('list.access', C, 'h_list_access', route='LF', defines=['LIST'], target='circular_doubly_linked_list_with_sentinel::size / empty / front / last / end', source=CM),
        Job('list.add', C, 'h_list_add', route='LF', defines=['LIST'], target='circular_doubly_linked_list_with_sentinel::add', source=CM),
        Job('list.remove', C, 'h_list_remove', route='LF', defines=['LIST'], target='circular_doubly_linked_list_with_sentinel::remove', source=CM),
        Job('list.clear', C, 'h_list_clear', route='LF', defines=['LIST'], target='circular_doubly_linked_list_with_sentinel::clear', source=CM),
        Job('list.flush_to', C, 'h_list_flush_to', route='LF', defines=['LIST'], target='circular_doubly_linked_list_with_sentinel::flush_to (+ clear, size)', source=CM),
        Job('mon.prepare_wait', C, 'h_prepare_wait', route='RG', defines=['MON_S'], target='concurrent_monitor_base::prepare_wait (own node, against any number of notifiers)', source=CM),
        Job('mon.commit_wait', C, 'h_commit_wait', route='RG', defines=['MON_S'], target='concurrent_monitor_base::commit_wait (+ cancel_wait)', source=CM),
        Job('mon.cancel_wait', C, 'h_cancel_wait', route='RG', defines=['MON_S'], target='concurrent_monitor_base::cancel_wait', source=CM),
        Job('mon.wait', C, 'h_wait', route='RG', defines=['MON_S'], loops=True, nloops=1, target='concurrent_monitor_base::wait<NodeType, Pred> + guarded_call + prepare_wait + commit_wait + cancel_wait', source=CM),
        Job('mon.notify_one_relaxed', C, 'h_notify_one', route='RG', defines=['MON_N', 'WANT_n1'], target='concurrent_monitor_base::notify_one_relaxed()', source=CM),
        Job('mon.notify_all_relaxed', C, 'h_notify_all', route='LC', defines=['MON_N', 'WANT_nall'], loops=True, nloops=2, target='concurrent_monitor_base::notify_all_relaxed (any number of sleepers)', source=CM),
        Job('mon.abort_all_relaxed', C, 'h_notify_all', route='LC', defines=['MON_N', 'WANT_abort'], loops=True, nloops=2, target='concurrent_monitor_base::abort_all_relaxed (any number of sleepers)', source=CM),
        Job('mon.notify_relaxed', C, 'h_notify_pred', route='LC', defines=['MON_N', 'WANT_npred'], loops=True, nloops=2, target='concurrent_monitor_base::notify_relaxed(predicate) (any number of sleepers)', source=CM),
        Job('mon.notify_one_relaxed_pred', C, 'h_notify_one_pred', route='LC', defines=['MON_N', 'WANT_n1pred'], loops=True, nloops=1, target='concurrent_monitor_base::notify_one_relaxed(predicate) (any number of sleepers)', source=CM),
        Job('mon.fenced_wrappers', C, 'h_wrappers', route='LF', defines=['MON_W'], target='concurrent_monitor_base::notify_one / notify_all / notify(predicate) / abort_all', source=CM),
        Job('sem.ctor', C, 'h_sem_ctor', route='LF', defines=['SEM', 'SEM_P_SIDE'], target='binary_semaphore::binary_semaphore (futex)', source=SEM),
        Job('sem.P', C, 'h_sem_P', route='RG', defines=['SEM', 'SEM_P_SIDE'], loops=True, nloops=1, target='binary_semaphore::P (futex) against any number of V', source=SEM),
        Job('sem.V', C, 'h_sem_V', route='RG', defines=['SEM'], target='binary_semaphore::V (futex) against the P of the owner', source=SEM),
        Job('node.sleep_node', C, 'h_sleep_node', route='LF', defines=['NODES'], target='sleep_node::init / wait / reset / notify / ~sleep_node + wait_node::init / reset', source=CM),
        Job('node.resume_node.notify', C, 'h_resume_notify', route='RG', defines=['RESUME'], target='resume_node::notify (two-party hand-shake on my_notify_calls)', source=TCM),
        Job('node.resume_node.reset', C, 'h_resume_reset', route='RG', defines=['RESUME'], target='resume_node::reset / ~resume_node (skipped wake-up)', source=TCM),
        Job('aw.table', C, 'h_aw_table', route='LF', defines=['AW'], target='get_address_waiter (hash of the address into the table of monitors)', source=AW, timeout=120),
        Job('aw.wait_on_address', C, 'h_aw_wait', route='LF', defines=['AW'], target='wait_on_address', source=AW),
        Job('aw.notify_by_address', C, 'h_aw_notify', route='LF', defines=['AW'], target='notify_by_address / notify_by_address_one / notify_by_address_all + their predicates', source=AW),
        Job('mutex.unlock', C, 'h_mutex_unlock', route='RG', defines=['MUTEXW'], target='mutex::unlock (+ waitable_atomic::exchange, notify_one_relaxed)', source=MX),
        Job('mutex.lock', C, 'h_mutex_lock', route='RG', defines=['MUTEXW'], loops=True, nloops=2, target='mutex::lock + try_lock (+ waitable_atomic::wait, load, exchange)', source=MX),
        Job('watom.wait', C, 'h_watom_wait', route='RG', defines=['MUTEXW'], loops=True, nloops=1, target='waitable_atomic<bool>::wait', source=WA),
        Job('watom.notify_one_relaxed', C, 'h_watom_notify', route='LF', defines=['MUTEXW'], target='waitable_atomic::notify_one_relaxed', source=WA),
        Job('watom.adaptive_wait', C, 'h_adaptive_wait', route='LF', defines=['MUTEXW'], target='adaptive_wait_on_address', source=WA),
        Job('arena.advertise_new_work', C, 'h_arena_advertise', route='RG', defines=['ARENA', 'ARENA_PUB'], target='arena::advertise_new_work<work_type> + atomic_flag::test_and_set + arena::request_workers, against snapshot takers and other advertisers', source=AH),
        Job('arena.out_of_work', C, 'h_arena_out_of_work', route='RG', defines=['ARENA', 'ARENA_CLR'], target='arena::out_of_work + atomic_flag::try_clear_if, against advertisers and other snapshot takers', source=AC),
        Job('arena.sleepers', C, 'h_arena_sleepers', route='LF', defines=['ARENA', 'ARENA_SLEEP'], target='external_waiter::pause / coroutine_waiter::pause + sleep_waiter::sleep + waiter_base::pause + arena::is_empty + atomic_flag::test', source=WH),
        Job('arena.wait_context', C, 'h_wait_context', route='LF', defines=['ARENA', 'ARENA_SLEEP'], target='wait_context::add_reference / continue_execution + r1::notify_waiters', source=TASKH),
        Job('mmutex.lock', C, 'h_mmutex_lock', route='RG', defines=['MMUTEX'], loops=True, nloops=2, target='concurrent_monitor_mutex::lock + wait', source=MMX),
        Job('mmutex.unlock', C, 'h_mmutex_unlock', route='RG', defines=['MMUTEX'], target='concurrent_monitor_mutex::unlock + wakeup', source=MMX),
        Job('rml.thread_monitor.notify', C, 'h_tm_notify', route='RG', defines=['RML', 'RML_NOTIFY'], target='rml::internal::thread_monitor::notify against the sleeping worker and other notifiers', source=RTM),
        Job('rml.thread_monitor.wait', C, 'h_tm_wait', route='RG', defines=['RML'], target='rml::internal::thread_monitor::wait against any number of notifiers', source=RTM),
    ] + [Job('rwm.wake.' + n, C, 'h_rwm_' + n, route='RG', defines=['RWMW'] + (['RWMW_UPGRADE'] if n == 'upgrade' else []), loops=nl > 0, nloops=(nl if nl else None),
             target='rw_mutex::%s (who is notified after each write of the state word)' % n, source=RWM)
         for n, nl in (('unlock', 0), ('unlock_shared', 0), ('try_lock_shared', 0), ('try_lock', 0), ('downgrade', 0), ('lock', 1), ('lock_shared', 1), ('upgrade', 3))]
    return {
        'jobs': jobs, 'sliced': sliced, 'fired': fired,
        'trusted': [
            'sequentially consistent atomics; a wait-set mutex section is one step for every observer that takes the mutex (observers that do not - the emptiness test, cancel_wait\'s first look at my_is_in_list, commit_wait\'s epoch read - are separate steps with interference)',
            'mon.* sleeper jobs: rely = the notifier transitions on the thread\'s own node (unlink + clear my_is_in_list in one mutex section, notify() later, by the same notifier) and "when a notify issued after a state change E returns, '
            'every node still linked was linked after E"; each is an obligation of mon.notify_* (taken out only inside the section together with the flag, signalled exactly once, early return only on counter 0, every eligible node of the section\'s snapshot taken out)',
            'mon.notify_* jobs: the wait set at the start of the notifier\'s section is an arbitrary sequence of up to 4096 nodes; the mutex invariant "a linked node has my_is_in_list set" is assumed at the ghost node and is an obligation of mon.prepare_wait / cancel_wait',
            'wait-set / local-list operations inside the monitor jobs are contract stubs (closed forms of add = append, remove = delete with own links kept, flush_to = move all); list.* prove the real pointer code against the local contracts they stand for; '
            'the step from the local pointer contract to the abstract sequence (a doubly linked chain through the sentinel stays one cycle) is a written argument',
            'wait_node::init / wait / reset / notify in mon.* are the contracts proved for sleep_node in node.sleep_node (and for resume_node in node.resume_node.*); binary_semaphore::P / V there are the contracts of sem.P / sem.V',
            'futex_wait(addr, v) blocks only if *addr == v at that instant and may return spuriously; futex_wakeup_one wakes a thread blocked on addr; a woken / signalled thread eventually runs (OS, not proved)',
            'sem.V: V is not applied to an open semaphore (precondition; it is the token <= 1 obligation of mon.* and the code\'s own debug assertion)',
            'aw.*: concurrent_monitor_base::wait / notify_relaxed / notify_one_relaxed are stubs with the behaviour proved in mon.*; get_address_waiter is a function of the address alone (textual scan of its body)',
            'rwm.wake.*: the state-word protocol is C08\'s (rw_mutex jobs); used from it: an upgrader holds a read lock (READERS >= ONE_READER while a sleeper of class upgrade exists), at most one reader is upgrading, the bits the upgrader set stay set until it clears them; '
            'the three sleeper classes are harvested from the adaptive_wait_on_address calls (a fourth call is an extraction break)',
            'mutex.* / watom.*: other threads only lock and unlock; wait_on_address / notify_by_address_one are stubs (aw.*)',
            'arena.*: C16 empty.has_tasks for the scan itself (here: a task published before the scan starts is seen); the mandatory-concurrency flag, adjust_demand and the thread-request path are stubs (C16); '
            'rely of arena.advertise_new_work (a busy window opened after the publication cannot end in EMPTY) is the guarantee checked in arena.out_of_work, and vice versa; all arenas of a threading_control share one waiting-threads monitor (textual check)',
            'mmutex.*: other lockers register in my_waiters before they look at the flag for the last time (obligation of mmutex.lock) and stay registered until woken',
            'rml.thread_monitor.*: one worker sleeps on a thread_monitor; binary_semaphore P / V are the contracts of sem.*; the caller (private_worker::run) re-checks its state after wait() returns',
        ],
        'drops': ['memory orders (SC assumed); atomic_fence_seq_cst() -> a scheduling point whose presence and position is checked (C02.fence obligations), not its necessity',
                  'template parameters bound: Context := uintptr_t / address_context / market_context by shape only (the context is opaque to the monitor; predicates are per-node booleans)',
                  'virtual calls node.init/wait/reset/notify -> contract stubs; lambdas (wake-up conditions, notification predicates) -> functions whose captures became parameters',
                  'try_call(body).on_exception(handler) -> { body; if (exception pending) { handler; rethrow } }; throw_exception(user_abort) -> pending-exception flag',
                  'RAII lock_guard<concurrent_monitor_mutex> -> LOCK_MUTEX / UNLOCK_MUTEX at scope entry / every scope exit',
                  'reference parameters / members -> pointers; intrusive base_node* inside the notifier jobs -> addresses of a symbolic-length array with functional links',
                  '#if chains resolved for g++ 12 / linux / futex / TBB_USE_ASSERT=0 (the debug-only temp.clear() is dropped with its #if); #pragma GCC diagnostic dropped',
                  'ITT notifications, poison_pointer -> RG_NOP; state-word debug assertions of rw_mutex -> RG_NOP (C08 proves them)',
                  'delegated_function wrapper -> the wrapped function; timed_spin_wait_until -> stub that returns true only if it saw the condition true'],
        'not_decided': [
            'liveness: that a signalled semaphore / futex wake-up / resumed coroutine actually runs, fairness, termination of every spin and retry loop - the claim is the safety core only',
            'store-buffer (TSO) and weaker reorderings of the non-seq_cst accesses: the proofs assume SC; only the presence and position of the two full fences (prepare_wait after linking, notify* before the emptiness test) is checked, '
            'not that they suffice, and not the places where the code relies on a preceding seq_cst RMW instead of a fence (notify_by_address*, mutex::unlock, rw_mutex)',
            'the epoch word: commit_wait\'s epoch comparison is an optimisation in the current protocol (a stale or missing epoch cannot lose a wake-up: the token argument does not use it); nothing is claimed about it',
            'enqueue-runs-eventually across the market: mandatory concurrency, thread_request_serializer (C16 covers the request arithmetic), private_server\'s slack / asleep-list protocol (wake_some, try_insert_in_asleep_list, propagate_chain_reaction) - '
            'of the worker-side sleep only rml::internal::thread_monitor::notify / wait is decided',
            'which callers use the fenced and which the relaxed notify (e.g. arena.cpp "do not relax!"): under SC both are the same',
            'spawned (not enqueued) work: advertise_new_work<work_spawned> skips the fence on purpose; the property excludes it',
            'concurrent_bounded_queue push/pop/abort wake-ups: decided in C09 (wake.*); task_arena::execute exit monitor: decided in C01 (delegate.execute); post-resume notify: C20',
            'resume_node end to end (the stack switch between wait() and the second notify()): only the two-party counter protocol is decided; concurrent_monitor_base::destroy()',
            'composition: the per-role obligations imply the global claim "no thread is blocked with its condition true and every responsible notification completed" by the token / event-order argument written in c02.c - that argument is not mechanised',
            'the intrusive list as a whole (well-formedness of a chain of arbitrary length under arbitrary op sequences): local contracts only',
        ],
        'assumptions': ['atomics are sequentially consistent', 'fewer than 2^40 wait-set nodes / semaphore signals / flag epochs; wait set of at most 4096 nodes in a notifier\'s section (symbolic length)',
                        'a condition made true by the event E stays true until the sleeper\'s re-check (consumable conditions such as a mutex flag are covered by notify_one semantics: the consumer\'s own release notifies again)',
                        'rw_mutex state word below 2^40; the relies taken from C08 listed under trusted_base', 'one node is used by one thread (its owner) at a time'],
    }


def replay(ctx, jobname, failure):
    """native recipes on the real code (c02_replay.cpp): deterministic white-box sequences on concurrent_monitor / binary_semaphore / the intrusive list, watchdogged multi-thread runs of
    concurrent_monitor::wait, tbb::mutex, tbb::rw_mutex, task_group::wait / enqueue.  The forced interleavings of the RG jobs themselves (a notifier between two given instructions of a sleeper)
    have no recipe: they need a thread stalled inside the library."""
    if os.environ.get('C02_NO_NATIVE'):       # mutation-testing runs: skip the 30 s library build
        return {'reproduced': False, 'detail': 'native replay skipped (C02_NO_NATIVE)'}
    if jobname.startswith(('mon.', 'list.', 'node.sleep', 'sem.')):
        what = 'monitor'
    elif jobname.startswith(('mutex.', 'watom.')):
        what = 'mutex'
    elif jobname.startswith(('rwm.', 'aw.')):
        what = 'rw_mutex'
    elif jobname.startswith('arena.'):
        what = 'arena'
    else:
        return {'reproduced': False, 'detail': 'no native recipe for this job (resume_node needs a suspended coroutine with a forced order of its two notifications)'}
    exe = native.build([os.path.join(HERE, 'c02_replay.cpp')], os.path.join(ctx.work, 'c02_replay'), flags=['-fno-access-control'], link_tbb=True, includes=[os.path.join(native.REPO, 'src')])
    runs = []
    rep = {'reproduced': False, 'detail': 'native recipes found no failing sequence', 'runs': runs}
    for w in ([what] if what != 'rw_mutex' else ['rw_mutex', 'mutex']):
        rc, out = native.run([exe, w], timeout=240)
        runs.append({'cmd': exe + ' ' + w, 'rc': rc, 'output': out[-1200:]})
        m = re.search(r'REPRODUCED (.*)', out)
        if m:
            rep['reproduced'] = True
            rep['detail'] = m.group(1)
            c = re.search(r'class=(\S+)', m.group(1))
            rep['witness_class'] = c.group(1) if c else None
            break
    return rep
