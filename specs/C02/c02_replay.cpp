// Native recipes for failed C02 obligations, on the REAL code: concurrent_monitor / binary_semaphore white-box (compiled from the current src/tbb headers with
// -fno-access-control), tbb::mutex, tbb::rw_mutex, task_group waits and enqueue through the real library.
// Deterministic sequences first (every step's state is inspected), watchdogged multi-thread runs second.  A failing check prints  REPRODUCED class=<name> <what was seen>.
#include <oneapi/tbb/mutex.h>
#include <oneapi/tbb/rw_mutex.h>
#include <oneapi/tbb/task_arena.h>
#include <oneapi/tbb/task_group.h>
#include <oneapi/tbb/global_control.h>
#include "tbb/concurrent_monitor.h"
#include <thread>
#include <vector>
#include <atomic>
#include <chrono>
#include <cstdio>
#include <cstring>
#include <string>
using namespace std::chrono_literals;
using namespace tbb::detail::r1;
#include <csignal>
#include <unistd.h>
static int g_fail = 0;
static const char* volatile g_step = "start";
#define STEP(s) (g_step = (s))
// a failed check ends the process at once: destructors of half-broken nodes may block for ever
#define CHECK(c, cls, ...) do { if (!(c)) { std::printf("REPRODUCED class=%s ", cls); std::printf(__VA_ARGS__); std::printf("\n"); std::fflush(stdout); _exit(1); } } while (0)
static void on_signal(int sig) {
    char buf[512]; int n = std::snprintf(buf, sizeof buf, "REPRODUCED class=%s the real code %s in the step: %s\n", sig == SIGALRM ? "hang" : "crash",
                                         sig == SIGALRM ? "blocks for ever (a wake-up that never comes)" : "crashes (SIGSEGV/SIGABRT: corrupted wait set or node)", g_step);
    if (write(1, buf, n)) {} _exit(1);
}
typedef concurrent_monitor::thread_context node_t;
static int sem_word(node_t& n) { return n.semaphore().my_sem.load(); }
static size_t ws(concurrent_monitor& m) { return m.my_waitset.size(); }

// ---- list / monitor / node / semaphore: one thread, every intermediate state inspected -----------------------------------------------------------------
static void monitor_sequences() {
    {   // the intrusive list
        STEP("intrusive list add / remove / flush_to"); base_list l; base_node a, b, c;
        CHECK(l.empty() && l.front() == l.end() && l.last() == l.end(), "list", "a new list is not empty/self-linked");
        l.add(&a); l.add(&b); l.add(&c);
        CHECK(l.size() == 3 && l.front() == &a && l.last() == &c && a.next == &b && b.next == &c && c.prev == &b && b.prev == &a && c.next == l.end() && a.prev == l.end(), "list", "add: 3 nodes not chained in order (size %zu)", l.size());
        l.remove(b);
        CHECK(l.size() == 2 && a.next == &c && c.prev == &a && b.next == &c && b.prev == &a, "list", "remove(middle): neighbours not linked / own links touched (size %zu)", l.size());
        base_list t; l.flush_to(t);
        CHECK(l.empty() && l.front() == l.end() && t.size() == 2 && t.front() == &a && t.last() == &c && a.prev == t.end() && c.next == t.end(), "list", "flush_to: chain not moved intact (src size %zu dst size %zu)", l.size(), t.size());
        base_list e1, e2; e1.flush_to(e2);
        CHECK(e2.empty() && e2.front() == e2.end(), "list", "flush_to of an empty list touched the destination");
        t.clear();
    }
    {   // binary_semaphore: P/V pairing on the futex word
        STEP("binary_semaphore V then P"); binary_semaphore s;
        CHECK(s.my_sem.load() == 1, "semaphore", "a new binary_semaphore is not closed (word %d)", s.my_sem.load());
        s.V(); CHECK(s.my_sem.load() == 0, "semaphore", "V did not open the semaphore (word %d)", s.my_sem.load());
        s.P(); CHECK(s.my_sem.load() != 0, "semaphore", "P did not take the signal (word %d)", s.my_sem.load());
    }
    concurrent_monitor mon;
    {
        node_t n1(1), n2(2), n3(3);
        STEP("prepare_wait of three fresh nodes"); mon.prepare_wait(n1); mon.prepare_wait(n2); mon.prepare_wait(n3);
        CHECK(ws(mon) == 3 && n1.my_is_in_list.load() && n2.my_is_in_list.load() && n3.my_is_in_list.load() && n1.my_initialized, "prepare_wait", "3 prepared nodes: wait set size %zu, in-list flags %d %d %d", ws(mon), (int)n1.my_is_in_list.load(), (int)n2.my_is_in_list.load(), (int)n3.my_is_in_list.load());
        STEP("notify(ctx == 2) with three nodes waiting"); mon.notify([](std::uintptr_t c) { return c == 2; });
        CHECK(ws(mon) == 2 && !n2.my_is_in_list.load() && sem_word(n2) == 0, "notify_pred", "notify(ctx==2): node 2 not taken out / flag not cleared / not signalled (size %zu, flag %d, sem %d)", ws(mon), (int)n2.my_is_in_list.load(), sem_word(n2));
        CHECK(n1.my_is_in_list.load() && n3.my_is_in_list.load() && sem_word(n1) != 0 && sem_word(n3) != 0, "notify_pred", "notify(ctx==2) touched a node that does not satisfy the predicate");
        STEP("cancel_wait of a node a notifier already took out"); mon.cancel_wait(n2);
        CHECK(n2.my_skipped_wakeup && ws(mon) == 2, "cancel_wait", "cancel_wait on a node a notifier already took out: skipped wake-up not remembered (flag %d, size %zu)", (int)n2.my_skipped_wakeup, ws(mon));
        STEP("prepare_wait of a node with a skipped wake-up (must consume the delivered signal, not block)"); mon.prepare_wait(n2);   // must consume the stale signal (does not block: V was done)
        CHECK(!n2.my_skipped_wakeup && sem_word(n2) != 0 && ws(mon) == 3 && n2.my_is_in_list.load(), "stale_signal", "re-used node: stale signal not consumed before re-enqueue (skipped %d, sem %d, size %zu)", (int)n2.my_skipped_wakeup, sem_word(n2), ws(mon));
        STEP("cancel_wait of a node still in the wait set"); mon.cancel_wait(n1);
        CHECK(ws(mon) == 2 && !n1.my_is_in_list.load() && !n1.my_skipped_wakeup, "cancel_wait", "cancel_wait left the node in the wait set or remembered a signal that is not coming (size %zu, flag %d, skipped %d)", ws(mon), (int)n1.my_is_in_list.load(), (int)n1.my_skipped_wakeup);
        STEP("notify_one with two nodes waiting"); mon.notify_one();       // list order: n3, n2 -> n3
        CHECK(ws(mon) == 1 && !n3.my_is_in_list.load() && sem_word(n3) == 0 && n2.my_is_in_list.load() && sem_word(n2) != 0, "notify_one", "notify_one: not exactly the front node taken out and signalled (size %zu)", ws(mon));
        STEP("commit_wait after the epoch moved"); bool slept = mon.commit_wait(n3);   // epoch moved: cancels; the signal stays pending
        CHECK(!slept && n3.my_skipped_wakeup, "commit_wait", "commit_wait after the epoch moved: returned %d, skipped %d", (int)slept, (int)n3.my_skipped_wakeup);
        STEP("notify_all with one node waiting"); mon.notify_all();
        CHECK(ws(mon) == 0 && !n2.my_is_in_list.load() && sem_word(n2) == 0, "notify_all", "notify_all left a node in the wait set / unsignalled (size %zu)", ws(mon));
        STEP("cancel_wait after notify_all, then the destructors of nodes with skipped wake-ups (each consumes its delivered signal)"); mon.cancel_wait(n2);    // remembers the pending signal; the destructors consume n2's and n3's
        CHECK(n2.my_skipped_wakeup, "cancel_wait", "pending signal of notify_all not remembered");
    }
    {
        node_t a(7), b(8);
        mon.prepare_wait(a); mon.prepare_wait(b);
        STEP("abort_all with two nodes waiting"); mon.abort_all();
        CHECK(ws(mon) == 0 && a.my_aborted && b.my_aborted && sem_word(a) == 0 && sem_word(b) == 0 && !a.my_is_in_list.load(), "abort_all", "abort_all: nodes not all taken out, marked and signalled (size %zu)", ws(mon));
        bool threw = false; try { a.wait(); } catch (...) { threw = true; }
        CHECK(threw, "abort_all", "an aborted sleeper's wait() did not throw");
        try { b.wait(); } catch (...) {}
    }
    {   // many nodes, predicate matches every second one
        const int N = 64; std::vector<std::unique_ptr<node_t>> v;
        STEP("prepare_wait of 64 nodes"); for (int i = 0; i < N; ++i) { v.emplace_back(new node_t(i)); mon.prepare_wait(*v.back()); }
        STEP("notify(even contexts) with 64 nodes waiting"); mon.notify([](std::uintptr_t c) { return c % 2 == 0; });
        int bad = 0; for (int i = 0; i < N; ++i) { bool taken = !v[i]->my_is_in_list.load() && sem_word(*v[i]) == 0; if (taken != (i % 2 == 0)) ++bad; }
        CHECK(bad == 0 && ws(mon) == N / 2, "notify_pred", "notify(even) over %d nodes: %d nodes wrongly taken/left, wait set size %zu", N, bad, ws(mon));
        STEP("notify_one(ctx == 33) with 32 nodes waiting"); mon.notify_one_relaxed([](std::uintptr_t c) { return c == 33; });
        CHECK(!v[33]->my_is_in_list.load() && sem_word(*v[33]) == 0 && ws(mon) == N / 2 - 1, "notify_one_pred", "notify_one(ctx==33): node not taken out and signalled (size %zu)", ws(mon));
        STEP("notify_all with 31 nodes waiting, then wait() on all 64 nodes (each was signalled exactly once: none blocks)"); mon.notify_all();
        for (int i = 0; i < N; ++i) v[i]->wait();   // every node was signalled exactly once: none of these blocks
        CHECK(ws(mon) == 0, "notify_all", "wait set not empty after notify_all");
    }
}

// ---- sleeper / notifier pairs with a watchdog ------------------------------------------------------------------------------------------------------------
template <class F> static bool finishes_within(F f, int ms) {
    std::atomic<bool> done{false}; std::thread t([&] { f(); done = true; });
    for (int i = 0; i < ms && !done; ++i) std::this_thread::sleep_for(1ms);
    bool ok = done; if (!ok) t.detach(); else t.join();
    return ok;
}
static void monitor_threads() {
    static concurrent_monitor mon; static std::atomic<int> flag;
    bool ok = finishes_within([] {
        for (int r = 0; r < 3000; ++r) {
            flag = 0;
            std::thread s([&] { mon.wait([&] { return flag.load() != 0; }, node_t(1)); });
            if (r % 3) std::this_thread::yield();
            flag = 1; mon.notify_all();
            s.join();
        }
    }, 20000);
    CHECK(ok, "lost_wakeup", "a thread in concurrent_monitor::wait(flag != 0) never returned although flag was set and notify_all() completed afterwards");
}
static void mutex_threads() {
    static tbb::mutex mx; static long counter;
    bool ok = finishes_within([] {
        std::vector<std::thread> ts;
        for (int t = 0; t < 8; ++t) ts.emplace_back([] { for (int i = 0; i < 20000; ++i) { mx.lock(); ++counter; if ((i & 1023) == 0) std::this_thread::sleep_for(50us); mx.unlock(); } });
        for (auto& t : ts) t.join();
    }, 60000);
    CHECK(ok, "lost_wakeup", "8 threads x 20000 lock/unlock of one tbb::mutex did not finish: a locker sleeps although the mutex is free");
    CHECK(counter == 8 * 20000, "mutex", "counter %ld", counter);
}
static void rw_mutex_threads() {
    static tbb::rw_mutex mx; static long counter;
    bool ok = finishes_within([] {
        std::vector<std::thread> ts;
        for (int t = 0; t < 8; ++t) ts.emplace_back([t] {
            for (int i = 0; i < 20000; ++i) {
                if ((i + t) % 4 == 0) { tbb::rw_mutex::scoped_lock l(mx, true); ++counter; if ((i & 2047) == 0) std::this_thread::sleep_for(50us); }
                else if ((i + t) % 4 == 1) { tbb::rw_mutex::scoped_lock l(mx, false); if (l.upgrade_to_writer()) {} ++counter; l.downgrade_to_reader(); }
                else { tbb::rw_mutex::scoped_lock l(mx, false); if ((i & 2047) == 0) std::this_thread::sleep_for(50us); }
            }
        });
        for (auto& t : ts) t.join();
    }, 90000);
    CHECK(ok, "lost_wakeup", "8 threads of readers / writers / upgraders on one tbb::rw_mutex did not finish: a thread sleeps although its wake-up condition holds");
}
static void arena_threads() {
    bool ok = finishes_within([] {
        for (int r = 0; r < 300; ++r) {
            tbb::task_arena a(2, 1); std::atomic<int> ran{0}; tbb::task_group tg;
            a.execute([&] { tg.run([&] { std::this_thread::sleep_for(200us); ++ran; }); });
            a.enqueue([&] { ++ran; });
            a.execute([&] { tg.wait(); });
            for (int i = 0; i < 20000 && ran != 2; ++i) std::this_thread::sleep_for(100us);
            if (ran != 2) { std::printf("REPRODUCED class=lost_wakeup round %d: an enqueued task did not run within 2 s\n", r); std::fflush(stdout); _exit(1); }
        }
    }, 60000);
    CHECK(ok, "lost_wakeup", "task_group::wait() in an arena did not return although the task finished (the external thread sleeps on a released wait_context)");
}
int main(int argc, char** argv) {
    std::string what = argc > 1 ? argv[1] : "all";
    std::setvbuf(stdout, nullptr, _IONBF, 0);
    std::signal(SIGSEGV, on_signal); std::signal(SIGABRT, on_signal); std::signal(SIGBUS, on_signal); std::signal(SIGALRM, on_signal);
    if (what == "monitor" || what == "all") { alarm(20); monitor_sequences(); alarm(0); STEP("sleeper/notifier threads"); if (!g_fail) monitor_threads(); }
    if (what == "mutex" || what == "all") mutex_threads();
    if (what == "rw_mutex" || what == "all") rw_mutex_threads();
    if (what == "arena" || what == "all") arena_threads();
    if (!g_fail) std::printf("no failing sequence found (%s)\n", what.c_str());
    return g_fail ? 1 : 0;
}
