/* C02 harnesses: no lost wake-up (safety core).  Everything under #include "*.inc" is sliced from /repo on every run (see spec.py). */
#include "verif.h"
#include <stdlib.h>
struct base_node { struct base_node *next, *prev; };
struct base_list { size_t count; struct base_node head; };
#define EXC_PENDING() (g_exc)
#define EXC_THROW(x) (g_exc = true)
#define EXC_RETHROW(r) return r
#define EXC_PROPAGATE(...) do { if (g_exc) return __VA_ARGS__; } while (0)
#ifdef VACUITY
#define VACUITY_CASE(c, m) do { if (c) __CPROVER_assert(0, "VACUITY: case reachable: " m); } while (0)
#else
#define VACUITY_CASE(c, m) ((void)0)
#endif
bool g_exc;
#define B(x) ((x) ? 1 : 0)             /* havocked bools may carry a non-canonical byte: never compare them as integers */
#define BEQ(a, b) (B(a) == B(b))

/* =====================================================================================================================
   LIST: circular_doubly_linked_list_with_sentinel, the real pointer code against local contracts.
   These contracts are what the abstract wait-set operations WS_xxx / TEMP_xxx of the monitor sections stand for:
     add(n)      n becomes the last node: old_last <-> n <-> head, count+1, no other link changes
     remove(n)   n's neighbours are linked to each other, count-1, n's OWN links are left as they were, no other link changes
     flush_to(l) the whole chain hangs under l's sentinel in the same order with the same count, this list is empty; an empty list leaves l alone
   ===================================================================================================================== */
#ifdef LIST
#define ATOMIC_LOAD_AT(site, x) (x)
#define ATOMIC_STORE_AT(site, x, v) ((x) = (v))
#include "list.inc"
static struct base_list L, D; static struct base_node A, B, X, F, Z;
void h_list_ctor(void) {
    __CPROVER_havoc_object(&L);
    base_list_ctor(&L);
    OBLIGATION(base_list_empty(&L) && base_list_size(&L) == 0, "C02.list: a constructed list is empty (a notifier that finds it empty returns without taking the mutex)");
    OBLIGATION(base_list_front(&L) == base_list_end(&L) && base_list_last(&L) == base_list_end(&L) && base_list_end(&L) == &L.head, "C02.list: front and last of an empty list are the sentinel");
    VACUITY_END();
}
void h_list_access(void) {
    __CPROVER_havoc_object(&L);
    OBLIGATION(base_list_size(&L) == L.count && base_list_empty(&L) == (L.count == 0), "C02.list: size() is the counter, empty() is counter == 0");
    OBLIGATION(base_list_front(&L) == L.head.next && base_list_last(&L) == L.head.prev && base_list_end(&L) == &L.head, "C02.list: front() / last() / end() are head.next / head.prev / the sentinel");
    VACUITY_END();
}
void h_list_add(void) {
    __CPROVER_havoc_object(&L); __CPROVER_havoc_object(&A); __CPROVER_havoc_object(&B); __CPROVER_havoc_object(&X);
    bool empty = nondet_bool(), single = nondet_bool();
    size_t c0 = L.count; __CPROVER_assume(c0 < SIZE_MAX && (c0 == 0) == empty);
    struct base_node *last = empty ? &L.head : &A, *first = empty ? &L.head : (single ? &A : &B);
    L.head.prev = last; L.head.next = first; last->next = &L.head; first->prev = &L.head;
    struct base_node *a_prev0 = A.prev, *b_next0 = B.next;
    base_list_add(&L, &X);
    OBLIGATION(X.prev == last && X.next == &L.head && last->next == &X && L.head.prev == &X, "C02.list: add(n) links n between the old last node and the sentinel, in both directions");
    OBLIGATION(L.count == c0 + 1 && !base_list_empty(&L), "C02.list: add(n) counts the node (a notifier's emptiness test sees it)");
    OBLIGATION(base_list_last(&L) == &X && base_list_front(&L) == (empty ? &X : first), "C02.list: n is the new last node; the front is unchanged unless the list was empty");
    OBLIGATION(empty || single || (A.prev == a_prev0 && B.next == b_next0 && B.prev == &L.head), "C02.list: no other link changes");
    VACUITY_CASE(empty, "add to an empty list"); VACUITY_CASE(!empty && !single, "add behind several nodes");
    VACUITY_END();
}
void h_list_remove(void) {
    __CPROVER_havoc_object(&L); __CPROVER_havoc_object(&A); __CPROVER_havoc_object(&B); __CPROVER_havoc_object(&X);
    bool ah = nondet_bool(), bh = nondet_bool();                       /* the predecessor / successor of X is the sentinel */
    struct base_node *pa = ah ? &L.head : &A, *pb = bh ? &L.head : &B;
    size_t c0 = L.count; __CPROVER_assume(c0 >= 1);
    X.prev = pa; X.next = pb; pa->next = &X; pb->prev = &X;
    struct base_node *a_prev0 = A.prev, *b_next0 = B.next, *h_next0 = L.head.next, *h_prev0 = L.head.prev;
    base_list_remove(&L, &X);
    OBLIGATION(pa->next == pb && pb->prev == pa, "C02.list: remove(n) links n's neighbours to each other");
    OBLIGATION(L.count == c0 - 1, "C02.list: remove(n) un-counts the node");
    OBLIGATION(X.prev == pa && X.next == pb, "C02.list: remove(n) leaves n's own links alone (a walker that saved nothing can still step on from n)");
    OBLIGATION((ah || A.prev == a_prev0) && (bh || B.next == b_next0) && (ah || L.head.next == h_next0) && (bh || L.head.prev == h_prev0), "C02.list: no other link changes");
    OBLIGATION(!(ah && bh) || (base_list_front(&L) == base_list_end(&L) && base_list_last(&L) == base_list_end(&L)), "C02.list: removing the only node leaves the sentinel linked to itself");
    VACUITY_CASE(ah && bh, "remove the only node"); VACUITY_CASE(!ah && !bh, "remove from the middle");
    VACUITY_END();
}
void h_list_clear(void) {
    __CPROVER_havoc_object(&L);
    base_list_clear(&L);
    OBLIGATION(L.count == 0 && L.head.next == &L.head && L.head.prev == &L.head, "C02.list: clear() leaves an empty list");
    VACUITY_END();
}
void h_list_flush_to(void) {
    __CPROVER_havoc_object(&L); __CPROVER_havoc_object(&D); __CPROVER_havoc_object(&F); __CPROVER_havoc_object(&Z);
    base_list_ctor(&D);
    bool empty = nondet_bool(), single = nondet_bool();
    size_t c0 = L.count; __CPROVER_assume((c0 == 0) == empty);          /* list invariant: the counter is zero exactly when the chain is empty */
    struct base_node *first = empty ? &L.head : &F, *last = empty ? &L.head : (single ? &F : &Z);
    L.head.next = first; L.head.prev = last; first->prev = &L.head; last->next = &L.head;
    struct base_node *f_next0 = F.next, *z_prev0 = Z.prev;
    base_list_flush_to(&L, &D);
    OBLIGATION(L.count == 0 && L.head.next == &L.head && L.head.prev == &L.head, "C02.list: after flush_to the source list is empty");
    if (empty) OBLIGATION(D.count == 0 && D.head.next == &D.head && D.head.prev == &D.head, "C02.list: flushing an empty list leaves the destination alone");
    else {
        OBLIGATION(D.head.next == first && D.head.prev == last && first->prev == &D.head && last->next == &D.head, "C02.list: flush_to hangs the whole chain under the destination's sentinel, first and last node re-linked in both directions");
        OBLIGATION(D.count == c0, "C02.list: flush_to carries the count over");
        OBLIGATION(single || (F.next == f_next0 && Z.prev == z_prev0), "C02.list: inner links are left alone (same order)");
    }
    VACUITY_CASE(empty, "flush an empty list"); VACUITY_CASE(!empty && !single, "flush several nodes");
    VACUITY_END();
}
#endif

/* =====================================================================================================================
   MON_S: the sleeper's side of concurrent_monitor_base - prepare_wait / commit_wait / cancel_wait / wait on the thread's OWN node N,
   against any number of notifiers (and other sleepers) of the same monitor.

   Shared state and who may change it (SC; a wait-set mutex section is entered only when nobody else is inside one):
     linked   (ghost g_lk)   N is in the wait set              set by the owner's add, cleared by the owner's remove or by a notifier's dequeue - always under the mutex
     in-list  N.my_is_in_list                                   raised by the owner OUTSIDE the mutex while N is not linked; cleared under the mutex by whoever unlinks N
     owed     (ghost g_ow)   a notifier dequeued N, has not yet called N.notify()
     signal   (ghost g_sg)   N.notify() (semaphore V) done, not yet consumed by a P of the owner
   token = linked + owed + signal.  Per enqueue there is exactly one token; it moves linked -> owed -> signal and is consumed by the owner
   (P, or remove in cancel_wait).  token == 0 while blocked = nobody will ever wake the thread; token == 2 = a stale signal (V without P).

   Event order (the second half of "no lost wake-up"): E = one arbitrary state change that makes the waited-for condition true and keeps it true, done by a
   notifier thread T BEFORE it calls notify_all / notify(p) with p(N.ctx).  g_after := "N was linked after E".  T's contract (jobs mon.notify_*): when T's notify
   returns, every node that is still linked was linked after E (T either saw count == 0 after E, or dequeued everything linked at the time of its section).
   Rely of this section = the notifier transitions above + that contract; each is an obligation of the notifier jobs.
   ===================================================================================================================== */
#ifdef MON_S
typedef uintptr_t CTX_T;
struct wait_node { struct base_node base; CTX_T my_context; bool my_is_in_list, my_initialized, my_skipped_wakeup, my_aborted; unsigned my_epoch; };
struct monitor { int my_mutex; struct base_list my_waitset; unsigned my_epoch; };
static struct monitor M; static struct wait_node N;
bool g_lk, g_ow, g_sg, g_pre, g_hold, g_E, g_Tdone, g_after; size_t g_nl; unsigned g_P_calls, g_pred_calls; bool g_last_pred, g_pred_since_add, g_fenced_since_add;
#define NLMAX ((size_t)1 << 40)
#define TK (B(g_lk) + B(g_ow) + B(g_sg))
#define NINV (TK <= 1 && (!g_lk || N.my_is_in_list) && (!N.my_is_in_list || g_lk || g_pre) && !(g_pre && TK != 0) && M.my_waitset.count >= g_nl && g_nl >= (size_t)B(g_lk) && g_nl <= NLMAX \
              && (!g_Tdone || g_E) && !(g_Tdone && g_lk && !g_after) && (!(g_lk && g_after) || g_E))
static void dequeue_by_notifier(void) { g_lk = false; N.my_is_in_list = false; g_ow = true; }
static void interfere(void) {
    /* any number of steps of any number of other threads */
    if (!g_hold && g_lk && nondet_bool()) dequeue_by_notifier();                     /* a notifier's section takes N out: unlink + clear the flag, one step */
    if (!g_E && nondet_bool()) g_E = true;                                           /* the event happens */
    if (g_E && !g_Tdone && nondet_bool()) {                                          /* T's notify completes: whatever is still linked was linked after E */
        if (g_lk && !g_after) { if (!g_hold) { dequeue_by_notifier(); g_Tdone = true; } }
        else g_Tdone = true;
    }
    if (g_ow && nondet_bool()) { if (nondet_bool()) N.my_aborted = true; g_ow = false; g_sg = true; }   /* the owed notify() is delivered (abort_all marks the node first) */
    if (!g_hold) { M.my_epoch = nondet_unsigned(); M.my_waitset.count = nondet_size_t(); g_nl = nondet_size_t(); __CPROVER_assume(M.my_waitset.count >= g_nl && g_nl >= (size_t)B(g_lk) && g_nl < NLMAX); }
}
#define FENCE_SEQ_CST() do { interfere(); g_fenced_since_add = true; } while (0)
#define LOCK_MUTEX(m) do { interfere(); OBLIGATION(!g_hold, "C02.monitor: the wait-set mutex is not taken twice"); g_hold = true; __CPROVER_assume(M.my_waitset.count == g_nl); /* nobody else is inside a section */ } while (0)
#define UNLOCK_MUTEX(m) do { OBLIGATION(g_hold, "C02.monitor: only a held mutex is released"); \
    __CPROVER_assert(NINV && M.my_waitset.count == g_nl, "guarantee: when the sleeper leaves its mutex section the node is flagged in-list exactly if it is linked, and the counter equals the number of linked nodes"); g_hold = false; interfere(); } while (0)
#define ATOMIC_LOAD_AT(site, x) ({ interfere(); (x); })
static void il_store(bool *p, bool v) {
    interfere();
    OBLIGATION(p == &N.my_is_in_list, "C02.monitor: the sleeper writes only its own node");
    if (v) {
        OBLIGATION(!g_lk && !g_hold, "guarantee: the sleeper raises my_is_in_list only while its node is outside the wait set");
        OBLIGATION(TK == 0, "C02.signal: a signal left over from an earlier enqueue (skipped wake-up) is consumed BEFORE the node is armed again - a node is signalled at most once per enqueue");
        g_pre = true;
    } else {
        OBLIGATION(g_hold && !g_lk, "guarantee: the sleeper clears my_is_in_list only under the wait-set mutex, having unlinked the node itself");
        g_pre = false;
    }
    *p = v;
}
#define ATOMIC_STORE_AT(site, x, v) il_store(&(x), (v))
static void WS_ADD(struct monitor *m, struct wait_node *n) {
    OBLIGATION(m == &M && n == &N && g_hold, "C02.monitor: the wait set is changed only under its mutex");
    OBLIGATION(!g_lk, "C02.monitor: a node is not linked twice");
    OBLIGATION(N.my_is_in_list && g_pre, "C02.monitor: my_is_in_list is raised BEFORE the node becomes reachable by notifiers (a notifier's clear cannot be overwritten afterwards)");
    OBLIGATION(TK == 0, "C02.signal: no signal of an earlier enqueue is pending when the node is linked");
    g_lk = true; g_pre = false; g_nl++; m->my_waitset.count++; g_after = g_E; g_pred_since_add = false; g_fenced_since_add = false;
}
static void WS_REMOVE(struct monitor *m, struct wait_node *n) {
    OBLIGATION(m == &M && n == &N && g_hold, "C02.monitor: the wait set is changed only under its mutex");
    OBLIGATION(g_lk, "C02.monitor: the sleeper unlinks its node only if it is still linked (a node a notifier already took out is not unlinked a second time: that would corrupt the list and drop other sleepers)");
    g_lk = false; g_nl--; m->my_waitset.count--;
}
static void P_SEM(void) {
    if (g_P_calls < 1000) g_P_calls++; interfere();
    OBLIGATION(TK == 1, "C02.no_lost_wakeup: a thread blocks on its node's semaphore only while the node is in the wait set (a notify will take it out) or a notifier owes / has delivered its signal - never with nobody left to wake it");
    OBLIGATION(!(g_Tdone && g_lk), "C02.no_lost_wakeup: no thread is committed to sleep in the wait set once a notify issued after the state change has returned: either the node was linked before the notifier's section and the notifier took it out, "
                                    "or it was linked afterwards and the re-check between prepare_wait and commit_wait saw the change");
    __CPROVER_assume(g_sg); g_sg = false;                                            /* blocked until V */
}
#define NODE_INIT(n) do { VERIF_ASSERT(!(n)->my_initialized, "wait_node::init"); (n)->my_initialized = true; } while (0)                        /* contract of sleep_node::init (job node.sleep_node) */
#define NODE_RESET(n) do { VERIF_ASSERT((n)->my_skipped_wakeup, "wait_node::reset"); (n)->my_skipped_wakeup = false; P_SEM(); } while (0)       /* contract of sleep_node::reset: clears the flag, one P */
#define NODE_WAIT(n) do { VERIF_ASSERT((n)->my_initialized, "Use of commit_wait() without prior prepare_wait()"); P_SEM(); VERIF_ASSERT(!(n)->my_is_in_list, "Still in the queue?"); if ((n)->my_aborted) EXC_THROW(user_abort); } while (0)
static bool STUB_pred(void) {
    interfere(); if (g_pred_calls < 1000) g_pred_calls++;
    if (nondet_bool()) { EXC_THROW(pred); return false; }
    bool r = nondet_bool(); __CPROVER_assume(!g_E || r);                             /* the state change E makes the condition true and it stays true */
    g_last_pred = r; g_pred_since_add = true; return r;
}
#define IDLE (!g_lk && !g_pre && !g_hold && !N.my_is_in_list && TK <= 1 && BEQ(N.my_skipped_wakeup, TK == 1) && (N.my_initialized || TK == 0) && NINV)
#define ENQ (TK == 1 && !g_pre && !g_hold && N.my_initialized && !N.my_skipped_wakeup && NINV)
#define LOOP_wait_1 __CPROVER_assigns(__CPROVER_object_whole(&N), __CPROVER_object_whole(&M), g_lk, g_ow, g_sg, g_pre, g_hold, g_E, g_Tdone, g_after, g_nl, g_P_calls, g_pred_calls, g_last_pred, g_pred_since_add, g_fenced_since_add, g_exc) \
    __CPROVER_loop_invariant(ENQ && !g_exc && !g_pred_since_add && g_P_calls <= 1000 && g_pred_calls <= 1000)
#include "sleeper.inc"
static void mk(void) {
    __CPROVER_havoc_object(&N); __CPROVER_havoc_object(&M);
    g_lk = nondet_bool(); g_ow = nondet_bool(); g_sg = nondet_bool(); g_pre = false; g_hold = false; g_E = nondet_bool(); g_Tdone = nondet_bool(); g_after = nondet_bool(); g_nl = nondet_size_t();
    g_P_calls = g_pred_calls = 0; g_exc = false; g_last_pred = false; g_pred_since_add = false; g_fenced_since_add = false;
}
void h_prepare_wait(void) {
    mk(); __CPROVER_assume(IDLE);
    bool stale = N.my_skipped_wakeup;
    mon_prepare_wait(&M, &N);
    OBLIGATION(ENQ && !g_exc, "C02.monitor: when prepare_wait returns the node is in the wait set - or a notifier has already taken it out and owes / has delivered exactly one signal; exactly one wake-up token exists");
    OBLIGATION(g_P_calls == (stale ? 1u : 0u), "C02.signal: a node re-used after a skipped wake-up consumes the stale signal first (one P), a clean node does not block");
    OBLIGATION(g_fenced_since_add, "C02.fence: the sleeper issues a full fence AFTER linking its node and before prepare_wait returns, i.e. before the caller's re-check of the condition "
                                   "(the sleeper's half of the store->load ordering; presence and position only: adequacy under TSO is not proved)");
    VACUITY_CASE(stale, "re-use after a skipped wake-up"); VACUITY_CASE(!g_lk, "dequeued before prepare_wait returns");
    VACUITY_END();
}
void h_commit_wait(void) {
    mk(); __CPROVER_assume(ENQ && !(g_lk && g_after));   /* the caller's re-check, made after prepare_wait, found the condition false: the node was not linked after E */
    mon_commit_wait(&M, &N);
    OBLIGATION(IDLE, "C02.monitor: when commit_wait returns (or throws user_abort) the node is out of the wait set - never left dangling - and a still-pending signal is remembered in my_skipped_wakeup");
    if (g_exc) OBLIGATION(N.my_aborted && TK == 0 && g_P_calls == 1, "C02.monitor: user_abort is thrown only to a thread that was woken by abort_all, after it consumed the signal");
    OBLIGATION(g_P_calls <= 1 && (g_P_calls == 0 || TK == 0), "C02.signal: commit_wait blocks at most once, and having blocked it has consumed the one signal of this enqueue (every V has its P)");
    VACUITY_CASE(g_P_calls == 1 && !g_exc, "slept and woken"); VACUITY_CASE(g_P_calls == 0 && N.my_skipped_wakeup, "cancelled with a signal pending"); VACUITY_CASE(g_exc, "aborted");
    VACUITY_END();
}
void h_cancel_wait(void) {
    mk(); __CPROVER_assume(ENQ);
    mon_cancel_wait(&M, &N);
    OBLIGATION(IDLE && !g_exc && g_P_calls == 0, "C02.monitor: after cancel_wait the node is out of the wait set (removed by the sleeper under the mutex, or already taken out by a notifier); "
                                                  "my_skipped_wakeup is set exactly when a notifier's signal is still owed or pending, so that the next prepare_wait (or the destructor) consumes it");
    VACUITY_CASE(N.my_skipped_wakeup, "signal pending"); VACUITY_CASE(!N.my_skipped_wakeup, "removed by the sleeper");
    VACUITY_END();
}
void h_wait(void) {
    mk(); __CPROVER_assume(IDLE);
    mon_wait(&M, &N);
    OBLIGATION(IDLE, "C02.monitor: however wait() ends (woken, predicate true, predicate threw, aborted) the node is out of the wait set and a pending signal is remembered");
    VACUITY_CASE(g_P_calls >= 1 && !g_exc && !N.my_skipped_wakeup, "woken"); VACUITY_CASE(!g_exc && g_pred_calls > 1 && g_last_pred, "predicate true on a later round"); VACUITY_CASE(g_exc && N.my_aborted, "aborted");
    VACUITY_END();
}
#endif

/* =====================================================================================================================
   MON_N: the notifier's side - notify_one_relaxed / notify_all_relaxed / notify_relaxed(p) / notify_one_relaxed(p) / abort_all_relaxed and the fenced wrappers.
   The wait set at the moment the notifier's mutex section begins is the sequence of nodes 0 .. g_cnt-1 in list order (any length); NB[i] is the address of node i.
   Links are functional (the closed forms that the list contracts of section LIST produce for the operations performed so far); node fields live in per-index arrays.
   g_k is ONE arbitrary node of that snapshot; everything proved about it holds for every node.
   Obligations = the notifier transitions the sleeper section relies on: a node is taken out only inside the section, together with clearing its flag; every node taken out is
   signalled exactly once, after its flag was cleared; nodes that are not eligible are left exactly as they were; the function gives up early only if the counter was 0.
   ===================================================================================================================== */
#ifdef MON_N
struct monitor { int my_mutex; struct base_list my_waitset; unsigned my_epoch; };
static struct monitor M;
static size_t g_cnt; static struct base_node *NB; static bool *g_match, *g_il, *g_ab;
size_t g_k; bool g_removed_k, g_in_temp_k; unsigned g_notified_k;
bool g_hold, g_flushed, g_any_linked, g_fenced, g_count_read, g_count_was_zero; int g_phase; size_t g_lo_removed, g_last_notified, g_last_added; unsigned g_nrem, g_notify_calls, g_relaxed_calls; bool g_fence_before_call;
#define NMAX ((size_t)1 << 12)
#define NONE SIZE_MAX
#define IDX(n) ((size_t)(__CPROVER_POINTER_OFFSET(n) / sizeof(struct base_node)))
#define IS_NODE(n) (__CPROVER_same_object((n), NB) && __CPROVER_POINTER_OFFSET(n) % sizeof(struct base_node) == 0 && IDX(n) < g_cnt)
#define SAT_INC(x) do { if ((x) < 1000) (x)++; } while (0)
#define FENCE_SEQ_CST() do { g_fenced = true; } while (0)
/* the counter is read outside the mutex: it is never smaller than the number of linked nodes (list.add counts before linking is complete, remove / flush un-count a node that is being taken out) */
#define ATOMIC_LOAD_AT(site, x) ({ if (!g_hold && &(x) == &M.my_waitset.count) { M.my_waitset.count = nondet_size_t(); g_any_linked = nondet_bool(); __CPROVER_assume(!g_any_linked || M.my_waitset.count >= 1); \
                                     g_count_read = true; g_count_was_zero = (M.my_waitset.count == 0); } (x); })
#define ATOMIC_STORE_AT(site, x, v) do { if (&(x) == (void *)&M.my_epoch) OBLIGATION(g_hold, "C02.monitor: the epoch is advanced inside the notifier's mutex section"); (x) = (v); } while (0)
#include "list.inc"
#define LOCK_MUTEX(m) do { OBLIGATION(!g_hold, "C02.monitor: the wait-set mutex is not taken twice"); g_hold = true; g_phase = 1; M.my_waitset.count = g_cnt; } while (0)
#define UNLOCK_MUTEX(m) do { OBLIGATION(g_hold, "C02.monitor: only a held mutex is released"); \
    __CPROVER_assert(g_cnt == 0 || BEQ(g_removed_k, !g_il[g_k]), "guarantee: when the notifier leaves its mutex section every node it took out of the wait set has my_is_in_list cleared, every node it left in still has it set"); \
    g_hold = false; g_phase = 2; } while (0)
#define WS_EMPTY(self) base_list_empty(&(self)->my_waitset)
#define WS_SIZE(self) base_list_size(&(self)->my_waitset)
#define WS_END(self) base_list_end(&(self)->my_waitset)
#define TEMP_CTOR(t) base_list_ctor(t)
#define TEMP_END(t) base_list_end(t)
#define TO_WAIT_NODE(n) (n)
static struct base_node *WS_FRONT(struct monitor *m) {
    OBLIGATION(g_hold && g_nrem == 0 && !g_flushed, "C02.monitor: the wait set is read only under its mutex");
    return g_cnt > 0 ? &NB[0] : &m->my_waitset.head;
}
static struct base_node *WS_LAST(struct monitor *m) {
    OBLIGATION(g_hold && g_nrem == 0 && !g_flushed, "C02.monitor: the wait set is read only under its mutex");
    return g_cnt > 0 ? &NB[g_cnt - 1] : &m->my_waitset.head;
}
static void WS_REMOVE(struct monitor *m, struct base_node *n) {
    OBLIGATION(g_hold && !g_flushed, "C02.monitor: the wait set is changed only under its mutex");
    OBLIGATION(IS_NODE(n), "C02.monitor: only a node of the wait set is unlinked (never the sentinel)"); size_t i = IDX(n);
    OBLIGATION(i < g_lo_removed, "C02.monitor: a node is unlinked from the wait set at most once");
    g_lo_removed = i; if (i == g_k) g_removed_k = true; SAT_INC(g_nrem); m->my_waitset.count--;
}
static void WS_FLUSH_TO(struct monitor *m, struct base_list *t) {
    OBLIGATION(g_hold && !g_flushed && g_nrem == 0, "C02.monitor: the wait set is changed only under its mutex");
    g_flushed = true; if (g_cnt > 0) { t->count = m->my_waitset.count; m->my_waitset.count = 0; g_removed_k = true; g_in_temp_k = true; g_lo_removed = 0; }
}
static void TEMP_ADD(struct base_list *t, struct base_node *n) {
    OBLIGATION(IS_NODE(n), "C02.monitor: only a node is appended to the local list"); size_t i = IDX(n);
    OBLIGATION(i == g_lo_removed && i != g_last_added, "C02.monitor: the node appended to the local list is the one just unlinked from the wait set (an intrusive node is in one list at a time)");
    g_last_added = i; if (i == g_k) g_in_temp_k = true; t->count++;
}
static size_t PREVMATCH(size_t x) {   /* the largest index below x whose context satisfies the predicate (definitional: constrained at the ghost index) */
    size_t r = nondet_size_t();
    __CPROVER_assume(r == NONE || (r < x && r < g_cnt && g_match[r]));
    __CPROVER_assume(!(g_cnt > 0 && g_k < x && g_match[g_k]) || (r != NONE && r >= g_k));
    return r;
}
static struct base_node *TEMP_FRONT(struct base_list *t) {
#if defined(WANT_nall) || defined(WANT_abort)
    OBLIGATION(g_flushed, "C02.monitor: the local list is walked after the flush");
    return g_cnt > 0 ? &NB[0] : &t->head;
#else
    OBLIGATION(g_phase == 2 || g_hold, "C02.monitor: the local list is walked after the section");
    OBLIGATION(g_cnt == 0 || !g_match[g_k] || g_in_temp_k, "C02.notify: every node whose context satisfies the predicate has been moved to the local list when the walk over it starts (none skipped)");
    size_t r = PREVMATCH(g_cnt); return r == NONE ? &t->head : &NB[r];
#endif
}
static struct base_node *node_next(struct base_node *n, struct base_list *t) {
    OBLIGATION(IS_NODE(n), "C02.monitor: the link that is followed belongs to a node"); size_t i = IDX(n);
    OBLIGATION(i != g_last_notified, "C02.notify: the successor is read BEFORE the node is signalled (a signalled sleeper may return and destroy its node at once)");
#if defined(WANT_nall) || defined(WANT_abort)
    OBLIGATION(g_flushed, "C02.monitor: forward links are followed in the local list");
    return i + 1 < g_cnt ? &NB[i + 1] : &t->head;
#else
    OBLIGATION(g_phase == 2 && g_match[i] && (i != g_k || g_in_temp_k), "C02.monitor: forward links are followed only from a node of the local list, after the section");
    size_t r = PREVMATCH(i); return r == NONE ? &t->head : &NB[r];
#endif
}
static struct base_list temp;   /* file-scope fallback for functions that have no local list `temp` (shadowed by the local where there is one): a forward link followed there fails node_next's obligations instead of the compilation */
#define NODE_NEXT(n) node_next((n), &temp)
static struct base_node *NODE_PREV(struct base_node *n) {
    OBLIGATION(g_hold && !g_flushed, "C02.monitor: the wait set is walked only under its mutex");
    OBLIGATION(IS_NODE(n), "C02.monitor: the link that is followed belongs to a node"); size_t i = IDX(n);
    OBLIGATION(i < g_lo_removed, "C02.notify: the backward link is read while the node is still in the wait set (after it is moved to the local list its links belong to that list)");
    return i > 0 ? &NB[i - 1] : &M.my_waitset.head;
}
static bool PREDICATE(struct base_node *n) { OBLIGATION(IS_NODE(n) && g_hold, "C02.monitor: the predicate is evaluated on a node of the wait set, under the mutex"); return g_match[IDX(n)]; }
static void NODE_STORE_IN_LIST(struct base_node *n, bool v) {
    OBLIGATION(IS_NODE(n), "C02.monitor: only a node is written"); OBLIGATION(g_hold, "guarantee: a notifier writes my_is_in_list only inside its mutex section");
    g_il[IDX(n)] = v;
}
static void NODE_STORE_ABORTED(struct base_node *n, bool v) {
    OBLIGATION(IS_NODE(n), "C02.monitor: only a node is written"); size_t i = IDX(n);
    OBLIGATION(i != g_last_notified && (i != g_k || (g_removed_k && g_notified_k == 0)), "C02.notify: a node is marked aborted by the notifier that took it out, before it is signalled");
    g_ab[i] = v;
}
static void NODE_NOTIFY(struct base_node *n) {
    OBLIGATION(IS_NODE(n), "C02.notify: only a node is signalled (never the sentinel)"); size_t i = IDX(n);
#if defined(WANT_npred) || defined(WANT_n1pred)
    OBLIGATION(g_match[i], "C02.notify: only a node whose context satisfies the predicate is signalled");
#endif
    if (i == g_k) {
        OBLIGATION(g_removed_k, "guarantee: a notifier signals only a node it took out of the wait set itself (the token moves linked -> owed -> signalled)");
        OBLIGATION(!g_il[g_k], "C02.notify: my_is_in_list is cleared BEFORE the node is signalled");
        OBLIGATION(g_notified_k == 0, "C02.signal: a node is signalled at most once per enqueue");
#ifdef WANT_abort
        OBLIGATION(g_ab[g_k], "C02.notify: abort_all marks the node aborted before it signals it");
#endif
        SAT_INC(g_notified_k);
    }
    g_last_notified = i; SAT_INC(g_notify_calls);
}
#define POSF(n) ((n) == end ? g_cnt : IDX(n))            /* forward walks: nodes below POSF are done */
#define POSB(n) ((n) == end ? (size_t)0 : IDX(n) + 1)    /* backward walks: nodes at or above POSB are done */
#define KSTATE_UNTOUCHED (!g_removed_k && !g_in_temp_k && g_il[g_k] && g_notified_k == 0)
#define KSTATE_TAKEN (g_removed_k && g_in_temp_k && !g_il[g_k])
#define LOOP_nall_1 __CPROVER_assigns(n, __CPROVER_object_whole(g_il)) \
    __CPROVER_loop_invariant((n == end || IS_NODE(n)) && (g_k < POSF(n) ? !g_il[g_k] : g_il[g_k])) __CPROVER_decreases(g_cnt - POSF(n))
#define LOOP_nall_2 __CPROVER_assigns(n, nxt, g_notified_k, g_last_notified, g_notify_calls) \
    __CPROVER_loop_invariant((n == end || IS_NODE(n)) && g_notified_k == (g_k < POSF(n) ? 1u : 0u) && (g_last_notified == NONE || g_last_notified < POSF(n)) && g_notify_calls <= 1000) __CPROVER_decreases(g_cnt - POSF(n))
#define LOOP_abort_1 LOOP_nall_1
#define LOOP_abort_2 __CPROVER_assigns(n, nxt, g_notified_k, g_last_notified, g_notify_calls, __CPROVER_object_whole(g_ab)) \
    __CPROVER_loop_invariant((n == end || IS_NODE(n)) && (g_k >= POSF(n) || g_ab[g_k]) && g_notified_k == (g_k < POSF(n) ? 1u : 0u) && (g_last_notified == NONE || g_last_notified < POSF(n)) && g_notify_calls <= 1000) __CPROVER_decreases(g_cnt - POSF(n))
#define LOOP_npred_1 __CPROVER_assigns(n, nxt, __CPROVER_object_whole(g_il), g_removed_k, g_in_temp_k, g_lo_removed, g_nrem, g_last_added, M.my_waitset.count, temp.count) \
    __CPROVER_loop_invariant((n == end || IS_NODE(n)) && g_lo_removed >= POSB(n) && (g_last_added == NONE || g_last_added >= POSB(n)) && g_nrem <= 1000 && g_notified_k == 0 \
        && ((g_k >= POSB(n) && g_match[g_k]) ? KSTATE_TAKEN : KSTATE_UNTOUCHED)) __CPROVER_decreases(POSB(n))
#define LOOP_npred_2 __CPROVER_assigns(n, nxt, g_notified_k, g_last_notified, g_notify_calls) \
    __CPROVER_loop_invariant((n == end || (IS_NODE(n) && g_match[IDX(n)])) && g_notified_k == ((g_match[g_k] && g_k >= POSB(n)) ? 1u : 0u) && (g_last_notified == NONE || g_last_notified >= POSB(n)) && g_notify_calls <= 1000) __CPROVER_decreases(POSB(n))
#define LOOP_n1pred_1 __CPROVER_assigns(n, next, tmp, __CPROVER_object_whole(g_il), g_removed_k, g_lo_removed, g_nrem, M.my_waitset.count) \
    __CPROVER_loop_invariant((n == end || IS_NODE(n)) && tmp == NULL && g_nrem == 0 && g_lo_removed == g_cnt && KSTATE_UNTOUCHED && !(g_k >= POSB(n) && g_match[g_k])) __CPROVER_decreases(POSB(n))
#include "notifier.inc"
static void mk(void) {
    __CPROVER_havoc_object(&M);
    g_cnt = nondet_size_t(); __CPROVER_assume(g_cnt <= NMAX);
    size_t a = g_cnt ? g_cnt : 1; NB = malloc(a * sizeof(struct base_node)); g_match = malloc(a * sizeof(bool)); g_il = malloc(a * sizeof(bool)); g_ab = malloc(a * sizeof(bool));
    __CPROVER_assume(NB && g_match && g_il && g_ab);
    g_k = nondet_size_t(); __CPROVER_assume(g_cnt == 0 ? g_k == 0 : g_k < g_cnt);
    __CPROVER_assume(g_il[g_k]);                                  /* mutex invariant, instance at the ghost node: a linked node has my_is_in_list set (guarantee of the sleeper section) */
    __CPROVER_assume(!g_ab[g_k]);
    g_removed_k = g_in_temp_k = false; g_notified_k = 0; g_hold = g_flushed = g_any_linked = g_fenced = g_count_read = g_count_was_zero = false; g_phase = 0;
    g_lo_removed = g_cnt; g_last_notified = NONE; g_last_added = NONE; g_nrem = g_notify_calls = 0;
}
#define COMMON_POST() do { \
    OBLIGATION(!g_hold, "C02.monitor: the wait-set mutex is released on every path"); \
    OBLIGATION(g_count_read, "C02.monitor: the notifier looks at the wait set (counter or list) at all"); \
    if (g_phase == 0) { OBLIGATION(g_count_was_zero && !g_any_linked, "C02.no_lost_wakeup: a notifier gives up without taking the mutex only if the wait-set counter was 0 when it tested it - then no node was linked at that moment, " \
                                   "and a sleeper that links its node later re-checks the condition after the notifier's state change"); \
                        OBLIGATION(g_notify_calls == 0 && g_nrem == 0, "C02.monitor: nothing is touched on the early return"); } } while (0)
#ifdef WANT_n1
void h_notify_one(void) {
    mk(); mon_notify_one_relaxed(&M); COMMON_POST();
    if (g_phase != 0 && g_cnt > 0) {
        OBLIGATION(g_notify_calls == 1 && g_nrem == 1 && g_lo_removed == 0 && g_last_notified == 0, "C02.notify: notify_one on a non-empty wait set takes out exactly one node (the front one) and signals exactly it");
        if (g_k == 0) OBLIGATION(g_removed_k && !g_il[g_k] && g_notified_k == 1, "C02.notify: the node taken out has my_is_in_list cleared under the mutex and is signalled exactly once");
        else OBLIGATION(KSTATE_UNTOUCHED, "C02.notify: every other node stays in the wait set, flagged, unsignalled");
    }
    if (g_phase != 0 && g_cnt == 0) OBLIGATION(g_notify_calls == 0 && g_nrem == 0, "C02.notify: nothing is signalled when the wait set turned out empty under the mutex");
    VACUITY_CASE(g_phase == 0, "early return"); VACUITY_CASE(g_phase != 0 && g_cnt > 1 && g_k == 1, "non-empty");  VACUITY_CASE(g_phase != 0 && g_cnt == 0, "emptied meanwhile");
    VACUITY_END();
}
#endif
#if defined(WANT_nall) || defined(WANT_abort)
void h_notify_all(void) {
    mk();
#ifdef WANT_nall
    mon_notify_all_relaxed(&M);
#else
    mon_abort_all_relaxed(&M);
#endif
    COMMON_POST();
    if (g_phase != 0 && g_cnt > 0) {
        OBLIGATION(g_removed_k && g_in_temp_k && M.my_waitset.count == 0, "C02.notify: notify_all / abort_all take EVERY node out of the wait set (any number of sleepers)");
        OBLIGATION(!g_il[g_k], "C02.notify: every node taken out has my_is_in_list cleared under the mutex");
        OBLIGATION(g_notified_k == 1, "C02.no_lost_wakeup: every node that was in the wait set when the notifier's section ran is signalled, exactly once");
#ifdef WANT_abort
        OBLIGATION(g_ab[g_k], "C02.notify: abort_all marks every sleeper aborted");
#endif
    }
    if (g_phase != 0 && g_cnt == 0) OBLIGATION(g_notify_calls == 0, "C02.notify: nothing is signalled when the wait set turned out empty under the mutex");
    VACUITY_CASE(g_phase == 0, "early return"); VACUITY_CASE(g_phase != 0 && g_cnt > 2 && g_k == 1, "several sleepers"); VACUITY_CASE(g_phase != 0 && g_cnt == 0, "emptied meanwhile");
    VACUITY_END();
}
#endif
#ifdef WANT_npred
void h_notify_pred(void) {
    mk(); mon_notify_relaxed(&M); COMMON_POST();
    if (g_phase != 0 && g_cnt > 0) {
        if (g_match[g_k]) OBLIGATION(KSTATE_TAKEN && g_notified_k == 1, "C02.no_lost_wakeup: notify(p) takes every node whose context satisfies p out of the wait set, clears its flag under the mutex and signals it exactly once (none skipped, any number of sleepers)");
        else OBLIGATION(KSTATE_UNTOUCHED, "C02.notify: a node whose context does not satisfy p stays in the wait set, flagged, unsignalled");
    }
    VACUITY_CASE(g_phase == 0, "early return"); VACUITY_CASE(g_phase != 0 && g_cnt > 3 && g_k == 1 && g_match[1] && !g_match[2] && g_match[3], "mixed"); VACUITY_CASE(g_phase != 0 && g_cnt > 1 && !g_match[g_k], "left in");
    VACUITY_END();
}
#endif
#ifdef WANT_n1pred
void h_notify_one_pred(void) {
    mk(); mon_notify_one_relaxed_pred(&M); COMMON_POST();
    if (g_phase != 0 && g_cnt > 0) {
        OBLIGATION(g_notify_calls <= 1 && g_nrem == g_notify_calls, "C02.notify: notify_one(p) takes out and signals at most one node");
        if (g_match[g_k]) OBLIGATION(g_notify_calls == 1, "C02.no_lost_wakeup: if some node's context satisfies p, notify_one(p) wakes one (a node that satisfies p: see the signalling obligation)");
        if (g_nrem == 1 && g_k == g_lo_removed) OBLIGATION(g_removed_k && !g_il[g_k] && g_notified_k == 1, "C02.notify: the node taken out has my_is_in_list cleared under the mutex and is signalled exactly once");
        else OBLIGATION(KSTATE_UNTOUCHED, "C02.notify: every other node stays in the wait set, flagged, unsignalled");
    }
    VACUITY_CASE(g_phase == 0, "early return"); VACUITY_CASE(g_phase != 0 && g_cnt > 3 && g_nrem == 1 && g_lo_removed == 1, "one in the middle"); VACUITY_CASE(g_phase != 0 && g_cnt > 1 && g_nrem == 0, "no match");
    VACUITY_END();
}
#endif
#endif

/* MON_W: the fenced wrappers notify_one / notify_all / notify(p) / abort_all: a full fence FIRST (between the caller's state change and the emptiness test of the relaxed version:
   the notifier's half of the store->load ordering; under the SC assumption of these proofs only its presence and position are checked), then the relaxed version, once. */
#ifdef MON_W
struct monitor { int my_mutex; struct base_list my_waitset; unsigned my_epoch; };
static struct monitor M; bool g_fenced; unsigned g_calls[4]; bool g_fenced_at_call;
#define FENCE_SEQ_CST() do { g_fenced = true; } while (0)
static void relaxed_stub(int which) { if (g_calls[which] < 1000) g_calls[which]++; g_fenced_at_call = g_fenced; }
#define mon_notify_one_relaxed(self) relaxed_stub(0)
#define mon_notify_all_relaxed(self) relaxed_stub(1)
#define mon_notify_relaxed(self) relaxed_stub(2)
#define mon_abort_all_relaxed(self) relaxed_stub(3)
#define WANT_w1
#define WANT_wall
#define WANT_wpred
#define WANT_wabort
#include "notifier.inc"
void h_wrappers(void) {
    int which = nondet_int(); __CPROVER_assume(which >= 0 && which < 4);
    g_fenced = g_fenced_at_call = false; g_calls[0] = g_calls[1] = g_calls[2] = g_calls[3] = 0;
    if (which == 0) mon_notify_one(&M); else if (which == 1) mon_notify_all(&M); else if (which == 2) mon_notify(&M); else mon_abort_all(&M);
    OBLIGATION(g_calls[which] == 1 && g_calls[0] + g_calls[1] + g_calls[2] + g_calls[3] == 1, "C02.notify: notify_one / notify_all / notify(p) / abort_all run their own relaxed version, once");
    OBLIGATION(g_fenced_at_call, "C02.fence: the notifier issues its full fence BEFORE the relaxed version tests the wait set for emptiness (presence and position only: adequacy under TSO is not proved)");
    VACUITY_END();
}
#endif

/* =====================================================================================================================
   SEM: binary_semaphore on a futex word (0 open = one signal available, 1 closed, 2 closed and the waiter may be asleep in the kernel).
   One thread calls P (the node's owner); V comes from notifiers, never twice in a row (token <= 1 of section MON_S; the code's own debug assertion).
   Census: g_v = number of V so far, g_c = number of signals taken by P.  INV: word == 0 exactly when g_v == g_c + 1, otherwise g_v == g_c.
   futex_wait(addr, 2) blocks only if *addr == 2 at that instant, and may return spuriously.  The waiter can be asleep in the kernel only while the word is 2,
   hence the V that opens the semaphore sees 2 and must issue the wake-up.
   ===================================================================================================================== */
#ifdef SEM
struct binary_semaphore { int my_sem; };
static struct binary_semaphore S; long g_v, g_c; unsigned g_my_c, g_my_v, g_wakes, g_blocks; bool g_wake_after_open, g_opened, g_addr_ok;
#define CMAXS ((long)1 << 40)
#define INV_S (0 <= g_c && g_c <= g_v && g_v < CMAXS && (S.my_sem == 0 ? g_v == g_c + 1 : g_v == g_c) && S.my_sem >= 0 && S.my_sem <= 2)
#ifdef SEM_P_SIDE
static void interfere(void) { if (S.my_sem != 0 && g_v < CMAXS - 2 && nondet_bool()) { S.my_sem = 0; g_v++; } }      /* a notifier's V (never on an open semaphore) */
static void took(int old) { if (old == 0) { g_c++; if (g_my_c < 1000) g_my_c++; } }
#else
static void interfere(void) {                                                                                       /* the owner's P: takes an open semaphore, or announces that it may sleep */
    if (S.my_sem == 0 && nondet_bool()) { S.my_sem = nondet_bool() ? 1 : 2; g_c++; }
    if (S.my_sem == 1 && nondet_bool()) S.my_sem = 2;
}
static void took(int old) { (void)old; }
#endif
#define ATOMIC_LOAD_AT(site, x) ({ interfere(); (x); })
#define ATOMIC_STORE_AT(site, x, v) do { (x) = (v); } while (0)
#define ATOMIC_CAS_AT(site, x, pexp, des) ({ interfere(); int old_ = (x); bool ok_ = (old_ == *(pexp)); if (ok_) { (x) = (des); took(old_); } else *(pexp) = old_; \
      __CPROVER_assert(INV_S, "guarantee: the semaphore word is open exactly when one V has not been taken yet, at " #site); ok_; })
#define ATOMIC_XCHG_AT(site, x, v) ({ interfere(); int old_ = (x); int v_ = (v); (x) = v_; \
      if (v_ == 0) { __CPROVER_assert(old_ != 0, "guarantee: V is never applied to an open semaphore (at most one signal per enqueue)"); g_v++; if (g_my_v < 1000) g_my_v++; g_opened = true; } else took(old_); \
      __CPROVER_assert(INV_S, "guarantee: the semaphore word is open exactly when one V has not been taken yet, at " #site); old_; })
static int STUB_futex_wait(void *addr, int cmp) {
    interfere();
    OBLIGATION(addr == (void *)&S.my_sem && cmp == 2, "C02.futex: P sleeps in the kernel on the semaphore word with comparand 2 (the kernel re-checks word == 2 atomically, so a V that came first is not slept through)");
    if (S.my_sem == 2) { if (g_blocks < 1000) g_blocks++;
        OBLIGATION(g_my_c == 0, "C02.futex: P does not go (back) to sleep after it has taken the signal"); }
    interfere(); return 0;
}
static int STUB_futex_wakeup_one(void *addr) { g_addr_ok = (addr == (void *)&S.my_sem); if (g_wakes < 1000) g_wakes++; g_wake_after_open = g_opened; return 0; }
#define LOOP_semP_1 __CPROVER_assigns(s, S.my_sem, g_v, g_c, g_my_c, g_blocks) __CPROVER_loop_invariant(INV_S && (s != 0 ? g_my_c == 0 : g_my_c == 1) && g_blocks <= 1000)
#include "sem.inc"
static void mk_sem(void) { S.my_sem = nondet_int(); g_v = nondet_long(); g_c = nondet_long(); __CPROVER_assume(INV_S && g_v < CMAXS - 4); g_my_c = g_my_v = g_wakes = g_blocks = 0; g_wake_after_open = g_opened = g_addr_ok = false; }
void h_sem_ctor(void) {
    __CPROVER_havoc_object(&S); sem_ctor(&S);
    OBLIGATION(S.my_sem == 1, "C02.futex: a new semaphore is closed with no sleeper announced: the first P blocks until the first V, the first V needs no wake-up call");
    VACUITY_END();
}
void h_sem_P(void) {
    mk_sem(); sem_P(&S);
    OBLIGATION(g_my_c == 1, "C02.signal: P returns only after it has taken exactly one signal (every V is matched by one P; P never returns on its own)");
    OBLIGATION(INV_S, "C02.signal: the census of V and P stays exact");
    VACUITY_CASE(g_blocks >= 1, "slept in the kernel"); VACUITY_CASE(g_blocks == 0, "open at once");
    VACUITY_END();
}
void h_sem_V(void) {
    mk_sem(); __CPROVER_assume(S.my_sem != 0);                 /* caller's obligation (MON_S / MON_N): at most one signal per enqueue */
    int before = S.my_sem;
    sem_V(&S);
    OBLIGATION(g_my_v == 1, "C02.signal: V opens the semaphore exactly once");
    OBLIGATION(!(g_my_v == 1 && g_wakes == 0) || before == 1, "C02.futex: V skips the kernel wake-up only if the word it replaced was 1 (nobody announced a sleep)");
    OBLIGATION(g_wakes == 0 || (g_wake_after_open && g_addr_ok), "C02.futex: the wake-up is issued on the semaphore word AFTER the word was opened (a sleeper woken earlier would see it closed and sleep again)");
    VACUITY_CASE(g_wakes == 1, "wake-up issued"); VACUITY_CASE(g_wakes == 0, "no sleeper");
    VACUITY_END();
}
#endif

/* =====================================================================================================================
   NODES: sleep_node<Context> (what wait_node::init / wait / reset / notify mean for a thread that sleeps on a semaphore) - the contracts section MON_S uses for them.
   ===================================================================================================================== */
#ifdef NODES
typedef uintptr_t CTX_T;
struct wait_node { struct base_node base; CTX_T my_context; bool my_is_in_list, my_initialized, my_skipped_wakeup, my_aborted; unsigned my_epoch; int sema; };
static struct wait_node N; unsigned g_P, g_V, g_ctor, g_dtor; bool g_P_before_dtor, g_sema_ok, g_ctor_before_init;
#define SEMAPHORE(n) (&(n)->sema)
#define CHK(p) do { if ((p) != &N.sema) g_sema_ok = false; } while (0)
#define SEM_P(p) do { CHK(p); if (g_P < 1000) g_P++; if (g_dtor == 0) g_P_before_dtor = true; OBLIGATION(g_ctor == 1 || N.my_initialized, "C02.node: the semaphore is used only once it is constructed"); } while (0)
#define SEM_V(p) do { CHK(p); if (g_V < 1000) g_V++; } while (0)
#define SEM_CTOR(p) do { CHK(p); if (g_ctor < 1000) g_ctor++; g_ctor_before_init = !N.my_initialized; } while (0)
#define SEM_DTOR(p) do { CHK(p); if (g_dtor < 1000) g_dtor++; } while (0)
#define ATOMIC_LOAD_AT(site, x) (x)
#include "wait_node.inc"
#include "nodes.inc"
static void mk_node(void) { __CPROVER_havoc_object(&N); g_P = g_V = g_ctor = g_dtor = 0; g_P_before_dtor = false; g_sema_ok = true; g_ctor_before_init = false; g_exc = false; }
void h_sleep_node(void) {
    mk_node(); int which = nondet_int(); __CPROVER_assume(which >= 0 && which < 5);
    bool init0 = N.my_initialized, skip0 = N.my_skipped_wakeup, ab0 = N.my_aborted;
    if (which == 0) {
        sleep_node_init(&N);
        OBLIGATION(N.my_initialized && g_ctor == (init0 ? 0u : 1u) && (init0 || g_ctor_before_init), "C02.node: init constructs the semaphore exactly once, before the node is marked initialised; a second init does nothing");
    } else if (which == 1) {
        __CPROVER_assume(init0 && !N.my_is_in_list);                    /* commit_wait after prepare_wait; the node was dequeued before it was signalled (MON_N) */
        sleep_node_wait(&N);
        OBLIGATION(g_P == 1 && g_V == 0, "C02.node: wait() is exactly one P on the node's own semaphore");
        OBLIGATION(BEQ(g_exc, ab0), "C02.node: after being woken, wait() throws user_abort exactly if abort_all marked the node");
    } else if (which == 2) {
        __CPROVER_assume(init0 && skip0);                               /* prepare_wait calls reset only with a skipped wake-up pending */
        sleep_node_reset(&N);
        OBLIGATION(g_P == 1 && g_V == 0 && !N.my_skipped_wakeup, "C02.signal: reset() consumes the stale signal of the skipped wake-up (one P) and clears the flag");
    } else if (which == 3) {
        sleep_node_notify(&N);
        OBLIGATION(g_V == 1 && g_P == 0, "C02.node: notify() is exactly one V on the node's own semaphore");
    } else {
        sleep_node_dtor(&N);
        OBLIGATION(g_P == ((init0 && skip0) ? 1u : 0u) && g_dtor == (init0 ? 1u : 0u) && (g_P == 0 || g_P_before_dtor),
                   "C02.signal: a node destroyed with a skipped wake-up pending first waits for that signal (P), so that the notifier's V never hits a destroyed semaphore; an uninitialised node has no semaphore to destroy");
    }
    OBLIGATION(g_sema_ok, "C02.node: every operation goes to the node's own semaphore");
    VACUITY_CASE(which == 4 && init0 && skip0, "destroyed with a signal pending"); VACUITY_CASE(which == 1 && g_exc, "aborted"); VACUITY_CASE(which == 0 && init0, "second init");
    VACUITY_END();
}
#endif

/* =====================================================================================================================
   RESUME: resume_node (a suspended coroutine waiting in the monitor).  notify() is called twice per sleep: by the monitor's notifier and by the thread that left the
   suspended stack (post_resume_action::register_waiter); whoever comes second resumes the coroutine - never the first alone (the stack may still be in use), never both.
   Rely/guarantee on my_notify_calls: c == (monitor's notify done) + (register_waiter's notify done).
   ===================================================================================================================== */
#ifdef RESUME
typedef uintptr_t CTX_T;
struct wait_node { struct base_node base; CTX_T my_context; bool my_is_in_list, my_initialized, my_skipped_wakeup, my_aborted; unsigned my_epoch; int my_notify_calls; };
#define resume_node wait_node
#define RN_BASE(x) (x)
static struct wait_node N; bool g_a, g_b, g_me_is_a; unsigned g_resumes, g_switches; bool g_other_resumed;
#define INV_R (N.my_notify_calls == B(g_a) + B(g_b))
static void interfere(void) {   /* the other party's notify(): it resumes exactly if it comes second (its own job proves that) */
    if (g_me_is_a) { if (!g_b && nondet_bool()) { g_b = true; N.my_notify_calls++; if (N.my_notify_calls == 2) g_other_resumed = true; } }
    else           { if (!g_a && nondet_bool()) { g_a = true; N.my_notify_calls++; if (N.my_notify_calls == 2) g_other_resumed = true; } }
}
#define ATOMIC_LOAD_AT(site, x) ({ interfere(); (x); })
#define ATOMIC_PREINC_AT(site, x) ({ interfere(); OBLIGATION(g_me_is_a ? !g_a : !g_b, "C02.resume: each of the two parties notifies once per sleep"); if (g_me_is_a) g_a = true; else g_b = true; ++(x); \
      __CPROVER_assert(INV_R, "guarantee: my_notify_calls counts the notifications delivered"); (x); })
#define ATOMIC_STORE_AT(site, x, v) do { interfere(); (x) = (v); g_a = g_b = false; __CPROVER_assert(INV_R, "guarantee: the counter is reset only when no notification is outstanding"); } while (0)
#define SPIN_WAIT_UNTIL_EQ(x, v) do { interfere(); __CPROVER_assume((x) == (v)); } while (0)
#define STUB_resume(n) do { if (g_resumes < 1000) g_resumes++; } while (0)
#define STUB_switch_stack(n) do { if (g_switches < 1000) g_switches++; N.my_is_in_list = false; } while (0)
#include "wait_node.inc"
#include "resume_node.inc"
void h_resume_notify(void) {
    __CPROVER_havoc_object(&N); g_a = nondet_bool(); g_b = nondet_bool(); g_me_is_a = nondet_bool(); g_resumes = g_switches = 0; g_other_resumed = false;
    __CPROVER_assume(INV_R && (g_me_is_a ? !g_a : !g_b));
    resume_node_notify(&N);
    interfere();
    OBLIGATION(INV_R, "C02.resume: the counter equals the notifications delivered");
    OBLIGATION(!(g_a && g_b) || (g_resumes + (g_other_resumed ? 1u : 0u) == 1), "C02.resume: once both notifications are in, the coroutine has been resumed exactly once - by whichever notify() came second");
    OBLIGATION(g_resumes == 0 || (g_a && g_b), "C02.resume: the first notification alone never resumes (the suspended stack may still be in use)");
    VACUITY_CASE(g_resumes == 1, "I came second"); VACUITY_CASE(g_other_resumed, "the other came second"); VACUITY_CASE(!(g_a && g_b), "still waiting for the other");
    VACUITY_END();
}
void h_resume_reset(void) {
    /* skipped wake-up: cancel_wait found the node already dequeued, so the monitor's notify() is owed or delivered; the stack was never left, so register_waiter's will not come */
    __CPROVER_havoc_object(&N); g_me_is_a = false; g_b = false; g_a = nondet_bool(); g_resumes = g_switches = 0; g_other_resumed = false;
    __CPROVER_assume(INV_R && N.my_skipped_wakeup);
    bool dtor = nondet_bool();
    if (dtor) resume_node_dtor(&N); else resume_node_reset(&N);
    OBLIGATION(g_resumes == 0 && !g_other_resumed, "C02.resume: a skipped wake-up resumes nothing");
    if (dtor) OBLIGATION(g_a, "C02.signal: a resume_node destroyed with a skipped wake-up pending first waits for the monitor's notify() (it must not hit a destroyed node)");
    else OBLIGATION(N.my_notify_calls == 0 && !g_a && !N.my_skipped_wakeup, "C02.signal: reset() waits for the stale notify() of the skipped wake-up, then clears the counter and the flag: the next sleep starts from zero");
    VACUITY_END();
}
#endif

/* =====================================================================================================================
   AW: address_waiter.cpp - the table of monitors keyed by address.  W = one arbitrary sleeper (address WA, context WC): by aw.wait_on_address it sleeps in the monitor
   get_address_waiter(WA) with node context (WA, WC).  A notification for address A therefore has to go to get_address_waiter(A) with a predicate that W satisfies whenever
   W is among the sleepers the call is meant for.
   ===================================================================================================================== */
#ifdef AW
struct address_context { void *my_address; uintptr_t my_context; };
struct address_waiter { int dummy; };
struct delegate_base { int dummy; };
#include "aw_decl.inc"
static struct address_waiter address_waiter_table[num_address_waiters];
typedef bool (*pred_fn)(void *, uintptr_t, struct address_context);
static struct address_context W, X; static struct address_waiter *g_mon; static bool g_woken_W, g_woken_X, g_all, g_relaxed; static unsigned g_calls;
static struct address_waiter *g_wait_mon; static struct address_context g_wait_ctx; static struct delegate_base *g_wait_pred; static unsigned g_waits;
static void note(struct address_waiter *w, pred_fn p, void *a, uintptr_t c, bool all, bool relaxed) {
    g_mon = w; g_woken_W = p(a, c, W); g_woken_X = p(a, c, X); g_all = all; g_relaxed = relaxed; if (g_calls < 1000) g_calls++;
}
#define STUB_monitor_notify_relaxed(w, p, a, c) note((w), (p), (a), (c), true, true)
#define STUB_monitor_notify(w, p, a, c) note((w), (p), (a), (c), true, false)
#define STUB_monitor_notify_one_relaxed(w, p, a, c) note((w), (p), (a), (c), false, true)
static void STUB_monitor_wait(struct address_waiter *w, struct delegate_base *p, struct address_context c) { g_wait_mon = w; g_wait_ctx = c; g_wait_pred = p; if (g_waits < 1000) g_waits++; }
static struct address_waiter g_the_monitor; static void *g_gaw_arg; static unsigned g_gaw_calls;
static struct address_waiter *GET_ADDRESS_WAITER(void *a) { g_gaw_arg = a; if (g_gaw_calls < 1000) g_gaw_calls++; return &g_the_monitor; }   /* get_address_waiter: a function of the address only (job aw.table) */
#include "aw.inc"
void h_aw_table(void) {
    void *a = nondet_ptr();
    struct address_waiter *r = get_address_waiter(a);       /* that the result depends on the address alone is a textual scan at extraction (two symbolic 64-bit modulo operations do not finish in SAT) */
    OBLIGATION(__CPROVER_same_object(r, address_waiter_table) && __CPROVER_POINTER_OFFSET(r) < sizeof(address_waiter_table) && __CPROVER_POINTER_OFFSET(r) % sizeof(struct address_waiter) == 0,
               "C02.address: every address is mapped to a monitor inside the table");
    VACUITY_END();
}
void h_aw_wait(void) {
    void *a = nondet_ptr(); uintptr_t c = nondet_uintptr_t(); struct delegate_base P; g_waits = 0; g_gaw_calls = 0;
    wait_on_address(a, &P, c);
    OBLIGATION(g_waits == 1 && g_wait_mon == &g_the_monitor && g_gaw_calls == 1 && g_gaw_arg == a, "C02.address: a thread that waits on an address sleeps in the monitor selected by that address - the one notify_by_address* of the same address select");
    OBLIGATION(g_wait_ctx.my_address == a && g_wait_ctx.my_context == c, "C02.address: its wait node carries (address, context), which is what the notifiers' predicates test");
    OBLIGATION(g_wait_pred == &P, "C02.address: the condition re-checked between prepare_wait and commit_wait is the caller's wake-up condition");
    VACUITY_END();
}
void h_aw_notify(void) {
    void *a = nondet_ptr(); uintptr_t c = nondet_uintptr_t(); int which = nondet_int(); __CPROVER_assume(which >= 0 && which < 3);
    W.my_address = nondet_ptr(); W.my_context = nondet_uintptr_t(); X.my_address = nondet_ptr(); X.my_context = nondet_uintptr_t(); g_calls = 0; g_gaw_calls = 0;
    if (which == 0) notify_by_address(a, c); else if (which == 1) notify_by_address_all(a); else notify_by_address_one(a);
    OBLIGATION(g_calls == 1 && g_mon == &g_the_monitor && g_gaw_calls == 1 && g_gaw_arg == a, "C02.address: the notification goes to the monitor selected by the address (where the sleepers of that address are)");
    if (which == 0) OBLIGATION(!(W.my_address == a && W.my_context == c) || g_woken_W, "C02.no_lost_wakeup: notify_by_address(a, c) selects every sleeper that waits on a with context c");
    if (which == 1) OBLIGATION(!(W.my_address == a) || g_woken_W, "C02.no_lost_wakeup: notify_by_address_all(a) selects every sleeper that waits on a, whatever its context");
    if (which != 2) OBLIGATION(g_all, "C02.no_lost_wakeup: notify_by_address / notify_by_address_all wake ALL selected sleepers, not just one");
    if (which == 2) {
        OBLIGATION(!(W.my_address == a) || g_woken_W, "C02.no_lost_wakeup: notify_by_address_one(a) may pick any sleeper that waits on a");
        OBLIGATION(!g_woken_X || X.my_address == a, "C02.no_lost_wakeup: the single wake-up of notify_by_address_one(a) is not spent on a sleeper of another address that shares the monitor");
    }
    VACUITY_CASE(which == 0 && g_woken_W, "by address+context"); VACUITY_CASE(which == 2 && g_woken_W && !g_woken_X, "one");
    VACUITY_END();
}
#endif

/* =====================================================================================================================
   RWMW: rw_mutex, blocking side (the state-word protocol itself is C08).  Sleepers come in the classes harvested from the code: each adaptive_wait_on_address call with its
   wake-up condition (a function of the state word) and its context.  g_cls = one arbitrary class.  A sleeper of that class sleeps while its condition is false.
   Obligation for every function that writes the state word: if one of ITS writes turns the condition of class g_cls from false to true, then before it returns it either issues a
   notification that reaches the class (notify_by_address with the class's context, or notify_by_address_all) or sees, in a later read of the word, the condition false again
   (then whoever makes it true afterwards owes the notification).  The notification comes AFTER the write.
   ===================================================================================================================== */
#ifdef RWMW
typedef intptr_t state_type; typedef uintptr_t context_type;
#include "rwm_decl.inc"
static state_type m_state; static int g_cls; static bool g_owed, g_upgrader_me; static long g_my_readers; static bool g_my_writer; static unsigned g_waits; static bool g_wait_ok;
static int g_this;
#define THIS (&g_this)
#define SMAX ((state_type)1 << 40)
#define K_STATES (m_state >= 0 && m_state < SMAX && ((m_state & READERS) >= ONE_READER * (g_my_readers + (g_cls == RWM_CLS_upgrade ? 1 : 0))) && (!g_my_writer || (m_state & WRITER)) \
                  && (!g_upgrader_me || (m_state & (WRITER | WRITER_PENDING)) == (WRITER | WRITER_PENDING)))   /* the bits the upgrader set stay set until it clears them (the code's own debug assertion; C08) */
static void interfere(void) { m_state = nondet_intptr_t(); __CPROVER_assume(K_STATES); }
static void transition(state_type nw) {
    state_type old = m_state;
    if (!rwm_pred(g_cls, old) && rwm_pred(g_cls, nw)) g_owed = true;
    g_my_readers += ((nw & READERS) - (old & READERS)) / ONE_READER;
    if ((old & WRITER) != (nw & WRITER)) g_my_writer = (nw & WRITER) != 0;
    if (g_upgrader_me && !(nw & WRITER_PENDING)) g_upgrader_me = false;
    m_state = nw;
}
#define ATOMIC_LOAD_AT(site, x) ({ interfere(); if (!rwm_pred(g_cls, (x))) g_owed = false; (x); })
#define ATOMIC_CAS_AT(site, x, pe, d) ({ interfere(); bool ok_ = ((x) == *(pe)); if (ok_) { transition(d); UPGRADE_CAS_HOOK(site); } else { if (!rwm_pred(g_cls, (x))) g_owed = false; *(pe) = (x); } ok_; })
#define ATOMIC_FETCH_ADD_AT(site, x, v) ({ interfere(); state_type o_ = (x); transition(o_ + (v)); o_; })
#define ATOMIC_FETCH_OR_AT(site, x, v) ({ interfere(); state_type o_ = (x); transition(o_ | (v)); o_; })
#define ATOMIC_FETCH_AND_AT(site, x, v) ({ interfere(); state_type o_ = (x); transition(o_ & (v)); o_; })
#define ATOMIC_AND_FETCH_AT(site, x, v) ({ interfere(); transition((x) & (v)); (x); })
#define ATOMIC_ADD_FETCH_AT(site, x, v) ({ interfere(); transition((x) + (v)); (x); })
#ifdef RWMW_UPGRADE
/* while this thread is THE upgrader (it set WRITER|WRITER_PENDING as a reader) no other reader is upgrading (C08: rw_mutex::upgrade) */
#define UPGRADE_CAS_HOOK(site) do { g_upgrader_me = true; __CPROVER_assume(g_cls != RWM_CLS_upgrade); } while (0)
#else
#define UPGRADE_CAS_HOOK(site) ((void)0)
#endif
static void STUB_notify_by_address(void *a, context_type c) { OBLIGATION(a == THIS, "C02.rw_mutex: notifications carry the mutex's own address (where its sleepers wait)"); if (c == rwm_ctx(g_cls)) g_owed = false; }
static void STUB_notify_by_address_all(void *a) { OBLIGATION(a == THIS, "C02.rw_mutex: notifications carry the mutex's own address (where its sleepers wait)"); g_owed = false; }
static void STUB_notify_by_address_one(void *a) { OBLIGATION(a == THIS, "C02.rw_mutex: notifications carry the mutex's own address (where its sleepers wait)"); }   /* one arbitrary sleeper: reaches no class for sure */
static void STUB_wait(void *a, bool (*p)(state_type), context_type c) {
    if (g_waits < 1000) g_waits++;
    g_wait_ok = g_wait_ok && a == THIS;
    OBLIGATION(!g_owed, "C02.rw_mutex: a thread does not go to sleep while it still owes a notification for a state change of its own");
    interfere();
}
#define LOOPW __CPROVER_assigns(m_state, g_owed, g_my_readers, g_my_writer, g_waits, g_wait_ok, g_upgrader_me) __CPROVER_loop_invariant(g_my_readers >= 0 && g_my_readers <= 1 && !g_owed && K_STATES && g_waits <= 1000 && g_wait_ok)
#define LOOP_rwm_lock_1 LOOPW
#define LOOP_rwm_lock_shared_1 LOOPW
#define LOOP_rwm_upgrade_1 __CPROVER_assigns(m_state, g_owed, g_my_readers, g_my_writer, g_waits, g_wait_ok, g_upgrader_me, s) __CPROVER_loop_invariant(g_my_readers == 1 && !g_owed && K_STATES && g_waits <= 1000 && !g_upgrader_me && g_wait_ok)
#define LOOP_rwm_upgrade_2 __CPROVER_assigns(m_state, g_owed, g_waits, g_wait_ok) __CPROVER_loop_invariant(g_my_readers == 1 && !g_owed && K_STATES && g_waits <= 1000 && g_upgrader_me && g_cls != RWM_CLS_upgrade && g_wait_ok)
#include "rwm_wake.inc"
static void mk_rwm(long readers, bool writer) {
    g_cls = nondet_int(); __CPROVER_assume(g_cls >= 0 && g_cls < RWM_NCLS);
    g_owed = false; g_my_readers = readers; g_my_writer = writer; g_waits = 0; g_wait_ok = true; g_upgrader_me = false; interfere();
}
#define POST() do { OBLIGATION(!g_owed, "C02.no_lost_wakeup: every write of the rw_mutex state word that makes a class of sleepers' wake-up condition true is followed, in the same call, " \
    "by a notification that reaches that class (its context, or all) - unless the condition was seen false again afterwards"); \
    OBLIGATION(g_wait_ok, "C02.rw_mutex: sleepers wait on the mutex's own address"); VACUITY_END(); } while (0)
void h_rwm_unlock(void) { mk_rwm(0, true); rwm_unlock(); POST(); }
void h_rwm_unlock_shared(void) { mk_rwm(1, false); rwm_unlock_shared(); POST(); }
void h_rwm_try_lock_shared(void) { mk_rwm(0, false); rwm_try_lock_shared(); POST(); }
void h_rwm_try_lock(void) { mk_rwm(0, false); rwm_try_lock(); POST(); }
void h_rwm_downgrade(void) { mk_rwm(0, true); rwm_downgrade(); POST(); }
void h_rwm_lock(void) { mk_rwm(0, false); rwm_lock(); POST(); }
void h_rwm_lock_shared(void) { mk_rwm(0, false); rwm_lock_shared(); POST(); }
void h_rwm_upgrade(void) { mk_rwm(1, false); rwm_upgrade(); POST(); }
#endif

/* =====================================================================================================================
   MUTEXW: tbb::mutex on waitable_atomic<bool>, and adaptive_wait_on_address.  A locker sleeps on the flag's address while the flag is true (condition: flag != true);
   unlock makes that condition true and must then notify a sleeper of the same address.
   ===================================================================================================================== */
#ifdef MUTEXW
typedef bool (*cond_fn)(void);
struct waitable_atomic { bool my_atomic; };
struct mutex { struct waitable_atomic my_flag; };
static struct mutex MXo; static bool g_i_hold, g_owed, g_addr_ok, g_pred_ok, g_old_ok, g_last_cond, g_cond_evald; static unsigned g_notifies, g_waits, g_spins; static uintptr_t g_wait_ctx; static void *g_wait_addr; static cond_fn g_wait_pred;
static bool g_pinned, g_pin_val;
static void interfere(void) { bool v = nondet_bool(); if (g_i_hold) v = true; if (g_pinned) v = g_pin_val; MXo.my_flag.my_atomic = v; }       /* other threads lock and unlock; while this thread holds the mutex the flag stays set */
#define ATOMIC_LOAD_AT(site, x) ({ interfere(); (x); })
#define ATOMIC_XCHG_AT(site, x, v) ({ interfere(); bool o_ = (x); bool v_ = (v); (x) = v_; if (!o_ && v_) g_i_hold = true; if (o_ && !v_) { g_i_hold = false; g_owed = true; } o_; })
static bool watom_wakeup_condition(void);
static void STUB_notify_by_address_one(void *a) { if (a != (void *)&MXo.my_flag) g_addr_ok = false; else g_owed = false; if (g_notifies < 1000) g_notifies++; }
static void STUB_wait_on_address(void *a, cond_fn p, uintptr_t c) {
    if (g_waits < 1000) g_waits++; g_wait_addr = a; g_wait_pred = p; g_wait_ctx = c;
    OBLIGATION(!g_owed, "C02.mutex: a thread does not go to sleep while it still owes a notification for its own unlock");
    interfere();
}
static bool STUB_timed_spin_wait_until(cond_fn c) { if (g_spins < 1000) g_spins++; if (nondet_bool()) return false; return c(); }   /* true only if the condition was seen true */
#define LOOP_wa_wait_1 __CPROVER_assigns(MXo.my_flag.my_atomic, g_waits, g_wait_addr, g_wait_pred, g_wait_ctx, g_last_cond, g_cond_evald) __CPROVER_loop_invariant(g_waits <= 1000 && !g_owed && !g_i_hold && (g_waits == 0 || (g_wait_addr == (void *)self && g_wait_ctx == context && g_wait_pred == watom_wakeup_condition)))
#define LOOP_mx_lock_1 __CPROVER_assigns(MXo.my_flag.my_atomic, g_waits, g_wait_addr, g_wait_pred, g_wait_ctx, g_last_cond, g_cond_evald, g_wc_self, g_wc_old, g_i_hold, g_spins) \
    __CPROVER_loop_invariant(g_waits <= 1000 && g_spins <= 1000 && !g_owed && !g_i_hold && g_addr_ok && (g_waits == 0 || (g_wait_addr == (void *)&MXo.my_flag && g_wait_ctx == 0 && g_wait_pred == watom_wakeup_condition && g_wc_self == &MXo.my_flag && g_wc_old)))
#include "mutex.inc"
/* every evaluation of the sliced wake-up condition is recorded */
static bool cond_probe(void) { bool r = watom_wakeup_condition(); g_last_cond = r; g_cond_evald = true; return r; }
static void mk_mx(void) { g_pinned = false; g_i_hold = g_owed = false; g_addr_ok = g_pred_ok = g_old_ok = true; g_last_cond = g_cond_evald = false; g_notifies = g_waits = g_spins = 0; g_wait_addr = NULL; g_wait_pred = NULL; interfere(); }
void h_mutex_unlock(void) {
    mk_mx(); g_i_hold = true; MXo.my_flag.my_atomic = true;
    mutex_unlock(&MXo);
    OBLIGATION(!g_i_hold && g_notifies >= 1 && g_addr_ok && !g_owed, "C02.no_lost_wakeup: mutex::unlock clears the flag FIRST and THEN notifies a sleeper waiting on the flag's address");
    VACUITY_END();
}
void h_mutex_lock(void) {
    mk_mx();
    mutex_lock(&MXo);
    OBLIGATION(g_i_hold, "C02.mutex: lock() returns only after its own exchange took the flag");
    OBLIGATION(g_waits == 0 || (g_wait_addr == (void *)&MXo.my_flag && g_wait_pred == watom_wakeup_condition && g_wc_self == &MXo.my_flag && g_wc_old),
               "C02.mutex: a blocked lock() sleeps on the flag's address - the one unlock notifies - with the condition 'flag != true', which unlock's write makes true");
    VACUITY_CASE(g_waits >= 1, "slept"); VACUITY_END();
}
void h_watom_wait(void) {
    mk_mx(); bool old = nondet_bool(); uintptr_t c = nondet_uintptr_t();
    watom_wait(&MXo.my_flag, old, c);
    OBLIGATION(g_waits == 0 || (g_wait_addr == (void *)&MXo.my_flag && g_wait_ctx == c && g_wait_pred == watom_wakeup_condition && g_wc_self == &MXo.my_flag && BEQ(g_wc_old, old)),
               "C02.waitable_atomic: wait(old, ctx) sleeps on the atomic's own address with context ctx and the condition 'value != old'");
    g_pinned = true; g_pin_val = !old;               /* pin the value: the condition must be what it says */
    OBLIGATION(cond_probe(), "C02.waitable_atomic: the wake-up condition is 'value != old'");
    g_pin_val = old; OBLIGATION(!cond_probe(), "C02.waitable_atomic: the wake-up condition is 'value != old'");
    VACUITY_CASE(g_waits >= 1, "slept"); VACUITY_END();
}
static void *g_a; static unsigned g_adaptive_cond_calls;
static bool some_cond(void) { if (g_adaptive_cond_calls < 1000) g_adaptive_cond_calls++; return nondet_bool(); }
void h_adaptive_wait(void) {
    mk_mx(); int obj; uintptr_t c = nondet_uintptr_t(); g_adaptive_cond_calls = 0;
    adaptive_wait_on_address(&obj, some_cond, c);
    OBLIGATION(g_waits <= 1 && (g_waits == 0 || (g_wait_addr == (void *)&obj && g_wait_pred == some_cond && g_wait_ctx == c)), "C02.address: adaptive_wait_on_address hands the caller's address, wake-up condition and context on to wait_on_address");
    OBLIGATION(g_waits == 1 || g_spins == 1, "C02.address: it returns without sleeping only after spinning on the condition");
    VACUITY_CASE(g_waits == 1, "slept"); VACUITY_CASE(g_waits == 0, "condition came true while spinning"); VACUITY_END();
}
void h_watom_notify(void) {
    mk_mx(); watom_notify_one_relaxed(&MXo.my_flag);
    OBLIGATION(g_notifies == 1 && g_addr_ok, "C02.waitable_atomic: notify_one_relaxed notifies the atomic's own address - where wait() sleeps");
    VACUITY_END();
}
#endif

/* =====================================================================================================================
   ARENA: a thread that found no work sleeps in the waiting-threads monitor until its arena's pool-state word leaves EMPTY (or its wait_context is released).
   Two roles on the word my_pool_state (UNSET = EMPTY, SET = FULL, any other value = the busy token of a thread taking the emptiness snapshot):
     advertiser  (spawn / enqueue): publishes a task, THEN test_and_set; whoever moves UNSET -> SET wakes the arena's sleepers (request_workers(.., wakeup_threads = true))
     snapshot    (out_of_work): SET -> busy(me), look for tasks, busy(me) -> UNSET only if none was seen and nobody interrupted
   Claim (safety): once an advertisement that followed the publication of a task has returned, the word is not EMPTY and cannot become EMPTY while the task is there:
   it is SET, or it carries the token of a snapshot that STARTED AFTER the publication (such a snapshot sees the task and puts SET back).
   With mon.wait this gives: a sleeper committed after re-checking is_empty() saw UNSET later than its prepare_wait; the thread that then moved UNSET -> SET notifies the
   arena's sleepers after that store, so the sleeper's node is taken out and signalled (jobs mon.notify_relaxed, arena.advertise_new_work).
   ===================================================================================================================== */
#ifdef ARENA
struct arena_w; struct waiter;
struct market_context { uintptr_t my_uniq_addr; struct arena_w *my_arena_addr; };
struct atomic_flag { uintptr_t my_state; };
struct arena_w { struct atomic_flag my_pool_state; unsigned my_num_slots, my_num_reserved_slots, my_max_num_workers; int monitor; };
struct wait_context { uint64_t m_ref_count; };
struct suspend_point { bool m_is_owner_recalled; };
struct waiter { struct arena_w *my_arena; struct wait_context *my_wait_ctx; struct suspend_point *sp; };
typedef bool (*wcond_fn)(struct waiter *);
#include "arena_decl.inc"
static struct arena_w A;
#define W (A.my_pool_state.my_state)
#define IS_BUSY(w) ((w) != FLAG_SET && (w) != FLAG_UNSET)
#define ARENA_MONITOR(a) (&(a)->monitor)
static bool g_fenced, g_tas_started, g_fenced_at_tas;
#define FENCE_SEQ_CST() do { g_fenced = true; } while (0)
static bool g_win_old, g_opened_by_me, g_pub, g_pub_at_snap, g_snap_in_window, g_snap_taken, g_cleared_by_me; static uintptr_t g_mytoken; static unsigned g_rw_calls, g_notify_calls, g_adjusts; static bool g_rw_wake, g_rw_after_open, g_woken_S, g_mon_ok;
static struct market_context CS;   /* the context of one arbitrary sleeper */
#ifdef ARENA_PUB
/* others: advertisers (UNSET -> SET, busy -> SET) and snapshot takers (SET -> busy, busy -> SET, and busy -> UNSET ONLY for a window opened before the publication: guarantee of arena.out_of_work) */
static void interfere(void) {
    uintptr_t w0 = W, w1 = nondet_uintptr_t();
    if (IS_BUSY(w0) && g_win_old) { if (w1 != w0) g_win_old = false; }
    else if (IS_BUSY(w0)) __CPROVER_assume(w1 == w0 || w1 == FLAG_SET || IS_BUSY(w1));
    else if (w0 == FLAG_SET) __CPROVER_assume(w1 == FLAG_SET || IS_BUSY(w1));
    W = w1;
}
#define MY_WRITE(old_, des_) do { OBLIGATION((des_) == FLAG_SET, "guarantee: an advertiser only ever stores FULL"); if ((old_) == FLAG_UNSET) g_opened_by_me = true; g_win_old = false; } while (0)
#endif
#ifdef ARENA_CLR
/* others: advertisers and other snapshot takers; nobody else writes this thread's token, and while the word holds it the only thing that can happen is an advertiser's busy -> SET */
static void interfere(void) {
    uintptr_t w0 = W, w1 = nondet_uintptr_t();
    if (!g_pub && nondet_bool()) g_pub = true;                                        /* a task is published */
    if (g_mytoken != 0) { __CPROVER_assume(w1 != g_mytoken || w0 == g_mytoken); if (w0 == g_mytoken) __CPROVER_assume(w1 == g_mytoken || w1 == FLAG_SET || w1 == FLAG_UNSET || IS_BUSY(w1)); }
    W = w1;
}
#define MY_WRITE(old_, des_) do { \
    if ((old_) == FLAG_SET && IS_BUSY(des_)) { g_mytoken = (des_); g_snap_taken = false; } \
    else if (IS_BUSY(old_) && (des_) == FLAG_UNSET) { \
        OBLIGATION((old_) == g_mytoken, "guarantee: a thread turns only its OWN busy token into EMPTY"); \
        OBLIGATION(g_snap_taken && g_snap_in_window, "guarantee: the pool is declared EMPTY only after a snapshot taken inside this thread's own busy window"); \
        OBLIGATION(!g_pub_at_snap, "guarantee: the pool is never declared EMPTY by a snapshot that started after a task was published (it sees the task) - only a window opened BEFORE the publication can still clear"); \
        g_cleared_by_me = true; g_mytoken = 0; } \
    else if (IS_BUSY(old_) && (des_) == FLAG_SET) { if ((old_) == g_mytoken) g_mytoken = 0; } \
    else OBLIGATION(0, "guarantee: a snapshot taker makes only the transitions FULL -> busy(me), busy(me) -> EMPTY, busy(me) -> FULL"); } while (0)
#endif
#if defined(ARENA_PUB) || defined(ARENA_CLR)
#define ATOMIC_LOAD_AT(site, x) ({ if (!g_tas_started) { g_tas_started = true; g_fenced_at_tas = g_fenced; } interfere(); (x); })
#define ATOMIC_CAS_AT(site, x, pexp, des) ({ interfere(); uintptr_t old_ = (x), des_ = (des); __CPROVER_assume(des_ == FLAG_SET || des_ == FLAG_UNSET || (des_ != 0 && des_ != 1)); \
      bool ok_ = (old_ == *(pexp)); if (ok_) { (x) = des_; MY_WRITE(old_, des_); } else *(pexp) = old_; ok_; })
static bool STUB_mandatory_test_and_set(struct arena_w *a) { return nondet_bool(); }
static bool STUB_mandatory_try_clear_if(struct arena_w *a, bool (*p)(struct arena_w *)) { return nondet_bool(); }
static bool STUB_has_enqueued_tasks(struct arena_w *a) { return nondet_bool(); }
static bool STUB_has_tasks(struct arena_w *a) {
    interfere(); g_snap_taken = true; g_snap_in_window = (g_mytoken != 0 && W == g_mytoken); g_pub_at_snap = g_pub;
    bool r = nondet_bool(); if (g_pub) r = true;                                     /* a published task is seen by a later scan (SC; the scan itself is C16 empty.has_tasks) */
    return r;
}
static void STUB_adjust_demand(struct arena_w *a, int md, int wd) { if (g_adjusts < 1000) g_adjusts++; }
static void STUB_monitor_notify(int *mon, bool (*p)(struct arena_w *, struct market_context), struct arena_w *a) {
    if (g_notify_calls < 1000) g_notify_calls++; g_mon_ok = (mon == ARENA_MONITOR(&A)); g_woken_S = p(a, CS); g_rw_after_open = g_opened_by_me;
}
static void arena_request_workers(struct arena_w *self, int mandatory_delta, int workers_delta, bool wakeup_threads);
#define REQUEST_WORKERS(a, md, wd, wake) do { if (g_rw_calls < 1000) g_rw_calls++; g_rw_wake = (wake); arena_request_workers((a), (md), (wd), (wake)); } while (0)
#include "arena.inc"
static void mk_arena(void) {
    __CPROVER_havoc_object(&A); __CPROVER_assume(A.my_max_num_workers <= (1u << 28));
    g_win_old = nondet_bool(); g_opened_by_me = g_pub_at_snap = g_snap_in_window = g_snap_taken = g_cleared_by_me = false; g_mytoken = 0; g_rw_calls = g_notify_calls = g_adjusts = 0; g_rw_wake = g_rw_after_open = g_woken_S = false; g_mon_ok = true; g_fenced = g_tas_started = g_fenced_at_tas = false;
    CS.my_uniq_addr = nondet_uintptr_t(); CS.my_arena_addr = nondet_bool() ? &A : (struct arena_w *)nondet_ptr();
}
#endif
#ifdef ARENA_PUB
#define INV_PUB (W != FLAG_UNSET && !(IS_BUSY(W) && g_win_old))
void h_arena_advertise(void) {
    mk_arena(); g_pub = true;                                                          /* the task was published before the advertisement (spawn / enqueue store first) */
    __CPROVER_assume(!g_win_old || IS_BUSY(W));
    enum new_work_type wt = nondet_bool() ? work_spawned : nondet_bool() ? wakeup : work_enqueued;
    arena_advertise_new_work(&A, wt);
    OBLIGATION(INV_PUB, "C02.no_lost_wakeup: when an advertisement returns the pool state is not EMPTY: it is FULL, or carries the token of a snapshot that started after the task was published (which sees the task and restores FULL)");
    interfere();
    OBLIGATION(INV_PUB, "C02.no_lost_wakeup: and no step of any other thread can make it EMPTY while the task is there");
    OBLIGATION(!g_opened_by_me || (g_rw_calls == 1 && g_rw_wake && g_notify_calls == 1 && g_rw_after_open && g_mon_ok),
               "C02.no_lost_wakeup: the advertiser that moved the pool state EMPTY -> FULL wakes the arena's sleepers: request_workers(.., wakeup_threads = true) -> notify on the arena's waiting-threads monitor, AFTER the store");
    OBLIGATION(g_notify_calls == 0 || !(CS.my_arena_addr == &A) || g_woken_S, "C02.no_lost_wakeup: the notification selects every sleeper whose context names this arena");
    OBLIGATION(wt == work_spawned || (g_tas_started && g_fenced_at_tas), "C02.fence: for enqueued work and explicit wake-ups a full fence stands between the publication of the task and the first look at the pool state "
               "(presence and position only; spawned work skips it on purpose and is excluded by the property)");
    VACUITY_CASE(g_opened_by_me, "opened the epoch"); VACUITY_CASE(!g_opened_by_me && IS_BUSY(W), "a later snapshot in flight"); VACUITY_CASE(g_notify_calls == 1 && g_woken_S, "sleeper selected");
    VACUITY_END();
}
#endif
#ifdef ARENA_CLR
void h_arena_out_of_work(void) {
    mk_arena(); g_pub = nondet_bool();
    arena_out_of_work(&A);
    OBLIGATION(g_mytoken == 0 || W != g_mytoken, "C02.arena: the busy token (address of a local variable) is not left in the word when the call returns");
    OBLIGATION(g_notify_calls == 0, "C02.arena: giving workers back wakes nobody");
    VACUITY_CASE(g_cleared_by_me, "declared EMPTY"); VACUITY_CASE(g_snap_taken && !g_cleared_by_me, "snapshot found a task or was interrupted");
    VACUITY_END();
}
#endif
#ifdef ARENA_SLEEP
static struct wait_context WC; static struct suspend_point SP; static struct waiter WT;
static unsigned g_waits, g_oow, g_nw_calls; static int *g_wait_mon; static struct market_context g_wait_ctx; static wcond_fn g_wait_cond; static struct waiter *g_wait_self; static uintptr_t g_nw_addr; static bool g_sel_S;
#define ATOMIC_LOAD_AT(site, x) (x)
#define ATOMIC_CAS_AT(site, x, pexp, des) (0)
#define ATOMIC_FETCH_ADD_AT(site, x, v) ({ uint64_t o_ = (x); (x) = o_ + (v); o_; })
static bool STUB_mandatory_test_and_set(struct arena_w *a) { return false; }
static bool STUB_mandatory_try_clear_if(struct arena_w *a, bool (*p)(struct arena_w *)) { return false; }
static bool STUB_has_enqueued_tasks(struct arena_w *a) { return false; }
static bool STUB_has_tasks(struct arena_w *a) { return false; }
#define STUB_adjust_demand(a, md, wd) ((void)0)
#define STUB_monitor_notify(mon, p, a) ((void)0)
#define REQUEST_WORKERS(a, md, wd, wake) ((void)0)
#include "arena.inc"
#define ARENA_IS_EMPTY(a) arena_is_empty(a)
#define WAIT_CTX_CONTINUE(w) wait_context_continue_execution(w)
#define OWNER_RECALLED(s) ((s)->m_is_owner_recalled)
#define SLOT_SUSPEND_POINT(w) (&SP)
static bool STUB_backoff_pause(struct waiter *w) { return nondet_bool(); }
#define STUB_out_of_work(a) do { if (g_oow < 1000) g_oow++; } while (0)
#define STUB_reset_wait(w) ((void)0)
static void STUB_monitor_wait(int *mon, wcond_fn c, struct waiter *self, struct market_context ctx) { if (g_waits < 1000) g_waits++; g_wait_mon = mon; g_wait_cond = c; g_wait_self = self; g_wait_ctx = ctx; }
static void STUB_notify_waiters(uintptr_t a) { if (g_nw_calls < 1000) g_nw_calls++; g_nw_addr = a; }
#define CURRENT_ARENA_MONITOR() ARENA_MONITOR(&A)
static bool (*g_nwp)(uintptr_t, struct market_context); static int *g_nw_mon; static uintptr_t g_nwp_addr;
static void STUB_monitor_notify_wc(int *mon, bool (*p)(uintptr_t, struct market_context), uintptr_t a) { g_nw_mon = mon; g_nwp = p; g_nwp_addr = a; g_sel_S = p(a, CS); }
#include "wait_context.inc"
#include "waiters.inc"
void h_arena_sleepers(void) {
    __CPROVER_havoc_object(&A); __CPROVER_havoc_object(&WC); __CPROVER_havoc_object(&SP); __CPROVER_assume((WC.m_ref_count & overflow_mask) == 0);
    WT.my_arena = &A; WT.my_wait_ctx = &WC; WT.sp = NULL; g_waits = g_oow = 0;
    bool ext = nondet_bool();
    if (ext) external_waiter_pause(&WT); else coroutine_waiter_pause(&WT);
    if (g_waits) {
        OBLIGATION(g_waits == 1 && g_wait_mon == ARENA_MONITOR(&A), "C02.arena: an idle thread sleeps in the waiting-threads monitor of its arena - the one arena::request_workers and notify_waiters notify");
        OBLIGATION(g_wait_ctx.my_arena_addr == &A, "C02.arena: its context names its arena, so that the advertiser's predicate (this == context.my_arena_addr) selects it");
        OBLIGATION(g_wait_ctx.my_uniq_addr == (ext ? (uintptr_t)&WC : (uintptr_t)&SP), "C02.arena: its context carries the address of the wait_context (external thread) / suspend point (coroutine) it waits for, so that notify_waiters / the resume notification selects it");
        /* the condition re-checked between prepare_wait and commit_wait */
        bool full = nondet_bool(); A.my_pool_state.my_state = full ? nondet_uintptr_t() : FLAG_UNSET; __CPROVER_assume(!full || A.my_pool_state.my_state != FLAG_UNSET);
        bool released = nondet_bool(); WC.m_ref_count = released ? 0 : 1; SP.m_is_owner_recalled = released;
        bool c = g_wait_cond(g_wait_self);
        OBLIGATION(!full || c, "C02.no_lost_wakeup: the sleeper's wake-up condition is true whenever the pool state is not EMPTY (FULL or a snapshot in flight)");
        OBLIGATION(!released || c, "C02.no_lost_wakeup: the sleeper's wake-up condition is true once its wait_context is released / its owner is recalled");
    }
    VACUITY_CASE(g_waits == 1 && ext, "external thread sleeps"); VACUITY_CASE(g_waits == 1 && !ext, "coroutine sleeps"); VACUITY_CASE(g_waits == 0, "keeps spinning");
    VACUITY_END();
}
void h_wait_context(void) {
    __CPROVER_havoc_object(&WC); __CPROVER_assume(WC.m_ref_count >= 1 && WC.m_ref_count < ((uint64_t)1 << 31));
    CS.my_uniq_addr = nondet_bool() ? (uintptr_t)&WC : nondet_uintptr_t(); CS.my_arena_addr = (struct arena_w *)nondet_ptr();
    int64_t d = nondet_i64(); __CPROVER_assume(d < 0 && d > -((int64_t)1 << 32) && (uint64_t)(-d) <= WC.m_ref_count); g_nw_calls = 0;
    wait_context_add_reference(&WC, d);
    bool zero = (WC.m_ref_count == 0);
    OBLIGATION(!zero || (g_nw_calls == 1 && g_nw_addr == (uintptr_t)&WC), "C02.no_lost_wakeup: the release that brings a wait_context to zero notifies the waiters of THAT wait_context, after the counter was written");
    OBLIGATION(BEQ(wait_context_continue_execution(&WC), !zero), "C02.arena: continue_execution() is false exactly when the counter is zero (the sleeper's condition)");
    notify_waiters((uintptr_t)&WC);
    OBLIGATION(g_nw_mon == ARENA_MONITOR(&A) && (CS.my_uniq_addr != (uintptr_t)&WC || g_sel_S), "C02.no_lost_wakeup: notify_waiters goes to the waiting-threads monitor and selects every sleeper whose context carries this wait_context's address");
    VACUITY_CASE(zero && g_sel_S, "released, sleeper selected"); VACUITY_CASE(!zero, "not yet zero");
    VACUITY_END();
}
#endif
#endif

/* =====================================================================================================================
   MMUTEX: concurrent_monitor_mutex, the mutex that protects the wait set (sections MON_S / MON_N treat LOCK_MUTEX / UNLOCK_MUTEX as a mutual-exclusion section: this
   is the code behind them).  Word my_flag (0 free / 1 held) and counter my_waiters.  A locker that gives up spinning registers in my_waiters BEFORE it looks at the flag
   for the last time and sleeps in futex_wait(&my_flag, 1), which blocks only while the flag is 1; the unlocker clears the flag and THEN looks at my_waiters.
   ===================================================================================================================== */
#ifdef MMUTEX
struct mmutex { int my_flag; int my_waiters; };
static struct mmutex MM; static bool g_hold_me, g_W_counted, g_W_blocked, g_cleared, g_wake_after_clear, g_addr_ok; static unsigned g_wakes, g_blocks; static long g_others, g_my_count;
#define OTHERS_MAX ((long)1 << 20)
/* others: lock / unlock by other threads (never while this thread holds the mutex), other waiters come and go.  W = one arbitrary other locker: it registers in my_waiters, THEN looks at the
   flag, and blocks in futex_wait(&flag, 1) only if the flag is 1 at that moment (guarantee of mmutex.lock); it stays registered until it is woken */
static void interfere(void) {
    int f = nondet_bool() ? 1 : 0; if (g_hold_me) f = 1; MM.my_flag = f;
    if (!g_W_counted && nondet_bool()) g_W_counted = true;
    if (g_W_counted && !g_W_blocked && g_hold_me && MM.my_flag == 1 && nondet_bool()) g_W_blocked = true;    /* W went to sleep on a flag THIS thread holds: this thread's unlock owes it the wake-up */
    g_others = nondet_long(); __CPROVER_assume(g_others >= (g_W_counted ? 1 : 0) && g_others < OTHERS_MAX);
    MM.my_waiters = (int)(g_others + g_my_count);
}
#define ATOMIC_LOAD_AT(site, x) ({ interfere(); (x); })
#define ATOMIC_XCHG_AT(site, x, v) ({ interfere(); int o_ = (x); int v_ = (v); (x) = v_; \
      if (v_ == 1 && o_ == 0) { OBLIGATION(!g_hold_me, "C02.mmutex: the mutex is not taken twice by one thread"); g_hold_me = true; } \
      if (v_ == 0) { OBLIGATION(g_hold_me, "guarantee: only the holder clears the flag"); g_hold_me = false; g_cleared = true; } o_; })
#define ATOMIC_PREINC_AT(site, x) ({ interfere(); if (g_my_count < 1000) g_my_count++; ++(x); })
#define ATOMIC_PREDEC_AT(site, x) ({ interfere(); OBLIGATION(g_my_count > 0, "guarantee: a thread un-registers only itself (my_waiters never under-counts the lockers that may be asleep)"); g_my_count--; --(x); })
static bool mmx_wakeup_condition(struct mmutex *self);
static bool STUB_timed_spin_wait_until(struct mmutex *m) { if (nondet_bool()) return false; return mmx_wakeup_condition(m); }
static int STUB_futex_wait(void *a, int cmp) {
    interfere();
    OBLIGATION(a == (void *)&MM.my_flag && cmp == 1, "C02.mmutex: a locker sleeps in the kernel on the flag word with comparand 1 (the kernel re-checks flag == 1, so an unlock that came first is not slept through)");
    if (MM.my_flag == 1) { if (g_blocks < 1000) g_blocks++;
        OBLIGATION(g_my_count > 0, "C02.no_lost_wakeup: a locker is registered in my_waiters BEFORE it can block on the flag - the unlocker, which clears the flag first and reads my_waiters second, then sees it and issues the wake-up"); }
    interfere(); return 0;
}
static int STUB_futex_wakeup_one(void *a) { g_addr_ok = (a == (void *)&MM.my_flag); if (g_wakes < 1000) g_wakes++; g_wake_after_clear = g_cleared; return 0; }
#define LOOP_mmxlock_1 __CPROVER_assigns(MM.my_flag, MM.my_waiters, g_others, g_hold_me, g_my_count, g_blocks, g_W_counted, g_W_blocked) __CPROVER_loop_invariant(g_my_count >= 0 && g_my_count <= 1000 && !g_hold_me && g_blocks <= 1000)
#define LOOP_mmxlock_2 __CPROVER_assigns(MM.my_flag, MM.my_waiters, g_others, g_blocks, g_W_counted, g_W_blocked) __CPROVER_loop_invariant(g_my_count >= 0 && g_my_count <= 1000 && !g_hold_me && g_blocks <= 1000)
#include "mmutex.inc"
static void mk_mm(void) { g_hold_me = g_W_counted = g_W_blocked = g_cleared = g_wake_after_clear = false; g_addr_ok = true; g_wakes = g_blocks = 0; g_my_count = 0; interfere(); }
void h_mmutex_lock(void) {
    mk_mm(); mmx_lock(&MM);
    OBLIGATION(g_hold_me && MM.my_flag == 1, "C02.mmutex: lock() returns only after this thread's own exchange found the flag free and set it (mutual exclusion of the wait-set sections)");
    VACUITY_CASE(g_blocks >= 1, "slept in the kernel"); VACUITY_END();
}
void h_mmutex_unlock(void) {
    mk_mm(); g_hold_me = true; MM.my_flag = 1; interfere();
    mmx_unlock(&MM);
    OBLIGATION(!g_hold_me && g_cleared, "C02.mmutex: unlock() frees the flag");
    OBLIGATION(!g_W_blocked || (g_wakes >= 1 && g_wake_after_clear && g_addr_ok), "C02.no_lost_wakeup: a locker that went to sleep on the flag while this thread held it (it registered first, then saw the flag set) is owed a wake-up: "
               "unlock() clears the flag FIRST, reads my_waiters SECOND, sees it and wakes one sleeper on the flag word");
    VACUITY_CASE(g_W_blocked, "sleeper present"); VACUITY_CASE(!g_W_counted && g_wakes == 0, "nobody waiting");
    VACUITY_END();
}
#endif

/* =====================================================================================================================
   RML: rml::internal::thread_monitor, the sleep object of one private_server worker (one sleeper, any number of notifiers).  my_notified guards the binary semaphore against
   a second V.  Signal = V done, not yet taken by the worker's P.  INV: signal pending => my_notified.
   A notify() that finds my_notified already set issues no V: it is absorbed by the notification that is still in flight - sound because the worker re-arms (my_notified = false)
   only AFTER its P and re-checks its state only AFTER re-arming, so the absorbed notifier's state change, made before its exchange, is seen by that re-check.
   ===================================================================================================================== */
#ifdef RML
struct thread_monitor { bool my_notified; int my_sema; };
static struct thread_monitor TM; static bool g_sig; static unsigned g_V, g_P, g_absorbed_before_rearm; static bool g_rearmed, g_P_before_rearm, g_me_set, g_E, g_absorbed_E;
#define INV_TM (!g_sig || TM.my_notified)
#ifdef RML_NOTIFY
/* others: the worker (P takes the signal, then re-arms) and other notifiers (false -> true with a V) */
static void interfere(void) {
    if (!TM.my_notified && nondet_bool()) { TM.my_notified = true; g_sig = true; }       /* another notifier */
    if (g_sig && nondet_bool()) g_sig = false;                                          /* the worker's P */
    if (!g_sig && TM.my_notified && nondet_bool()) TM.my_notified = false;               /* ... and its re-arm, only after the P */
}
#else
/* others: notifiers.  E = the state change of one arbitrary notifier, made before its notify(); if that notify is absorbed, it was absorbed while my_notified was still set */
static void interfere(void) {
    if (!g_E && nondet_bool()) { g_E = true; if (TM.my_notified) { g_absorbed_E = true; } else { TM.my_notified = true; g_sig = true; } }
    if (!TM.my_notified && nondet_bool()) { TM.my_notified = true; g_sig = true; }
}
#endif
#define ATOMIC_XCHG_AT(site, x, v) ({ interfere(); bool o_ = (x); (x) = (v); if (!o_ && (v)) g_me_set = true; o_; })
#define ATOMIC_STORE_AT(site, x, v) do { interfere(); OBLIGATION(!(v), "guarantee: the worker only ever clears my_notified"); \
      OBLIGATION(g_P >= 1 && !g_sig, "C02.rml: the worker re-arms my_notified only AFTER its P took the signal (a notify in between is absorbed, never a second V on an open semaphore)"); \
      (x) = (v); g_rearmed = true; __CPROVER_assert(INV_TM, "guarantee: a pending signal implies my_notified"); } while (0)
#define SEM_V(p) do { OBLIGATION((p) == &TM.my_sema, "C02.rml: the monitor's own semaphore"); if (g_V < 1000) g_V++; \
      OBLIGATION(g_me_set, "C02.signal: notify() issues a V only if ITS exchange moved my_notified false -> true"); \
      OBLIGATION(!g_sig, "C02.signal: V is never applied to a semaphore whose signal is still pending"); g_sig = true; g_me_set = false; __CPROVER_assert(INV_TM, "guarantee: a pending signal implies my_notified"); } while (0)
#define SEM_P(p) do { OBLIGATION((p) == &TM.my_sema, "C02.rml: the monitor's own semaphore"); if (g_P < 1000) g_P++; interfere(); __CPROVER_assume(g_sig); g_sig = false; } while (0)
#include "rml.inc"
static void mk_tm(void) { TM.my_notified = nondet_bool(); g_sig = nondet_bool(); __CPROVER_assume(INV_TM); g_V = g_P = 0; g_rearmed = g_me_set = g_E = g_absorbed_E = false; }
void h_tm_notify(void) {
    mk_tm(); bool was = TM.my_notified;
    thread_monitor_notify(&TM);
    OBLIGATION(g_V <= 1 && !g_me_set, "C02.no_lost_wakeup: the notifier whose exchange set my_notified issues the V (exactly one)");
    OBLIGATION(INV_TM, "C02.rml: a pending signal implies my_notified");
    VACUITY_CASE(g_V == 1, "signalled"); VACUITY_CASE(g_V == 0, "absorbed");
    VACUITY_END();
}
void h_tm_wait(void) {
    mk_tm();
    thread_monitor_wait(&TM);
    OBLIGATION(g_P == 1 && g_rearmed, "C02.rml: wait() takes exactly one signal and re-arms my_notified before it returns - the caller's re-check of its state comes after the re-arm");
    interfere();
    VACUITY_CASE(g_absorbed_E, "a notify absorbed"); VACUITY_END();
}
#endif
