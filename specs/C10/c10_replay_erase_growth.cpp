// Native recipe for C10 job erase.by_key: erase(key) overlapping a growth step - the eraser is parked (through a custom mutex with spin_rw_mutex semantics) between reading the mask and locking the bucket, the table grows and the key is rehashed into its new bucket; erase must still find it.
// Demo for C10: erase(key) of a present key, with no other eraser around, returns
// false and leaves the element in the table when the table grows and the key's new
// bucket is lazily rehashed between the eraser's read of the bucket mask and its
// acquisition of the (old) bucket's lock.
//
// The interleaving is forced with a user supplied mutex type (preview feature
// TBB_PREVIEW_CONCURRENT_HASH_MAP_EXTENSIONS). The mutex is a plain wrapper around
// tbb::spin_rw_mutex - same semantics - that can park one chosen thread right before
// a blocking acquire().  Only public API is used.
//
// Identity hash, 256 buckets (mask 255), 254 elements, so the next insert grows the
// table to 512 buckets (mask 511).  Key 261 lives in bucket 5 (261 & 255) and belongs
// to the new bucket 261 after the growth.
//   E   : erase(261)     -> reads mask 255, is parked just before locking bucket 5
//   main: insert(filler) -> 255th element, the table grows, mask becomes 511
//   main: count(261)==1  -> as a side effect bucket 261 is rehashed: node 261 moves 5 -> 261
//   E   : resumed        -> does not find 261 in bucket 5, must notice the mask change and
//                           retry in bucket 261; erase must return true and remove the key.

#define TBB_PREVIEW_CONCURRENT_HASH_MAP_EXTENSIONS 1
#include <oneapi/tbb/concurrent_hash_map.h>
#include <oneapi/tbb/spin_rw_mutex.h>
#include <oneapi/tbb/tbb_allocator.h>

#include <atomic>
#include <chrono>
#include <cstdio>
#include <set>
#include <thread>
#include <unistd.h>

static std::atomic<bool> e_parked{false};
static std::atomic<bool> e_release{false};
static thread_local bool park_before_next_acquire = false;

class ParkingRWMutex {
    tbb::spin_rw_mutex impl;
public:
    static constexpr bool is_rw_mutex = true;
    static constexpr bool is_recursive_mutex = false;
    static constexpr bool is_fair_mutex = false;

    class scoped_lock {
        tbb::spin_rw_mutex::scoped_lock l;
    public:
        scoped_lock() = default;
        scoped_lock(ParkingRWMutex& m, bool write = true) { acquire(m, write); }
        scoped_lock(const scoped_lock&) = delete;
        scoped_lock& operator=(const scoped_lock&) = delete;

        void acquire(ParkingRWMutex& m, bool write = true) {
            if (park_before_next_acquire) {
                park_before_next_acquire = false;
                e_parked.store(true);
                while (!e_release.load()) std::this_thread::yield();
            }
            l.acquire(m.impl, write);
        }
        bool try_acquire(ParkingRWMutex& m, bool write = true) { return l.try_acquire(m.impl, write); }
        void release() { l.release(); }
        bool upgrade_to_writer() { return l.upgrade_to_writer(); }
        bool downgrade_to_reader() { return l.downgrade_to_reader(); }
        bool is_writer() const { return l.is_writer(); }
    };
};

struct IdentityHashCompare {
    std::size_t hash(const int& k) const { return std::size_t(k); }
    bool equal(const int& a, const int& b) const { return a == b; }
};

using map_t = tbb::concurrent_hash_map<int, int, IdentityHashCompare,
                                       tbb::tbb_allocator<std::pair<const int, int>>, ParkingRWMutex>;

[[noreturn]] static void finish(int code, const char* text) {
    std::printf("%s\n", text);
    std::fflush(stdout);
    _exit(code);
}

int main() {
    map_t& m = *new map_t(256);          // mask 255, every bucket initialised
    if (m.bucket_count() != 256) finish(2, "SETUP: unexpected initial bucket count");

    std::set<int> expected;
    for (int key : {5, 261}) {           // both live in bucket 5 while the mask is 255
        if (!m.insert(std::make_pair(key, key))) finish(2, "SETUP: insert failed");
        expected.insert(key);
    }
    int k = 1000;
    while (expected.size() < 254) {      // the 255th element triggers the growth
        if ((k & 255) != 5) {
            if (!m.insert(std::make_pair(k, k))) finish(2, "SETUP: filler insert failed");
            expected.insert(k);
        }
        ++k;
    }
    if (m.bucket_count() != 256 || m.size() != 254) finish(2, "SETUP: table grew too early");

    bool e_result = false;
    std::thread te([&] {
        park_before_next_acquire = true;
        e_result = m.erase(261);
    });
    auto deadline = std::chrono::steady_clock::now() + std::chrono::seconds(20);
    while (!e_parked.load()) {
        if (std::chrono::steady_clock::now() > deadline) finish(2, "SETUP: erasing thread never reached the bucket lock");
        std::this_thread::yield();
    }

    // grow the table: 255th element, lands in a bucket other than 5
    while ((k & 255) == 5) ++k;
    if (!m.insert(std::make_pair(k, k))) finish(2, "SETUP: growth insert failed");
    expected.insert(k);
    if (m.bucket_count() != 512) finish(2, "SETUP: table did not grow to 512 buckets");

    // the key is still there (erase has not done anything yet); the lookup rehashes bucket 261
    if (m.count(261) != 1) finish(1, "FAIL: count(261)==0 before the erase touched the table");

    e_release.store(true);
    te.join();

    // --- verdict: history is  insert(261)=true ... erase(261)=? ; no other erase of 261 ever ran
    bool still_there = m.count(261) != 0;
    if (!e_result && still_there)
        finish(1, "FAIL: erase(261) returned false although 261 was present and no other thread erased it; "
                  "the key is still in the table");
    if (!e_result) finish(1, "FAIL: erase(261) returned false although 261 was present");
    if (still_there) finish(1, "FAIL: erase(261) returned true but 261 is still found");
    expected.erase(261);
    if (m.erase(261)) finish(1, "FAIL: a second erase(261) also returned true");
    for (int key : expected)
        if (m.count(key) != 1) finish(1, "FAIL: a key was lost");
    std::size_t seen = 0;
    for (auto it = m.begin(); it != m.end(); ++it) ++seen;
    if (m.size() != expected.size() || seen != expected.size()) finish(1, "FAIL: size()/traversal disagree with the history");
    finish(0, "PASS");
}
