// Native replay for C10: white-box call of the REAL hash_map_base::check_rehashing_collision on a real, grown table.
#include <oneapi/tbb/concurrent_hash_map.h>
#include <cstdio>
#include <cstdlib>
#include <cstring>
#include <map>
#include <string>
struct IdHash { static size_t hash(size_t k) { return k; } static bool equal(size_t a, size_t b) { return a == b; } };
using M = tbb::concurrent_hash_map<size_t, int, IdHash>;
static std::map<std::string, unsigned long long> in;
#include <thread>
#include <atomic>
#include <chrono>
// an element may not be destroyed (and erase may not return) while another thread's accessor points to it
static bool erase_vs_holder(std::string& why) {
    for (int kind = 0; kind < 2; ++kind) for (int by_accessor = 0; by_accessor < 2; ++by_accessor) {
        M m; for (size_t i = 0; i < 100; ++i) m.insert({i, (int)i});
        std::atomic<bool> holding{false}, released{false};
        std::thread holder([&] {
            if (kind == 0) { M::const_accessor a; m.find(a, 42); holding = true; std::this_thread::sleep_for(std::chrono::milliseconds(150)); released = true; a.release(); }
            else { M::accessor a; m.find(a, 42); holding = true; std::this_thread::sleep_for(std::chrono::milliseconds(150)); released = true; a.release(); }
        });
        while (!holding) std::this_thread::yield();
        bool ok;
        if (by_accessor) { if (kind == 1) { holder.join(); continue; }   // a second accessor cannot be obtained while a writer holds the element
                           M::const_accessor mine; m.find(mine, 42); ok = m.erase(mine); }
        else ok = m.erase((size_t)42);
        bool early = !released.load();
        holder.join();
        if (early) { why = std::string("erase(") + (by_accessor ? "const_accessor" : "key") + ") of an element returned " + (ok ? "true" : "false") + " - the element was unlinked and destroyed - while another thread still held a" + (kind == 0 ? " const_accessor" : "n accessor") + " pointing to it"; return true; }
    }
    return false;
}
int main(int argc, char** argv) {
    std::string job = argc > 1 ? argv[1] : "";
    for (int i = 2; i < argc; ++i) { char* e = std::strchr(argv[i], '='); if (e) in[std::string(argv[i], e - argv[i])] = std::strtoull(e + 1, 0, 0); }
    { std::string why; if (job.rfind("erase", 0) == 0 && erase_vs_holder(why)) { std::printf("REPRODUCED class=element-destroyed-under-accessor %s\n", why.c_str()); return 0; } }
    M m; for (size_t i = 0; i < 5000; ++i) m.insert({i, 0});        // table of 8192 buckets, mask 0x1FFF
    using B = tbb::detail::d2::hash_map_base<tbb::tbb_allocator<std::pair<const size_t, int>>, tbb::spin_rw_mutex>;
    B& b = (B&)m;   // private base: C-style cast
    size_t mask_now = b.my_mask.load();
    struct C { size_t h, mo, mm; };
    std::vector<C> cs;
    if (in.count("IN_h") && in["IN_m"] <= mask_now && in["IN_mold"] >= 1) cs.push_back({(size_t)in["IN_h"], (size_t)in["IN_mold"], (size_t)in["IN_m"]});
    cs.push_back({0x300, 0xFF, 0x3FF}); cs.push_back({0x700, 0xFF, 0x7FF}); cs.push_back({0x1F00, 0xFF, 0x1FFF}); cs.push_back({0x100, 0xFF, 0x1FF});
    for (auto c : cs) {
        size_t d = c.h & ~c.mo & c.mm; if (!d || c.mm > mask_now) continue;
        size_t low = d & (~d + 1), em = (low << 1) - 1;
        auto* first = b.get_bucket(c.h & em); auto* last = b.get_bucket(c.h & c.mm);
        auto s1 = first->node_list.load(), s2 = last->node_list.load();
        for (int first_rehashed = 0; first_rehashed < 2; ++first_rehashed) {
            // the bucket the key moved to FIRST is (not) rehashed; the final bucket is in the opposite state
            first->node_list.store((B::node_base*)(first_rehashed ? tbb::detail::d2::empty_rehashed_flag : tbb::detail::d2::rehash_req_flag));
            if (last != first) last->node_list.store((B::node_base*)(first_rehashed ? tbb::detail::d2::rehash_req_flag : tbb::detail::d2::empty_rehashed_flag));
            bool r = b.check_rehashing_collision(c.h, c.mo, c.mm);
            first->node_list.store(s1); last->node_list.store(s2);
            if (r != (bool)first_rehashed) {
                std::printf("REPRODUCED class=rehash-collision-bucket hash 0x%zx, stale mask 0x%zx, current mask 0x%zx: the key first moved to bucket 0x%zx (mask 0x%zx), which is %s; check_rehashing_collision returned %s -- it looked at another bucket, so a stalled insert can link a second node for a key that already exists\n",
                            c.h, c.mo, c.mm, c.h & em, em, first_rehashed ? "already rehashed" : "not yet rehashed", r ? "true" : "false");
                return 0;
            }
        }
    }
    std::printf("NOT-REPRODUCED\n"); return 0;
}
