// Native replay for C10: white-box call of the REAL hash_map_base::check_rehashing_collision on a real, grown table.
#include <oneapi/tbb/concurrent_hash_map.h>
#include <cstdio>
#include <cstdlib>
#include <cstring>
#include <map>
#include <string>
#include <vector>
struct IdHash { static size_t hash(size_t k) { return k; } static bool equal(size_t a, size_t b) { return a == b; } };
using M = tbb::concurrent_hash_map<size_t, int, IdHash>;
static std::map<std::string, unsigned long long> in;
#include <thread>
#include <atomic>
#include <chrono>
// an element may not be destroyed (and erase may not return) while another thread's accessor points to it
static bool erase_vs_holder(std::string& why) {
    for (int kind = 0; kind < 2; ++kind) for (int by_accessor = 0; by_accessor < 2; ++by_accessor) {
        M m; for (size_t i = 0; i < 100; ++i) m.insert({i, (int)i});
        std::atomic<bool> holding{false}, released{false};
        std::thread holder([&] {
            if (kind == 0) { M::const_accessor a; m.find(a, 42); holding = true; std::this_thread::sleep_for(std::chrono::milliseconds(150)); released = true; a.release(); }
            else { M::accessor a; m.find(a, 42); holding = true; std::this_thread::sleep_for(std::chrono::milliseconds(150)); released = true; a.release(); }
        });
        while (!holding) std::this_thread::yield();
        bool ok;
        if (by_accessor) { if (kind == 1) { holder.join(); continue; }   // a second accessor cannot be obtained while a writer holds the element
                           M::const_accessor mine; m.find(mine, 42); ok = m.erase(mine); }
        else ok = m.erase((size_t)42);
        bool early = !released.load();
        holder.join();
        if (early) { why = std::string("erase(") + (by_accessor ? "const_accessor" : "key") + ") of an element returned " + (ok ? "true" : "false") + " - the element was unlinked and destroyed - while another thread still held a" + (kind == 0 ? " const_accessor" : "n accessor") + " pointing to it"; return true; }
    }
    return false;
}

// Concurrent insert / find / erase on a map that grows from empty while the threads run: per key exactly one insert and one erase may win, every inserted key must be
// found, and the element count must match.  Hashes collide in the low bits (parent/child buckets of every split) or are constant / identity.
struct LowHash { static size_t hash(size_t k) { return (k << 7) | (k & 1); } static bool equal(size_t a, size_t b) { return a == b; } };
struct ConstHash { static size_t hash(size_t) { return 5; } static bool equal(size_t a, size_t b) { return a == b; } };
template <class Map> static bool stress_one(const char* hname, size_t K, int rounds, std::string& why) {
    const int T = 4;
    for (int r = 0; r < rounds; ++r) {
        Map m; std::vector<std::atomic<int>> ins(K), era(K); for (size_t i = 0; i < K; ++i) { ins[i] = 0; era[i] = 0; }
        std::atomic<int> go{0}, missing{0}; std::vector<std::thread> th;
        for (int t = 0; t < T; ++t) th.emplace_back([&, t] {
            ++go; while (go < T) std::this_thread::yield();
            for (size_t i = 0; i < K; ++i) { size_t k = (t & 1) ? K - 1 - i : i; bool ok;
                if (t == 0) { typename Map::accessor a; ok = m.insert(a, k); if (a.empty() || a->first != k) ++missing; }
                else if (t == 1) { typename Map::const_accessor a; ok = m.insert(a, std::make_pair(k, 1)); if (a.empty() || a->first != k) ++missing; }
                else if (t == 2) ok = m.emplace(k, 2); else ok = m.insert(std::make_pair(k, 3));
                if (ok) ++ins[k];
                typename Map::const_accessor f; if (!m.find(f, k)) ++missing; }
        });
        for (auto& x : th) x.join(); th.clear();
        char buf[400];
        for (size_t k = 0; k < K; ++k) if (ins[k] != 1) { std::snprintf(buf, sizeof buf, "%s hash, round %d: %d of 4 concurrent inserts of absent key %zu returned true (expected exactly 1); size()=%zu of %zu keys", hname, r, (int)ins[k], k, m.size(), K); why = buf; return true; }
        if (missing) { std::snprintf(buf, sizeof buf, "%s hash, round %d: %d finds / accessors issued after an insert of the key had completed (and before any erase) came back empty", hname, r, (int)missing); why = buf; return true; }
        size_t walk = 0; for (auto it = m.begin(); it != m.end(); ++it) ++walk;
        if (m.size() != K || walk != K) { std::snprintf(buf, sizeof buf, "%s hash, round %d: %zu keys inserted once each, size()=%zu, %zu elements reachable by iteration (lost or duplicated during growth / lazy rehash)", hname, r, K, m.size(), walk); why = buf; return true; }
        go = 0;
        for (int t = 0; t < T; ++t) th.emplace_back([&, t] {
            ++go; while (go < T) std::this_thread::yield();
            for (size_t i = 0; i < K; ++i) { size_t k = (t & 1) ? K - 1 - i : i; bool ok;
                if (t == 0) { typename Map::accessor a; ok = m.find(a, k) && m.erase(a); } else ok = m.erase(k);
                if (ok) ++era[k]; }
        });
        for (auto& x : th) x.join();
        for (size_t k = 0; k < K; ++k) if (era[k] != 1) { std::snprintf(buf, sizeof buf, "%s hash, round %d: %d concurrent erases of present key %zu returned true (expected exactly 1)", hname, r, (int)era[k], k); why = buf; return true; }
        if (m.size() != 0) { std::snprintf(buf, sizeof buf, "%s hash, round %d: size()=%zu after every key was erased", hname, r, m.size()); why = buf; return true; }
    }
    return false;
}
static bool stress_map(std::string& why) {
    return stress_one<tbb::concurrent_hash_map<size_t, int, IdHash>>("identity", 3000, 150, why)
        || stress_one<tbb::concurrent_hash_map<size_t, int, LowHash>>("low-bit-colliding", 3000, 150, why)
        || stress_one<tbb::concurrent_hash_map<size_t, int, ConstHash>>("constant", 300, 40, why);
}
int main(int argc, char** argv) {
    std::string job = argc > 1 ? argv[1] : "";
    for (int i = 2; i < argc; ++i) { char* e = std::strchr(argv[i], '='); if (e) in[std::string(argv[i], e - argv[i])] = std::strtoull(e + 1, 0, 0); }
    { std::string why; if (job.rfind("erase", 0) == 0 && erase_vs_holder(why)) { std::printf("REPRODUCED class=element-destroyed-under-accessor %s\n", why.c_str()); return 0; } }
    { std::string why; bool conc = job.rfind("lookup", 0) == 0 || job.rfind("rehash.bucket", 0) == 0 || job.rfind("grow", 0) == 0 || job.rfind("search", 0) == 0 || job.rfind("bucket.acquire", 0) == 0;
      if (conc && stress_map(why)) { std::printf("REPRODUCED class=map-not-linearizable %s\n", why.c_str()); return 0; } }
    M m; for (size_t i = 0; i < 5000; ++i) m.insert({i, 0});        // table of 8192 buckets, mask 0x1FFF
    using B = tbb::detail::d2::hash_map_base<tbb::tbb_allocator<std::pair<const size_t, int>>, tbb::spin_rw_mutex>;
    B& b = (B&)m;   // private base: C-style cast
    size_t mask_now = b.my_mask.load();
    struct C { size_t h, mo, mm; };
    std::vector<C> cs;
    if (in.count("IN_h") && in["IN_m"] <= mask_now && in["IN_mold"] >= 1) cs.push_back({(size_t)in["IN_h"], (size_t)in["IN_mold"], (size_t)in["IN_m"]});
    cs.push_back({0x300, 0xFF, 0x3FF}); cs.push_back({0x700, 0xFF, 0x7FF}); cs.push_back({0x1F00, 0xFF, 0x1FFF}); cs.push_back({0x100, 0xFF, 0x1FF});
    for (auto c : cs) {
        size_t d = c.h & ~c.mo & c.mm; if (!d || c.mm > mask_now) continue;
        size_t low = d & (~d + 1), em = (low << 1) - 1;
        auto* first = b.get_bucket(c.h & em); auto* last = b.get_bucket(c.h & c.mm);
        auto s1 = first->node_list.load(), s2 = last->node_list.load();
        for (int first_rehashed = 0; first_rehashed < 2; ++first_rehashed) {
            // the bucket the key moved to FIRST is (not) rehashed; the final bucket is in the opposite state
            first->node_list.store((B::node_base*)(first_rehashed ? tbb::detail::d2::empty_rehashed_flag : tbb::detail::d2::rehash_req_flag));
            if (last != first) last->node_list.store((B::node_base*)(first_rehashed ? tbb::detail::d2::rehash_req_flag : tbb::detail::d2::empty_rehashed_flag));
            bool r = b.check_rehashing_collision(c.h, c.mo, c.mm);
            first->node_list.store(s1); last->node_list.store(s2);
            if (r != (bool)first_rehashed) {
                std::printf("REPRODUCED class=rehash-collision-bucket hash 0x%zx, stale mask 0x%zx, current mask 0x%zx: the key first moved to bucket 0x%zx (mask 0x%zx), which is %s; check_rehashing_collision returned %s -- it looked at another bucket, so a stalled insert can link a second node for a key that already exists\n",
                            c.h, c.mo, c.mm, c.h & em, em, first_rehashed ? "already rehashed" : "not yet rehashed", r ? "true" : "false");
                return 0;
            }
        }
    }
    std::printf("NOT-REPRODUCED\n"); return 0;
}
