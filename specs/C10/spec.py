"""C10 -- concurrent_hash_map: segment / mask / parent arithmetic of lazy rehashing."""
import os
import sys
import re
HERE = os.path.dirname(os.path.abspath(__file__))
sys.path.insert(0, os.path.join(HERE, '..'))
sys.path.insert(0, os.path.join(HERE, '..', '..', 'tools'))
import common
import native
import cxx2c
from cxx2c import Rewriter, slice_block, tag_loops, ExtractionBreak, load
from prove import Job

HM = 'include/oneapi/tbb/concurrent_hash_map.h'
TY = ['size_type', 'segment_index_type', 'hashcode_type', 'size_t']


def extract(ctx):
    sliced, fired = [], {}
    log2_txt, f = common.log2_c(ctx, sliced)
    fired['log2'] = f
    common.write(ctx, 'log2.inc', log2_txt)
    rw = Rewriter('hash_map_base')
    for pat, what in ((r'static constexpr size_type embedded_block = 1;', 'embedded_block'), (r'static constexpr size_type first_block = 8;', 'first_block'),
                      (r'static constexpr size_type pointers_per_table = sizeof\(segment_index_type\) \* 8;', 'pointers_per_table'), (r'using hashcode_type = std::size_t;', 'hashcode_type')):
        if not re.search(pat, load(HM)):
            raise ExtractionBreak('concurrent_hash_map.h: %s changed' % what)
    out = []
    for name, sig in (('segment_index_of', r'static segment_index_type segment_index_of\( size_type index \)'), ('segment_base', r'static segment_index_type segment_base\( segment_index_type k \)'),
                      ('segment_size', r'static size_type segment_size\( segment_index_type k \)')):
        s = slice_block(HM, sig)
        sliced.append('%s:%d hash_map_base::%s' % (HM, s.line, name))
        t = rw.sub(s.text, r'tbb::detail::log2\(', 'tbb_log2(', 0, name='ns-strip')
        t = rw.fcasts(t, TY)
        out.append(t)
    s = slice_block(HM, r'bucket \*get_bucket\( hashcode_type h \) const noexcept')
    sliced.append('%s:%d hash_map_base::get_bucket' % (HM, s.line))
    t = rw.sub(s.text, r'bucket \*get_bucket\( hashcode_type h \) const noexcept', 'static bucket *get_bucket(const struct hmap* self, hashcode_type h)', 1, 1, name='sig')
    t = rw.sub(t, r'my_table\[s\]\.load\(std::memory_order_acquire\)', 'ATOMIC_LOAD(self->my_table[s])', 1, 1, name='atomic-load')
    t = rw.sub(t, r'is_valid\(seg\)', 'SEG_IS_VALID(seg)', 1, 1, name='callee')
    t = rw.asserts(t, 1)
    out.append(t)
    s = slice_block(HM, r'bool check_rehashing_collision\( const hashcode_type h, hashcode_type m_old, hashcode_type m \) const')
    sliced.append('%s:%d hash_map_base::check_rehashing_collision' % (HM, s.line))
    t = rw.sub(s.text, r'bool check_rehashing_collision\( const hashcode_type h, hashcode_type m_old, hashcode_type m \) const', 'static bool check_rehashing_collision(const struct hmap* self, const hashcode_type h, hashcode_type m_old, hashcode_type m)', 1, 1, name='sig')
    t = rw.sub(t, r'rehash_required\(get_bucket\(([^()]*)\)->node_list\.load\(std::memory_order_acquire\)\)', r'STUB_rehash_required_at(self, \1)', 1, 1, name='callee stub recording the examined bucket (get_bucket itself: job bucket.address)')
    t = rw.asserts(t, 2)
    t = rw.sub(t, r'for\( \+\+m_old; !\(h & m_old\); m_old <<= 1 \)\s*;', 'for( ++m_old; !(h & m_old); m_old <<= 1 ) { RG_NOP(); }', 1, 1, name='empty-body braces')
    t = tag_loops(t, 'crc', rw, expect=1)
    out.append(t)
    # parent-mask computation of rehash_bucket: sliced statements
    s = slice_block(HM, r'void rehash_bucket\( bucket \*b_new, const hashcode_type hash \)')
    sliced.append('%s:%d concurrent_hash_map::rehash_bucket (mask statements)' % (HM, s.line))
    m1 = re.search(r'hashcode_type mask = \(hashcode_type\(1\) << tbb::detail::log2\(hash\)\) - 1;', s.text)
    m2 = re.search(r'bucket_accessor b_old\( this, hash & mask \);', s.text)
    m3 = re.search(r'mask = \(mask<<1\) \| 1;', s.text)
    m4 = re.search(r'__TBB_ASSERT\( \(mask&\(mask\+1\)\)==0 && \(hash & mask\) == hash, nullptr \);', s.text)
    m0 = re.search(r'__TBB_ASSERT\( hash > 1, "The lowermost buckets can\'t be rehashed" \);', s.text)
    if not (m0 and m1 and m2 and m3 and m4 and m0.start() < m1.start() < m2.start() < m3.start() < m4.start()):
        raise ExtractionBreak('rehash_bucket: parent-mask statements changed')
    t = 'static void rehash_bucket_masks(const hashcode_type hash, hashcode_type* parent_out, hashcode_type* mask_out) {\n    %s\n    %s\n    *parent_out = hash & mask; /* bucket_accessor b_old( this, hash & mask ) */\n    %s\n    %s\n    *mask_out = mask;\n}' % (m0.group(0), m1.group(0), m3.group(0), m4.group(0))
    t = rw.sub(t, r'tbb::detail::log2\(', 'tbb_log2(', 1, 1, name='ns-strip')
    t = rw.fcasts(t, TY)
    t = rw.asserts(t, 2)
    t = rw.std(t)
    out.append(t)
    common.write(ctx, 'hmap.inc', '\n'.join(out) + '\n')
    # ---- erase protocol: unlink under the bucket's writer lock, then take the element's WRITER lock before deletion ----
    rw2 = Rewriter('erase')
    out = []
    s = slice_block(HM, r'inline bool check_mask_race\( const hashcode_type h, hashcode_type &m \) const')
    sliced.append('%s:%d hash_map_base::check_mask_race' % (HM, s.line))
    t = rw2.sub(s.text, r'inline bool check_mask_race\( const hashcode_type h, hashcode_type &m \) const', 'static bool check_mask_race(struct chm* self, const hashcode_type h, hashcode_type *m)', 1, 1, name='sig (ref-param -> pointer)')
    t = rw2.sub(t, r'm_old = m;', 'm_old = *m;', 1, 1, name='ref-param')
    t = rw2.sub(t, r'\(h, m_old, m = m_now\)', '(h, m_old, *m = m_now)', 1, 1, name='ref-param')
    t = rw2.sub(t, r'\bcheck_rehashing_collision\(', 'STUB_check_rehashing_collision(self, ', 1, 1, name='callee stub (proved in job rehash.collision)')
    t = rw2.atomics(t, ['my_mask'], 1)
    t = rw2.sub(t, r'(?<![\w.>])my_mask\b', 'self->my_mask', 1, name='field')
    out.append(t)

    def scope_exits(t, var):
        """RAII: bucket_accessor `var` is destroyed at every exit of its scope: before each return / goto restart inside it and at its closing brace."""
        m = re.search(r'struct bucket_accessor %s;' % var, t)
        if not m:
            raise ExtractionBreak('erase: bucket_accessor declaration not found')
        # scope start: the innermost '{' before the declaration
        depth, i = 0, m.start()
        while i >= 0:
            if t[i] == '}': depth += 1
            elif t[i] == '{':
                if depth == 0: break
                depth -= 1
            i -= 1
        j = cxx2c.match_close(t, i)
        body = t[m.end():j]
        body, n1 = re.subn(r'\breturn ([^;]*);', r'{ BA_dtor(&%s); return \1; }' % var, body)
        body, n2 = re.subn(r'\bgoto restart;', r'{ BA_dtor(&%s); CUT_restart(); }' % var, body)   # retry = back to a state the entry path already covers: assert that, stop the path
        body, n3 = re.subn(r'\bcontinue;', r'{ BA_dtor(&%s); CUT_restart(); }' % var, body)
        body, n5 = re.subn(r'\bgoto search;', r'CUT_search(&%s);' % var, body)
        body, n4 = re.subn(r'\bbreak;', r'{ BA_dtor(&%s); break; }' % var, body)
        rw2.fired['RAII scope exit -> explicit destructor call'] = rw2.fired.get('RAII scope exit -> explicit destructor call', 0) + n1 + n2 + n3 + n4 + 1
        rw2.fired['retry jump -> inductive cut (assert entry-covered state; end path)'] = rw2.fired.get('retry jump -> inductive cut (assert entry-covered state; end path)', 0) + n2 + n3 + n5
        return t[:m.end()] + body + 'BA_dtor(&%s); ' % var + t[j:]

    s = slice_block(HM, r'bool internal_erase\( const K& key \)')
    sliced.append('%s:%d concurrent_hash_map::internal_erase' % (HM, s.line))
    t = rw2.sub(s.text, r'bool internal_erase\( const K& key \)', 'static bool internal_erase(struct chm* self, key_type key)', 1, 1, name='sig + bind-template(K)')
    t = rw2.sub(t, r'my_hash_compare\.hash\(key\)', 'STUB_hash(key)', 1, 1, name='callee stub (user hash)')
    t = rw2.sub(t, r'!my_hash_compare\.equal\(key, static_cast<node\*>\(erase_node\)->value\(\)\.first \)', '!STUB_equal(key, erase_node)', 1, 1, name='callee stub (user equality)')
    t = rw2.sub(t, r'bucket_accessor b\( this, hash & mask \);', 'struct bucket_accessor b; BA_ctor(&b, self, hash & mask, false);', 1, 1, name='RAII ctor (default writer=false)')
    t = rw2.sub(t, r'search:\s*node_base\* prev = nullptr;', 'search: GHOST_SEARCH_START(); node_base* prev = NULL;', 1, 1, name='label + ghost hook')
    t = rw2.sub(t, r'\bb\(\)->node_list\.load\(std::memory_order_relaxed\)', 'BA_bucket(&b)->node_list', 1, 1, name='operator() + plain load under the bucket lock')
    t = rw2.sub(t, r'\bb\(\)->node_list\.store\(erase_node->next, std::memory_order_relaxed\);', 'UNLINK_HEAD(&b, erase_node);', 1, 1, name='list head store -> UNLINK_HEAD (store + obligations)')
    t = rw2.sub(t, r'prev->next = erase_node->next;', 'UNLINK_AFTER(&b, prev, erase_node);', 1, 1, name='link store -> UNLINK_AFTER (store + obligations)')
    t = rw2.sub(t, r'this->is_valid\(', 'IS_VALID(', 1, 1, name='callee')
    t = rw2.sub(t, r'this->check_mask_race\(hash, mask\)', 'check_mask_race(self, hash, &mask)', 2, 2, name='ref-arg')
    t = rw2.sub(t, r'\bb\.is_writer\(\)', 'BA_is_writer(&b)', 1, 1, name='method')
    t = rw2.sub(t, r'\bb\.upgrade_to_writer\(\)', 'BA_upgrade_to_writer(&b)', 1, 1, name='method')
    t = rw2.sub(t, r'this->my_size--;', 'ATOMIC_DEC(self->my_size);', 1, 1, name='atomic')
    t = rw2.sub(t, r'typename node::scoped_type item_locker\( erase_node->mutex, (?:/\*write=\*/)?\s*(\w+) \);', r'ELEM_SCOPED_LOCK(erase_node, \1);', 1, 1, name='RAII element lock, destroyed at the end of its own block')
    t = rw2.sub(t, r'delete_node\(erase_node\);', 'STUB_delete_node(self, erase_node);', 1, 1, name='callee stub')
    t = rw2.atomics(t, ['my_mask'], 1, obj=r'this->')
    t = rw2.sub(t, r'this->my_mask', 'self->my_mask', 1, name='field')
    t = scope_exits(t, 'b')
    t = rw2.std(t)
    t = tag_loops(t, 'erase', rw2, expect=1)
    out.append(t)
    s = slice_block(HM, r'bool exclude\( const_accessor &item_accessor \)')
    sliced.append('%s:%d concurrent_hash_map::exclude' % (HM, s.line))
    t = rw2.sub(s.text, r'bool exclude\( const_accessor &item_accessor \)', 'static bool exclude(struct chm* self, struct const_accessor *item_accessor)', 1, 1, name='sig')
    t = rw2.sub(t, r'item_accessor\.(my_node|my_hash)\b', r'item_accessor->\1', 3, name='ref-param')
    t = rw2.sub(t, r'item_accessor\.(release|is_writer|upgrade_to_writer)\(\)', r'ACC_\1(item_accessor)', 4, 4, name='method')
    t = rw2.sub(t, r'bucket_accessor b\( this, hash & mask, (?:/\*writer=\*/)?true \);', 'struct bucket_accessor b; BA_ctor(&b, self, hash & mask, true);', 1, 1, name='RAII ctor')
    t = rw2.sub(t, r'node_base\* prev = nullptr;', 'GHOST_SEARCH_START(); node_base* prev = NULL;', 1, 1, name='ghost hook')
    t = rw2.sub(t, r'\bb\(\)->node_list\.load\(std::memory_order_relaxed\)', 'BA_bucket(&b)->node_list', 1, 1, name='operator() + plain load under the bucket lock')
    t = rw2.sub(t, r'\bb\(\)->node_list\.store\(curr->next, std::memory_order_relaxed\);', 'UNLINK_HEAD(&b, curr);', 1, 1, name='list head store -> UNLINK_HEAD')
    t = rw2.sub(t, r'prev->next = curr->next;', 'UNLINK_AFTER(&b, prev, curr);', 1, 1, name='link store -> UNLINK_AFTER')
    t = rw2.sub(t, r'this->check_mask_race\(hash, mask\)', 'check_mask_race(self, hash, &mask)', 1, 1, name='ref-arg')
    t = rw2.sub(t, r'this->my_size--;', 'ATOMIC_DEC(self->my_size);', 1, 1, name='atomic')
    t = rw2.sub(t, r'delete_node\(exclude_node\);', 'STUB_delete_node(self, exclude_node);', 1, 1, name='callee stub')
    t = rw2.atomics(t, ['my_mask'], 1, obj=r'this->')
    t = rw2.sub(t, r'this->my_mask', 'self->my_mask', 1, name='field')
    t = rw2.asserts(t, 2)
    t = scope_exits(t, 'b')
    t = rw2.std(t)
    t = tag_loops(t, 'excl', rw2, expect=2)
    t = t.replace('LOOP_excl_1', '')   # the retry loop is cut (see above): its body runs once
    out.append(t)
    common.write(ctx, 'erase.inc', '\n'.join(out) + '\n')
    fired['erase'] = rw2.fired
    fired['hash_map_base'] = rw.fired
    return sliced, fired


def build(ctx):
    sliced, fired = extract(ctx)
    C = os.path.join(HERE, 'c10.c')
    jobs = [
        Job('seg.bijection', C, 'h_seg', route='LF', target='hash_map_base::segment_index_of/segment_base/segment_size', source=HM),
        Job('bucket.address', C, 'h_get_bucket', route='LF', target='hash_map_base::get_bucket', source=HM),
        Job('rehash.collision', C, 'h_collision', route='LW', unwind=66, target='hash_map_base::check_rehashing_collision', source=HM, timeout=600),
        Job('erase.by_key', C, 'h_erase', route='RG', defines=['ERASE'], loops=True, nloops=1, unwind=3, target='concurrent_hash_map::internal_erase + check_mask_race', source=HM, timeout=600),
        Job('erase.by_accessor', C, 'h_exclude', route='RG', defines=['ERASE'], loops=True, nloops=1, unwind=3, target='concurrent_hash_map::exclude', source=HM, timeout=600),
        Job('rehash.parent', C, 'h_parent', route='LF', target='concurrent_hash_map::rehash_bucket parent/mask computation', source=HM),
    ]
    return {
        'jobs': jobs, 'sliced': sliced, 'fired': fired,
        'trusted': ['__builtin_clzl as modelled by CBMC', 'rehash_required / bucket contents: stub recording which bucket is examined', 'element and bucket locks are spin_rw_mutex (C08): a writer lock is granted only when no reader or writer holds it; upgrade_to_writer returning false means the lock was released and re-acquired',
                    'bucket_accessor constructor / rehash_bucket: stub that yields the bucket locked in the requested mode or as writer (after a rehash), with an arbitrary list', 'user hash / equality: arbitrary pure functions',
                    'retry jumps (goto restart / goto search / continue) are cut inductively: the state at the jump is asserted to lie in the set the entry path explores, then the path ends'],
        'drops': ['std::atomic loads -> ATOMIC_LOAD', '__TBB_ASSERT -> proof obligation'],
        'not_decided': ['interleavings of lookup / insert (lookup<insert>, insert_new_node)', 'accessor lifetime on the lookup side (the accessor is attached under the bucket lock)', 'that the bucket locked after a mask race without collision still is the key\'s bucket (rehash.collision gives the arithmetic only)', 'lazy rehash under concurrent lookups (rehash_bucket list surgery, bucket_accessor)', 'enable_segment / insert_new_node growth protocol'],
        'assumptions': ['masks passed to check_rehashing_collision are of the form 2^a-1 with m_old < m (they are values of my_mask, which only grows)'],
    }


def replay(ctx, jobname, failure):
    exe = native.build([os.path.join(HERE, 'c10_replay.cpp')], os.path.join(ctx.work, 'c10_replay'), flags=['-fno-access-control'], link_tbb=True)
    ins = failure.get('inputs', {}) or {}
    args = [exe, jobname] + ['%s=%s' % (k, v) for k, v in sorted(ins.items()) if isinstance(v, int)]
    rc, out = native.run(args, timeout=120)
    rep = {'cmd': ' '.join(args), 'rc': rc, 'output': out[-1500:], 'reproduced': False, 'detail': 'native recipes found no failing input'}
    m = re.search(r'REPRODUCED (.*)', out)
    if m:
        rep['reproduced'] = True
        rep['detail'] = m.group(1)
        w = re.search(r'class=(\S+)', m.group(1))
        rep['witness_class'] = w.group(1) if w else None
    return rep
