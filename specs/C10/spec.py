"""C10 -- concurrent_hash_map: segment / mask / parent arithmetic, erase, lookup (find / insert), lazy rehashing and growth under contract."""
import os
import sys
import re
HERE = os.path.dirname(os.path.abspath(__file__))
sys.path.insert(0, os.path.join(HERE, '..'))
sys.path.insert(0, os.path.join(HERE, '..', '..', 'tools'))
import common
import native
import cxx2c
from cxx2c import Rewriter, slice_block, tag_loops, ExtractionBreak, load
from prove import Job

HM = 'include/oneapi/tbb/concurrent_hash_map.h'
TY = ['size_type', 'segment_index_type', 'hashcode_type', 'size_t']


def raii_scope(rw, t, var, exits, what):
    """RAII: bucket_accessor `var` is destroyed at every exit of its scope: `exits` lists (regex, replacement) for the jumps that leave the scope
    (each replacement calls BA_dtor first); the destructor call is also placed in front of the scope's closing brace."""
    m = re.search(r'struct bucket_accessor %s;' % var, t)
    if not m:
        raise ExtractionBreak('%s: bucket_accessor declaration not found' % what)
    mk = cxx2c.mask(t)
    depth, i = 0, m.start()
    while i >= 0:
        if mk[i] == '}':
            depth += 1
        elif mk[i] == '{':
            if depth == 0:
                break
            depth -= 1
        i -= 1
    if i < 0:
        raise ExtractionBreak('%s: bucket_accessor outside a block' % what)
    j = cxx2c.match_close(mk, i)
    body = t[m.end():j]
    n = 0
    for pat, rep in exits:
        body, k = re.subn(pat, rep, body)
        n += k
    rw.fired['RAII scope exit -> explicit destructor call'] = rw.fired.get('RAII scope exit -> explicit destructor call', 0) + n + 1
    return t[:m.end()] + body + 'BA_dtor(&%s); ' % var + t[j:]


def slice_check_mask_race(rw, sliced):
    s = slice_block(HM, r'inline bool check_mask_race\( const hashcode_type h, hashcode_type &m \) const')
    sliced.append('%s:%d hash_map_base::check_mask_race' % (HM, s.line))
    t = rw.sub(s.text, r'inline bool check_mask_race\( const hashcode_type h, hashcode_type &m \) const', 'static bool check_mask_race(struct chm* self, const hashcode_type h, hashcode_type *m)', 1, 1, name='sig (ref-param -> pointer)')
    t = rw.sub(t, r'm_old = m;', 'm_old = *m;', 1, 1, name='ref-param')
    t = rw.sub(t, r'\(h, m_old, m = m_now\)', '(h, m_old, *m = m_now)', 1, 1, name='ref-param')
    t = rw.sub(t, r'\bcheck_rehashing_collision\(', 'STUB_check_rehashing_collision(self, ', 1, 1, name='callee stub (proved in job rehash.collision)')
    t = rw.atomics(t, ['my_mask'], 1)
    t = rw.sub(t, r'(?<![\w.>])my_mask\b', 'self->my_mask', 1, name='field')
    return t


LOOKUP_SIG = r'bool lookup\( const K &key, const T \*t, const_accessor \*result, bool write, AllocateNodeType allocate_node, node \*tmp_n  = nullptr\)'


def extract_lookup(ctx, sliced, fired):
    """lookup<OpInsert>: the control flow over one bucket under its rw lock (find / count / insert / emplace)"""
    rw = Rewriter('lookup')
    out = [slice_check_mask_race(rw, sliced)]
    s = slice_block(HM, LOOKUP_SIG)
    sliced.append('%s:%d concurrent_hash_map::lookup<OpInsert>' % (HM, s.line))
    t = rw.sub(s.text, LOOKUP_SIG, 'static bool lookup(struct chm* self, const bool OpInsert, key_type key, const mapped_type *t, struct const_accessor *result, bool write, node *tmp_n)', 1, 1,
               name='sig + template<bool OpInsert> -> parameter, bind-template(K), allocate_node -> stub')
    t = rw.sub(t, r'my_hash_compare\.hash\( key \)', 'STUB_hash(key)', 1, 1, name='callee stub (user hash)')
    t = rw.atomics(t, ['my_mask'], 1, obj=r'this->')
    t = rw.sub(t, r'this->my_mask', 'self->my_mask', 1, name='field')
    t = rw.sub(t, r'bucket_accessor b\( this, ([^;]*?) \);', r'struct bucket_accessor b; BA_ctor(&b, self, \1, false);', 1, 1, name='RAII ctor (default writer=false)')
    t = rw.sub(t, r'\bsearch_bucket\(\s*key, b\(\)\s*\)', 'STUB_search_bucket(self, key, BA_bucket(&b))', 1, name='callee stub (search_bucket: contract proved in job search.bucket)')
    t = rw.sub(t, r'allocate_node_helper\(key, t, allocate_node, std::integral_constant<bool, OpInsert>\{\}\)', 'STUB_allocate_node(self, key, t)', 0, name='callee stub (allocator)')
    t = rw.sub(t, r'\bb\.(is_writer|upgrade_to_writer|downgrade_to_reader|release)\(\)', r'BA_\1(&b)', 1, name='bucket lock method')
    t = rw.sub(t, r'this->insert_new_node\( b\(\), ', 'STUB_insert_new_node(self, BA_bucket(&b), ', 0, name='callee stub (insert_new_node: proved in job grow.insert_new_node)')
    t = rw.sub(t, r'this->is_valid\(', 'IS_VALID(', 1, name='callee')
    t = rw.sub(t, r'this->check_mask_race\(\s*h, m\s*\)', 'CHECK_MASK_RACE(self, h, &m)', 1, name='ref-arg + ghost hook around the sliced check_mask_race')
    t = rw.sub(t, r'result->try_acquire\(\s*(\w+)->mutex,\s*([^()]*?)\s*\)', r'ACC_try_acquire(result, \1, \2)', 1, name='element lock try_acquire')
    t = rw.sub(t, r'for\(\s*tbb::detail::atomic_backoff backoff\(true\);;\s*\)', 'for (;;)', 1, 1, name='backoff-for')
    t = rw.sub(t, r'\bbackoff\.bounded_pause\(\)', 'STUB_bounded_pause()', 1, 1, name='backoff (arbitrary answer)')
    t = rw.sub(t, r'\byield\(\);', 'RG_NOP();', 0, name='yield -> RG_NOP')
    t = rw.sub(t, r'this->enable_segment\(', 'STUB_enable_segment(self, ', 0, name='callee stub (enable_segment: proved in job grow.enable_segment)')
    t = rw.sub(t, r'\bdelete_node\(', 'STUB_delete_node(self, ', 0, name='callee stub')
    t = rw.asserts(t, 1)
    t = raii_scope(rw, t, 'b', [(r'\breturn ([^;]*);', r'{ BA_dtor(&b); return \1; }'), (r'\bgoto restart;', r'{ BA_dtor(&b); CUT_restart(); }'),
                                (r'\bgoto check_growth;', r'{ BA_dtor(&b); goto check_growth; }')], 'lookup')
    rw.fired['retry jump (goto restart) -> inductive cut (assert entry-covered state; end path)'] = t.count('CUT_restart()')
    t = rw.std(t)
    t = tag_loops(t, 'lookup', rw)
    out.append(t)
    common.write(ctx, 'lookup.inc', '\n'.join(out) + '\n')
    fired['lookup'] = rw.fired


def flags_c(rw, sliced):
    """rehash_req_flag / empty_rehashed_flag (namespace-scope constants -> #define, value taken from the source) and rehash_required()"""
    out = []
    for nm in ('rehash_req_flag', 'empty_rehashed_flag'):
        st = cxx2c.slice_stmt(HM, r'static void\* const %s\b' % nm)
        m = re.fullmatch(r'static void\* const %s = reinterpret_cast<void\*>\(std::size_t\((\d+)\)\);' % nm, st.text.strip())
        if not m:
            raise ExtractionBreak('concurrent_hash_map.h: %s is no longer reinterpret_cast<void*>(std::size_t(<literal>))' % nm)
        rw.fired['namespace-scope constant -> #define (%s)' % nm] = 1
        sliced.append('%s:%d %s' % (HM, st.line, nm))
        out.append('#define %s ((void*)(size_t)%s)' % (nm, m.group(1)))
    s = slice_block(HM, r'bool rehash_required\( hash_map_node_base<MutexType>\* node_ptr \)')
    sliced.append('%s:%d rehash_required' % (HM, s.line))
    t = rw.sub(s.text, r'bool rehash_required\( hash_map_node_base<MutexType>\* node_ptr \)', 'static bool rehash_required(node_base* node_ptr)', 1, 1, name='sig + bind-template(MutexType)')
    t = rw.casts(t, 1)
    out.append(t)
    return '\n'.join(out) + '\n'


def add_to_bucket_c(rw, sliced):
    s = slice_block(HM, r'static void add_to_bucket\( bucket\* b, node_base\* n \)')
    sliced.append('%s:%d hash_map_base::add_to_bucket' % (HM, s.line))
    t = rw.sub(s.text, r'static void add_to_bucket\( bucket\* b, node_base\* n \)', 'static void add_to_bucket(hbucket* b, node_base* n)', 1, 1, name='sig')
    t = bucket_list_ops(rw, t, 1)
    t = node_next_ops(rw, t, 0)
    t = rw.asserts(t, 0)
    return rw.std(t)


def bucket_list_ops(rw, t, minc):
    """<bucket>->node_list.load(mo) -> BKT_LOAD(<bucket>), .store(v, mo) -> BKT_STORE(<bucket>, v): the list head is read / written under the bucket's lock"""
    def st(m, a):
        return 'BKT_STORE(%s, %s)' % (m.group('o'), a[0])
    t = rw.call(t, r'(?P<o>\w+(?:\(\))?)->node_list\.store', st, 0, name='list head store -> BKT_STORE')
    t = rw.sub(t, r'(\w+(?:\(\))?)->node_list\.load\(\s*std::memory_order_\w+\s*\)', r'BKT_LOAD(\1)', minc, name='list head load -> BKT_LOAD')
    return t


def node_next_ops(rw, t, minc):
    """p->next = v; -> NODE_NEXT_SET(p, v); p->next -> NODE_NEXT(p); static_cast<node*>(p)->value().first / p->value().first -> NODE_KEY(p)  (per-index representation of the chain)"""
    t = rw.sub(t, r'static_cast<node\*>\((\w+)\)->value\(\)\.first', r'NODE_KEY(\1)', 0, name='key accessor')
    t = rw.sub(t, r'\b(\w+)->value\(\)\.first', r'NODE_KEY(\1)', 0, name='key accessor')
    t = rw.sub(t, r'\b(\w+)->next = ([^;]*);', r'NODE_NEXT_SET(\1, \2);', 0, name='link store -> NODE_NEXT_SET')
    t = rw.sub(t, r'\b(\w+)->next\b', r'NODE_NEXT(\1)', minc, name='link read -> NODE_NEXT')
    return t


def extract_chain(ctx, sliced, fired):
    """search_bucket, add_to_bucket, rehash_bucket over a chain of any length (per-index representation)"""
    rw = Rewriter('chain')
    out = [flags_c(rw, sliced), add_to_bucket_c(rw, sliced)]
    sig = r'node \*search_bucket\( const K &key, bucket \*b \) const'
    s = slice_block(HM, sig)
    sliced.append('%s:%d concurrent_hash_map::search_bucket' % (HM, s.line))
    t = rw.sub(s.text, sig, 'static node *search_bucket(struct chm* self, key_type key, hbucket *b)', 1, 1, name='sig + bind-template(K)')
    t = bucket_list_ops(rw, t, 1)
    t = rw.sub(t, r'this->is_valid\(', 'IS_VALID(', 1, name='callee')
    t = rw.sub(t, r'my_hash_compare\.equal\(', 'STUB_equal(', 1, name='callee stub (user equality)')
    t = node_next_ops(rw, t, 1)
    t = rw.casts(t, 0)
    t = rw.asserts(t, 0)
    t = rw.std(t)
    t = tag_loops(t, 'search', rw)
    out.append(t)
    sig = r'void rehash_bucket\( bucket \*b_new, const hashcode_type hash \)'
    s = slice_block(HM, sig)
    sliced.append('%s:%d concurrent_hash_map::rehash_bucket' % (HM, s.line))
    t = rw.sub(s.text, sig, 'static void rehash_bucket(struct chm* self, hbucket *b_new, const hashcode_type hash)', 1, 1, name='sig')
    t = rw.sub(t, r'bucket_accessor b_old\( this, ([^;]*?) \);', r'struct bucket_accessor b_old; BA_ctor(&b_old, self, \1, false);', 1, 1, name='RAII ctor (default writer=false)')
    t = bucket_list_ops(rw, t, 1)
    t = rw.sub(t, r'\bb_old\(\)', 'BA_bucket(&b_old)', 1, name='operator()')
    t = rw.sub(t, r'\bb_old\.(is_writer|upgrade_to_writer)\(\)', r'BA_\1(&b_old)', 1, name='bucket lock method')
    t = rw.sub(t, r'my_hash_compare\.hash\(', 'STUB_hash(', 1, name='callee stub (user hash)')
    t = node_next_ops(rw, t, 1)
    t = rw.sub(t, r'this->is_valid\(', 'IS_VALID(', 1, name='callee')
    t = rw.sub(t, r'this->add_to_bucket\(', 'add_to_bucket(', 0, name='method (static)')
    t = rw.sub(t, r'tbb::detail::log2\(', 'tbb_log2(', 1, 1, name='ns-strip')
    t = rw.sub(t, r'\brestart:', 'restart: RG_NOP();', 1, 1, name='label before a declaration')
    t = rw.sub(t, r'\bgoto restart;', 'CUT_restart();', 0, name='retry jump (goto restart) -> inductive cut (assert entry-covered state; end path)')
    t = rw.casts(t, 0)
    t = rw.fcasts(t, TY)
    t = rw.asserts(t, 0)
    t = raii_scope(rw, t, 'b_old', [(r'\breturn\s*;', r'{ BA_dtor(&b_old); return; }')], 'rehash_bucket')
    t = rw.std(t)
    t = tag_loops(t, 'rehash', rw)
    out.append(t)
    common.write(ctx, 'chain.inc', '\n'.join(out) + '\n')
    fired['chain'] = rw.fired


ACQ_SIG = r'inline void acquire\( concurrent_hash_map \*base, const hashcode_type h, bool writer = false \)'


def extract_acquire(ctx, sliced, fired):
    """bucket_accessor::acquire: find the bucket, try-lock + lazy rehash if flagged, else lock in the requested mode"""
    rw = Rewriter('acquire')
    out = [flags_c(rw, sliced)]
    s = slice_block(HM, ACQ_SIG, within=r'class bucket_accessor : public bucket::scoped_type')
    sliced.append('%s:%d concurrent_hash_map::bucket_accessor::acquire' % (HM, s.line))
    t = rw.sub(s.text, ACQ_SIG, 'static void BA_acquire(struct bucket_accessor* self, struct chm* base, const hashcode_type h, bool writer)', 1, 1, name='sig')
    t = bucket_list_ops(rw, t, 1)
    t = rw.fields(t, ['my_b'], 1)
    t = rw.sub(t, r'base->get_bucket\(', 'STUB_get_bucket(base, ', 1, 1, name='callee stub (get_bucket: proved in job bucket.address)')
    t = rw.sub(t, r'bucket::scoped_type::(try_acquire|acquire)\(\s*([\w>-]+)->mutex,\s*([^()]*?)\s*\)', r'LOCK_\1(self, \2, \3)', 1, name='base-class scoped_lock method on the bucket mutex')
    t = rw.sub(t, r'base->rehash_bucket\(', 'STUB_rehash_bucket(base, ', 0, name='callee stub (rehash_bucket: proved in job rehash.bucket)')
    t = rw.asserts(t, 0)
    t = rw.std(t)
    out.append(t)
    common.write(ctx, 'acquire.inc', '\n'.join(out) + '\n')
    fired['acquire'] = rw.fired


def extract_grow(ctx, sliced, fired):
    """insert_new_node (size count, link, claim of the next segment) and enable_segment / init_buckets (allocation, table entries, mask publication)"""
    rw = Rewriter('grow')
    if not re.search(r'static constexpr size_type embedded_buckets = 1 << embedded_block;', load(HM)):
        raise ExtractionBreak('concurrent_hash_map.h: embedded_buckets changed')
    out = [flags_c(rw, sliced), '#define embedded_buckets ((size_type)(1 << embedded_block))', add_to_bucket_c(rw, sliced)]
    sig = r'segment_index_type insert_new_node\( bucket \*b, node_base \*n, hashcode_type mask \)'
    s = slice_block(HM, sig)
    sliced.append('%s:%d hash_map_base::insert_new_node' % (HM, s.line))
    t = rw.sub(s.text, sig, 'static segment_index_type insert_new_node(struct chm* self, hbucket *b, node_base *n, hashcode_type mask)', 1, 1, name='sig')
    t = rw.atomics(t, ['my_size', 'my_table'], 1)
    t = rw.fields(t, ['my_size', 'my_table'], 1)
    t = rw.sub(t, r'\bstatic const segment_ptr_type is_allocating\b', 'const segment_ptr_type is_allocating', 1, 1, name='function-scope static const -> const')
    t = rw.sub(t, r'tbb::detail::log2\(', 'tbb_log2(', 1, name='ns-strip')
    t = rw.sub(t, r'(?<![\w.>])is_valid\(', 'IS_VALID(', 0, name='callee')
    t = rw.fcasts(t, TY + ['segment_ptr_type'])
    t = rw.asserts(t, 0)
    t = rw.std(t)
    t = rw.number_sites(t, 'inn', by_kind=True)
    out.append(t)
    sig = r'void init_buckets\( segment_ptr_type ptr, size_type sz, bool is_initial \)'
    s = slice_block(HM, sig)
    sliced.append('%s:%d hash_map_base::init_buckets' % (HM, s.line))
    t = rw.sub(s.text, sig, 'static void init_buckets(struct chm* self, segment_ptr_type ptr, size_type sz, bool is_initial)', 1, 1, name='sig')
    t = rw.sub(t, r'\binit_buckets_impl\(ptr, sz\);', 'STUB_init_buckets_impl(self, ptr, sz, false, NULL);', 0, name='variadic construct-all helper, no constructor argument -> stub')
    t = rw.sub(t, r'\binit_buckets_impl\(ptr, sz, ([^;]*)\);', r'STUB_init_buckets_impl(self, ptr, sz, true, \1);', 0, name='variadic construct-all helper, one constructor argument -> stub')
    t = rw.casts(t, 0)
    t = rw.std(t)
    out.append(t)
    sig = r'void enable_segment\( segment_index_type k, bool is_initial = false \)'
    s = slice_block(HM, sig)
    sliced.append('%s:%d hash_map_base::enable_segment' % (HM, s.line))
    t = rw.sub(s.text, sig, 'static void enable_segment(struct chm* self, segment_index_type k, bool is_initial)', 1, 1, name='sig')
    t = rw.sub(t, r'(?s)try_call\( \[&\] \{\s*ptr = bucket_allocator_traits::allocate\(my_allocator, ([^;]*)\);\s*\} \)\.on_exception\( \[&\] \{\s*my_table\[k\]\.store\(nullptr, std::memory_order_relaxed\);\s*\}\);',
               r'ptr = STUB_allocate_buckets(self, \1);', 2, 2, name='try_call(allocate).on_exception(reset entry) -> allocation that succeeds (exception path dropped)')
    t = rw.atomics(t, ['my_mask', 'my_table'], 1)
    t = rw.fields(t, ['my_mask', 'my_table'], 1)
    t = rw.sub(t, r'(?<![\w.>])is_valid\(', 'IS_VALID(', 0, name='callee')
    t = rw.sub(t, r'(?<![\w.>])init_buckets\(', 'init_buckets(self, ', 0, name='method')
    t = rw.asserts(t, 0)
    t = rw.std(t)
    t = rw.number_sites(t, 'ens', by_kind=True)
    t = tag_loops(t, 'ens', rw)
    out.append(t)
    common.write(ctx, 'grow.inc', '\n'.join(out) + '\n')
    fired['grow'] = rw.fired


def extract(ctx):
    sliced, fired = [], {}
    log2_txt, f = common.log2_c(ctx, sliced)
    fired['log2'] = f
    common.write(ctx, 'log2.inc', log2_txt)
    rw = Rewriter('hash_map_base')
    for pat, what in ((r'static constexpr size_type embedded_block = 1;', 'embedded_block'), (r'static constexpr size_type first_block = 8;', 'first_block'),
                      (r'static constexpr size_type pointers_per_table = sizeof\(segment_index_type\) \* 8;', 'pointers_per_table'), (r'using hashcode_type = std::size_t;', 'hashcode_type')):
        if not re.search(pat, load(HM)):
            raise ExtractionBreak('concurrent_hash_map.h: %s changed' % what)
    out = []
    for name, sig in (('segment_index_of', r'static segment_index_type segment_index_of\( size_type index \)'), ('segment_base', r'static segment_index_type segment_base\( segment_index_type k \)'),
                      ('segment_size', r'static size_type segment_size\( segment_index_type k \)')):
        s = slice_block(HM, sig)
        sliced.append('%s:%d hash_map_base::%s' % (HM, s.line, name))
        t = rw.sub(s.text, r'tbb::detail::log2\(', 'tbb_log2(', 0, name='ns-strip')
        t = rw.fcasts(t, TY)
        out.append(t)
    s = slice_block(HM, r'bucket \*get_bucket\( hashcode_type h \) const noexcept')
    sliced.append('%s:%d hash_map_base::get_bucket' % (HM, s.line))
    t = rw.sub(s.text, r'bucket \*get_bucket\( hashcode_type h \) const noexcept', 'static bucket *get_bucket(const struct hmap* self, hashcode_type h)', 1, 1, name='sig')
    t = rw.sub(t, r'my_table\[s\]\.load\(std::memory_order_acquire\)', 'ATOMIC_LOAD(self->my_table[s])', 1, 1, name='atomic-load')
    t = rw.sub(t, r'is_valid\(seg\)', 'SEG_IS_VALID(seg)', 1, 1, name='callee')
    t = rw.asserts(t, 1)
    out.append(t)
    s = slice_block(HM, r'bool check_rehashing_collision\( const hashcode_type h, hashcode_type m_old, hashcode_type m \) const')
    sliced.append('%s:%d hash_map_base::check_rehashing_collision' % (HM, s.line))
    t = rw.sub(s.text, r'bool check_rehashing_collision\( const hashcode_type h, hashcode_type m_old, hashcode_type m \) const', 'static bool check_rehashing_collision(const struct hmap* self, const hashcode_type h, hashcode_type m_old, hashcode_type m)', 1, 1, name='sig')
    t = rw.sub(t, r'rehash_required\(get_bucket\(([^()]*)\)->node_list\.load\(std::memory_order_acquire\)\)', r'STUB_rehash_required_at(self, \1)', 1, 1, name='callee stub recording the examined bucket (get_bucket itself: job bucket.address)')
    t = rw.asserts(t, 2)
    t = rw.sub(t, r'for\( \+\+m_old; !\(h & m_old\); m_old <<= 1 \)\s*;', 'for( ++m_old; !(h & m_old); m_old <<= 1 ) { RG_NOP(); }', 1, 1, name='empty-body braces')
    t = tag_loops(t, 'crc', rw, expect=1)
    out.append(t)
    # parent-mask computation of rehash_bucket: the function's prefix up to the label `restart:`; the parent's bucket_accessor becomes an output
    s = slice_block(HM, r'void rehash_bucket\( bucket \*b_new, const hashcode_type hash \)')
    sliced.append('%s:%d concurrent_hash_map::rehash_bucket (prefix: parent and mask computation)' % (HM, s.line))
    cut = re.search(r'\brestart\s*:', cxx2c.mask(s.text))
    if not cut:
        raise ExtractionBreak('rehash_bucket: label restart not found')
    t = s.text[:cut.start()]
    t = rw.sub(t, r'void rehash_bucket\( bucket \*b_new, const hashcode_type hash \)', 'static void rehash_bucket_masks(const hashcode_type hash, hashcode_type* parent_out, hashcode_type* mask_out)', 1, 1, name='sig (prefix of rehash_bucket; outputs: parent index, mask)')
    t = rw.sub(t, r'b_new->node_list\.store\([^;]*;', 'RG_NOP();', 0, name='marking store (obligation of job rehash.bucket) -> RG_NOP')
    t = rw.sub(t, r'bucket_accessor b_old\( this, ([^;]*?) \);', r'*parent_out = \1; /* bucket_accessor b_old( this, ... ) */', 1, 1, name='parent bucket_accessor -> output')
    t = t + '\n    *mask_out = mask;\n}'
    t = rw.sub(t, r'tbb::detail::log2\(', 'tbb_log2(', 1, name='ns-strip')
    t = rw.fcasts(t, TY)
    t = rw.asserts(t, 0)
    t = rw.std(t)
    out.append(t)
    common.write(ctx, 'hmap.inc', '\n'.join(out) + '\n')
    # ---- erase protocol: unlink under the bucket's writer lock, then take the element's WRITER lock before deletion ----
    rw2 = Rewriter('erase')
    out = []
    s = slice_block(HM, r'inline bool check_mask_race\( const hashcode_type h, hashcode_type &m \) const')
    sliced.append('%s:%d hash_map_base::check_mask_race' % (HM, s.line))
    t = rw2.sub(s.text, r'inline bool check_mask_race\( const hashcode_type h, hashcode_type &m \) const', 'static bool check_mask_race(struct chm* self, const hashcode_type h, hashcode_type *m)', 1, 1, name='sig (ref-param -> pointer)')
    t = rw2.sub(t, r'm_old = m;', 'm_old = *m;', 1, 1, name='ref-param')
    t = rw2.sub(t, r'\(h, m_old, m = m_now\)', '(h, m_old, *m = m_now)', 1, 1, name='ref-param')
    t = rw2.sub(t, r'\bcheck_rehashing_collision\(', 'STUB_check_rehashing_collision(self, ', 1, 1, name='callee stub (proved in job rehash.collision)')
    t = rw2.atomics(t, ['my_mask'], 1)
    t = rw2.sub(t, r'(?<![\w.>])my_mask\b', 'self->my_mask', 1, name='field')
    out.append(t)

    def scope_exits(t, var):
        """RAII: bucket_accessor `var` is destroyed at every exit of its scope: before each return / goto restart inside it and at its closing brace."""
        m = re.search(r'struct bucket_accessor %s;' % var, t)
        if not m:
            raise ExtractionBreak('erase: bucket_accessor declaration not found')
        # scope start: the innermost '{' before the declaration
        depth, i = 0, m.start()
        while i >= 0:
            if t[i] == '}': depth += 1
            elif t[i] == '{':
                if depth == 0: break
                depth -= 1
            i -= 1
        j = cxx2c.match_close(t, i)
        body = t[m.end():j]
        body, n1 = re.subn(r'\breturn ([^;]*);', r'{ BA_dtor(&%s); return \1; }' % var, body)
        body, n2 = re.subn(r'\bgoto restart;', r'{ BA_dtor(&%s); CUT_restart(); }' % var, body)   # retry = back to a state the entry path already covers: assert that, stop the path
        body, n3 = re.subn(r'\bcontinue;', r'{ BA_dtor(&%s); CUT_restart(); }' % var, body)
        body, n5 = re.subn(r'\bgoto search;', r'CUT_search(&%s);' % var, body)
        body, n4 = re.subn(r'\bbreak;', r'{ BA_dtor(&%s); break; }' % var, body)
        rw2.fired['RAII scope exit -> explicit destructor call'] = rw2.fired.get('RAII scope exit -> explicit destructor call', 0) + n1 + n2 + n3 + n4 + 1
        rw2.fired['retry jump -> inductive cut (assert entry-covered state; end path)'] = rw2.fired.get('retry jump -> inductive cut (assert entry-covered state; end path)', 0) + n2 + n3 + n5
        return t[:m.end()] + body + 'BA_dtor(&%s); ' % var + t[j:]

    s = slice_block(HM, r'bool internal_erase\( const K& key \)')
    sliced.append('%s:%d concurrent_hash_map::internal_erase' % (HM, s.line))
    t = rw2.sub(s.text, r'bool internal_erase\( const K& key \)', 'static bool internal_erase(struct chm* self, key_type key)', 1, 1, name='sig + bind-template(K)')
    t = rw2.sub(t, r'my_hash_compare\.hash\(key\)', 'STUB_hash(key)', 1, 1, name='callee stub (user hash)')
    t = rw2.sub(t, r'!my_hash_compare\.equal\(key, static_cast<node\*>\(erase_node\)->value\(\)\.first \)', '!STUB_equal(key, erase_node)', 1, 1, name='callee stub (user equality)')
    t = rw2.sub(t, r'bucket_accessor b\( this, hash & mask \);', 'struct bucket_accessor b; BA_ctor(&b, self, hash & mask, false);', 1, 1, name='RAII ctor (default writer=false)')
    t = rw2.sub(t, r'search:\s*node_base\* prev = nullptr;', 'search: GHOST_SEARCH_START(); node_base* prev = NULL;', 1, 1, name='label + ghost hook')
    t = rw2.sub(t, r'\bb\(\)->node_list\.load\(std::memory_order_relaxed\)', 'BA_bucket(&b)->node_list', 1, 1, name='operator() + plain load under the bucket lock')
    t = rw2.sub(t, r'\bb\(\)->node_list\.store\(erase_node->next, std::memory_order_relaxed\);', 'UNLINK_HEAD(&b, erase_node);', 1, 1, name='list head store -> UNLINK_HEAD (store + obligations)')
    t = rw2.sub(t, r'prev->next = erase_node->next;', 'UNLINK_AFTER(&b, prev, erase_node);', 1, 1, name='link store -> UNLINK_AFTER (store + obligations)')
    t = rw2.sub(t, r'this->is_valid\(', 'IS_VALID(', 1, 1, name='callee')
    t = rw2.sub(t, r'this->check_mask_race\(hash, mask\)', 'check_mask_race(self, hash, &mask)', 2, 2, name='ref-arg')
    t = rw2.sub(t, r'\bb\.is_writer\(\)', 'BA_is_writer(&b)', 1, 1, name='method')
    t = rw2.sub(t, r'\bb\.upgrade_to_writer\(\)', 'BA_upgrade_to_writer(&b)', 1, 1, name='method')
    t = rw2.sub(t, r'this->my_size--;', 'ATOMIC_DEC(self->my_size);', 1, 1, name='atomic')
    t = rw2.sub(t, r'typename node::scoped_type item_locker\( erase_node->mutex, (?:/\*write=\*/)?\s*(\w+) \);', r'ELEM_SCOPED_LOCK(erase_node, \1);', 1, 1, name='RAII element lock, destroyed at the end of its own block')
    t = rw2.sub(t, r'delete_node\(erase_node\);', 'STUB_delete_node(self, erase_node);', 1, 1, name='callee stub')
    t = rw2.atomics(t, ['my_mask'], 1, obj=r'this->')
    t = rw2.sub(t, r'this->my_mask', 'self->my_mask', 1, name='field')
    t = scope_exits(t, 'b')
    t = rw2.std(t)
    t = tag_loops(t, 'erase', rw2, expect=1)
    out.append(t)
    s = slice_block(HM, r'bool exclude\( const_accessor &item_accessor \)')
    sliced.append('%s:%d concurrent_hash_map::exclude' % (HM, s.line))
    t = rw2.sub(s.text, r'bool exclude\( const_accessor &item_accessor \)', 'static bool exclude(struct chm* self, struct const_accessor *item_accessor)', 1, 1, name='sig')
    t = rw2.sub(t, r'item_accessor\.(my_node|my_hash)\b', r'item_accessor->\1', 3, name='ref-param')
    t = rw2.sub(t, r'item_accessor\.(release|is_writer|upgrade_to_writer)\(\)', r'ACC_\1(item_accessor)', 4, 4, name='method')
    t = rw2.sub(t, r'bucket_accessor b\( this, hash & mask, (?:/\*writer=\*/)?true \);', 'struct bucket_accessor b; BA_ctor(&b, self, hash & mask, true);', 1, 1, name='RAII ctor')
    t = rw2.sub(t, r'node_base\* prev = nullptr;', 'GHOST_SEARCH_START(); node_base* prev = NULL;', 1, 1, name='ghost hook')
    t = rw2.sub(t, r'\bb\(\)->node_list\.load\(std::memory_order_relaxed\)', 'BA_bucket(&b)->node_list', 1, 1, name='operator() + plain load under the bucket lock')
    t = rw2.sub(t, r'\bb\(\)->node_list\.store\(curr->next, std::memory_order_relaxed\);', 'UNLINK_HEAD(&b, curr);', 1, 1, name='list head store -> UNLINK_HEAD')
    t = rw2.sub(t, r'prev->next = curr->next;', 'UNLINK_AFTER(&b, prev, curr);', 1, 1, name='link store -> UNLINK_AFTER')
    t = rw2.sub(t, r'this->check_mask_race\(hash, mask\)', 'check_mask_race(self, hash, &mask)', 1, 1, name='ref-arg')
    t = rw2.sub(t, r'this->my_size--;', 'ATOMIC_DEC(self->my_size);', 1, 1, name='atomic')
    t = rw2.sub(t, r'delete_node\(exclude_node\);', 'STUB_delete_node(self, exclude_node);', 1, 1, name='callee stub')
    t = rw2.atomics(t, ['my_mask'], 1, obj=r'this->')
    t = rw2.sub(t, r'this->my_mask', 'self->my_mask', 1, name='field')
    t = rw2.asserts(t, 2)
    t = scope_exits(t, 'b')
    t = rw2.std(t)
    t = tag_loops(t, 'excl', rw2, expect=2)
    t = t.replace('LOOP_excl_1', '')   # the retry loop is cut (see above): its body runs once
    out.append(t)
    common.write(ctx, 'erase.inc', '\n'.join(out) + '\n')
    fired['erase'] = rw2.fired
    fired['hash_map_base'] = rw.fired
    return sliced, fired


def build(ctx):
    sliced, fired = extract(ctx)
    extract_lookup(ctx, sliced, fired)
    extract_chain(ctx, sliced, fired)
    extract_acquire(ctx, sliced, fired)
    extract_grow(ctx, sliced, fired)
    C = os.path.join(HERE, 'c10.c')
    jobs = [
        Job('seg.bijection', C, 'h_seg', route='LF', target='hash_map_base::segment_index_of/segment_base/segment_size', source=HM),
        Job('bucket.address', C, 'h_get_bucket', route='LF', target='hash_map_base::get_bucket', source=HM),
        Job('rehash.collision', C, 'h_collision', route='LW', unwind=66, target='hash_map_base::check_rehashing_collision', source=HM, timeout=600),
        Job('erase.by_key', C, 'h_erase', route='RG', defines=['ERASE'], loops=True, nloops=1, unwind=3, target='concurrent_hash_map::internal_erase + check_mask_race', source=HM, timeout=600),
        Job('erase.by_accessor', C, 'h_exclude', route='RG', defines=['ERASE'], loops=True, nloops=1, unwind=3, target='concurrent_hash_map::exclude', source=HM, timeout=600),
        Job('rehash.parent', C, 'h_parent', route='LF', target='concurrent_hash_map::rehash_bucket parent/mask computation', source=HM),
        Job('search.bucket', C, 'h_search', route='LC', defines=['CHAIN'], loops=True, nloops=1, target='concurrent_hash_map::search_bucket (chain of any length)', source=HM, timeout=300),
        Job('rehash.bucket', C, 'h_rehash', route='LC', defines=['CHAIN'], loops=True, nloops=1, target='concurrent_hash_map::rehash_bucket + hash_map_base::add_to_bucket (parent chain of any length)', source=HM, timeout=600),
        Job('bucket.acquire', C, 'h_acquire', route='RG', defines=['ACQ'], target='concurrent_hash_map::bucket_accessor::acquire (flag / lock protocol of lazy rehashing)', source=HM),
        Job('grow.insert_new_node', C, 'h_insert_new_node', route='RG', defines=['GROW'], unwind=9, target='hash_map_base::insert_new_node + add_to_bucket (size count, link, claim of the next segment)', source=HM),
        Job('grow.enable_segment', C, 'h_enable_segment', route='LW', defines=['GROW'], unwind=9, target='hash_map_base::enable_segment + init_buckets (allocation, table entries, mask publication)', source=HM),
        Job('lookup.insert', C, 'h_lookup', route='RG', defines=['LOOKUP', 'OPINSERT=1'], loops=True, nloops=2, unwind=3, target='concurrent_hash_map::lookup<true> (insert / emplace) + check_mask_race', source=HM, timeout=600),
        Job('lookup.find', C, 'h_lookup', route='RG', defines=['LOOKUP', 'OPINSERT=0'], loops=True, nloops=2, unwind=3, target='concurrent_hash_map::lookup<false> (find / count) + check_mask_race', source=HM, timeout=600),
    ]
    return {
        'jobs': jobs, 'sliced': sliced, 'fired': fired,
        'trusted': ['__builtin_clzl as modelled by CBMC', 'rehash_required / bucket contents in rehash.collision: stub recording which bucket is examined',
                    'element and bucket locks are spin_rw_mutex (C08): a writer lock is granted only when no reader or writer holds it; upgrade_to_writer / downgrade_to_reader returning false means the lock was released and re-acquired',
                    'erase.*, lookup.*: bucket_accessor constructor is a stub that yields the bucket locked in the requested mode or as writer (after a rehash) with an arbitrary chain (its real code: jobs bucket.acquire, rehash.bucket)',
                    'user hash / equality: arbitrary pure functions (per-node arrays of arbitrary values in the chain jobs)',
                    'retry jumps (goto restart / goto search / continue in erase, goto restart in lookup and rehash_bucket) are cut inductively: the state at the jump is asserted to lie in the set of states the harness starts from (which is closed under the jump), then the path ends',
                    'lookup.*: search_bucket, insert_new_node, enable_segment, delete_node, allocate_node are stubs with the contracts proved in search.bucket / grow.* (delete / allocate: ownership bookkeeping only); '
                    'rely: a bucket chain changes only under the bucket\'s writer lock; an element lock is taken only by threads holding the bucket lock of its chain or already holding the element (so try_acquire on a node linked during the current writer tenure succeeds)',
                    'bucket.acquire: rely on the other threads running the same protocol: the flag is only cleared, only under the bucket\'s writer lock; a still flagged bucket is locked only via a successful try_acquire(write) by its rehasher, who clears the flag before releasing; '
                    'get_bucket and rehash_bucket are stubs (proved in bucket.address / rehash.bucket)',
                    'rehash.bucket: the parent bucket_accessor (recursive acquire) is a stub returning the parent locked as reader or writer; the caller holds the new bucket\'s writer lock (obligation of bucket.acquire)',
                    'grow.insert_new_node: rely on the table entry of the next segment: NULL -> allocating -> enabled only forwards, a claimed entry is touched by its claimer only; my_size is arbitrary between steps',
                    'grow.enable_segment: the allocator returns a fresh block of the requested number of buckets; init_buckets_impl (variadic construct loop) is a stub recording (pointer, count, constructor argument); no other thread writes the table or the mask between the claim and the publication (the next claim needs the new mask)'],
        'drops': ['std::atomic loads -> ATOMIC_LOAD', '__TBB_ASSERT -> proof obligation', 'template<bool OpInsert> -> run-time constant parameter (one job per value)', 'tbb::detail::atomic_backoff -> arbitrary answer of bounded_pause; yield() -> no-op',
                  'RAII bucket_accessor / scoped_lock -> explicit constructor / destructor calls at every scope exit', 'enable_segment: try_call(...).on_exception(...) -> plain allocation (the exception path that resets the table entry is dropped)',
                  'chain jobs: p->next, p->value().first and bucket->node_list accesses -> NODE_NEXT / NODE_NEXT_SET / NODE_KEY / BKT_LOAD / BKT_STORE accessor macros (per-index representation of a chain)',
                  'namespace-scope flag constants -> #define with the literal taken from the source'],
        'not_decided': ['end-to-end linearizability of whole histories: the per-function contracts (one bucket, one tenure, one key) are composed by the rely/guarantee argument written in c10.c, not by a checker over histories',
                        'that the bucket locked after a mask race without collision still is the key\'s bucket: lookup / erase are proved to re-check under the lock and restart on a collision, rehash.collision gives the arithmetic, bucket.acquire / rehash.bucket the flag protocol; the argument joining them is informal',
                        'recursion depth of bucket_accessor::acquire -> rehash_bucket -> acquire (parent index strictly smaller: rehash.parent; no deadlock claim)',
                        'the shape of the two chains after rehash_bucket is stated through per-store obligations (each store removes exactly the visited node / pushes it in front) plus the loop-carried count for an arbitrary node, not as a reachability predicate',
                        'exception paths (allocation failure in enable_segment, throwing hash / equality / constructors)', 'iterators, range, rehash(), clear(), swap, copy / move (documented as not concurrency-safe)', 'internal_equal_range / count under concurrent growth',
                        'memory ordering (acquire / release on my_mask, my_table, node_list) - SC assumed', 'termination of the retry loops and of the element-lock back-off'],
        'assumptions': ['masks passed to check_rehashing_collision are of the form 2^a-1 with m_old < m (they are values of my_mask, which only grows)', 'sequentially consistent atomics',
                        'chains of at most 2^12 nodes in search.bucket / rehash.bucket (symbolic length); nodes of a chain are pairwise distinct and the chain is NULL-terminated (per-index representation)',
                        'segments k <= 40 in grow.enable_segment (CBMC object-size bound); masks below 2^62 in grow.insert_new_node', 'allocation succeeds (no exception path)'],
    }


def replay(ctx, jobname, failure):
    exe = native.build([os.path.join(HERE, 'c10_replay.cpp')], os.path.join(ctx.work, 'c10_replay'), flags=['-fno-access-control'], link_tbb=True)
    ins = failure.get('inputs', {}) or {}
    args = [exe, jobname] + ['%s=%s' % (k, v) for k, v in sorted(ins.items()) if isinstance(v, int)]
    rc, out = native.run(args, timeout=120)
    rep = {'cmd': ' '.join(args), 'rc': rc, 'output': out[-1500:], 'reproduced': False, 'detail': 'native recipes found no failing input'}
    m = re.search(r'REPRODUCED (.*)', out)
    if m:
        rep['reproduced'] = True
        rep['detail'] = m.group(1)
        w = re.search(r'class=(\S+)', m.group(1))
        rep['witness_class'] = w.group(1) if w else None
    if not rep['reproduced'] and jobname.startswith('erase.'):
        exe2 = native.build([os.path.join(HERE, 'c10_replay_erase_growth.cpp')], os.path.join(ctx.work, 'c10_replay_erase_growth'), link_tbb=True)
        rc2, out2 = native.run([exe2], timeout=120)
        m2 = re.search(r'FAIL: (.*)', out2)
        if rc2 not in (0, 'timeout') and m2:
            rep.update(reproduced=True, detail='class=erase-misses-key-during-growth ' + m2.group(1)[:300], witness_class='erase-misses-key-during-growth', cmd=exe2, output=out2[-800:])
    return rep
