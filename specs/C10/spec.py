"""C10 -- concurrent_hash_map: segment / mask / parent arithmetic of lazy rehashing."""
import os
import sys
import re
HERE = os.path.dirname(os.path.abspath(__file__))
sys.path.insert(0, os.path.join(HERE, '..'))
sys.path.insert(0, os.path.join(HERE, '..', '..', 'tools'))
import common
import native
import cxx2c
from cxx2c import Rewriter, slice_block, tag_loops, ExtractionBreak, load
from prove import Job

HM = 'include/oneapi/tbb/concurrent_hash_map.h'
TY = ['size_type', 'segment_index_type', 'hashcode_type', 'size_t']


def extract(ctx):
    sliced, fired = [], {}
    log2_txt, f = common.log2_c(ctx, sliced)
    fired['log2'] = f
    common.write(ctx, 'log2.inc', log2_txt)
    rw = Rewriter('hash_map_base')
    for pat, what in ((r'static constexpr size_type embedded_block = 1;', 'embedded_block'), (r'static constexpr size_type first_block = 8;', 'first_block'),
                      (r'static constexpr size_type pointers_per_table = sizeof\(segment_index_type\) \* 8;', 'pointers_per_table'), (r'using hashcode_type = std::size_t;', 'hashcode_type')):
        if not re.search(pat, load(HM)):
            raise ExtractionBreak('concurrent_hash_map.h: %s changed' % what)
    out = []
    for name, sig in (('segment_index_of', r'static segment_index_type segment_index_of\( size_type index \)'), ('segment_base', r'static segment_index_type segment_base\( segment_index_type k \)'),
                      ('segment_size', r'static size_type segment_size\( segment_index_type k \)')):
        s = slice_block(HM, sig)
        sliced.append('%s:%d hash_map_base::%s' % (HM, s.line, name))
        t = rw.sub(s.text, r'tbb::detail::log2\(', 'tbb_log2(', 0, name='ns-strip')
        t = rw.fcasts(t, TY)
        out.append(t)
    s = slice_block(HM, r'bucket \*get_bucket\( hashcode_type h \) const noexcept')
    sliced.append('%s:%d hash_map_base::get_bucket' % (HM, s.line))
    t = rw.sub(s.text, r'bucket \*get_bucket\( hashcode_type h \) const noexcept', 'static bucket *get_bucket(const struct hmap* self, hashcode_type h)', 1, 1, name='sig')
    t = rw.sub(t, r'my_table\[s\]\.load\(std::memory_order_acquire\)', 'ATOMIC_LOAD(self->my_table[s])', 1, 1, name='atomic-load')
    t = rw.sub(t, r'is_valid\(seg\)', 'SEG_IS_VALID(seg)', 1, 1, name='callee')
    t = rw.asserts(t, 1)
    out.append(t)
    s = slice_block(HM, r'bool check_rehashing_collision\( const hashcode_type h, hashcode_type m_old, hashcode_type m \) const')
    sliced.append('%s:%d hash_map_base::check_rehashing_collision' % (HM, s.line))
    t = rw.sub(s.text, r'bool check_rehashing_collision\( const hashcode_type h, hashcode_type m_old, hashcode_type m \) const', 'static bool check_rehashing_collision(const struct hmap* self, const hashcode_type h, hashcode_type m_old, hashcode_type m)', 1, 1, name='sig')
    t = rw.sub(t, r'rehash_required\(get_bucket\(([^()]*)\)->node_list\.load\(std::memory_order_acquire\)\)', r'STUB_rehash_required_at(self, \1)', 1, 1, name='callee stub recording the examined bucket (get_bucket itself: job bucket.address)')
    t = rw.asserts(t, 2)
    t = rw.sub(t, r'for\( \+\+m_old; !\(h & m_old\); m_old <<= 1 \)\s*;', 'for( ++m_old; !(h & m_old); m_old <<= 1 ) { RG_NOP(); }', 1, 1, name='empty-body braces')
    t = tag_loops(t, 'crc', rw, expect=1)
    out.append(t)
    # parent-mask computation of rehash_bucket: sliced statements
    s = slice_block(HM, r'void rehash_bucket\( bucket \*b_new, const hashcode_type hash \)')
    sliced.append('%s:%d concurrent_hash_map::rehash_bucket (mask statements)' % (HM, s.line))
    m1 = re.search(r'hashcode_type mask = \(hashcode_type\(1\) << tbb::detail::log2\(hash\)\) - 1;', s.text)
    m2 = re.search(r'bucket_accessor b_old\( this, hash & mask \);', s.text)
    m3 = re.search(r'mask = \(mask<<1\) \| 1;', s.text)
    m4 = re.search(r'__TBB_ASSERT\( \(mask&\(mask\+1\)\)==0 && \(hash & mask\) == hash, nullptr \);', s.text)
    m0 = re.search(r'__TBB_ASSERT\( hash > 1, "The lowermost buckets can\'t be rehashed" \);', s.text)
    if not (m0 and m1 and m2 and m3 and m4 and m0.start() < m1.start() < m2.start() < m3.start() < m4.start()):
        raise ExtractionBreak('rehash_bucket: parent-mask statements changed')
    t = 'static void rehash_bucket_masks(const hashcode_type hash, hashcode_type* parent_out, hashcode_type* mask_out) {\n    %s\n    %s\n    *parent_out = hash & mask; /* bucket_accessor b_old( this, hash & mask ) */\n    %s\n    %s\n    *mask_out = mask;\n}' % (m0.group(0), m1.group(0), m3.group(0), m4.group(0))
    t = rw.sub(t, r'tbb::detail::log2\(', 'tbb_log2(', 1, 1, name='ns-strip')
    t = rw.fcasts(t, TY)
    t = rw.asserts(t, 2)
    t = rw.std(t)
    out.append(t)
    common.write(ctx, 'hmap.inc', '\n'.join(out) + '\n')
    fired['hash_map_base'] = rw.fired
    return sliced, fired


def build(ctx):
    sliced, fired = extract(ctx)
    C = os.path.join(HERE, 'c10.c')
    jobs = [
        Job('seg.bijection', C, 'h_seg', route='LF', target='hash_map_base::segment_index_of/segment_base/segment_size', source=HM),
        Job('bucket.address', C, 'h_get_bucket', route='LF', target='hash_map_base::get_bucket', source=HM),
        Job('rehash.collision', C, 'h_collision', route='LW', unwind=66, target='hash_map_base::check_rehashing_collision', source=HM, timeout=600),
        Job('rehash.parent', C, 'h_parent', route='LF', target='concurrent_hash_map::rehash_bucket parent/mask computation', source=HM),
    ]
    return {
        'jobs': jobs, 'sliced': sliced, 'fired': fired,
        'trusted': ['__builtin_clzl as modelled by CBMC', 'rehash_required / bucket contents: stub recording which bucket is examined', 'element and bucket locks are spin_rw_mutex (C08)'],
        'drops': ['std::atomic loads -> ATOMIC_LOAD', '__TBB_ASSERT -> proof obligation'],
        'not_decided': ['interleavings of lookup / insert / erase', 'accessor lifetime', 'lazy rehash under concurrent lookups (rehash_bucket list surgery, bucket_accessor)', 'enable_segment / insert_new_node growth protocol'],
        'assumptions': ['masks passed to check_rehashing_collision are of the form 2^a-1 with m_old < m (they are values of my_mask, which only grows)'],
    }


def replay(ctx, jobname, failure):
    exe = native.build([os.path.join(HERE, 'c10_replay.cpp')], os.path.join(ctx.work, 'c10_replay'), flags=['-fno-access-control'], link_tbb=True)
    ins = failure.get('inputs', {}) or {}
    args = [exe, jobname] + ['%s=%s' % (k, v) for k, v in sorted(ins.items()) if isinstance(v, int)]
    rc, out = native.run(args, timeout=120)
    rep = {'cmd': ' '.join(args), 'rc': rc, 'output': out[-1500:], 'reproduced': False, 'detail': 'native recipes found no failing input'}
    m = re.search(r'REPRODUCED (.*)', out)
    if m:
        rep['reproduced'] = True
        rep['detail'] = m.group(1)
        w = re.search(r'class=(\S+)', m.group(1))
        rep['witness_class'] = w.group(1) if w else None
    return rep
