/* C10 harnesses: arithmetic of concurrent_hash_map's segmented, lazily rehashed bucket table */
#include "verif.h"
#include <stdlib.h>
typedef size_t size_type; typedef size_t segment_index_type; typedef size_t hashcode_type;
typedef struct bucket { void *node_list; } bucket;
typedef bucket *segment_ptr_type;
#define pointers_per_table ((size_type)64)
#define embedded_block ((size_type)1)
#define first_block ((size_type)8)
struct hmap { segment_ptr_type my_table[64]; };
#define ATOMIC_LOAD(x) (x)
#define SEG_IS_VALID(p) ((uintptr_t)(p) > (uintptr_t)63)
hashcode_type g_examined; bool g_examined_set, g_rr;
struct hmap;
static bool STUB_rehash_required_at(const struct hmap *self, hashcode_type idx) { g_examined = idx; g_examined_set = true; return g_rr; }
#define LOOP_crc_1
#include "log2.inc"
#include "hmap.inc"
size_t IN_i, IN_j, IN_h, IN_mold, IN_m;
/* segment_size(0) is documented as a fake value: segment 0 is the embedded block of embedded_buckets == 2 buckets */
static size_t real_size(size_t k) { return k == 0 ? 2 : segment_size(k); }
void h_seg(void) {
    size_t i = IN_i = nondet_size_t();
    size_t k = segment_index_of(i);
    OBLIGATION(k < pointers_per_table, "C10.seg: segment index < 64");
    OBLIGATION(segment_base(k) <= i && i - segment_base(k) < real_size(k), "C10.seg: bucket i lies inside segment index_of(i)");
    size_t j = IN_j = nondet_size_t(); __CPROVER_assume(j < pointers_per_table);
    if (segment_base(j) <= i && i - segment_base(j) < real_size(j)) OBLIGATION(j == k, "C10.seg: segments are disjoint");
    if (j + 1 < pointers_per_table) OBLIGATION(segment_base(j + 1) == segment_base(j) + real_size(j), "C10.seg: segments tile the bucket index space");
    VACUITY_END();
}
void h_get_bucket(void) {
    struct hmap m; hashcode_type h = IN_h = nondet_size_t();
    size_t k = segment_index_of(h);
    __CPROVER_assume(k < 40);   /* CBMC object-size bound, stated */
    bucket *seg = malloc(real_size(k) * sizeof(bucket)); __CPROVER_assume(seg != NULL);
    m.my_table[k] = seg;
    bucket *b = get_bucket(&m, h);
    OBLIGATION(b == seg + (h - segment_base(k)), "C10.bucket: bucket h is element h - base(seg) of its own segment");
    OBLIGATION(__CPROVER_r_ok(b, sizeof(bucket)), "C10.bucket: the bucket address lies inside the segment allocation");
    VACUITY_END();
}
/* which bucket does check_rehashing_collision examine?  modelled table: every segment is one shared array so that &seg[h - base] encodes h */
void h_collision(void) {
    struct hmap m; hashcode_type h = IN_h = nondet_size_t(), m_old = IN_mold = nondet_size_t(), mm = IN_m = nondet_size_t();
    __CPROVER_assume((m_old & (m_old + 1)) == 0 && (mm & (mm + 1)) == 0 && m_old < mm && m_old >= 1);   /* masks 2^a-1 < 2^b-1 */
    g_rr = nondet_bool(); g_examined_set = false;
    /* expected: the first mask after m_old under which h changes bucket */
    hashcode_type d = h & ~m_old & mm;
    bool changes = (h & m_old) != (h & mm);
    OBLIGATION(changes == (d != 0), "C10.lemma: the bucket changes iff h has a bit between the two masks");
    bool r = check_rehashing_collision(&m, h, m_old, mm);
    if (!changes) OBLIGATION(!r, "C10.collision: same bucket under both masks: no collision");
    else {
        hashcode_type low = d & (~d + 1), expect_mask = (low << 1) - 1;
        OBLIGATION(expect_mask > m_old && expect_mask <= mm && (expect_mask & (expect_mask + 1)) == 0, "C10.lemma: the next applicable mask is a mask in (m_old, m]");
        OBLIGATION(g_examined_set && g_examined == (h & expect_mask), "C10.collision: the bucket examined is the one the key occupied at the first table size where it left its old bucket");
        OBLIGATION(r == !g_rr, "C10.collision: a collision is reported iff the bucket the key moved to first has already been rehashed");
    }
    VACUITY_END();
}
/* the examined bucket itself: re-run the mask search on the sliced text through a recording get_bucket */
void h_parent(void) {
    hashcode_type hash = IN_h = nondet_size_t(), parent, mask;
    __CPROVER_assume(hash > 1);
    rehash_bucket_masks(hash, &parent, &mask);
    OBLIGATION(parent < hash, "C10.parent: the parent bucket has a smaller index (rehash recursion terminates)");
    OBLIGATION((parent | ((mask >> 1) + 1)) == hash && (parent & ((mask >> 1) + 1)) == 0, "C10.parent: the parent of bucket h is h with its top set bit cleared");
    OBLIGATION((mask & (mask + 1)) == 0 && (hash & mask) == hash && (hash & (mask >> 1)) == parent, "C10.parent: the new bucket's mask is the parent's mask extended by one bit");
    VACUITY_END();
}
