/* C10 harnesses: arithmetic of concurrent_hash_map's segmented, lazily rehashed bucket table */
#include "verif.h"
#include <stdlib.h>
typedef size_t size_type; typedef size_t segment_index_type; typedef size_t hashcode_type;
typedef struct bucket { void *node_list; } bucket;
typedef bucket *segment_ptr_type;
#define pointers_per_table ((size_type)64)
#define embedded_block ((size_type)1)
#define first_block ((size_type)8)
struct hmap { segment_ptr_type my_table[64]; };
#define ATOMIC_LOAD(x) (x)
#define SEG_IS_VALID(p) ((uintptr_t)(p) > (uintptr_t)63)
hashcode_type g_examined; bool g_examined_set, g_rr;
struct hmap;
static bool STUB_rehash_required_at(const struct hmap *self, hashcode_type idx) { g_examined = idx; g_examined_set = true; return g_rr; }
#define LOOP_crc_1
#include "log2.inc"
#include "hmap.inc"
size_t IN_i, IN_j, IN_h, IN_mold, IN_m;
/* segment_size(0) is documented as a fake value: segment 0 is the embedded block of embedded_buckets == 2 buckets */
static size_t real_size(size_t k) { return k == 0 ? 2 : segment_size(k); }
void h_seg(void) {
    size_t i = IN_i = nondet_size_t();
    size_t k = segment_index_of(i);
    OBLIGATION(k < pointers_per_table, "C10.seg: segment index < 64");
    OBLIGATION(segment_base(k) <= i && i - segment_base(k) < real_size(k), "C10.seg: bucket i lies inside segment index_of(i)");
    size_t j = IN_j = nondet_size_t(); __CPROVER_assume(j < pointers_per_table);
    if (segment_base(j) <= i && i - segment_base(j) < real_size(j)) OBLIGATION(j == k, "C10.seg: segments are disjoint");
    if (j + 1 < pointers_per_table) OBLIGATION(segment_base(j + 1) == segment_base(j) + real_size(j), "C10.seg: segments tile the bucket index space");
    VACUITY_END();
}
void h_get_bucket(void) {
    struct hmap m; hashcode_type h = IN_h = nondet_size_t();
    size_t k = segment_index_of(h);
    __CPROVER_assume(k < 40);   /* CBMC object-size bound, stated */
    bucket *seg = malloc(real_size(k) * sizeof(bucket)); __CPROVER_assume(seg != NULL);
    m.my_table[k] = seg;
    bucket *b = get_bucket(&m, h);
    OBLIGATION(b == seg + (h - segment_base(k)), "C10.bucket: bucket h is element h - base(seg) of its own segment");
    OBLIGATION(__CPROVER_r_ok(b, sizeof(bucket)), "C10.bucket: the bucket address lies inside the segment allocation");
    VACUITY_END();
}
/* which bucket does check_rehashing_collision examine?  modelled table: every segment is one shared array so that &seg[h - base] encodes h */
void h_collision(void) {
    struct hmap m; hashcode_type h = IN_h = nondet_size_t(), m_old = IN_mold = nondet_size_t(), mm = IN_m = nondet_size_t();
    __CPROVER_assume((m_old & (m_old + 1)) == 0 && (mm & (mm + 1)) == 0 && m_old < mm && m_old >= 1);   /* masks 2^a-1 < 2^b-1 */
    g_rr = nondet_bool(); g_examined_set = false;
    /* expected: the first mask after m_old under which h changes bucket */
    hashcode_type d = h & ~m_old & mm;
    bool changes = (h & m_old) != (h & mm);
    OBLIGATION(changes == (d != 0), "C10.lemma: the bucket changes iff h has a bit between the two masks");
    bool r = check_rehashing_collision(&m, h, m_old, mm);
    if (!changes) OBLIGATION(!r, "C10.collision: same bucket under both masks: no collision");
    else {
        hashcode_type low = d & (~d + 1), expect_mask = (low << 1) - 1;
        OBLIGATION(expect_mask > m_old && expect_mask <= mm && (expect_mask & (expect_mask + 1)) == 0, "C10.lemma: the next applicable mask is a mask in (m_old, m]");
        OBLIGATION(g_examined_set && g_examined == (h & expect_mask), "C10.collision: the bucket examined is the one the key occupied at the first table size where it left its old bucket");
        OBLIGATION(r == !g_rr, "C10.collision: a collision is reported iff the bucket the key moved to first has already been rehashed");
    }
    VACUITY_END();
}
/* the examined bucket itself: re-run the mask search on the sliced text through a recording get_bucket */
void h_parent(void) {
    hashcode_type hash = IN_h = nondet_size_t(), parent, mask;
    __CPROVER_assume(hash > 1);
    rehash_bucket_masks(hash, &parent, &mask);
    OBLIGATION(parent < hash, "C10.parent: the parent bucket has a smaller index (rehash recursion terminates)");
    OBLIGATION((parent | ((mask >> 1) + 1)) == hash && (parent & ((mask >> 1) + 1)) == 0, "C10.parent: the parent of bucket h is h with its top set bit cleared");
    OBLIGATION((mask & (mask + 1)) == 0 && (hash & mask) == hash && (hash & (mask >> 1)) == parent, "C10.parent: the new bucket's mask is the parent's mask extended by one bit");
    VACUITY_END();
}

#ifdef ERASE
/* ---- erase protocol (internal_erase / exclude): rely/guarantee over the bucket lock, the element lock and the bucket's list ---- */
#undef ATOMIC_LOAD
typedef struct node_base { struct node_base *next; } node_base;
typedef struct hbucket { node_base *node_list; } hbucket;
typedef int key_type;
struct chm { hashcode_type my_mask; size_t my_size; };
struct bucket_accessor { hbucket *my_b; };
struct const_accessor { node_base *my_node; hashcode_type my_hash; bool writer; };
#define NP 4
node_base POOL[NP]; hbucket BKT;     /* the nodes reachable from the locked bucket live in POOL (any shape: next pointers are arbitrary pool members or NULL) */
#define IN_POOL(p) (__CPROVER_same_object((p), POOL) && __CPROVER_POINTER_OFFSET(p) % sizeof(node_base) == 0 && __CPROVER_POINTER_OFFSET(p) < sizeof(POOL))
#define IS_VALID(p) ((uintptr_t)(p) > (uintptr_t)63)
static node_base *any_node(void) { size_t j = nondet_size_t(); if (j >= NP) return NULL; return &POOL[j]; }
static void havoc_list(void) { POOL[0].next = any_node(); POOL[1].next = any_node(); POOL[2].next = any_node(); POOL[3].next = any_node(); BKT.node_list = any_node(); }
/* ghost */
int g_b_mode;                      /* bucket lock held by this thread: 0 none, 1 reader, 2 writer */
unsigned g_tenure, g_search_tenure; /* a tenure = one uninterrupted holding of the bucket lock; the list may change between tenures only */
node_base *g_unlinked; unsigned g_unlinks, g_deleted, g_elem_locks, g_size_dec; node_base *g_elem_n; bool g_elem_w; int g_elem_mode_at_lock;
bool g_acc_released, g_acc_writer_at_release; unsigned g_acc_release_after_unlinks;
static hashcode_type any_mask(void) { hashcode_type m = nondet_size_t(); __CPROVER_assume((m & (m + 1)) == 0 && m >= 1); return m; }
#define ATOMIC_LOAD(f) any_mask()          /* rely: my_mask only grows, at any time: every load may see any mask */
#define ATOMIC_DEC(f) (g_size_dec++)
static hashcode_type STUB_hash(key_type k) { return nondet_size_t(); }
static bool STUB_equal(key_type k, node_base *n) { return nondet_bool(); }
unsigned g_collision_tenure, g_rel_tenure;   /* the tenure in which a mask race WITH a rehashing collision was detected: the key now lives in another bucket */
static bool STUB_check_rehashing_collision(struct chm *self, hashcode_type h, hashcode_type m_old, hashcode_type m) { bool r = nondet_bool(); if (r) g_collision_tenure = g_tenure; return r; }
static void BA_ctor(struct bucket_accessor *b, struct chm *self, hashcode_type h, bool writer) {
    __CPROVER_assert(g_b_mode == 0, "C10.erase: one bucket lock at a time");
    b->my_b = &BKT; g_b_mode = (writer || nondet_bool()) ? 2 : 1;   /* a bucket that had to be rehashed is returned write-locked */
    g_tenure++; havoc_list();
}
static void BA_dtor(struct bucket_accessor *b) { __CPROVER_assert(g_b_mode != 0, "C10.erase: the bucket lock is released once"); g_b_mode = 0; g_rel_tenure = g_tenure; }
static hbucket *BA_bucket(struct bucket_accessor *b) { return b->my_b; }
static bool BA_is_writer(struct bucket_accessor *b) { return g_b_mode == 2; }
static bool BA_upgrade_to_writer(struct bucket_accessor *b) {
    __CPROVER_assert(g_b_mode == 1, "C10.erase: upgrade from reader");
    g_b_mode = 2;
    if (nondet_bool()) return true;
    g_tenure++; havoc_list(); return false;      /* contended: the lock was dropped and re-acquired; another writer may have changed the list */
}
#define GHOST_SEARCH_START() (g_search_tenure = g_tenure)
#define UNLINK_COMMON(n) do { \
    __CPROVER_assert(g_b_mode == 2, "C10.erase: a node is unlinked only under the bucket's WRITER lock (of several concurrent erases of a key exactly one unlinks it)"); \
    __CPROVER_assert(g_search_tenure == g_tenure, "C10.erase: the position used for unlinking was found during the current holding of the lock (re-searched after a contended upgrade)"); \
    g_unlinked = (n); g_unlinks++; } while (0)
#define UNLINK_HEAD(b, n) do { UNLINK_COMMON(n); __CPROVER_assert(BA_bucket(b)->node_list == (n), "C10.erase: the node unlinked as list head is the list head"); BA_bucket(b)->node_list = (n)->next; } while (0)
#define UNLINK_AFTER(b, pr, n) do { UNLINK_COMMON(n); __CPROVER_assert(IN_POOL(pr) && (pr)->next == (n), "C10.erase: the node unlinked is the successor of prev: no other node is dropped from the list"); (pr)->next = (n)->next; } while (0)
#define ELEM_SCOPED_LOCK(n, w) do { g_elem_locks++; g_elem_n = (n); g_elem_w = (w); g_elem_mode_at_lock = g_b_mode; } while (0)   /* lock ... unlock: the scope holds nothing else */
static void STUB_delete_node(struct chm *self, node_base *n) {
    __CPROVER_assert(g_unlinks == 1 && n == g_unlinked, "C10.erase: only the node this call unlinked is destroyed");
    g_deleted++;
}
static void ACC_release(struct const_accessor *a) { if (a->my_node) { g_acc_released = true; g_acc_writer_at_release = a->writer; g_acc_release_after_unlinks = g_unlinks; a->my_node = NULL; } }
static bool ACC_is_writer(struct const_accessor *a) { return a->writer; }
static bool ACC_upgrade_to_writer(struct const_accessor *a) { a->writer = true; return nondet_bool(); }   /* returns once this thread is the only holder (C08) */
#define CUT_restart() do { __CPROVER_assert(g_b_mode == 0 && g_unlinks == 0 && g_deleted == 0 && g_size_dec == 0 && g_elem_locks == 0, "C10.erase: a restart begins from the clean state the entry path explores (no lock, nothing unlinked)"); __CPROVER_assume(0); } while (0)
#define CUT_search(b) do { __CPROVER_assert(g_collision_tenure != g_tenure, "C10.erase: after a mask race with a rehashing collision the key lives in another bucket: the search starts over from the bucket selection, it does not re-walk the bucket that is locked"); __CPROVER_assert(g_b_mode != 0 && g_unlinks == 0 && g_deleted == 0 && g_size_dec == 0 && g_elem_locks == 0, "C10.erase: a re-search begins with the bucket locked and nothing unlinked"); __CPROVER_assume(0); } while (0)
#define LOOP_erase_1 __CPROVER_assigns(prev, erase_node) __CPROVER_loop_invariant((erase_node == NULL || IN_POOL(erase_node)) && (prev == NULL ? erase_node == BKT.node_list : (IN_POOL(prev) && prev->next == erase_node)))
#define LOOP_excl_2 __CPROVER_assigns(prev, curr) __CPROVER_loop_invariant((curr == NULL || IN_POOL(curr)) && (prev == NULL ? curr == BKT.node_list : (IN_POOL(prev) && prev->next == curr)))
#include "erase.inc"
static void einit(void) { g_b_mode = 0; g_tenure = nondet_unsigned(); __CPROVER_assume(g_tenure < 1000); g_search_tenure = 0; g_unlinked = NULL; g_unlinks = g_deleted = g_elem_locks = g_size_dec = 0; g_acc_released = false; g_collision_tenure = ~0u; g_rel_tenure = 0; }
void h_erase(void) {
    struct chm m; einit();
    bool r = internal_erase(&m, nondet_int());
    OBLIGATION(g_b_mode == 0, "C10.erase: the bucket lock is released on every path");
    if (r) {
        OBLIGATION(g_unlinks == 1 && g_deleted == 1 && g_size_dec == 1, "C10.erase: a successful erase unlinks, counts and destroys exactly one node");
        OBLIGATION(g_elem_locks == 1 && g_elem_n == g_unlinked && g_elem_w, "C10.erase: between unlinking and destroying the element its WRITER lock is taken: every accessor and const_accessor still pointing to it has been released, and none can be attached any more");
        OBLIGATION(g_elem_mode_at_lock == 0, "C10.erase: the element lock is waited for without holding the bucket lock");
    } else {
        OBLIGATION(g_unlinks == 0 && g_deleted == 0 && g_size_dec == 0, "C10.erase: a failed erase changes nothing");
        OBLIGATION(g_collision_tenure != g_rel_tenure, "C10.erase: 'not found' is reported only from a bucket for which no rehashing collision was detected while it was locked (a present key is not missed because the table grew)");
    }
    VACUITY_END();
}
void h_exclude(void) {
    struct chm m; einit();
    struct const_accessor a; a.my_node = any_node(); a.my_hash = nondet_size_t(); a.writer = nondet_bool();
    __CPROVER_assume(a.my_node != NULL);
    node_base *n = a.my_node;
    bool r = exclude(&m, &a);
    OBLIGATION(g_b_mode == 0, "C10.erase: the bucket lock is released on every path");
    OBLIGATION(a.my_node == NULL && g_acc_released, "C10.erase: the accessor is released");
    if (r) {
        OBLIGATION(g_unlinks == 1 && g_unlinked == n && g_deleted == 1 && g_size_dec == 1, "C10.erase: erase by accessor unlinks, counts and destroys exactly the accessor's node");
        OBLIGATION(g_acc_writer_at_release && g_acc_release_after_unlinks == 1, "C10.erase: the element is held EXCLUSIVELY (upgraded if it was a const_accessor) after the unlink and until just before destruction: no other accessor points to it");
    } else
        OBLIGATION(g_unlinks == 0 && g_deleted == 0 && g_size_dec == 0, "C10.erase: losing the race to another eraser changes nothing");
    VACUITY_END();
}
#endif

#ifdef LOOKUP
/* ---- lookup<OpInsert> (find / count / insert / emplace): the control flow over ONE bucket under its rw lock; rely/guarantee over the bucket lock, the bucket's chain
   (abstracted to: "is the key in the chain, and which node carries it"), the element lock and the ownership of the node this call allocated or was handed.
   rely: other threads change a bucket's chain only while holding its WRITER lock, so the chain is fixed during one tenure (one uninterrupted holding) of this thread;
   between tenures anything may happen (insert, erase, rehash): the chain abstraction is havocked at every acquisition and at every non-atomic upgrade / downgrade. ---- */
#undef ATOMIC_LOAD
typedef struct node { struct node *next; } node; typedef node node_base;
typedef struct hbucket { node_base *node_list; } hbucket;
typedef int key_type; typedef int mapped_type;
struct chm { hashcode_type my_mask; size_t my_size; };
struct bucket_accessor { hbucket *my_b; };
struct const_accessor { node *my_node; hashcode_type my_hash; };
static node NODE_K, NODE_NEW; static hbucket BKT;   /* NODE_K: THE node that carries the key when the locked bucket has one; NODE_NEW: the node this call owns */
#define IS_VALID(p) ((uintptr_t)(p) > (uintptr_t)63)
/* ghost */
hashcode_type g_h, g_bkt_idx;
int g_b_mode;                                   /* bucket lock held by this thread: 0 none, 1 reader, 2 writer */
unsigned g_tenure, g_found_tenure, g_race_tenure;
node *g_key_node;                               /* the node carrying the key in the locked bucket's chain during the current tenure; NULL: the key is absent */
bool g_fresh;                                   /* g_key_node was linked by this call during the current tenure: no other thread can have reached it */
bool g_have_node;                               /* this call owns NODE_NEW: allocated or handed in, neither linked nor freed yet */
unsigned g_allocs, g_linked, g_deleted, g_enabled; segment_index_type g_claimed;
int g_elem_mode; node *g_elem_node;             /* element lock held through *result: 0 none, 1 reader, 2 writer */
bool g_race_result;
bool g_rel_done; node *g_rel_key; bool g_rel_race_ok;   /* snapshot taken when the bucket lock is given back */
static hashcode_type any_mask(void) { hashcode_type m = nondet_size_t(); __CPROVER_assume((m & (m + 1)) == 0 && m >= 1); return m; }
#define ATOMIC_LOAD(f) any_mask()          /* rely: my_mask only takes values 2^k-1; every load may see any of them */
static hashcode_type STUB_hash(key_type k) { return g_h; }
static bool STUB_check_rehashing_collision(struct chm *self, hashcode_type h, hashcode_type m_old, hashcode_type m) { return nondet_bool(); }
static void new_tenure(void) { g_tenure++; g_key_node = nondet_bool() ? &NODE_K : NULL; g_fresh = false; }
static void BA_ctor(struct bucket_accessor *b, struct chm *self, hashcode_type idx, bool writer) {
    __CPROVER_assert(g_b_mode == 0, "C10.lookup: one bucket lock at a time");
    b->my_b = &BKT; g_bkt_idx = idx; g_b_mode = (writer || nondet_bool()) ? 2 : 1;   /* a bucket that had to be rehashed is returned write-locked */
    new_tenure();
}
static void BA_release(struct bucket_accessor *b) {
    __CPROVER_assert(g_b_mode != 0, "C10.lookup: the bucket lock is released only when held");
    g_rel_done = true; g_rel_key = g_key_node; g_rel_race_ok = (g_race_tenure == g_tenure && !g_race_result); g_b_mode = 0;
}
static void BA_dtor(struct bucket_accessor *b) { if (g_b_mode != 0) BA_release(b); }   /* ~scoped_lock: releases if still held */
static hbucket *BA_bucket(struct bucket_accessor *b) { return b->my_b; }
static bool BA_is_writer(struct bucket_accessor *b) { return g_b_mode == 2; }
static bool BA_upgrade_to_writer(struct bucket_accessor *b) {
    __CPROVER_assert(g_b_mode == 1, "C10.lookup: upgrade from reader");
    g_b_mode = 2;
    if (nondet_bool()) return true;
    new_tenure(); return false;      /* contended: the lock was dropped and re-acquired; another writer may have changed the chain */
}
static bool BA_downgrade_to_reader(struct bucket_accessor *b) {
    __CPROVER_assert(g_b_mode == 2, "C10.lookup: downgrade from writer");
    g_b_mode = 1;
    if (nondet_bool()) return true;
    new_tenure(); return false;
}
static node *STUB_search_bucket(struct chm *self, key_type key, hbucket *bk) {
    __CPROVER_assert(g_b_mode != 0 && bk == &BKT, "C10.lookup: a chain is walked only under its bucket's lock");
    g_found_tenure = g_tenure; return g_key_node;      /* contract of search_bucket (job search.bucket): the node with an equal key, NULL iff there is none */
}
static node *STUB_allocate_node(struct chm *self, key_type key, const mapped_type *t) {
    __CPROVER_assert(!g_have_node, "C10.insert: a second node is never allocated while this call still owns one (no leak)");
    g_have_node = true; g_allocs++; return &NODE_NEW;
}
static segment_index_type STUB_insert_new_node(struct chm *self, hbucket *bk, node *n, hashcode_type mask) {
    __CPROVER_assert(g_b_mode == 2 && bk == &BKT, "C10.insert: a node is linked only under the bucket's WRITER lock");
    __CPROVER_assert(g_found_tenure == g_tenure && g_key_node == NULL, "C10.insert: the node is linked only if the key is absent from the chain at that moment, as established by a search during the current holding of the lock "
                     "(re-searched after a non-atomic upgrade): of several concurrent inserts of an absent key exactly one links its node");
    __CPROVER_assert(g_race_tenure == g_tenure && !g_race_result, "C10.insert: the node is linked only after the mask race was checked during the current holding of the lock and no rehashing collision was found: the locked bucket still is the key's bucket (no key is lost or duplicated while the table grows)");
    __CPROVER_assert(g_have_node && n == &NODE_NEW, "C10.insert: the node linked is the one this call allocated or was handed");
    g_have_node = false; g_linked++; g_key_node = n; g_fresh = true;
    segment_index_type seg = nondet_size_t(); if (seg) g_claimed = seg; return seg;
}
static void STUB_delete_node(struct chm *self, node *n) {
    __CPROVER_assert(g_have_node && n == &NODE_NEW, "C10.insert: only a node this call owns and did not link is freed, and only once");
    g_have_node = false; g_deleted++;
}
static void STUB_enable_segment(struct chm *self, segment_index_type k) {
    __CPROVER_assert(k != 0 && k == g_claimed && g_enabled == 0, "C10.grow: enable_segment is called only for the segment whose table entry this call claimed in insert_new_node, and once");
    g_enabled++;
}
static bool ACC_try_acquire(struct const_accessor *a, node *n, bool write) {
    __CPROVER_assert(g_elem_mode == 0, "C10.accessor: the accessor holds no other element");
    __CPROVER_assert(g_b_mode != 0, "C10.accessor: the element lock is taken while the bucket lock is still held: the element cannot have been unlinked and destroyed in between");
    __CPROVER_assert(n != NULL && n == g_key_node && g_found_tenure == g_tenure, "C10.accessor: the element locked is the key's node as found (or linked) during the current holding of the bucket lock");
    bool ok = (g_fresh && n == &NODE_NEW) ? true : nondet_bool();   /* rely: an element's lock is taken only by threads that hold its bucket's lock or already hold the element */
    if (ok) { g_elem_mode = write ? 2 : 1; g_elem_node = n; }
    return ok;
}
static bool STUB_bounded_pause(void) { return nondet_bool(); }
#define CHECK_MASK_RACE(self, hh, mp) ({ __CPROVER_assert(g_b_mode != 0 && (hh) == g_h && g_bkt_idx == ((hh) & *(mp)), "C10.lookup: the mask race is checked under the bucket lock and against the mask under which the locked bucket was chosen"); \
    bool r_ = check_mask_race((self), (hh), (mp)); g_race_tenure = g_tenure; g_race_result = r_; r_; })
/* goto restart: the state at the jump must lie in the set of states the harness starts from (which is closed under restarts); then the path ends */
#define CUT_restart() do { __CPROVER_assert(g_b_mode == 0 && g_elem_mode == 0 && result_is_clean(result) && g_linked == 0 && g_claimed == 0 && grow_segment == 0 && (m & (m + 1)) == 0 \
    && g_have_node == (tmp_n != NULL) && (tmp_n == NULL || tmp_n == &NODE_NEW), \
    "C10.lookup: a restart begins from a state the entry explores: no bucket or element lock held, accessor empty, nothing linked, the node owned by this call (if any) still in tmp_n, m a mask"); __CPROVER_assume(0); } while (0)
static bool result_is_clean(struct const_accessor *a) { return a == NULL || a->my_node == NULL; }
#define LOOP_lookup_1 __CPROVER_assigns(n, g_b_mode, g_tenure, g_key_node, g_fresh, g_found_tenure) \
    __CPROVER_loop_invariant((g_b_mode == 1 || g_b_mode == 2) && n == NULL && g_key_node == NULL && g_found_tenure == g_tenure && !g_fresh)
#define LOOP_lookup_2 __CPROVER_assigns(m, g_b_mode, g_elem_mode, g_elem_node, g_rel_done, g_rel_key, g_rel_race_ok) \
    __CPROVER_loop_invariant(g_b_mode != 0 && g_elem_mode == 0)
#include "lookup.inc"
#ifndef OPINSERT
#define OPINSERT 1
#endif
void h_lookup(void) {
    struct chm m; struct const_accessor A; A.my_node = NULL; A.my_hash = nondet_size_t();
    g_h = nondet_size_t(); g_b_mode = 0; g_tenure = nondet_unsigned(); __CPROVER_assume(g_tenure < 1000); g_found_tenure = g_race_tenure = 0; g_race_result = nondet_bool();
    g_key_node = NULL; g_fresh = false; g_allocs = g_linked = g_deleted = g_enabled = 0; g_claimed = 0; g_elem_mode = 0; g_elem_node = NULL; g_rel_done = false; g_rel_key = NULL; g_rel_race_ok = false;
    /* entry states, closed under `goto restart`: for insert/emplace the call may already own a node (handed in by emplace, or allocated before a restart) */
    node *tmp = (OPINSERT && nondet_bool()) ? &NODE_NEW : NULL; g_have_node = tmp != NULL;
    struct const_accessor *res = nondet_bool() ? &A : NULL; bool write = nondet_bool(); mapped_type val = nondet_int();
    bool r = lookup(&m, OPINSERT, nondet_int(), &val, res, write, tmp);
    OBLIGATION(g_b_mode == 0 && g_rel_done, "C10.lookup: the bucket lock is released on every path");
    OBLIGATION(!g_have_node, "C10.insert: a node that was allocated (or handed in) but not inserted is freed exactly once");
    OBLIGATION(g_linked <= 1 && g_allocs <= 1, "C10.insert: at most one node is allocated and linked per call");
    if (OPINSERT) {
        OBLIGATION(r == (g_linked == 1), "C10.insert: insert returns true exactly when this call linked its node");
        if (!r) OBLIGATION(g_rel_key == &NODE_K, "C10.insert: insert returns false only if the key's node was found in the bucket under its lock");
    } else {
        OBLIGATION(g_linked == 0 && g_allocs == 0 && g_deleted == 0 && g_claimed == 0 && g_enabled == 0, "C10.find: find / count change nothing");
        if (r) OBLIGATION(g_rel_key == &NODE_K, "C10.find: find returns true only if the key's node was found in the bucket under its lock");
        else OBLIGATION(g_rel_key == NULL && g_rel_race_ok, "C10.find: find reports the key absent only if it is absent from the locked bucket's chain and the mask race check made during that holding of the lock found no rehashing collision "
                        "(the locked bucket still is the key's bucket): a find issued after an insert completed succeeds");
    }
    if (res != NULL && (r || OPINSERT)) {
        OBLIGATION(A.my_node != NULL && A.my_node == g_rel_key && A.my_hash == g_h, "C10.accessor: the accessor returned points to the key's element and remembers the key's hash");
        OBLIGATION(g_elem_node == A.my_node && g_elem_mode == (write ? 2 : 1), "C10.accessor: the element's lock is held in the requested mode (exclusive for accessor, shared for const_accessor) when the accessor is attached");
    } else
        OBLIGATION(g_elem_mode == 0 && A.my_node == NULL, "C10.accessor: no element lock is held and no accessor is attached when none was asked for or the key is absent");
    VACUITY_END();
}
#endif

#ifdef CHAIN
/* ---- search_bucket / add_to_bucket / rehash_bucket over a chain of ANY length (loop contracts).  Per-index representation: the chain locked at entry consists of nodes 0..n-1 in
   list order; node i is THE i-th node (pairwise distinct by construction), its pointer is the integer (i+1)<<6, its attributes live in arrays (hash value of its key, "its key equals the
   searched key"), its `next` field is "successor in the original order" until the sliced code writes it.  Facts are stated about an arbitrary ghost node g_k instead of quantifiers. ---- */
typedef struct node node; typedef node node_base;
typedef struct hbucket { node_base *node_list; } hbucket;
typedef size_t key_type;                       /* a key is named by the node that carries it */
struct chm { int unused; };
struct bucket_accessor { hbucket *my_b; };
#define NMAX ((size_t)1 << 12)
static size_t g_n; static uintptr_t *g_wr; static hashcode_type *g_hv; static bool *g_eq; size_t g_k;
static size_t g_water;                         /* 1 + the largest node index whose next field was read or written so far: nodes at or above it still have their original successor */
static hbucket OLD, NEW; int g_b_mode; hashcode_type g_hash, g_mask, g_parent; bool g_mk; unsigned g_moved_k; node_base *g_unlinked;
#define NODEPTR(i) ((node_base *)(((uintptr_t)(i) + 1) << 6))
#define TIDX(p) ((size_t)(((uintptr_t)(p)) >> 6) - 1)
#define IS_VALID(p) ((uintptr_t)(p) > (uintptr_t)63)
#define IS_NODE(p) ((((uintptr_t)(p)) & 63) == 0 && (uintptr_t)(p) >= 64 && TIDX(p) < g_n)
#define PRISTINE(i) ((i) + 1 < g_n ? NODEPTR((i) + 1) : (node_base *)NULL)
#define NX(i) (((i) >= g_water || g_wr[i] == 0) ? PRISTINE(i) : (node_base *)(g_wr[i] - 1))      /* current `next` of node i */
#define CIDX(p) ((p) == NULL ? g_n : TIDX(p))
#define MAPS(i) ((g_hv[i] & g_mask) == g_hash)
static node_base *node_next(node_base *p) {
    __CPROVER_assert(IS_NODE(p), "C10.chain: only nodes of the locked chain are dereferenced");
    size_t i = TIDX(p); if (i >= g_water) { g_wr[i] = 0; g_water = i + 1; }
    return NX(i);
}
static void node_next_set(node_base *p, node_base *v) {
    __CPROVER_assert(IS_NODE(p), "C10.chain: only nodes of the locked chains are written");
    size_t i = TIDX(p);
    if (p == g_unlinked)       /* add_to_bucket: the node just taken out of the parent is pushed in front of the new bucket's chain */
        __CPROVER_assert(v == NEW.node_list, "C10.rehash: the moved node is linked in front of the new bucket's chain: no node already moved is dropped");
    else {                     /* a link inside the parent's chain is redirected */
        __CPROVER_assert(g_b_mode == 2, "C10.rehash: the parent's chain is changed only under the parent's WRITER lock (other threads may be reading it under the reader lock)");
        node_base *x = NX(i);
        __CPROVER_assert(g_unlinked == NULL && IS_NODE(x) && v == NX(TIDX(x)), "C10.rehash: the link redirected pointed to the node being moved and now points to that node's successor: exactly one node leaves the parent's chain");
        g_unlinked = x;
    }
    if (i >= g_water) g_water = i + 1;
    g_wr[i] = (uintptr_t)v + 1;
}
static size_t node_key(node_base *p) { __CPROVER_assert(IS_NODE(p), "C10.chain: only nodes of the locked chain are dereferenced"); return TIDX(p); }
#define NODE_NEXT(p) node_next((node_base *)(p))
#define NODE_NEXT_SET(p, v) node_next_set((node_base *)(p), (node_base *)(v))
#define NODE_KEY(p) node_key((node_base *)(p))
#define BKT_LOAD(b) ((b)->node_list)
static void bkt_store(hbucket *b, node_base *v) {
    if (b == &OLD) {
        __CPROVER_assert(g_b_mode == 2, "C10.rehash: the parent's chain is changed only under the parent's WRITER lock (other threads may be reading it under the reader lock)");
        node_base *x = OLD.node_list;
        __CPROVER_assert(g_unlinked == NULL && IS_NODE(x) && v == NX(TIDX(x)), "C10.rehash: the parent's head is replaced by its own successor: exactly the head node leaves the parent's chain");
        g_unlinked = x;
    } else if (IS_VALID(v)) {        /* a node is pushed (the other store to the new bucket writes a flag value) */
        __CPROVER_assert(v == g_unlinked && IS_NODE(v) && MAPS(TIDX(v)), "C10.rehash: the node added to the new bucket is the node just unlinked from the parent, and its hash maps to the new bucket under the new mask (nothing lost, nothing duplicated, nothing misplaced)");
        __CPROVER_assert(NX(TIDX(v)) == NEW.node_list, "C10.rehash: the new head's successor is the old head: the new bucket keeps every node moved before");
        g_unlinked = NULL; if (TIDX(v) == g_k) g_moved_k++;
    }
    b->node_list = v;
}
#define BKT_STORE(b, v) bkt_store((b), (node_base *)(v))
static bool STUB_equal(key_type key, key_type node_key_handle) { return g_eq[node_key_handle]; }      /* user equality: an arbitrary pure predicate on the nodes' keys */
static hashcode_type STUB_hash(key_type node_key_handle) { return g_hv[node_key_handle]; }             /* user hash: an arbitrary pure function of the nodes' keys */
static void BA_ctor(struct bucket_accessor *b, struct chm *self, hashcode_type idx, bool writer) {
    __CPROVER_assert(g_b_mode == 0, "C10.rehash: the parent is locked once");
    __CPROVER_assert(idx == g_parent, "C10.rehash: the bucket locked and scanned is the parent: the new bucket's index with its topmost bit cleared");
    b->my_b = &OLD; g_b_mode = (writer || nondet_bool()) ? 2 : 1;      /* recursion: a parent that itself needed rehashing comes back write-locked */
}
static void BA_dtor(struct bucket_accessor *b) { __CPROVER_assert(g_b_mode != 0, "C10.rehash: the parent's lock is released once"); g_b_mode = 0; }
static hbucket *BA_bucket(struct bucket_accessor *b) { return b->my_b; }
static bool BA_is_writer(struct bucket_accessor *b) { return g_b_mode == 2; }
static bool BA_upgrade_to_writer(struct bucket_accessor *b) { __CPROVER_assert(g_b_mode == 1, "C10.rehash: upgrade from reader"); g_b_mode = 2; return nondet_bool(); }
/* goto restart after a contended upgrade: the parent's chain may have changed; the state must be one the harness starts from: parent locked (now as writer), nothing moved yet */
#define CUT_restart() do { __CPROVER_assert(g_b_mode == 2 && NEW.node_list == NULL && g_unlinked == NULL && g_moved_k == 0, "C10.rehash: a rescan after a contended upgrade starts with the parent write-locked and nothing moved yet"); __CPROVER_assume(0); } while (0)
#define IMP(a, b) (!(a) || (b))
/* loop head, c = position of curr (n at the end): every node before c was visited, and was moved iff its hash maps to the new bucket; prev is curr's predecessor in the parent's chain */
#define LOOP_rehash_1 __CPROVER_assigns(curr, prev, OLD.node_list, NEW.node_list, g_b_mode, g_moved_k, g_unlinked, g_water, __CPROVER_object_whole(g_wr)) \
  __CPROVER_loop_invariant((curr == NULL || IS_NODE(curr)) && g_water == CIDX(curr) && (g_b_mode == 1 || g_b_mode == 2) && IMP(g_b_mode == 1, NEW.node_list == NULL && g_moved_k == 0) && g_unlinked == NULL \
     && (prev == NULL ? OLD.node_list == curr : (IS_NODE(prev) && TIDX(prev) < CIDX(curr) && NX(TIDX(prev)) == curr)) \
     && (NEW.node_list == NULL || (IS_NODE(NEW.node_list) && TIDX(NEW.node_list) < CIDX(curr))) \
     && g_moved_k == ((g_k < CIDX(curr) && g_mk) ? 1u : 0u)) \
  __CPROVER_decreases(g_n - CIDX(curr))
#define LOOP_search_1 __CPROVER_assigns(n, g_water, __CPROVER_object_whole(g_wr)) __CPROVER_loop_invariant((n == NULL || IS_NODE(n)) && g_water == CIDX(n) && IMP(g_k < CIDX(n), !g_eq[g_k])) __CPROVER_decreases(g_n - CIDX(n))
#include "chain.inc"
size_t IN_n, IN_k, IN_hash;
static void chain_setup(void) {
    g_n = IN_n = nondet_size_t(); __CPROVER_assume(g_n <= NMAX);
    g_wr = malloc((g_n + 1) * sizeof(uintptr_t)); g_hv = malloc((g_n + 1) * sizeof(hashcode_type)); g_eq = malloc((g_n + 1) * sizeof(bool)); __CPROVER_assume(g_wr && g_hv && g_eq);
    g_k = IN_k = nondet_size_t(); __CPROVER_assume(g_k < g_n); g_water = 0;
    OLD.node_list = g_n > 0 ? NODEPTR(0) : NULL;      /* a rehashed bucket's chain ends in NULL (== empty_rehashed_flag) */
}
void h_search(void) {
    struct chm m; chain_setup(); g_b_mode = 1;
    node *r = search_bucket(&m, nondet_size_t(), &OLD);
    if (r != NULL) OBLIGATION(IS_NODE(r) && g_eq[TIDX(r)], "C10.search: search_bucket returns only a node of the locked chain whose key equals the searched key");
    else OBLIGATION(!g_eq[g_k], "C10.search: search_bucket returns NULL only if no node of the chain has an equal key (arbitrary node g_k)");
    VACUITY_END();
}
void h_rehash(void) {
    struct chm m; chain_setup(); g_b_mode = 0; g_moved_k = 0; g_unlinked = NULL;
    g_hash = IN_hash = nondet_size_t(); __CPROVER_assume(g_hash > 1);
    hashcode_type top = (hashcode_type)1 << tbb_log2(g_hash); g_parent = g_hash & ~top; g_mask = (top << 1) - 1; g_mk = MAPS(g_k);
    NEW.node_list = (node_base *)rehash_req_flag;       /* the caller (bucket_accessor::acquire) holds the new bucket's writer lock and saw it flagged */
    rehash_bucket(&m, &NEW, g_hash);
    OBLIGATION(g_b_mode == 0, "C10.rehash: the parent's lock is released on return");
    OBLIGATION(!rehash_required(NEW.node_list), "C10.rehash: on return the new bucket is marked rehashed");
    OBLIGATION(g_moved_k == (g_mk ? 1u : 0u), "C10.rehash: every node of the parent's chain whose hash maps to the new bucket under the new mask has been moved there exactly once, and no other node has (arbitrary node g_k)");
    OBLIGATION(g_unlinked == NULL, "C10.rehash: every node unlinked from the parent was added to the new bucket: nothing is lost");
    VACUITY_END();
}
#endif

#ifdef ACQ
/* ---- bucket_accessor::acquire: rely/guarantee over ONE bucket's "rehash required" flag and its rw lock.
   rely (flag/lock protocol of the other threads, which run this same function): the flag is only ever cleared, and only by a thread holding the bucket's WRITER lock; a bucket that is still
   flagged is locked only through a successful try_acquire(write) by the thread that then rehashes it and clears the flag before it releases the lock; hence a try_acquire that fails on a
   flagged bucket lost against such a rehasher, and the blocking acquire that follows is granted only after the flag was cleared.
   guarantee (obligations below): this thread keeps its side of exactly that protocol. ---- */
typedef struct node node; typedef node node_base;
typedef struct hbucket { node_base *node_list; } hbucket;
struct chm { int unused; };
struct bucket_accessor { hbucket *my_b; };
static hbucket BKT;
bool g_flag;             /* the bucket is flagged "rehash required" (its node_list holds rehash_req_flag) */
int g_mode;              /* this thread's lock on the bucket: 0 none, 1 reader, 2 writer */
bool g_rehasher_active;  /* another thread holds the still flagged bucket: it is rehashing it */
unsigned g_rehash_calls, g_locks; hashcode_type g_h;
static void interfere(void) { if (g_mode == 0 && g_flag && nondet_bool()) { g_flag = false; g_rehasher_active = false; } }   /* another thread rehashed the bucket (needs its writer lock: impossible while this thread holds any lock) */
static node_base *bkt_load(hbucket *b) {
    __CPROVER_assert(b == &BKT, "C10.acquire: the flag read is the flag of the bucket being acquired");
    interfere();
    if (g_flag) return (node_base *)(size_t)3;
    return nondet_bool() ? (node_base *)NULL : (node_base *)((uintptr_t)64 + ((uintptr_t)nondet_ushort() << 6));   /* a rehashed bucket: empty or some chain */
}
#define BKT_LOAD(b) bkt_load(b)
static hbucket *STUB_get_bucket(struct chm *base, hashcode_type h) { __CPROVER_assert(h == g_h, "C10.acquire: the bucket located is the bucket of the masked hash code passed in"); return &BKT; }
static bool LOCK_try_acquire(struct bucket_accessor *self, hbucket *b, bool write) {
    __CPROVER_assert(g_mode == 0 && b == &BKT, "C10.acquire: one lock, on the bucket located");
    __CPROVER_assert(write, "C10.acquire: a bucket seen flagged is try-locked for WRITING: the thread that will rehash it excludes every other thread");
    interfere();
    if (g_rehasher_active || nondet_bool()) { if (g_flag) g_rehasher_active = true; return false; }      /* rely: failing on a flagged bucket means a rehasher holds it */
    g_mode = write ? 2 : 1; g_locks++; return true;
}
static void LOCK_acquire(struct bucket_accessor *self, hbucket *b, bool write) {
    __CPROVER_assert(g_mode == 0 && b == &BKT, "C10.acquire: one lock, on the bucket located");
    interfere();
    if (g_rehasher_active) { g_flag = false; g_rehasher_active = false; }      /* rely: granted only after the rehasher cleared the flag and released */
    g_mode = write ? 2 : 1; g_locks++;
}
static void STUB_rehash_bucket(struct chm *base, hbucket *b, hashcode_type h) {
    __CPROVER_assert(g_mode == 2 && b == &BKT && h == g_h, "C10.acquire: rehash_bucket runs under the new bucket's WRITER lock, on the bucket that was locked");
    __CPROVER_assert(g_flag, "C10.acquire: a bucket is rehashed only if it is still flagged when re-checked under its writer lock: every bucket is rehashed exactly once");
    g_flag = false; g_rehash_calls++;       /* contract of rehash_bucket (job rehash.bucket): marks the bucket rehashed */
}
#include "acquire.inc"
void h_acquire(void) {
    struct chm m; struct bucket_accessor a; a.my_b = NULL;
    g_h = nondet_size_t(); g_flag = nondet_bool(); g_rehasher_active = g_flag && nondet_bool(); g_mode = 0; g_rehash_calls = 0; g_locks = 0;
    bool writer = nondet_bool(), flag0 = g_flag;
    BA_acquire(&a, &m, g_h, writer);
    OBLIGATION(a.my_b == &BKT && g_locks == 1 && g_mode != 0 && (!writer || g_mode == 2), "C10.acquire: on return the bucket of h is locked exactly once, exclusively if a writer lock was requested");
    OBLIGATION(!g_flag, "C10.acquire: on return the bucket is not flagged 'rehash required': a thread that holds a bucket lock outside the rehash itself always sees a rehashed chain");
    OBLIGATION(g_rehash_calls <= 1 && (g_rehash_calls == 0 || (flag0 && g_mode == 2)), "C10.acquire: the bucket is rehashed at most once, only if it was flagged, and the lock is then kept as a writer lock");
    VACUITY_END();
}
#endif

#ifdef GROW
/* ---- growth: insert_new_node (count, link, claim of the next segment's table entry) and enable_segment / init_buckets (allocation, table entries, mask publication) ---- */
#undef ATOMIC_LOAD
typedef struct node { struct node *next; } node; typedef node node_base;
typedef struct hbucket { node_base *node_list; } hbucket;
struct chm { hashcode_type my_mask; size_t my_size; segment_ptr_type my_table[64]; };
static struct chm M;
#define IS_VALID(p) ((uintptr_t)(p) > (uintptr_t)63)
#define IS_ALLOCATING ((segment_ptr_type)2)
#define NODE_NEXT_SET(p, v) ((p)->next = (v))
#define BKT_LOAD(b) ((b)->node_list)
#define BKT_STORE(b, v) ((b)->node_list = (v))
#define IMP(a, b) (!(a) || (b))
/* -- insert_new_node: rely/guarantee on the table entry of the segment right above the mask: NULL (disabled) -> 2 (claimed: being allocated) -> valid pointer (enabled).
      ghost census: gClaim = number of threads that have claimed the entry and not yet enabled the segment, meClaim = this thread is one of them -- */
segment_index_type g_seg; unsigned long gClaim; bool meClaim; unsigned g_size_inc;
#define INV_T (gClaim <= 1 && ((M.my_table[g_seg] == IS_ALLOCATING) == (gClaim == 1)) && gClaim >= (unsigned long)meClaim \
               && (M.my_table[g_seg] == NULL || M.my_table[g_seg] == IS_ALLOCATING || IS_VALID(M.my_table[g_seg])))
static void interfere_ins(void) {
    segment_ptr_type o = M.my_table[g_seg];
    M.my_table[g_seg] = nondet_ptr(); gClaim = nondet_ulong(); M.my_size = nondet_size_t();       /* other threads insert, erase, claim, enable */
    __CPROVER_assume(INV_T);
    __CPROVER_assume(IMP(meClaim, M.my_table[g_seg] == IS_ALLOCATING));      /* rely: nobody touches an entry this thread has claimed */
    __CPROVER_assume(IMP(IS_VALID(o), M.my_table[g_seg] == o));              /* rely: an enabled segment stays enabled */
    __CPROVER_assume(IMP(o == IS_ALLOCATING, M.my_table[g_seg] != NULL));    /* rely: a claimed entry is not reset (allocation does not fail: listed assumption) */
}
#define ATOMIC_PREINC_AT(site, x) ({ interfere_ins(); size_t r_ = ++(x); g_size_inc++; r_; })
#define ATOMIC_LOAD_AT(site, x) ({ interfere_ins(); (x); })
#define ATOMIC_CAS_AT(site, x, e, d) ({ interfere_ins(); segment_ptr_type o_ = (x); bool r_ = (o_ == *(e)); \
    __CPROVER_assert(&(x) == &M.my_table[g_seg], "C10.grow: the table entry claimed is that of the segment right above the mask the insertion ran under"); \
    if (r_) { (x) = (d); if (o_ == NULL && (x) == IS_ALLOCATING) { gClaim++; meClaim = true; } } else *(e) = o_; \
    __CPROVER_assert(INV_T, "guarantee: a segment's table entry is claimed by at most one thread, and only while it is still NULL, at " #site); r_; })
/* -- enable_segment: runs with the entry claimed, nobody else writes the table or the mask meanwhile (the next claim needs the new mask) -- */
segment_index_type g_k; size_t g_j; bool g_is_initial; hashcode_type g_old_mask;
bucket *g_alloc_ptr; size_t g_alloc_n; unsigned g_allocs, g_inits, g_tab_stores, g_mask_stores; bucket *g_init_ptr; size_t g_init_sz; bool g_init_flagged;
static void table_store(size_t i, segment_ptr_type p) {
    __CPROVER_assert(g_mask_stores == 0 && i < 64 && (g_k >= first_block ? i == g_k : (i >= embedded_block && i < first_block)), "C10.grow: only the entries of the segments being enabled are written, before the mask");
    __CPROVER_assert(g_allocs == 1 && g_inits == 1 && g_init_ptr == g_alloc_ptr && g_init_sz == g_alloc_n && (g_is_initial || g_init_flagged),
                     "C10.grow: a segment is published only after every bucket of its allocation was initialised - as 'rehash required' unless the table is still empty: lookups never see an uninitialised or wrongly empty bucket");
    size_t off = g_k >= first_block ? 0 : segment_base(i) - segment_base(embedded_block);
    __CPROVER_assert(p == g_alloc_ptr + off && off + real_size(i) <= g_alloc_n, "C10.grow: the entry of segment i points to segment_size(i) buckets of its own inside the allocation (segments do not overlap)");
    g_tab_stores++;
}
static void mask_store(size_t v) {
    segment_index_type kl = g_k >= first_block ? g_k : first_block - 1;      /* the last segment this call enables */
    __CPROVER_assert((v & (v + 1)) == 0 && v > g_old_mask && v == segment_base(kl) + segment_size(kl) - 1, "C10.grow: the new mask has the form 2^j-1 and extends the table by exactly the whole segments just enabled");
    __CPROVER_assert(IMP(g_j <= kl, IS_VALID(M.my_table[g_j])), "C10.grow: the mask is published after the table entry of every segment it covers (arbitrary segment g_j)");
    g_mask_stores++;
}
#define ATOMIC_STORE_AT(site, x, v) ({ if ((void *)&(x) == (void *)&M.my_mask) mask_store((size_t)(v)); else table_store((size_t)((segment_ptr_type *)(void *)&(x) - M.my_table), (segment_ptr_type)(v)); (x) = (v); (void)0; })
static segment_ptr_type STUB_allocate_buckets(struct chm *self, size_t n) {
    __CPROVER_assert(g_allocs == 0, "C10.grow: one allocation per enable_segment");
    __CPROVER_assume(n >= 1 && n <= ((size_t)1 << 41));       /* CBMC object-size bound, stated */
    g_alloc_ptr = malloc(n * sizeof(bucket)); __CPROVER_assume(g_alloc_ptr != NULL); g_alloc_n = n; g_allocs++; return g_alloc_ptr;
}
static void STUB_init_buckets_impl(struct chm *self, segment_ptr_type ptr, size_t sz, bool has_arg, node_base *arg) {
    g_init_ptr = ptr; g_init_sz = sz; g_init_flagged = has_arg && (void *)arg == (void *)(size_t)3; g_inits++;      /* constructs sz buckets at ptr, each with node_list = arg (NULL if none) */
}
#define LOOP_ens_1
#include "grow.inc"
size_t IN_seg, IN_k, IN_j;
static void havoc_M(void) { struct chm fresh; M = fresh; }
void h_insert_new_node(void) {
    havoc_M(); g_seg = IN_seg = nondet_size_t(); __CPROVER_assume(g_seg >= 1 && g_seg <= 62);
    hashcode_type mask = ((hashcode_type)1 << g_seg) - 1;        /* a value of my_mask: 2^j-1; the segment right above it is j */
    OBLIGATION(segment_base(g_seg) == mask + 1, "C10.lemma: segment j starts at bucket 2^j = mask + 1");
    __CPROVER_assume(IS_VALID(M.my_table[g_seg - 1]));           /* the mask was published after the entries of the segments it covers (guarantee of enable_segment) */
    gClaim = nondet_ulong(); meClaim = false; g_size_inc = 0; __CPROVER_assume(INV_T);
    hbucket B; node N, HEAD0; node_base *head0 = nondet_bool() ? &HEAD0 : NULL; B.node_list = head0; N.next = &N;
    segment_index_type r = insert_new_node(&M, &B, &N, mask);
    interfere_ins();
    OBLIGATION(g_size_inc == 1, "C10.grow: my_size is incremented exactly once per linked node");
    OBLIGATION(B.node_list == &N && N.next == head0, "C10.grow: the node is linked at the head of the bucket's chain and the old chain follows it: no node is dropped");
    OBLIGATION(r == 0 || (r == g_seg && meClaim && M.my_table[g_seg] == IS_ALLOCATING),
               "C10.grow: a segment index is returned for enabling only if it is the segment right above the mask and this call claimed its table entry (NULL -> allocating); at most one thread holds that claim, so a segment is allocated and published once");
    VACUITY_END();
}
void h_enable_segment(void) {
    havoc_M(); g_k = IN_k = nondet_size_t(); __CPROVER_assume((g_k == embedded_block || g_k >= first_block) && g_k <= 40);
    g_is_initial = nondet_bool(); g_j = IN_j = nondet_size_t(); __CPROVER_assume(g_j < 64);
    M.my_mask = g_old_mask = segment_base(g_k) - 1;              /* the entry was claimed under this mask, and the mask cannot change before this call publishes the next one */
    __CPROVER_assume(M.my_table[g_k] == IS_ALLOCATING || M.my_table[g_k] == NULL);    /* claimed by insert_new_node, or still disabled (reserve / rehash, not concurrent) */
    __CPROVER_assume(IMP(g_j < g_k, IS_VALID(M.my_table[g_j])));  /* segments below are enabled (instance of the table invariant at the ghost segment) */
    g_allocs = g_inits = g_tab_stores = g_mask_stores = 0; g_alloc_ptr = NULL; g_init_ptr = NULL;
    enable_segment(&M, g_k, g_is_initial);
    OBLIGATION(g_mask_stores == 1 && M.my_mask > g_old_mask, "C10.grow: enable_segment publishes exactly one new, larger mask");
    OBLIGATION(g_tab_stores == (g_k >= first_block ? 1u : (unsigned)(first_block - embedded_block)), "C10.grow: every segment covered by the new mask got its table entry");
    VACUITY_END();
}
#endif
