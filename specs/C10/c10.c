/* C10 harnesses: arithmetic of concurrent_hash_map's segmented, lazily rehashed bucket table */
#include "verif.h"
#include <stdlib.h>
typedef size_t size_type; typedef size_t segment_index_type; typedef size_t hashcode_type;
typedef struct bucket { void *node_list; } bucket;
typedef bucket *segment_ptr_type;
#define pointers_per_table ((size_type)64)
#define embedded_block ((size_type)1)
#define first_block ((size_type)8)
struct hmap { segment_ptr_type my_table[64]; };
#define ATOMIC_LOAD(x) (x)
#define SEG_IS_VALID(p) ((uintptr_t)(p) > (uintptr_t)63)
hashcode_type g_examined; bool g_examined_set, g_rr;
struct hmap;
static bool STUB_rehash_required_at(const struct hmap *self, hashcode_type idx) { g_examined = idx; g_examined_set = true; return g_rr; }
#define LOOP_crc_1
#include "log2.inc"
#include "hmap.inc"
size_t IN_i, IN_j, IN_h, IN_mold, IN_m;
/* segment_size(0) is documented as a fake value: segment 0 is the embedded block of embedded_buckets == 2 buckets */
static size_t real_size(size_t k) { return k == 0 ? 2 : segment_size(k); }
void h_seg(void) {
    size_t i = IN_i = nondet_size_t();
    size_t k = segment_index_of(i);
    OBLIGATION(k < pointers_per_table, "C10.seg: segment index < 64");
    OBLIGATION(segment_base(k) <= i && i - segment_base(k) < real_size(k), "C10.seg: bucket i lies inside segment index_of(i)");
    size_t j = IN_j = nondet_size_t(); __CPROVER_assume(j < pointers_per_table);
    if (segment_base(j) <= i && i - segment_base(j) < real_size(j)) OBLIGATION(j == k, "C10.seg: segments are disjoint");
    if (j + 1 < pointers_per_table) OBLIGATION(segment_base(j + 1) == segment_base(j) + real_size(j), "C10.seg: segments tile the bucket index space");
    VACUITY_END();
}
void h_get_bucket(void) {
    struct hmap m; hashcode_type h = IN_h = nondet_size_t();
    size_t k = segment_index_of(h);
    __CPROVER_assume(k < 40);   /* CBMC object-size bound, stated */
    bucket *seg = malloc(real_size(k) * sizeof(bucket)); __CPROVER_assume(seg != NULL);
    m.my_table[k] = seg;
    bucket *b = get_bucket(&m, h);
    OBLIGATION(b == seg + (h - segment_base(k)), "C10.bucket: bucket h is element h - base(seg) of its own segment");
    OBLIGATION(__CPROVER_r_ok(b, sizeof(bucket)), "C10.bucket: the bucket address lies inside the segment allocation");
    VACUITY_END();
}
/* which bucket does check_rehashing_collision examine?  modelled table: every segment is one shared array so that &seg[h - base] encodes h */
void h_collision(void) {
    struct hmap m; hashcode_type h = IN_h = nondet_size_t(), m_old = IN_mold = nondet_size_t(), mm = IN_m = nondet_size_t();
    __CPROVER_assume((m_old & (m_old + 1)) == 0 && (mm & (mm + 1)) == 0 && m_old < mm && m_old >= 1);   /* masks 2^a-1 < 2^b-1 */
    g_rr = nondet_bool(); g_examined_set = false;
    /* expected: the first mask after m_old under which h changes bucket */
    hashcode_type d = h & ~m_old & mm;
    bool changes = (h & m_old) != (h & mm);
    OBLIGATION(changes == (d != 0), "C10.lemma: the bucket changes iff h has a bit between the two masks");
    bool r = check_rehashing_collision(&m, h, m_old, mm);
    if (!changes) OBLIGATION(!r, "C10.collision: same bucket under both masks: no collision");
    else {
        hashcode_type low = d & (~d + 1), expect_mask = (low << 1) - 1;
        OBLIGATION(expect_mask > m_old && expect_mask <= mm && (expect_mask & (expect_mask + 1)) == 0, "C10.lemma: the next applicable mask is a mask in (m_old, m]");
        OBLIGATION(g_examined_set && g_examined == (h & expect_mask), "C10.collision: the bucket examined is the one the key occupied at the first table size where it left its old bucket");
        OBLIGATION(r == !g_rr, "C10.collision: a collision is reported iff the bucket the key moved to first has already been rehashed");
    }
    VACUITY_END();
}
/* the examined bucket itself: re-run the mask search on the sliced text through a recording get_bucket */
void h_parent(void) {
    hashcode_type hash = IN_h = nondet_size_t(), parent, mask;
    __CPROVER_assume(hash > 1);
    rehash_bucket_masks(hash, &parent, &mask);
    OBLIGATION(parent < hash, "C10.parent: the parent bucket has a smaller index (rehash recursion terminates)");
    OBLIGATION((parent | ((mask >> 1) + 1)) == hash && (parent & ((mask >> 1) + 1)) == 0, "C10.parent: the parent of bucket h is h with its top set bit cleared");
    OBLIGATION((mask & (mask + 1)) == 0 && (hash & mask) == hash && (hash & (mask >> 1)) == parent, "C10.parent: the new bucket's mask is the parent's mask extended by one bit");
    VACUITY_END();
}

#ifdef ERASE
/* ---- erase protocol (internal_erase / exclude): rely/guarantee over the bucket lock, the element lock and the bucket's list ---- */
#undef ATOMIC_LOAD
typedef struct node_base { struct node_base *next; } node_base;
typedef struct hbucket { node_base *node_list; } hbucket;
typedef int key_type;
struct chm { hashcode_type my_mask; size_t my_size; };
struct bucket_accessor { hbucket *my_b; };
struct const_accessor { node_base *my_node; hashcode_type my_hash; bool writer; };
#define NP 4
node_base POOL[NP]; hbucket BKT;     /* the nodes reachable from the locked bucket live in POOL (any shape: next pointers are arbitrary pool members or NULL) */
#define IN_POOL(p) (__CPROVER_same_object((p), POOL) && __CPROVER_POINTER_OFFSET(p) % sizeof(node_base) == 0 && __CPROVER_POINTER_OFFSET(p) < sizeof(POOL))
#define IS_VALID(p) ((uintptr_t)(p) > (uintptr_t)63)
static node_base *any_node(void) { size_t j = nondet_size_t(); if (j >= NP) return NULL; return &POOL[j]; }
static void havoc_list(void) { POOL[0].next = any_node(); POOL[1].next = any_node(); POOL[2].next = any_node(); POOL[3].next = any_node(); BKT.node_list = any_node(); }
/* ghost */
int g_b_mode;                      /* bucket lock held by this thread: 0 none, 1 reader, 2 writer */
unsigned g_tenure, g_search_tenure; /* a tenure = one uninterrupted holding of the bucket lock; the list may change between tenures only */
node_base *g_unlinked; unsigned g_unlinks, g_deleted, g_elem_locks, g_size_dec; node_base *g_elem_n; bool g_elem_w; int g_elem_mode_at_lock;
bool g_acc_released, g_acc_writer_at_release; unsigned g_acc_release_after_unlinks;
static hashcode_type any_mask(void) { hashcode_type m = nondet_size_t(); __CPROVER_assume((m & (m + 1)) == 0 && m >= 1); return m; }
#define ATOMIC_LOAD(f) any_mask()          /* rely: my_mask only grows, at any time: every load may see any mask */
#define ATOMIC_DEC(f) (g_size_dec++)
static hashcode_type STUB_hash(key_type k) { return nondet_size_t(); }
static bool STUB_equal(key_type k, node_base *n) { return nondet_bool(); }
static bool STUB_check_rehashing_collision(struct chm *self, hashcode_type h, hashcode_type m_old, hashcode_type m) { return nondet_bool(); }
static void BA_ctor(struct bucket_accessor *b, struct chm *self, hashcode_type h, bool writer) {
    __CPROVER_assert(g_b_mode == 0, "C10.erase: one bucket lock at a time");
    b->my_b = &BKT; g_b_mode = (writer || nondet_bool()) ? 2 : 1;   /* a bucket that had to be rehashed is returned write-locked */
    g_tenure++; havoc_list();
}
static void BA_dtor(struct bucket_accessor *b) { __CPROVER_assert(g_b_mode != 0, "C10.erase: the bucket lock is released once"); g_b_mode = 0; }
static hbucket *BA_bucket(struct bucket_accessor *b) { return b->my_b; }
static bool BA_is_writer(struct bucket_accessor *b) { return g_b_mode == 2; }
static bool BA_upgrade_to_writer(struct bucket_accessor *b) {
    __CPROVER_assert(g_b_mode == 1, "C10.erase: upgrade from reader");
    g_b_mode = 2;
    if (nondet_bool()) return true;
    g_tenure++; havoc_list(); return false;      /* contended: the lock was dropped and re-acquired; another writer may have changed the list */
}
#define GHOST_SEARCH_START() (g_search_tenure = g_tenure)
#define UNLINK_COMMON(n) do { \
    __CPROVER_assert(g_b_mode == 2, "C10.erase: a node is unlinked only under the bucket's WRITER lock (of several concurrent erases of a key exactly one unlinks it)"); \
    __CPROVER_assert(g_search_tenure == g_tenure, "C10.erase: the position used for unlinking was found during the current holding of the lock (re-searched after a contended upgrade)"); \
    g_unlinked = (n); g_unlinks++; } while (0)
#define UNLINK_HEAD(b, n) do { UNLINK_COMMON(n); __CPROVER_assert(BA_bucket(b)->node_list == (n), "C10.erase: the node unlinked as list head is the list head"); BA_bucket(b)->node_list = (n)->next; } while (0)
#define UNLINK_AFTER(b, pr, n) do { UNLINK_COMMON(n); __CPROVER_assert(IN_POOL(pr) && (pr)->next == (n), "C10.erase: the node unlinked is the successor of prev: no other node is dropped from the list"); (pr)->next = (n)->next; } while (0)
#define ELEM_SCOPED_LOCK(n, w) do { g_elem_locks++; g_elem_n = (n); g_elem_w = (w); g_elem_mode_at_lock = g_b_mode; } while (0)   /* lock ... unlock: the scope holds nothing else */
static void STUB_delete_node(struct chm *self, node_base *n) {
    __CPROVER_assert(g_unlinks == 1 && n == g_unlinked, "C10.erase: only the node this call unlinked is destroyed");
    g_deleted++;
}
static void ACC_release(struct const_accessor *a) { if (a->my_node) { g_acc_released = true; g_acc_writer_at_release = a->writer; g_acc_release_after_unlinks = g_unlinks; a->my_node = NULL; } }
static bool ACC_is_writer(struct const_accessor *a) { return a->writer; }
static bool ACC_upgrade_to_writer(struct const_accessor *a) { a->writer = true; return nondet_bool(); }   /* returns once this thread is the only holder (C08) */
#define CUT_restart() do { __CPROVER_assert(g_b_mode == 0 && g_unlinks == 0 && g_deleted == 0 && g_size_dec == 0 && g_elem_locks == 0, "C10.erase: a restart begins from the clean state the entry path explores (no lock, nothing unlinked)"); __CPROVER_assume(0); } while (0)
#define CUT_search(b) do { __CPROVER_assert(g_b_mode != 0 && g_unlinks == 0 && g_deleted == 0 && g_size_dec == 0 && g_elem_locks == 0, "C10.erase: a re-search begins with the bucket locked and nothing unlinked"); __CPROVER_assume(0); } while (0)
#define LOOP_erase_1 __CPROVER_assigns(prev, erase_node) __CPROVER_loop_invariant((erase_node == NULL || IN_POOL(erase_node)) && (prev == NULL ? erase_node == BKT.node_list : (IN_POOL(prev) && prev->next == erase_node)))
#define LOOP_excl_2 __CPROVER_assigns(prev, curr) __CPROVER_loop_invariant((curr == NULL || IN_POOL(curr)) && (prev == NULL ? curr == BKT.node_list : (IN_POOL(prev) && prev->next == curr)))
#include "erase.inc"
static void einit(void) { g_b_mode = 0; g_tenure = nondet_unsigned(); __CPROVER_assume(g_tenure < 1000); g_search_tenure = 0; g_unlinked = NULL; g_unlinks = g_deleted = g_elem_locks = g_size_dec = 0; g_acc_released = false; }
void h_erase(void) {
    struct chm m; einit();
    bool r = internal_erase(&m, nondet_int());
    OBLIGATION(g_b_mode == 0, "C10.erase: the bucket lock is released on every path");
    if (r) {
        OBLIGATION(g_unlinks == 1 && g_deleted == 1 && g_size_dec == 1, "C10.erase: a successful erase unlinks, counts and destroys exactly one node");
        OBLIGATION(g_elem_locks == 1 && g_elem_n == g_unlinked && g_elem_w, "C10.erase: between unlinking and destroying the element its WRITER lock is taken: every accessor and const_accessor still pointing to it has been released, and none can be attached any more");
        OBLIGATION(g_elem_mode_at_lock == 0, "C10.erase: the element lock is waited for without holding the bucket lock");
    } else
        OBLIGATION(g_unlinks == 0 && g_deleted == 0 && g_size_dec == 0, "C10.erase: a failed erase changes nothing");
    VACUITY_END();
}
void h_exclude(void) {
    struct chm m; einit();
    struct const_accessor a; a.my_node = any_node(); a.my_hash = nondet_size_t(); a.writer = nondet_bool();
    __CPROVER_assume(a.my_node != NULL);
    node_base *n = a.my_node;
    bool r = exclude(&m, &a);
    OBLIGATION(g_b_mode == 0, "C10.erase: the bucket lock is released on every path");
    OBLIGATION(a.my_node == NULL && g_acc_released, "C10.erase: the accessor is released");
    if (r) {
        OBLIGATION(g_unlinks == 1 && g_unlinked == n && g_deleted == 1 && g_size_dec == 1, "C10.erase: erase by accessor unlinks, counts and destroys exactly the accessor's node");
        OBLIGATION(g_acc_writer_at_release && g_acc_release_after_unlinks == 1, "C10.erase: the element is held EXCLUSIVELY (upgraded if it was a const_accessor) after the unlink and until just before destruction: no other accessor points to it");
    } else
        OBLIGATION(g_unlinks == 0 && g_deleted == 0 && g_size_dec == 0, "C10.erase: losing the race to another eraser changes nothing");
    VACUITY_END();
}
#endif
