"""C06 -- parallel_sort: the 'already sorted?' probe covers every adjacent pair; quicksort split; dispatch."""
import os
import sys
import re
HERE = os.path.dirname(os.path.abspath(__file__))
sys.path.insert(0, os.path.join(HERE, '..'))
sys.path.insert(0, os.path.join(HERE, '..', '..', 'tools'))
import common
import native
import cxx2c
from cxx2c import Rewriter, slice_block, tag_loops, ExtractionBreak, load
from prove import Job

PS = 'include/oneapi/tbb/parallel_sort.h'
DEREF = r'\*\(?((?:\w+|\w+ [-+] \w+))\)?'

PR = 'include/oneapi/tbb/parallel_reduce.h'
PT = 'include/oneapi/tbb/partitioner.h'
CFG = 'include/oneapi/tbb/detail/_config.h'


def targs(s):
    """split template / call arguments at top-level commas (angle brackets nest too)"""
    out, d, cur = [], 0, []
    for ch in s:
        if ch in '(<[{':
            d += 1
        elif ch in ')>]}':
            d -= 1
        if ch == ',' and d == 0:
            out.append(''.join(cur).strip())
            cur = []
        else:
            cur.append(ch)
    if ''.join(cur).strip() or out:
        out.append(''.join(cur).strip())
    return out


def ttag(t):
    """type text -> enum tag (cv-qualifiers and references carry no identity)"""
    t = re.sub(r'\bconst\b|&', ' ', t)
    return 'TT_' + re.sub(r'\W+', '_', t.strip()).strip('_')


def extract_dispatch(ctx, sliced, fired):
    """every public overload of parallel_reduce / parallel_deterministic_reduce -> one C function ov_<i> + a descriptor row that is derived from the SIGNATURE only"""
    rw = Rewriter('reduce_dispatch')
    if not re.search(r'#define __TBB_DEFAULT_PARTITIONER tbb::auto_partitioner\b', load(CFG)):
        raise ExtractionBreak('__TBB_DEFAULT_PARTITIONER is no longer tbb::auto_partitioner')
    text = load(PR)
    mk = cxx2c.mask(text)
    ovs = []
    for name, least in (('parallel_reduce', 20), ('parallel_deterministic_reduce', 12)):
        hits = list(re.finditer(r'\b(void|Value)\s+%s\s*\(' % name, mk))
        rw._rec('overloads of ' + name, len(hits), least)
        for h in hits:
            o = h.end() - 1
            c = cxx2c.match_close(mk, o, '(', ')')
            b = mk.find('{', c)
            if mk[c + 1:b].strip():
                raise ExtractionBreak('%s:%d: unexpected text between the parameter list and the body' % (PR, cxx2c.line_of(text, h.start())))
            e = cxx2c.match_close(mk, b)
            params = []
            for prm in targs(text[o + 1:c]):
                pm = re.fullmatch(r'\s*(const\s+)?(\w+)\s*&\s*(\w+)\s*', prm)
                if not pm:
                    raise ExtractionBreak('%s: parameter %r of %s is not a reference to a named type' % (PR, prm, name))
                params.append((pm.group(2), pm.group(3)))
            ovs.append({'name': name, 'ret': h.group(1), 'params': params, 'body': cxx2c.strip_comments(text[b:e + 1]), 'line': cxx2c.line_of(text, h.start())})
    known = {'Range': 'range', 'Body': 'body', 'Value': 'identity', 'RealBody': 'real_body', 'Reduction': 'reduction', 'task_group_context': 'context',
             'simple_partitioner': 'p_simple_partitioner', 'auto_partitioner': 'p_auto_partitioner', 'static_partitioner': 'p_static_partitioner', 'affinity_partitioner': 'p_affinity_partitioner'}
    for i, ov in enumerate(ovs):
        ov['i'] = i
        ov['key'] = (ov['name'], tuple(t for t, _ in ov['params']))
        for t, _ in ov['params']:
            if t not in known:
                raise ExtractionBreak('%s:%d: parameter type %s is not in the harness vocabulary' % (PR, ov['line'], t))
    bykey = {}
    for ov in ovs:
        if ov['key'] in bykey:
            raise ExtractionBreak('two overloads with the same parameter types: %r' % (ov['key'],))
        bykey[ov['key']] = ov
    out, rows, tramp = [], [], []
    for ov in ovs:
        ptypes = dict((n, t) for t, n in ov['params'])
        lam = 'Body' not in [t for t, _ in ov['params']]
        sliced.append('%s:%d %s(%s)' % (PR, ov['line'], ov['name'], ', '.join(t for t, _ in ov['params'])))
        t = ov['body']
        t = t.replace('__TBB_DEFAULT_PARTITIONER', 'auto_partitioner')
        # local lambda body object
        t = rw.sub(t, r'lambda_reduce_body<\s*Range\s*,\s*Value\s*,\s*RealBody\s*,\s*Reduction\s*>\s+body\(([^;]*)\);',
                   r'struct lambda_reduce_body body; lambda_reduce_body_ctor(&body, \1);', 0, 1, name='local lambda_reduce_body object + constructor call')
        local_body = 'struct lambda_reduce_body body;' in t

        def argc(a):
            a = a.strip()
            tm = re.fullmatch(r'(\w+)\(\)', a)
            if tm:
                return 'TEMP(%s)' % tm.group(1), tm.group(1)          # a temporary of that class
            if a == 'body' and local_body:
                return '&body', 'lambda_reduce_body'
            if a in ptypes:
                return a, ptypes[a]                                   # reference parameter, now a pointer
            raise ExtractionBreak('%s:%d: argument %r is neither a parameter nor a temporary' % (PR, ov['line'], a))

        def runfn(mm):
            ta = targs(mm.group(2))
            if len(ta) != 3:
                raise ExtractionBreak('%s:%d: %s<> with %d template arguments' % (PR, ov['line'], mm.group(1), len(ta)))
            args = [argc(a)[0] for a in targs(mm.group(3))]
            if len(args) not in (3, 4):
                raise ExtractionBreak('%s:%d: run() with %d arguments' % (PR, ov['line'], len(args)))
            return 'STUB_run%d(K_%s, %s, %s);' % (len(args), mm.group(1), ', '.join(ttag(x) for x in ta), ', '.join(args))
        t, n = re.subn(r'(?s)\b(start_\w+)\s*<(.*?)>\s*::\s*run\s*\((.*?)\)\s*;', runfn, t)
        rw._rec('start_X<R,B,P>::run(args) -> STUB_runN(K_start_X, tags of R,B,P, args)', n, 0)

        def fwd(mm, a):
            conv = [argc(x) for x in a]
            key = (mm.group(1), tuple(ty for _, ty in conv))
            if key not in bykey:
                raise ExtractionBreak('%s:%d: call %s%r resolves to no overload' % (PR, ov['line'], mm.group(1), key[1]))
            return 'ov_%d(%s)' % (bykey[key]['i'], ', '.join(x for x, _ in conv))
        t = rw.call(t, r'\b(parallel_reduce|parallel_deterministic_reduce)', fwd, 0, name='call of another overload -> ov_<j> (resolved by exact parameter types)')
        t = rw.sub(t, r'return std::move\(body\)\.result\(\);', 'return lambda_reduce_body_result(&body);', 0, name='std::move(body).result()')
        cparams = ', '.join('struct %s* %s' % (ty, nm) for ty, nm in ov['params'])
        out.append('static %s ov_%d(%s) %s' % (ov['ret'], ov['i'], cparams, t))
        part = [ty for ty, _ in ov['params'] if ty.endswith('_partitioner')]
        if len(part) > 1:
            raise ExtractionBreak('%s:%d: two partitioner parameters' % (PR, ov['line']))
        hasctx = int('task_group_context' in [ty for ty, _ in ov['params']])
        sig = '%s(%s)' % (ov['name'], ', '.join(ty for ty, _ in ov['params']))
        rows.append('  X(%d, ov_%d, N_%s, %s, %s, %d, "%s") \\' % (ov['i'], ov['i'], ov['name'], 'FORM_LAMBDA' if lam else 'FORM_BODY', ttag(part[0]) if part else 'TT_none', hasctx, sig))
        callargs = ', '.join('A->%s' % known[ty] for ty, _ in ov['params'])
        tramp.append('static Value call_ov_%d(struct ov_args* A) { %sov_%d(%s);%s }' % (ov['i'], 'return ' if ov['ret'] == 'Value' else '', ov['i'], callargs, '' if ov['ret'] == 'Value' else ' return 0;'))
    protos = ['static %s ov_%d(%s);' % (ov['ret'], ov['i'], ', '.join('struct %s* %s' % (ty, nm) for ty, nm in ov['params'])) for ov in ovs]
    common.write(ctx, 'dispatch.inc', '\n'.join(protos) + '\n' + '\n'.join(out) + '\n' + '\n'.join(tramp) + '\n#define C06_N_OVERLOADS %d\n#define C06_OVERLOADS(X) \\\n' % len(ovs) + '\n'.join(rows) + '\n\n')
    fired['reduce_dispatch'] = rw.fired
    return len(ovs)


def extract_fold(ctx, sliced, fired):
    """partitioner.h: fold_tree<TreeNodeType> -> C with the ref-count operations as RG sites"""
    rw = Rewriter('fold_tree')
    s = slice_block(PT, r'void fold_tree\(node\* n, const execution_data& ed\)')
    sliced.append('%s:%d fold_tree<TreeNodeType>' % (PT, s.line))
    t = rw.sub(s.text, r'void fold_tree\(node\* n, const execution_data& ed\)', 'void fold_tree(node* n, const execution_data* ed)', 1, 1, name='sig (ref-param -> pointer)')
    t = rw.sub(t, r'call_itt_task_notify\((?:releasing|acquired), n\);', 'RG_NOP();', 0, name='ITT notification -> RG_NOP')
    t = rw.atomics(t, ['m_ref_count'], 0)
    t = rw.sub(t, r'\bn->my_parent\b', 'NODE_PARENT(n)', 0, name='field read through an accessor macro (tree represented by a per-level array)')
    t = rw.sub(t, r'\bself->join\(ed\.context\);', 'TreeNodeType_join(self, ed->context);', 0, name='method call -> function (stub: proved separately, jobs reduce.join.*)')
    t = rw.sub(t, r'\bself->m_allocator\.delete_object\(self, ed\);', 'STUB_delete_node(self, ed);', 0, name='callee stub (small_object_allocator::delete_object: destroys and frees the node)')
    t = rw.sub(t, r'static_cast<wait_node\*>\(n\)->m_wait\.release\(\);', 'STUB_wait_release(((wait_node*)(n)));', 0, name='callee stub (wait_context::release)')
    t = rw.sub(t, r'\bed\.', 'ed->', 0, name='ref-param')
    t = rw.casts(t, 0)
    t = rw.asserts(t, 0)
    t = rw.std(t)
    t = rw.number_sites(t, 'fold', by_kind=True)
    t = tag_loops(t, 'fold', rw, expect=1)
    common.write(ctx, 'fold.inc', t + '\n')
    fired['fold_tree'] = rw.fired


def extract(ctx):
    sliced, fired = [], {}
    rw = Rewriter('parallel_sort')
    out = []
    # pretest body
    s = slice_block(PS, r'void operator\(\)\( const blocked_range<RandomAccessIterator>& range \) const', within=r'class quick_sort_pretest_body \{')
    sliced.append('%s:%d quick_sort_pretest_body::operator()' % (PS, s.line))
    t = rw.sub(s.text, r'void operator\(\)\( const blocked_range<RandomAccessIterator>& range \) const', 'void pretest_body(RandomAccessIterator range_begin, RandomAccessIterator range_end)', 1, 1, name='sig (blocked_range<It> -> its two ends)')
    t = rw.sub(t, r'range\.end\(\)', 'range_end', 1, 1, name='range accessor')
    t = rw.sub(t, r'range\.begin\(\)', 'range_begin', 1, 1, name='range accessor')
    t = rw.sub(t, r'context\.is_group_execution_cancelled\(\)', 'STUB_is_cancelled()', 1, 1, name='callee stub')
    t = rw.sub(t, r'context\.cancel_group_execution\(\);', 'STUB_cancel();', 1, 1, name='callee stub')
    t = rw.sub(t, r'comp\(\*\(k\), \*\(k - 1\)\)', 'COMP_AT(k, k - 1)', 1, 1, name='comparator stub on iterator positions')
    t = tag_loops(t, 'pretest', rw, expect=1)
    out.append(t)
    s = slice_block(PS, r'void parallel_quick_sort\( RandomAccessIterator begin, RandomAccessIterator end, const Compare& comp \)')
    sliced.append('%s:%d parallel_quick_sort' % (PS, s.line))
    t = rw.sub(s.text, r'void parallel_quick_sort\( RandomAccessIterator begin, RandomAccessIterator end, const Compare& comp \)', 'void parallel_quick_sort(RandomAccessIterator begin, RandomAccessIterator end)', 1, 1, name='sig (Compare bound)')
    t = rw.sub(t, r'task_group_context my_context\(PARALLEL_SORT\);', 'STUB_context_init();', 1, 1, name='context ctor -> stub')
    t = rw.sub(t, r'constexpr int serial_cutoff = 9;', 'const int serial_cutoff = 9;', 1, 1, name='constexpr')
    t = rw.sub(t, r'comp\(\*\(k \+ 1\), \*k\)', 'COMP_AT(k + 1, k)', 1, 1, name='comparator stub on iterator positions')
    t = rw.sub(t, r'do_parallel_quick_sort\(begin, end, comp\);', 'STUB_do_parallel_quick_sort(begin, end);', 2, 2, name='callee stub')
    t = rw.sub(t, r'(?s)parallel_for\(blocked_range<RandomAccessIterator>\(k \+ 1, end\),\s*quick_sort_pretest_body<RandomAccessIterator, Compare>\(comp, my_context\),\s*auto_partitioner\(\),\s*my_context\);',
               'STUB_parallel_for_pretest(k + 1, end);', 0, name='parallel_for -> stub that runs the body on an arbitrary chunk of the range')
    t = rw.sub(t, r'(?s)parallel_for\(blocked_range<RandomAccessIterator>\(([^;]*?)\),\s*quick_sort_pretest_body<RandomAccessIterator, Compare>\(comp, my_context\),\s*auto_partitioner\(\),\s*my_context\);',
               r'STUB_parallel_for_pretest(\1);', 0, name='parallel_for -> stub that runs the body on an arbitrary chunk of the range')
    if 'STUB_parallel_for_pretest(' not in t:
        raise ExtractionBreak('parallel_quick_sort: the probing parallel_for was not found')
    t = rw.sub(t, r'my_context\.is_group_execution_cancelled\(\)', 'STUB_is_cancelled()', 1, 1, name='callee stub')
    t = rw.asserts(t, 1)
    t = tag_loops(t, 'pqs', rw, expect=1)
    out.append(t)
    s = slice_block(PS, r'void parallel_sort\( RandomAccessIterator begin, RandomAccessIterator end, const Compare& comp \)')
    sliced.append('%s:%d parallel_sort' % (PS, s.line))
    t = rw.sub(s.text, r'void parallel_sort\( RandomAccessIterator begin, RandomAccessIterator end, const Compare& comp \)', 'void parallel_sort(RandomAccessIterator begin, RandomAccessIterator end)', 1, 1, name='sig')
    t = rw.sub(t, r'constexpr int min_parallel_size = 500;', 'const int min_parallel_size = 500;', 1, 1, name='constexpr')
    t = rw.sub(t, r'std::sort\(begin, end, comp\);', 'STUB_std_sort(begin, end);', 1, 1, name='callee stub')
    t = rw.sub(t, r'parallel_quick_sort\(begin, end, comp\);', 'STUB_parallel_quick_sort(begin, end);', 1, 1, name='callee stub')
    out.append(t)
    # median functions + split_range
    for name, sig in (('median_of_three', r'std::size_t median_of_three\( const RandomAccessIterator& array, std::size_t l, std::size_t m, std::size_t r \) const'),):
        s = slice_block(PS, sig)
        sliced.append('%s:%d quick_sort_range::%s' % (PS, s.line, name))
        t = rw.sub(s.text, sig, 'size_t median_of_three(RandomAccessIterator array, size_t l, size_t m, size_t r)', 1, 1, name='sig')
        t = rw.sub(t, r'comp\(array\[(\w)\], array\[(\w)\]\)', r'COMP_AT(array + \1, array + \2)', 5, 5, name='comparator stub on iterator positions')
        out.append(t)
    common.write(ctx, 'sort.inc', '\n'.join(out) + '\n')
    fired['parallel_sort'] = rw.fired
    return sliced, fired


def build(ctx):
    sliced, fired = extract(ctx)
    nov = extract_dispatch(ctx, sliced, fired)
    extract_fold(ctx, sliced, fired)
    C = os.path.join(HERE, 'c06.c')
    jobs = [
        Job('reduce.fold_tree', C, 'h_fold', route='RG', loops=True, nloops=1, defines=['FOLD'], target='fold_tree<TreeNodeType> (any tree depth, any number of concurrently finishing children)', source=PT,
            inputs=['IN_depth', 'IN_start', 'IN_k', 'IN_others'], timeout=300),
        Job('reduce.dispatch', C, 'h_reduce_dispatch', route='LF', defines=['DISPATCH'], target='all %d public overloads of parallel_reduce / parallel_deterministic_reduce' % nov, source=PR, inputs=['IN_overload'],
            must_have=['parallel_deterministic_reduce(Range, Value, RealBody, Reduction, static_partitioner, task_group_context) ends in the runner']),
        Job('sort.probe_coverage', C, 'h_probe', route='LC', loops=True, nloops=1, unwind=12, timeout=600, defines=['SORT'],
            target='parallel_quick_sort (serial probe, unwound 9) + quick_sort_pretest_body::operator() (loop contract): every adjacent pair is examined', source=PS),
        Job('sort.dispatch', C, 'h_dispatch', route='LF', defines=['SORT'], target='parallel_sort(begin,end,comp) dispatch', source=PS),
        Job('sort.median_of_three', C, 'h_median', route='LF', defines=['SORT'], target='quick_sort_range::median_of_three', source=PS),
    ]
    return {
        'jobs': jobs, 'sliced': sliced, 'fired': fired,
        'trusted': ['parallel_for applies the probe body to chunks that tile the given range (C05) -- the stub runs the body on one arbitrary chunk containing the ghost pair', 'do_parallel_quick_sort / std::sort sort (stubs)',
                    'the comparator is a strict weak order given as an arbitrary relation on positions (stub)'],
        'drops': ['RandomAccessIterator := int*', 'Compare bound (calls become COMP_AT on iterator positions)', 'task_group_context -> ghost cancelled flag'],
        'not_decided': ['parallel_scan', 'parallel_reduce / parallel_deterministic_reduce join order', 'quick_sort_range::split_range partition correctness', 'std::sort on the leaves', 'dependence on the scheduler (C01)'],
        'assumptions': ['a probe chunk has fewer than 2^31 elements (the int counter of the pretest body; affects only the cancellation polling period)'],
    }


def replay(ctx, jobname, failure):
    exe = native.build([os.path.join(HERE, 'c06_replay.cpp')], os.path.join(ctx.work, 'c06_replay'), link_tbb=True)
    rc, out = native.run([exe, jobname], timeout=120)
    rep = {'cmd': exe + ' ' + jobname, 'rc': rc, 'output': out[-1500:], 'reproduced': False, 'detail': 'native search found no failing input'}
    m = re.search(r'REPRODUCED (.*)', out)
    if m:
        rep['reproduced'] = True
        rep['detail'] = m.group(1)
        w = re.search(r'class=(\S+)', m.group(1))
        rep['witness_class'] = w.group(1) if w else None
    return rep
