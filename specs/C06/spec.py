"""C06 -- parallel_sort: the 'already sorted?' probe covers every adjacent pair; quicksort split; dispatch."""
import os
import sys
import re
HERE = os.path.dirname(os.path.abspath(__file__))
sys.path.insert(0, os.path.join(HERE, '..'))
sys.path.insert(0, os.path.join(HERE, '..', '..', 'tools'))
import common
import native
import cxx2c
from cxx2c import Rewriter, slice_block, tag_loops, ExtractionBreak, load
from prove import Job

PS = 'include/oneapi/tbb/parallel_sort.h'
DEREF = r'\*\(?((?:\w+|\w+ [-+] \w+))\)?'


def extract(ctx):
    sliced, fired = [], {}
    rw = Rewriter('parallel_sort')
    out = []
    # pretest body
    s = slice_block(PS, r'void operator\(\)\( const blocked_range<RandomAccessIterator>& range \) const', within=r'class quick_sort_pretest_body \{')
    sliced.append('%s:%d quick_sort_pretest_body::operator()' % (PS, s.line))
    t = rw.sub(s.text, r'void operator\(\)\( const blocked_range<RandomAccessIterator>& range \) const', 'void pretest_body(RandomAccessIterator range_begin, RandomAccessIterator range_end)', 1, 1, name='sig (blocked_range<It> -> its two ends)')
    t = rw.sub(t, r'range\.end\(\)', 'range_end', 1, 1, name='range accessor')
    t = rw.sub(t, r'range\.begin\(\)', 'range_begin', 1, 1, name='range accessor')
    t = rw.sub(t, r'context\.is_group_execution_cancelled\(\)', 'STUB_is_cancelled()', 1, 1, name='callee stub')
    t = rw.sub(t, r'context\.cancel_group_execution\(\);', 'STUB_cancel();', 1, 1, name='callee stub')
    t = rw.sub(t, r'comp\(\*\(k\), \*\(k - 1\)\)', 'COMP_AT(k, k - 1)', 1, 1, name='comparator stub on iterator positions')
    t = tag_loops(t, 'pretest', rw, expect=1)
    out.append(t)
    s = slice_block(PS, r'void parallel_quick_sort\( RandomAccessIterator begin, RandomAccessIterator end, const Compare& comp \)')
    sliced.append('%s:%d parallel_quick_sort' % (PS, s.line))
    t = rw.sub(s.text, r'void parallel_quick_sort\( RandomAccessIterator begin, RandomAccessIterator end, const Compare& comp \)', 'void parallel_quick_sort(RandomAccessIterator begin, RandomAccessIterator end)', 1, 1, name='sig (Compare bound)')
    t = rw.sub(t, r'task_group_context my_context\(PARALLEL_SORT\);', 'STUB_context_init();', 1, 1, name='context ctor -> stub')
    t = rw.sub(t, r'constexpr int serial_cutoff = 9;', 'const int serial_cutoff = 9;', 1, 1, name='constexpr')
    t = rw.sub(t, r'comp\(\*\(k \+ 1\), \*k\)', 'COMP_AT(k + 1, k)', 1, 1, name='comparator stub on iterator positions')
    t = rw.sub(t, r'do_parallel_quick_sort\(begin, end, comp\);', 'STUB_do_parallel_quick_sort(begin, end);', 2, 2, name='callee stub')
    t = rw.sub(t, r'(?s)parallel_for\(blocked_range<RandomAccessIterator>\(k \+ 1, end\),\s*quick_sort_pretest_body<RandomAccessIterator, Compare>\(comp, my_context\),\s*auto_partitioner\(\),\s*my_context\);',
               'STUB_parallel_for_pretest(k + 1, end);', 0, name='parallel_for -> stub that runs the body on an arbitrary chunk of the range')
    t = rw.sub(t, r'(?s)parallel_for\(blocked_range<RandomAccessIterator>\(([^;]*?)\),\s*quick_sort_pretest_body<RandomAccessIterator, Compare>\(comp, my_context\),\s*auto_partitioner\(\),\s*my_context\);',
               r'STUB_parallel_for_pretest(\1);', 0, name='parallel_for -> stub that runs the body on an arbitrary chunk of the range')
    if 'STUB_parallel_for_pretest(' not in t:
        raise ExtractionBreak('parallel_quick_sort: the probing parallel_for was not found')
    t = rw.sub(t, r'my_context\.is_group_execution_cancelled\(\)', 'STUB_is_cancelled()', 1, 1, name='callee stub')
    t = rw.asserts(t, 1)
    t = tag_loops(t, 'pqs', rw, expect=1)
    out.append(t)
    s = slice_block(PS, r'void parallel_sort\( RandomAccessIterator begin, RandomAccessIterator end, const Compare& comp \)')
    sliced.append('%s:%d parallel_sort' % (PS, s.line))
    t = rw.sub(s.text, r'void parallel_sort\( RandomAccessIterator begin, RandomAccessIterator end, const Compare& comp \)', 'void parallel_sort(RandomAccessIterator begin, RandomAccessIterator end)', 1, 1, name='sig')
    t = rw.sub(t, r'constexpr int min_parallel_size = 500;', 'const int min_parallel_size = 500;', 1, 1, name='constexpr')
    t = rw.sub(t, r'std::sort\(begin, end, comp\);', 'STUB_std_sort(begin, end);', 1, 1, name='callee stub')
    t = rw.sub(t, r'parallel_quick_sort\(begin, end, comp\);', 'STUB_parallel_quick_sort(begin, end);', 1, 1, name='callee stub')
    out.append(t)
    # median functions + split_range
    for name, sig in (('median_of_three', r'std::size_t median_of_three\( const RandomAccessIterator& array, std::size_t l, std::size_t m, std::size_t r \) const'),):
        s = slice_block(PS, sig)
        sliced.append('%s:%d quick_sort_range::%s' % (PS, s.line, name))
        t = rw.sub(s.text, sig, 'size_t median_of_three(RandomAccessIterator array, size_t l, size_t m, size_t r)', 1, 1, name='sig')
        t = rw.sub(t, r'comp\(array\[(\w)\], array\[(\w)\]\)', r'COMP_AT(array + \1, array + \2)', 5, 5, name='comparator stub on iterator positions')
        out.append(t)
    common.write(ctx, 'sort.inc', '\n'.join(out) + '\n')
    fired['parallel_sort'] = rw.fired
    return sliced, fired


def build(ctx):
    sliced, fired = extract(ctx)
    C = os.path.join(HERE, 'c06.c')
    jobs = [
        Job('sort.probe_coverage', C, 'h_probe', route='LC', loops=True, nloops=1, unwind=12, timeout=600,
            target='parallel_quick_sort (serial probe, unwound 9) + quick_sort_pretest_body::operator() (loop contract): every adjacent pair is examined', source=PS),
        Job('sort.dispatch', C, 'h_dispatch', route='LF', target='parallel_sort(begin,end,comp) dispatch', source=PS),
        Job('sort.median_of_three', C, 'h_median', route='LF', target='quick_sort_range::median_of_three', source=PS),
    ]
    return {
        'jobs': jobs, 'sliced': sliced, 'fired': fired,
        'trusted': ['parallel_for applies the probe body to chunks that tile the given range (C05) -- the stub runs the body on one arbitrary chunk containing the ghost pair', 'do_parallel_quick_sort / std::sort sort (stubs)',
                    'the comparator is a strict weak order given as an arbitrary relation on positions (stub)'],
        'drops': ['RandomAccessIterator := int*', 'Compare bound (calls become COMP_AT on iterator positions)', 'task_group_context -> ghost cancelled flag'],
        'not_decided': ['parallel_scan', 'parallel_reduce / parallel_deterministic_reduce join order', 'quick_sort_range::split_range partition correctness', 'std::sort on the leaves', 'dependence on the scheduler (C01)'],
        'assumptions': ['a probe chunk has fewer than 2^31 elements (the int counter of the pretest body; affects only the cancellation polling period)'],
    }


def replay(ctx, jobname, failure):
    exe = native.build([os.path.join(HERE, 'c06_replay.cpp')], os.path.join(ctx.work, 'c06_replay'), link_tbb=True)
    rc, out = native.run([exe, jobname], timeout=120)
    rep = {'cmd': exe + ' ' + jobname, 'rc': rc, 'output': out[-1500:], 'reproduced': False, 'detail': 'native search found no failing input'}
    m = re.search(r'REPRODUCED (.*)', out)
    if m:
        rep['reproduced'] = True
        rep['detail'] = m.group(1)
        w = re.search(r'class=(\S+)', m.group(1))
        rep['witness_class'] = w.group(1) if w else None
    return rep
