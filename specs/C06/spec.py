"""C06 -- parallel_reduce / parallel_deterministic_reduce (fold_tree, lazy and eager body split, joins, dispatch of all overloads), parallel_scan (two-pass bookkeeping
with a ghost prefix model), parallel_sort (sortedness probe, split_range partition, dispatch)."""
import os
import sys
import re
HERE = os.path.dirname(os.path.abspath(__file__))
sys.path.insert(0, os.path.join(HERE, '..'))
sys.path.insert(0, os.path.join(HERE, '..', '..', 'tools'))
import common
import native
import cxx2c
from cxx2c import Rewriter, slice_block, tag_loops, ExtractionBreak, load
from prove import Job

PS = 'include/oneapi/tbb/parallel_sort.h'
DEREF = r'\*\(?((?:\w+|\w+ [-+] \w+))\)?'

PR = 'include/oneapi/tbb/parallel_reduce.h'
PT = 'include/oneapi/tbb/partitioner.h'
CFG = 'include/oneapi/tbb/detail/_config.h'


def targs(s):
    """split template / call arguments at top-level commas (angle brackets nest too)"""
    out, d, cur = [], 0, []
    for ch in s:
        if ch in '(<[{':
            d += 1
        elif ch in ')>]}':
            d -= 1
        if ch == ',' and d == 0:
            out.append(''.join(cur).strip())
            cur = []
        else:
            cur.append(ch)
    if ''.join(cur).strip() or out:
        out.append(''.join(cur).strip())
    return out


def ttag(t):
    """type text -> enum tag (cv-qualifiers and references carry no identity)"""
    t = re.sub(r'\bconst\b|&', ' ', t)
    return 'TT_' + re.sub(r'\W+', '_', t.strip()).strip('_')


def extract_dispatch(ctx, sliced, fired):
    """every public overload of parallel_reduce / parallel_deterministic_reduce -> one C function ov_<i> + a descriptor row that is derived from the SIGNATURE only"""
    rw = Rewriter('reduce_dispatch')
    if not re.search(r'#define __TBB_DEFAULT_PARTITIONER tbb::auto_partitioner\b', load(CFG)):
        raise ExtractionBreak('__TBB_DEFAULT_PARTITIONER is no longer tbb::auto_partitioner')
    text = load(PR)
    mk = cxx2c.mask(text)
    ovs = []
    for name, least in (('parallel_reduce', 20), ('parallel_deterministic_reduce', 12)):
        hits = list(re.finditer(r'\b(void|Value)\s+%s\s*\(' % name, mk))
        rw._rec('overloads of ' + name, len(hits), least)
        for h in hits:
            o = h.end() - 1
            c = cxx2c.match_close(mk, o, '(', ')')
            b = mk.find('{', c)
            if mk[c + 1:b].strip():
                raise ExtractionBreak('%s:%d: unexpected text between the parameter list and the body' % (PR, cxx2c.line_of(text, h.start())))
            e = cxx2c.match_close(mk, b)
            params = []
            for prm in targs(text[o + 1:c]):
                pm = re.fullmatch(r'\s*(const\s+)?(\w+)\s*&\s*(\w+)\s*', prm)
                if not pm:
                    raise ExtractionBreak('%s: parameter %r of %s is not a reference to a named type' % (PR, prm, name))
                params.append((pm.group(2), pm.group(3)))
            ovs.append({'name': name, 'ret': h.group(1), 'params': params, 'body': cxx2c.strip_comments(text[b:e + 1]), 'line': cxx2c.line_of(text, h.start())})
    known = {'Range': 'range', 'Body': 'body', 'Value': 'identity', 'RealBody': 'real_body', 'Reduction': 'reduction', 'task_group_context': 'context',
             'simple_partitioner': 'p_simple_partitioner', 'auto_partitioner': 'p_auto_partitioner', 'static_partitioner': 'p_static_partitioner', 'affinity_partitioner': 'p_affinity_partitioner'}
    for i, ov in enumerate(ovs):
        ov['i'] = i
        ov['key'] = (ov['name'], tuple(t for t, _ in ov['params']))
        for t, _ in ov['params']:
            if t not in known:
                raise ExtractionBreak('%s:%d: parameter type %s is not in the harness vocabulary' % (PR, ov['line'], t))
    bykey = {}
    for ov in ovs:
        if ov['key'] in bykey:
            raise ExtractionBreak('two overloads with the same parameter types: %r' % (ov['key'],))
        bykey[ov['key']] = ov
    out, rows, tramp = [], [], []
    for ov in ovs:
        ptypes = dict((n, t) for t, n in ov['params'])
        lam = 'Body' not in [t for t, _ in ov['params']]
        sliced.append('%s:%d %s(%s)' % (PR, ov['line'], ov['name'], ', '.join(t for t, _ in ov['params'])))
        t = ov['body']
        t = t.replace('__TBB_DEFAULT_PARTITIONER', 'auto_partitioner')
        # local lambda body object
        t = rw.sub(t, r'lambda_reduce_body<\s*Range\s*,\s*Value\s*,\s*RealBody\s*,\s*Reduction\s*>\s+body\(([^;]*)\);',
                   r'struct lambda_reduce_body body; lambda_reduce_body_ctor(&body, \1);', 0, 1, name='local lambda_reduce_body object + constructor call')
        local_body = 'struct lambda_reduce_body body;' in t

        def argc(a):
            a = a.strip()
            tm = re.fullmatch(r'(\w+)\(\)', a)
            if tm:
                return 'TEMP(%s)' % tm.group(1), tm.group(1)          # a temporary of that class
            if a == 'body' and local_body:
                return '&body', 'lambda_reduce_body'
            if a in ptypes:
                return a, ptypes[a]                                   # reference parameter, now a pointer
            raise ExtractionBreak('%s:%d: argument %r is neither a parameter nor a temporary' % (PR, ov['line'], a))

        def runfn(mm):
            ta = targs(mm.group(2))
            if len(ta) != 3:
                raise ExtractionBreak('%s:%d: %s<> with %d template arguments' % (PR, ov['line'], mm.group(1), len(ta)))
            args = [argc(a)[0] for a in targs(mm.group(3))]
            if len(args) not in (3, 4):
                raise ExtractionBreak('%s:%d: run() with %d arguments' % (PR, ov['line'], len(args)))
            return 'STUB_run%d(K_%s, %s, %s);' % (len(args), mm.group(1), ', '.join(ttag(x) for x in ta), ', '.join(args))
        t, n = re.subn(r'(?s)\b(start_\w+)\s*<(.*?)>\s*::\s*run\s*\((.*?)\)\s*;', runfn, t)
        rw._rec('start_X<R,B,P>::run(args) -> STUB_runN(K_start_X, tags of R,B,P, args)', n, 0)

        def fwd(mm, a):
            conv = [argc(x) for x in a]
            key = (mm.group(1), tuple(ty for _, ty in conv))
            if key not in bykey:
                raise ExtractionBreak('%s:%d: call %s%r resolves to no overload' % (PR, ov['line'], mm.group(1), key[1]))
            return 'ov_%d(%s)' % (bykey[key]['i'], ', '.join(x for x, _ in conv))
        t = rw.call(t, r'\b(parallel_reduce|parallel_deterministic_reduce)', fwd, 0, name='call of another overload -> ov_<j> (resolved by exact parameter types)')
        t = rw.sub(t, r'return std::move\(body\)\.result\(\);', 'return lambda_reduce_body_result(&body);', 0, name='std::move(body).result()')
        cparams = ', '.join('struct %s* %s' % (ty, nm) for ty, nm in ov['params'])
        out.append('static %s ov_%d(%s) %s' % (ov['ret'], ov['i'], cparams, t))
        part = [ty for ty, _ in ov['params'] if ty.endswith('_partitioner')]
        if len(part) > 1:
            raise ExtractionBreak('%s:%d: two partitioner parameters' % (PR, ov['line']))
        hasctx = int('task_group_context' in [ty for ty, _ in ov['params']])
        sig = '%s(%s)' % (ov['name'], ', '.join(ty for ty, _ in ov['params']))
        rows.append('  X(%d, ov_%d, N_%s, %s, %s, %d, "%s") \\' % (ov['i'], ov['i'], ov['name'], 'FORM_LAMBDA' if lam else 'FORM_BODY', ttag(part[0]) if part else 'TT_none', hasctx, sig))
        callargs = ', '.join('A->%s' % known[ty] for ty, _ in ov['params'])
        tramp.append('static Value call_ov_%d(struct ov_args* A) { %sov_%d(%s);%s }' % (ov['i'], 'return ' if ov['ret'] == 'Value' else '', ov['i'], callargs, '' if ov['ret'] == 'Value' else ' return 0;'))
    protos = ['static %s ov_%d(%s);' % (ov['ret'], ov['i'], ', '.join('struct %s* %s' % (ty, nm) for ty, nm in ov['params'])) for ov in ovs]
    common.write(ctx, 'dispatch.inc', '\n'.join(protos) + '\n' + '\n'.join(out) + '\n' + '\n'.join(tramp) + '\n#define C06_N_OVERLOADS %d\n#define C06_OVERLOADS(X) \\\n' % len(ovs) + '\n'.join(rows) + '\n\n')
    fired['reduce_dispatch'] = rw.fired
    return len(ovs)


def extract_fold(ctx, sliced, fired):
    """partitioner.h: fold_tree<TreeNodeType> -> C with the ref-count operations as RG sites"""
    rw = Rewriter('fold_tree')
    s = slice_block(PT, r'void fold_tree\(node\* n, const execution_data& ed\)')
    sliced.append('%s:%d fold_tree<TreeNodeType>' % (PT, s.line))
    t = rw.sub(s.text, r'void fold_tree\(node\* n, const execution_data& ed\)', 'void fold_tree(node* n, const execution_data* ed)', 1, 1, name='sig (ref-param -> pointer)')
    t = rw.sub(t, r'call_itt_task_notify\((?:releasing|acquired), n\);', 'RG_NOP();', 0, name='ITT notification -> RG_NOP')
    t = rw.atomics(t, ['m_ref_count'], 0)
    t = rw.sub(t, r'\bn->my_parent\b', 'NODE_PARENT(n)', 0, name='field read through an accessor macro (tree represented by a per-level array)')
    t = rw.sub(t, r'\bself->join\(ed\.context\);', 'TreeNodeType_join(self, ed->context);', 0, name='method call -> function (stub: proved separately, jobs reduce.join.*)')
    t = rw.sub(t, r'\bself->m_allocator\.delete_object\(self, ed\);', 'STUB_delete_node(self, ed);', 0, name='callee stub (small_object_allocator::delete_object: destroys and frees the node)')
    t = rw.sub(t, r'static_cast<wait_node\*>\(n\)->m_wait\.release\(\);', 'STUB_wait_release(((wait_node*)(n)));', 0, name='callee stub (wait_context::release)')
    t = rw.sub(t, r'\bed\.', 'ed->', 0, name='ref-param')
    t = rw.casts(t, 0)
    t = rw.asserts(t, 0)
    t = rw.std(t)
    t = rw.number_sites(t, 'fold', by_kind=True)
    t = tag_loops(t, 'fold', rw, expect=1)
    common.write(ctx, 'fold.inc', t + '\n')
    fired['fold_tree'] = rw.fired


# ---------------------------------------------------------------------------------------------------------------------
# helpers for member functions of the reduce task / tree-node classes (written here, tools/ is not touched)
# ---------------------------------------------------------------------------------------------------------------------
def class_scope(text):
    """class text with everything nested deeper than class scope blanked"""
    mk = cxx2c.mask(text)
    o = mk.find('{')
    out, d = [], 0
    for i, ch in enumerate(mk):
        if i < o:
            out.append(' ')
            continue
        if ch == '{':
            d += 1
        out.append(text[i] if d == 1 and ch not in '{}' else ' ')
        if ch == '}':
            d -= 1
    return ''.join(out)


def member_order(ctext, names, cname):
    """declared order of the listed data members (C++ initialises bases first, then members in DECLARED order)"""
    cs = class_scope(ctext)
    pos = {}
    for n in names:
        hits = [m.start() for m in re.finditer(r'(?<![\w.>])%s\s*(?:\[[^\]]*\])?\s*(?:=[^;()]*)?;' % n, cs)]
        if len(hits) != 1:
            raise ExtractionBreak('%s: member %s declared %d times' % (cname, n, len(hits)))
        pos[n] = hits[0]
    return sorted(names, key=lambda n: pos[n])


def nsdmi(ctext, names):
    """default member initialisers `name{expr};` of the class"""
    out = {}
    for n in names:
        m = re.search(r'(?<![\w.>])%s\s*\{([^{}]*)\}\s*;' % n, ctext) or re.search(r'(?<![\w.>])%s\s*=\s*([^;{}()]*);' % n, class_scope(ctext))
        if m:
            out[n] = m.group(1).strip()
    return out


def slice_ctor(rel, sig, within):
    """constructor slice: from the match of `sig` (a regex that covers the whole parameter list) to the close of the constructor BODY, skipping brace initialisers
    of the init list (cxx2c.slice_block(ctor=True) mis-counts parentheses when the signature regex includes the closing one)"""
    text = load(rel)
    mk = cxx2c.mask(text)
    w = re.search(within, mk)
    if not w:
        raise ExtractionBreak('%s: enclosing block %r not found' % (rel, within))
    lo = w.start()
    hi = cxx2c.match_close(mk, mk.find('{', w.end() - 1)) + 1
    hits = list(re.finditer(sig, mk[lo:hi]))
    if len(hits) != 1:
        raise ExtractionBreak('%s: constructor %r found %d times' % (rel, sig, len(hits)))
    st = lo + hits[0].start()
    c = cxx2c.match_close(mk, mk.find('(', st), '(', ')')
    j, depth = c + 1, 0
    while j < hi:
        ch = mk[j]
        if ch == '(':
            depth += 1
        elif ch == ')':
            depth -= 1
        elif ch == ';' and depth == 0:
            break
        elif ch == '{' and depth == 0:
            k = j - 1
            while mk[k].isspace():
                k -= 1
            if mk[k] in ')}':
                e = cxx2c.match_close(mk, j)
                return cxx2c.Slice(rel, st, e + 1, cxx2c.strip_comments(text[st:e + 1]), cxx2c.line_of(text, st))
            j = cxx2c.match_close(mk, j)
        j += 1
    raise ExtractionBreak('%s: constructor %r has no body' % (rel, sig))


def ctor_c(rw, sl, csig, order, bases=(), defaults=None, cname=''):
    """constructor slice -> `void csig { INIT_<m>_<argc>(self, args); ... body }`; init items in base-then-declared order;
    members that the list does not mention take their default member initialiser (if the class text has one)"""
    text = sl.text
    mk = cxx2c.mask(text)
    o = mk.find('(')
    c = cxx2c.match_close(mk, o, '(', ')')
    # body = first '{' at depth 0 that follows ')' '}' or whitespace-only after an init item
    j, depth, b = c + 1, 0, None
    while j < len(mk):
        ch = mk[j]
        if ch == '(':
            depth += 1
        elif ch == ')':
            depth -= 1
        elif ch == '{' and depth == 0:
            k = j - 1
            while mk[k].isspace():
                k -= 1
            if mk[k] in ')}':
                b = j
                break
            j = cxx2c.match_close(mk, j)
        j += 1
    if b is None:
        raise ExtractionBreak('%s: constructor body not found' % cname)
    between = text[c + 1:b]
    items = []
    if between.strip():
        if not between.strip().startswith(':'):
            raise ExtractionBreak('%s: unexpected text after the constructor parameter list: %r' % (cname, between.strip()[:60]))
        for it in targs(between.strip()[1:]):
            im = re.match(r'(?s)\s*(\w+)\s*[\(\{](.*)[\)\}]\s*$', it)
            if not im:
                raise ExtractionBreak('%s: cannot parse init-list item %r' % (cname, it))
            items.append((im.group(1), [a for a in targs(im.group(2)) if a != '']))
    names = [n for n, _ in items]
    for n in names:
        if n not in order and n not in bases:
            raise ExtractionBreak('%s: init-list names %s, which is neither a harvested member nor a base' % (cname, n))
    for n, ex in (defaults or {}).items():
        if n not in names:
            items.append((n, [ex]))
    seq = list(bases) + list(order)
    items.sort(key=lambda x: seq.index(x[0]))
    init = ''.join('    INIT_%s_%d(self%s);\n' % (n, len(a), ''.join(', ' + x for x in a)) for n, a in items)
    rw.fired['ctor-init-list -> INIT_<member>_<argc>() in base-then-declared order'] = rw.fired.get('ctor-init-list -> INIT_<member>_<argc>() in base-then-declared order', 0) + len(items)
    return 'void %s {\n%s%s' % (csig, init, text[b + 1:])


def refs(rw, t, names, minc=0):
    """reference parameters became pointers: every use `p` -> `(*p)`"""
    b = cxx2c.mask(t).find('{')          # the (already C) signature is left alone
    head, t = t[:b], t[b:]
    for n in names:
        t = rw.sub(t, r'(?<![\w.>])%s\b(?!\s*\()' % n, '(*%s)' % n, minc, name='ref-param %s -> (*%s)' % (n, n))
    return head + t


def body_of(t):
    """function text from its first '{' (signature is replaced by the caller)"""
    return t[cxx2c.mask(t).find('{'):]


def common_calls(rw, t):
    t = rw.sub(t, r'small_object_allocator alloc\{\};', 'small_object_allocator alloc; ALLOCATOR_INIT(alloc);', 0, name='value-initialised allocator')
    t = rw.sub(t, r'\(\*this\)', '(*self)', 0, name='*this')
    t = rw.sub(t, r'\*this\b', '(*self)', 0, name='*this')
    t = rw.sub(t, r'\bthis\b', 'self', 0, name='this')
    t = rw.sub(t, r'\bsplit\(\)', 'SPLIT_TAG', 0, name='split() tag object')
    t = rw.sub(t, r'\bdetail::SPLIT_TAG', 'SPLIT_TAG', 0, name='ns-strip')
    return t


REDUCE_MEMBERS = ['my_range', 'my_body', 'my_parent', 'my_partition', 'my_allocator', 'is_right_child']
DET_MEMBERS = ['my_range', 'my_body', 'my_parent', 'my_partition', 'my_allocator']


def extract_nodes(ctx, sliced, rw):
    """partitioner.h node / tree_node constructors"""
    out = []
    ncls = slice_block(PT, r'struct node \{')
    order = member_order(ncls.text, ['my_parent', 'm_ref_count'], 'node')
    s = slice_ctor(PT, r'node\(node\* parent, int ref_count\) :', r'struct node \{')
    sliced.append('%s:%d node::node(parent, ref_count)' % (PT, s.line))
    t = ctor_c(rw, s, 'node_ctor(struct node* self, struct node* parent, int ref_count)', order, cname='node')
    t = rw.asserts(t, 0)
    out.append(t)
    tcls = slice_block(PT, r'struct tree_node : public node \{')
    order = member_order(tcls.text, ['m_allocator', 'm_child_stolen'], 'tree_node')
    s = slice_ctor(PT, r'tree_node\(node\* parent, int ref_count, small_object_allocator& alloc\)', r'struct tree_node : public node \{')
    sliced.append('%s:%d tree_node::tree_node(parent, ref_count, alloc)' % (PT, s.line))
    t = ctor_c(rw, s, 'tree_node_ctor(struct node* self, struct node* parent, int ref_count, small_object_allocator* alloc)', order, bases=['node'],
               defaults=nsdmi(tcls.text, ['m_child_stolen']), cname='tree_node')
    t = refs(rw, t, ['alloc'])
    out.append(t)
    wcls = slice_block(PT, r'struct wait_node : node \{')
    order = member_order(wcls.text, ['m_wait'], 'wait_node')
    s = slice_ctor(PT, r'wait_node\(\)', r'struct wait_node : node \{')
    sliced.append('%s:%d wait_node::wait_node()' % (PT, s.line))
    out.append(ctor_c(rw, s, 'wait_node_ctor(struct node* self)', order, bases=['node'], defaults=nsdmi(wcls.text, ['m_wait']), cname='wait_node'))
    return '\n'.join(out) + '\n'


def join_rules(rw, t):
    """X.join(Y) / P->join(Y) on body objects -> Body_join(&X, &Y): reference argument -> pointer; orientation is kept as written"""
    t = rw.sub(t, r'\bzombie_space\.begin\(\)', 'ZOMBIE_BEGIN(self)', 0, name='aligned_space::begin() -> ZOMBIE_BEGIN(self)')
    t = rw.sub(t, r'(?<![\w.>])left_body\b', '(*self->left_body)', 0, name='reference member left_body -> (*self->left_body)')
    t = rw.sub(t, r'(?<![\w.>])right_body\b', '(self->right_body)', 0, name='field')
    t = rw.sub(t, r'(?<![\w.>])has_right_zombie\b', 'self->has_right_zombie', 0, name='field')
    lv = r'(\(\*self->left_body\)|\(self->right_body\)|\*ZOMBIE_BEGIN\(self\)|\(\*ZOMBIE_BEGIN\(self\)\))'
    t = rw.sub(t, lv + r'\.join\(\s*' + lv + r'\s*\)', r'Body_join(&(\1), &(\2))', 0, name='lvalue.join(lvalue) -> Body_join(&dst, &src)')
    t = rw.sub(t, r'ZOMBIE_BEGIN\(self\)->join\(\s*' + lv + r'\s*\)', r'Body_join(ZOMBIE_BEGIN(self), &(\1))', 0, name='ptr->join(lvalue) -> Body_join(dst, &src)')
    t = rw.sub(t, r'\bcontext->is_group_execution_cancelled\(\)', 'STUB_is_cancelled(context)', 0, name='callee stub (context query)')
    return t


def extract_reduce(ctx, sliced, fired):
    """parallel_reduce.h: reduction_tree_node, start_reduce (constructors, run, offer_work_impl, execute, finalize, cancel)"""
    rw = Rewriter('start_reduce')
    out = [extract_nodes(ctx, sliced, rw)]
    RN = r'struct reduction_tree_node : public tree_node \{'
    rcls = slice_block(PR, RN)
    order = member_order(rcls.text, ['zombie_space', 'left_body', 'has_right_zombie'], 'reduction_tree_node')
    s = slice_ctor(PR, r'reduction_tree_node\(node\* parent, int ref_count, Body& input_left_body, small_object_allocator& alloc\)', RN)
    sliced.append('%s:%d reduction_tree_node::reduction_tree_node' % (PR, s.line))
    t = ctor_c(rw, s, 'reduction_tree_node_ctor(struct node* self, struct node* parent, int ref_count, Body* input_left_body, small_object_allocator* alloc)', order, bases=['tree_node'],
               defaults=nsdmi(rcls.text, ['has_right_zombie']), cname='reduction_tree_node')
    t = refs(rw, t, ['input_left_body', 'alloc'])
    out.append(t)
    s = slice_block(PR, r'void join\(task_group_context\* context\)', within=RN)
    sliced.append('%s:%d reduction_tree_node::join' % (PR, s.line))
    t = 'void reduction_tree_node_join(struct node* self, task_group_context* context) ' + body_of(s.text)
    t = join_rules(rw, t)
    out.append(t)
    # ---- start_reduce
    SR = r'struct start_reduce : public task \{'
    scls = slice_block(PR, SR)
    order = member_order(scls.text, REDUCE_MEMBERS, 'start_reduce')

    def fields(t):
        return rw.fields(t, REDUCE_MEMBERS, 0)
    s = slice_ctor(PR, r'start_reduce\( const Range& range, Body& body, Partitioner& partitioner, small_object_allocator& alloc \)', SR)
    sliced.append('%s:%d start_reduce root constructor' % (PR, s.line))
    t = ctor_c(rw, s, 'start_reduce_ctor_root(struct start_reduce* self, const Range* range, Body* body, Partitioner* partitioner, small_object_allocator* alloc)', order, cname='start_reduce')
    t = refs(rw, t, ['range', 'body', 'partitioner', 'alloc'])
    out.append(t)
    s = slice_ctor(PR, r'start_reduce\( start_reduce& parent_, typename Partitioner::split_type& split_obj, small_object_allocator& alloc \)', SR)
    sliced.append('%s:%d start_reduce splitting constructor' % (PR, s.line))
    t = ctor_c(rw, s, 'start_reduce_ctor_split(struct start_reduce* self, struct start_reduce* parent_, split_type* split_obj, small_object_allocator* alloc)', order, cname='start_reduce')
    t = rw.sub(t, r'get_range_split_object<Range>\(', 'STUB_get_range_split_object(', 0, name='callee stub')
    t = common_calls(rw, t)
    t = refs(rw, t, ['parent_', 'split_obj', 'alloc'])
    out.append(t)
    s = slice_ctor(PR, r'start_reduce\( start_reduce& parent_, const Range& r, depth_t d, small_object_allocator& alloc \)', SR)
    sliced.append('%s:%d start_reduce demand constructor' % (PR, s.line))
    t = ctor_c(rw, s, 'start_reduce_ctor_demand(struct start_reduce* self, struct start_reduce* parent_, const Range* r, depth_t d, small_object_allocator* alloc)', order, cname='start_reduce')
    t = common_calls(rw, t)
    t = rw.sub(t, r'(?<![\w.>])my_partition\.align_depth\(\s*d\s*\);', 'Partition_align_depth(&self->my_partition, d);', 0, name='member-object method')
    t = refs(rw, t, ['parent_', 'r', 'alloc'])
    out.append(t)
    # run (4 arguments), run (3 arguments)
    s = slice_block(PR, r'static void run\(const Range& range, Body& body, Partitioner& partitioner, task_group_context& context\)', within=SR)
    sliced.append('%s:%d start_reduce::run(range, body, partitioner, context)' % (PR, s.line))
    t = 'void start_reduce_run4(const Range* range, Body* body, Partitioner* partitioner, task_group_context* context) ' + body_of(s.text)
    t = rw.sub(t, r'\brange\.empty\(\)', 'Range_empty(range)', 0, name='Range::empty()')
    t = rw.sub(t, r'wait_node wn;', 'wait_node wn; WAIT_NODE_CTOR(wn);', 0, name='default-constructed wait_node')
    t = common_calls(rw, t)
    t = rw.sub(t, r'auto reduce_task = alloc\.new_object<start_reduce>\(range, body, partitioner, alloc\);', 'struct start_reduce* reduce_task = NEW_start_reduce_root(alloc, range, body, partitioner, alloc);', 0,
               name='alloc.new_object<T>(args) -> NEW_T(alloc, args): allocate, then the sliced constructor')
    t = rw.sub(t, r'execute_and_wait\(\*reduce_task, context, wn\.m_wait, context\);', 'EXECUTE_AND_WAIT(*reduce_task, context, wn.m_wait, context);', 0, name='callee stub (r1::execute_and_wait)')
    t = rw.sub(t, r'execute_and_wait\(([^;]*)\);', r'EXECUTE_AND_WAIT(\1);', 0, name='callee stub (r1::execute_and_wait)')
    t = refs(rw, t, ['range', 'body', 'partitioner', 'context'])
    out.append(t)
    s = slice_block(PR, r'static void run\(const Range& range, Body& body, Partitioner& partitioner\)', within=SR)
    sliced.append('%s:%d start_reduce::run(range, body, partitioner)' % (PR, s.line))
    t = 'void start_reduce_run3(const Range* range, Body* body, Partitioner* partitioner) ' + body_of(s.text)
    t = rw.sub(t, r'task_group_context context\(PARALLEL_REDUCE\);', 'task_group_context context; CONTEXT_CTOR(context, PARALLEL_REDUCE);', 0, name='local context object + constructor')
    t = rw.sub(t, r'(?<![\w.>])run\(range, body, partitioner, context\);', 'RUN4(range, body, partitioner, context);', 0, name='static member call')
    t = refs(rw, t, ['range', 'body', 'partitioner'])
    out.append(t)
    # offer_work_impl: the two instantiations of the parameter pack
    if not re.search(r'void offer_work\(typename Partitioner::split_type& split_obj, execution_data& ed\) \{\s*offer_work_impl\(ed, \*this, split_obj\);', scls.text) or \
       not re.search(r'void offer_work\(const Range& r, depth_t d, execution_data& ed\) \{\s*offer_work_impl\(ed, \*this, r, d\);', scls.text):
        raise ExtractionBreak('start_reduce::offer_work no longer forwards (ed, *this, split_obj) / (ed, *this, r, d) to offer_work_impl')
    s = slice_block(PR, r'void offer_work_impl\(execution_data& ed, Args&&\.\.\. args\)', within=SR)
    sliced.append('%s:%d start_reduce::offer_work_impl<Args...> (instantiated for (start_reduce&, split_type&) and (start_reduce&, const Range&, depth_t))' % (PR, s.line))
    for suffix, cparams, pack, newer in (('split', 'struct start_reduce* a0, split_type* a1', '(*a0), (*a1)', 'NEW_start_reduce_split'),
                                          ('demand', 'struct start_reduce* a0, const Range* a1, depth_t a2', '(*a0), (*a1), a2', 'NEW_start_reduce_demand')):
        t = 'void start_reduce_offer_work_impl_%s(struct start_reduce* self, execution_data* ed, %s) ' % (suffix, cparams) + body_of(s.text)
        t = common_calls(rw, t)
        t = rw.sub(t, r'auto right_child = alloc\.new_object<start_reduce>\(ed, std::forward<Args>\(args\)\.\.\., alloc\);', 'struct start_reduce* right_child = %s(alloc, ed, %s, alloc);' % (newer, pack), 0,
                   name='alloc.new_object<start_reduce>(ed, pack..., alloc) -> NEW_start_reduce_<ctor>(alloc, ed, pack, alloc)')
        t = rw.sub(t, r'alloc\.new_object<tree_node_type>\(ed, my_parent, 2, \*my_body, alloc\)', 'NEW_tree_node(alloc, ed, my_parent, 2, *my_body, alloc)', 0, name='alloc.new_object<tree_node_type>(ed, args) -> NEW_tree_node(alloc, ed, args)')
        t = rw.sub(t, r'alloc\.new_object<tree_node_type>\(ed, ([^;]*)\);', r'NEW_tree_node(alloc, ed, \1);', 0, name='alloc.new_object<tree_node_type>(ed, args) -> NEW_tree_node(alloc, ed, args)')
        t = rw.sub(t, r'right_child->spawn_self\(ed\);', 'start_reduce_spawn_self(right_child, ed);', 0, name='method call')
        t = fields(t)
        out.append(t)
    s = slice_block(PR, r'void spawn_self\(execution_data& ed\)', within=SR)
    sliced.append('%s:%d start_reduce::spawn_self' % (PR, s.line))
    t = 'void start_reduce_spawn_self(struct start_reduce* self, execution_data* ed) ' + body_of(s.text)
    t = common_calls(rw, t)
    t = rw.sub(t, r'(?<![\w.>])my_partition\.spawn_task\(\(\*self\), \*context\(ed\)\);', 'Partition_spawn_task(&self->my_partition, self, STUB_context(ed));', 0, name='member-object method + task context accessor')
    out.insert(len(out) - 2, 'void start_reduce_spawn_self(struct start_reduce* self, execution_data* ed);')
    out.append(t)
    # finalize / execute / cancel (defined out of class)
    s = slice_block(PR, r'void start_reduce<Range, Body, Partitioner>::finalize\(const execution_data& ed\)')
    sliced.append('%s:%d start_reduce::finalize' % (PR, s.line))
    t = 'void start_reduce_finalize(struct start_reduce* self, const execution_data* ed) ' + body_of(s.text)
    t = rw.sub(t, r'auto allocator = my_allocator;', 'small_object_allocator allocator = my_allocator;', 0, name='auto')
    t = rw.sub(t, r'this->~start_reduce\(\);', 'STUB_task_dtor(self);', 0, name='explicit destructor call -> stub (poisons the task)')
    t = rw.sub(t, r'fold_tree<tree_node_type>\(parent, ed\);', 'STUB_fold_tree(parent, ed);', 0, name='callee stub (proved separately: job reduce.fold_tree)')
    t = rw.sub(t, r'fold_tree<tree_node_type>\(([^;]*)\);', r'STUB_fold_tree(\1);', 0, name='callee stub (proved separately: job reduce.fold_tree)')
    t = rw.sub(t, r'allocator\.deallocate\(this, ed\);', 'STUB_deallocate(&allocator, self, ed);', 0, name='callee stub')
    t = common_calls(rw, t)
    t = fields(t)
    t = rw.std(t)
    out.append(t)
    s = slice_block(PR, r'task\* start_reduce<Range,Body,Partitioner>::execute\(execution_data& ed\)')
    sliced.append('%s:%d start_reduce::execute' % (PR, s.line))
    t = 'task* start_reduce_execute(struct start_reduce* self, execution_data* ed) ' + body_of(s.text)
    t = rw.sub(t, r'is_same_affinity\(ed\)', 'STUB_is_same_affinity(ed)', 0, name='callee stub')
    t = rw.sub(t, r'(?<![\w.>])my_partition\.note_affinity\(execution_slot\(ed\)\);', 'Partition_note_affinity(&self->my_partition, STUB_execution_slot(ed));', 0, name='member-object method')
    t = rw.sub(t, r'(?<![\w.>])my_partition\.check_being_stolen\(\*this, ed\);', 'Partition_check_being_stolen(&self->my_partition, self, ed);', 0, name='member-object method')
    t = rw.sub(t, r'(?<![\w.>])my_partition\.execute\(\*this, my_range, ed\);', 'Partition_execute(&self->my_partition, self, &self->my_range, ed);', 0, name='member-object method (stub: the partitioner runs run_body / offer_work on this task)')
    t = rw.atomics(t, ['m_ref_count'], 0)
    t = rw.sub(t, r'new\(\s*parent_ptr->zombie_space\.begin\(\)\s*\)\s*Body\(\*my_body, split\(\)\)', 'Body_split_ctor(ZOMBIE_BEGIN(parent_ptr), &(*my_body))', 0,
               name='placement-new of Body(*my_body, split()) into the zombie space -> Body_split_ctor(place, &source)')
    t = rw.sub(t, r'new\(\s*([^()]*(?:\([^()]*\))?[^()]*)\)\s*Body\(([^;]*), split\(\)\)', r'Body_split_ctor(\1, &(\2))', 0, name='placement-new of Body(x, split()) -> Body_split_ctor(place, &source)')
    t = rw.sub(t, r'\bzombie_space\.begin\(\)', 'ZOMBIE_BEGIN(parent_ptr)', 0, name='aligned_space::begin()')
    t = rw.sub(t, r'parent_ptr->ZOMBIE_BEGIN\(parent_ptr\)', 'ZOMBIE_BEGIN(parent_ptr)', 0, name='aligned_space::begin()')
    t = rw.sub(t, r'(?<![\w.>])finalize\(ed\);', 'start_reduce_finalize(self, ed);', 0, name='method')
    t = common_calls(rw, t)
    t = fields(t)
    t = rw.casts(t, 0)
    t = rw.asserts(t, 0)
    t = rw.std(t)
    t = rw.number_sites(t, 'exec', by_kind=True)
    out.append(t)
    s = slice_block(PR, r'task\* start_reduce<Range, Body, Partitioner>::cancel\(execution_data& ed\)')
    sliced.append('%s:%d start_reduce::cancel' % (PR, s.line))
    t = 'task* start_reduce_cancel(struct start_reduce* self, execution_data* ed) ' + body_of(s.text)
    t = rw.sub(t, r'(?<![\w.>])finalize\(ed\);', 'start_reduce_finalize(self, ed);', 0, name='method')
    t = rw.std(t)
    out.append(t)
    common.write(ctx, 'reduce.inc', rw.std('\n'.join(out)) + '\n')
    fired['start_reduce'] = rw.fired


def sched_reads(rw, t):
    """any read of a reference count or stolen flag (whatever object expression it hangs on) is marked: value + SCHEDULE_DEPENDENT(0)"""
    return rw.sub(t, r'\b(m_ref_count|m_child_stolen)\.load\([^()]*\)', r'\1 + SCHEDULE_DEPENDENT(0)', 0, name='read of schedule-dependent state -> marked')


def extract_detred(ctx, sliced, fired):
    """parallel_reduce.h: deterministic_reduction_tree_node, start_deterministic_reduce (constructors, run, offer_work_impl, execute, finalize, cancel)"""
    rw = Rewriter('start_deterministic_reduce')
    out = [extract_nodes(ctx, [], rw)]
    DN = r'struct deterministic_reduction_tree_node : public tree_node \{'
    dcls = slice_block(PR, DN)
    order = member_order(dcls.text, ['right_body', 'left_body'], 'deterministic_reduction_tree_node')
    s = slice_ctor(PR, r'deterministic_reduction_tree_node\(node\* parent, int ref_count, Body& input_left_body, small_object_allocator& alloc\)', DN)
    sliced.append('%s:%d deterministic_reduction_tree_node constructor' % (PR, s.line))
    t = ctor_c(rw, s, 'deterministic_reduction_tree_node_ctor(struct node* self, struct node* parent, int ref_count, Body* input_left_body, small_object_allocator* alloc)', order, bases=['tree_node'], cname='deterministic_reduction_tree_node')
    t = common_calls(rw, t)
    t = refs(rw, t, ['input_left_body', 'alloc'])
    t = rw.sub(t, r'(?<![\w.>])right_body\b', 'self->right_body', 0, name='field')
    t = rw.sub(t, r'(?<![\w.>])left_body\b', '(*self->left_body)', 0, name='reference member left_body -> (*self->left_body)')
    out.append(t)
    s = slice_block(PR, r'void join\(task_group_context\* context\)', within=DN)
    sliced.append('%s:%d deterministic_reduction_tree_node::join' % (PR, s.line))
    t = 'void deterministic_reduction_tree_node_join(struct node* self, task_group_context* context) ' + body_of(s.text)
    t = join_rules(rw, t)
    out.append(t)
    SD = r'struct start_deterministic_reduce : public task \{'
    scls = slice_block(PR, SD)
    order = member_order(scls.text, DET_MEMBERS, 'start_deterministic_reduce')

    def fields(t):
        t = rw.sub(t, r'(?<![\w.>])my_body\b', '(*self->my_body)', 0, name='reference member my_body -> (*self->my_body)')
        return rw.fields(t, [m for m in DET_MEMBERS if m != 'my_body'], 0)
    s = slice_ctor(PR, r'start_deterministic_reduce\( const Range& range, Partitioner& partitioner, Body& body, small_object_allocator& alloc \)', SD)
    sliced.append('%s:%d start_deterministic_reduce root constructor' % (PR, s.line))
    t = ctor_c(rw, s, 'start_deterministic_reduce_ctor_root(struct start_deterministic_reduce* self, const Range* range, Partitioner* partitioner, Body* body, small_object_allocator* alloc)', order, cname='start_deterministic_reduce')
    t = refs(rw, t, ['range', 'body', 'partitioner', 'alloc'])
    out.append(t)
    s = slice_ctor(PR, r'start_deterministic_reduce\( start_deterministic_reduce& parent_, typename Partitioner::split_type& split_obj, Body& body,\s*small_object_allocator& alloc \)', SD)
    sliced.append('%s:%d start_deterministic_reduce splitting constructor' % (PR, s.line))
    t = ctor_c(rw, s, 'start_deterministic_reduce_ctor_split(struct start_deterministic_reduce* self, struct start_deterministic_reduce* parent_, split_type* split_obj, Body* body, small_object_allocator* alloc)', order, cname='start_deterministic_reduce')
    t = rw.sub(t, r'get_range_split_object<Range>\(', 'STUB_get_range_split_object(', 0, name='callee stub')
    t = common_calls(rw, t)
    t = refs(rw, t, ['parent_', 'split_obj', 'body', 'alloc'])
    out.append(t)
    s = slice_block(PR, r'static void run\(const Range& range, Body& body, Partitioner& partitioner, task_group_context& context\)', within=SD)
    sliced.append('%s:%d start_deterministic_reduce::run(range, body, partitioner, context)' % (PR, s.line))
    t = 'void start_deterministic_reduce_run4(const Range* range, Body* body, Partitioner* partitioner, task_group_context* context) ' + body_of(s.text)
    t = rw.sub(t, r'\brange\.empty\(\)', 'Range_empty(range)', 0, name='Range::empty()')
    t = rw.sub(t, r'wait_node wn;', 'wait_node wn; WAIT_NODE_CTOR(wn);', 0, name='default-constructed wait_node')
    t = common_calls(rw, t)
    t = rw.sub(t, r'auto deterministic_reduce_task =\s*alloc\.new_object<start_deterministic_reduce>\(range, partitioner, body, alloc\);',
               'struct start_deterministic_reduce* deterministic_reduce_task = NEW_start_deterministic_reduce_root(alloc, range, partitioner, body, alloc);', 0, name='alloc.new_object<T>(args) -> NEW_T(alloc, args): allocate, then the sliced constructor')
    t = rw.sub(t, r'execute_and_wait\(([^;]*)\);', r'EXECUTE_AND_WAIT(\1);', 0, name='callee stub (r1::execute_and_wait)')
    t = refs(rw, t, ['range', 'body', 'partitioner', 'context'])
    out.append(t)
    s = slice_block(PR, r'static void run\(const Range& range, Body& body, Partitioner& partitioner\)', within=SD)
    sliced.append('%s:%d start_deterministic_reduce::run(range, body, partitioner)' % (PR, s.line))
    t = 'void start_deterministic_reduce_run3(const Range* range, Body* body, Partitioner* partitioner) ' + body_of(s.text)
    t = rw.sub(t, r'task_group_context context\(PARALLEL_REDUCE\);', 'task_group_context context; CONTEXT_CTOR(context, PARALLEL_REDUCE);', 0, name='local context object + constructor')
    t = rw.sub(t, r'(?<![\w.>])run\(range, body, partitioner, context\);', 'RUN4(range, body, partitioner, context);', 0, name='static member call')
    t = refs(rw, t, ['range', 'body', 'partitioner'])
    out.append(t)
    if not re.search(r'void offer_work\(typename Partitioner::split_type& split_obj, execution_data& ed\) \{\s*offer_work_impl\(ed, \*this, split_obj\);', scls.text):
        raise ExtractionBreak('start_deterministic_reduce::offer_work no longer forwards (ed, *this, split_obj) to offer_work_impl')
    s = slice_block(PR, r'void offer_work_impl\(execution_data& ed, Args&&\.\.\. args\)', within=SD)
    sliced.append('%s:%d start_deterministic_reduce::offer_work_impl<Args...> (instantiated for (start_deterministic_reduce&, split_type&))' % (PR, s.line))
    t = 'void start_deterministic_reduce_offer_work_impl(struct start_deterministic_reduce* self, execution_data* ed, struct start_deterministic_reduce* a0, split_type* a1) ' + body_of(s.text)
    t = common_calls(rw, t)
    t = rw.sub(t, r'auto new_tree_node = alloc\.new_object<tree_node_type>\(ed, ([^;]*)\);', r'tree_node_type* new_tree_node = NEW_det_tree_node(alloc, ed, \1);', 0, name='alloc.new_object<tree_node_type>(ed, args) -> NEW_det_tree_node(alloc, ed, args)')
    t = rw.sub(t, r'auto right_child = alloc\.new_object<start_deterministic_reduce>\(ed, std::forward<Args>\(args\)\.\.\., ([^;]*)\);',
               r'struct start_deterministic_reduce* right_child = NEW_start_deterministic_reduce_split(alloc, ed, (*a0), (*a1), \1);', 0, name='alloc.new_object<start_deterministic_reduce>(ed, pack..., args) -> NEW_start_deterministic_reduce_split(alloc, ed, pack, args)')
    t = rw.sub(t, r'right_child->spawn_self\(ed\);', 'start_deterministic_reduce_spawn_self(right_child, ed);', 0, name='method call')
    t = sched_reads(rw, t)
    t = fields(t)
    out.append('void start_deterministic_reduce_spawn_self(struct start_deterministic_reduce* self, execution_data* ed);')
    out.append(t)
    s = slice_block(PR, r'void spawn_self\(execution_data& ed\)', within=SD)
    sliced.append('%s:%d start_deterministic_reduce::spawn_self' % (PR, s.line))
    t = 'void start_deterministic_reduce_spawn_self(struct start_deterministic_reduce* self, execution_data* ed) ' + body_of(s.text)
    t = common_calls(rw, t)
    t = rw.sub(t, r'(?<![\w.>])my_partition\.spawn_task\(\(\*self\), \*context\(ed\)\);', 'Partition_spawn_task(&self->my_partition, self, STUB_context(ed));', 0, name='member-object method + task context accessor')
    out.append(t)
    s = slice_block(PR, r'void start_deterministic_reduce<Range, Body, Partitioner>::finalize\(const execution_data& ed\)')
    sliced.append('%s:%d start_deterministic_reduce::finalize' % (PR, s.line))
    t = 'void start_deterministic_reduce_finalize(struct start_deterministic_reduce* self, const execution_data* ed) ' + body_of(s.text)
    t = rw.sub(t, r'auto allocator = my_allocator;', 'small_object_allocator allocator = my_allocator;', 0, name='auto')
    t = rw.sub(t, r'this->~start_deterministic_reduce\(\);', 'STUB_task_dtor(self);', 0, name='explicit destructor call -> stub (poisons the task)')
    t = rw.sub(t, r'fold_tree<tree_node_type>\(([^;]*)\);', r'STUB_fold_tree(\1);', 0, name='callee stub (proved separately: job reduce.fold_tree)')
    t = rw.sub(t, r'allocator\.deallocate\(this, ed\);', 'STUB_deallocate(&allocator, self, ed);', 0, name='callee stub')
    t = common_calls(rw, t)
    t = fields(t)
    out.append(t)
    s = slice_block(PR, r'task\* start_deterministic_reduce<Range,Body,Partitioner>::execute\(execution_data& ed\)')
    sliced.append('%s:%d start_deterministic_reduce::execute' % (PR, s.line))
    t = 'task* start_deterministic_reduce_execute(struct start_deterministic_reduce* self, execution_data* ed) ' + body_of(s.text)
    t = rw.sub(t, r'is_same_affinity\(ed\)', 'STUB_is_same_affinity(ed)', 0, name='callee stub')
    t = rw.sub(t, r'(?<![\w.>])my_partition\.note_affinity\(execution_slot\(ed\)\);', 'Partition_note_affinity(&self->my_partition, STUB_execution_slot(ed));', 0, name='member-object method')
    t = rw.sub(t, r'(?<![\w.>])my_partition\.check_being_stolen\(\*this, ed\);', 'Partition_check_being_stolen(&self->my_partition, self, ed);', 0, name='member-object method')
    t = rw.sub(t, r'(?<![\w.>])my_partition\.execute\(\*this, my_range, ed\);', 'Partition_execute(&self->my_partition, self, &self->my_range, ed);', 0, name='member-object method (stub: the partitioner runs run_body / offer_work on this task)')
    t = sched_reads(rw, t)
    t = rw.sub(t, r'(?<![\w.>])finalize\(ed\);', 'start_deterministic_reduce_finalize(self, ed);', 0, name='method')
    t = common_calls(rw, t)
    t = fields(t)
    t = rw.casts(t, 0)
    t = rw.asserts(t, 0)
    out.append(t)
    s = slice_block(PR, r'task\* start_deterministic_reduce<Range, Body, Partitioner>::cancel\(execution_data& ed\)')
    sliced.append('%s:%d start_deterministic_reduce::cancel' % (PR, s.line))
    t = 'task* start_deterministic_reduce_cancel(struct start_deterministic_reduce* self, execution_data* ed) ' + body_of(s.text)
    t = rw.sub(t, r'(?<![\w.>])finalize\(ed\);', 'start_deterministic_reduce_finalize(self, ed);', 0, name='method')
    out.append(t)
    common.write(ctx, 'detred.inc', rw.std('\n'.join(out)) + '\n')
    fired['start_deterministic_reduce'] = rw.fired


LAMBDA_MEMBERS = ['my_identity_element', 'my_real_body', 'my_reduction', 'my_value']


def extract_lambda(ctx, sliced, fired):
    """parallel_reduce.h: lambda_reduce_body (the adaptor behind the functional overloads): constructors, operator(), join"""
    rw = Rewriter('lambda_reduce_body')
    LB = r'class lambda_reduce_body \{'
    cls = slice_block(PR, LB)
    order = member_order(cls.text, LAMBDA_MEMBERS, 'lambda_reduce_body')
    out = []

    def fields(t):
        t = rw.sub(t, r'(?<![\w.>])(my_identity_element|my_real_body|my_reduction)\b', r'(*self->\1)', 0, name='reference member m -> (*self->m)')
        t = rw.sub(t, r'\b(other|rhs)\.(my_identity_element|my_real_body|my_reduction)\b', r'(*\1->\2)', 0, name='reference member of a reference parameter')
        t = rw.sub(t, r'\b(other|rhs)\.my_value\b', r'\1->my_value', 0, name='ref-param')
        t = rw.sub(t, r'(?<![\w.>])my_value\b', 'self->my_value', 0, name='field')
        t = rw.sub(t, r'tbb::detail::invoke\(', 'INVOKE(', 0, name='tbb::detail::invoke(f, a, b) -> INVOKE(f, a, b)')
        t = rw.sub(t, r'std::move\(', 'MOVE(', 0, name='std::move')
        return t
    s = slice_ctor(PR, r'lambda_reduce_body\( const Value& identity, const RealBody& body, const Reduction& reduction \)', LB)
    sliced.append('%s:%d lambda_reduce_body constructor' % (PR, s.line))
    t = ctor_c(rw, s, 'lambda_reduce_body_ctor(struct lambda_reduce_body* self, const Value* identity, const RealBody* body, const Reduction* reduction)', order, cname='lambda_reduce_body')
    t = refs(rw, t, ['identity', 'body', 'reduction'])
    out.append(t)
    s = slice_ctor(PR, r'lambda_reduce_body\( lambda_reduce_body& other, tbb::split \)', LB)
    sliced.append('%s:%d lambda_reduce_body splitting constructor' % (PR, s.line))
    t = ctor_c(rw, s, 'lambda_reduce_body_split_ctor(struct lambda_reduce_body* self, struct lambda_reduce_body* other)', order, cname='lambda_reduce_body')
    t = fields(t)
    out.append(t)
    s = slice_block(PR, r'void operator\(\)\(Range& range\)', within=LB)
    sliced.append('%s:%d lambda_reduce_body::operator()' % (PR, s.line))
    t = 'void lambda_reduce_body_call(struct lambda_reduce_body* self, Range* range) ' + body_of(s.text)
    t = fields(t)
    t = refs(rw, t, ['range'])
    out.append(t)
    s = slice_block(PR, r'void join\( lambda_reduce_body& rhs \)', within=LB)
    sliced.append('%s:%d lambda_reduce_body::join' % (PR, s.line))
    t = 'void lambda_reduce_body_join(struct lambda_reduce_body* self, struct lambda_reduce_body* rhs) ' + body_of(s.text)
    t = fields(t)
    out.append(t)
    common.write(ctx, 'lambda.inc', rw.std('\n'.join(out)) + '\n')
    fired['lambda_reduce_body'] = rw.fired


def extract_split_range(ctx, sliced, fired):
    """parallel_sort.h quick_sort_range: pseudo_median_of_nine, split_range, splitting constructor (median_of_three comes from sort.inc)"""
    rw = Rewriter('quick_sort_range')
    QR = r'class quick_sort_range \{'
    cls = slice_block(PS, QR)
    order = member_order(cls.text, ['comp', 'size', 'begin'], 'quick_sort_range')
    out = []

    def comps(t, minc):
        return rw.sub(t, r'\bcomp\(\s*([^,()]+(?:\[[^\]]*\])?)\s*,\s*([^,()]+(?:\[[^\]]*\])?)\s*\)', r'COMP_AT(&(\1), &(\2))', minc, name='comparator call on two lvalues -> COMP_AT(&a, &b) (stub: std::less<int>)')
    s = slice_block(PS, r'std::size_t median_of_three\( const RandomAccessIterator& array, std::size_t l, std::size_t m, std::size_t r \) const', within=QR)
    t = 'size_t median_of_three(RandomAccessIterator array, size_t l, size_t m, size_t r) ' + body_of(s.text)
    t = comps(t, 5)
    out.append(t)
    s = slice_block(PS, r'std::size_t pseudo_median_of_nine\( const RandomAccessIterator& array, const quick_sort_range& range \) const', within=QR)
    sliced.append('%s:%d quick_sort_range::pseudo_median_of_nine' % (PS, s.line))
    t = 'size_t pseudo_median_of_nine(RandomAccessIterator array, const struct quick_sort_range* range) ' + body_of(s.text)
    t = refs(rw, t, ['range'])
    out.append(t)
    s = slice_block(PS, r'std::size_t split_range\( quick_sort_range& range \)', within=QR)
    sliced.append('%s:%d quick_sort_range::split_range' % (PS, s.line))
    t = 'size_t split_range(struct quick_sort_range* self, struct quick_sort_range* range) ' + body_of(s.text)
    t = rw.sub(t, r'std::iter_swap\(', 'ITER_SWAP(', 0, name='std::iter_swap -> ITER_SWAP (stub: exchanges two elements, tracks the ghost element)')
    t = comps(t, 0)
    t = rw.sub(t, r'pseudo_median_of_nine\(array, range\)', 'pseudo_median_of_nine(array, &range)', 0, name='reference argument -> address')
    t = refs(rw, t, ['range'])
    t = rw.asserts(t, 0)
    t = tag_loops(t, 'split', rw)
    out.append(t)
    s = slice_ctor(PS, r'quick_sort_range\( quick_sort_range& range, split \)', QR)
    sliced.append('%s:%d quick_sort_range splitting constructor' % (PS, s.line))
    t = ctor_c(rw, s, 'quick_sort_range_split_ctor(struct quick_sort_range* self, struct quick_sort_range* range)', order, cname='quick_sort_range')
    t = rw.sub(t, r'(?<![\w.>])split_range\(range\)', 'split_range(self, &range)', 0, name='method + reference argument -> address')
    t = refs(rw, t, ['range'])
    out.append(t)
    common.write(ctx, 'split_range.inc', rw.std('\n'.join(out)) + '\n')
    fired['quick_sort_range'] = rw.fired


PSC = 'include/oneapi/tbb/parallel_scan.h'


def release_finalize(rw, cls_sig, cname, parent_t, sliced, out):
    """the release_parent()/finalize() pair that each of the four scan task classes has (same text, different types)"""
    s = slice_block(PSC, r'\w+\* release_parent\(\)', within=cls_sig)
    sliced.append('%s:%d %s::release_parent' % (PSC, s.line, cname))
    t = '%s* %s_release_parent(struct %s* self) ' % (parent_t, cname, cname) + body_of(s.text)
    t = rw.sub(t, r'call_itt_task_notify\(releasing, m_parent\);', 'RG_NOP();', 0, name='ITT notification -> RG_NOP')
    t = rw.sub(t, r'auto parent = m_parent;', '%s* parent = m_parent;' % parent_t, 0, name='auto')
    t = rw.atomics(t, ['ref_count'], 0)
    t = rw.sub(t, r'(?<![\w.>])m_wait_context\.release\(\);', 'WAIT_RELEASE((*self->m_wait_context));', 0, name='reference member + callee stub (wait_context::release)')
    t = rw.sub(t, r'(?<![\w.>])m_parent\b', 'self->m_parent', 0, name='field')
    t = rw.number_sites(t, 'rel', by_kind=True)
    out.append(t)
    s = slice_block(PSC, r'\w+\* finalize\(\s*const execution_data& ed\s*\)', within=cls_sig)
    sliced.append('%s:%d %s::finalize' % (PSC, s.line, cname))
    t = '%s* %s_finalize(struct %s* self, const execution_data* ed) ' % (parent_t, cname, cname) + body_of(s.text)
    t = rw.sub(t, r'\b\w+\* next_task = release_parent\(\);', '%s* next_task = %s_release_parent(self);' % (parent_t, cname), 0, name='method')
    t = rw.sub(t, r'(?<![\w.>])m_allocator\.delete_object<\w+>\(this, ed\);', 'DELETE_OBJECT(self->m_allocator, self, ed);', 0, name='callee stub (small_object_allocator::delete_object: destroys and frees this task)')
    out.append(t)


def extract_scan(ctx, sliced, fired):
    """parallel_scan.h: final_sum, sum_node, finish_scan, start_scan, lambda_scan_body"""
    rw = Rewriter('parallel_scan')
    out = []
    FS, SN, FN, SS = (r'struct final_sum : public task \{', r'struct sum_node : public task \{', r'struct finish_scan : public task \{', r'struct start_scan : public task \{')
    protos = ['struct final_sum; struct sum_node; struct finish_scan; struct start_scan;']
    # ------------------------------------------------------------------ final_sum
    fcls = slice_block(PSC, FS)
    FMEM = ['m_body', 'm_range', 'm_stuff_last', 'm_wait_context', 'm_parent', 'm_allocator']
    forder = member_order(fcls.text, FMEM, 'final_sum')
    fdef = nsdmi(fcls.text, ['m_parent'])

    def ffields(t):
        t = rw.sub(t, r'(?<![\w.>])m_range\.begin\(\)', '(&self->m_range)', 0, name='aligned_space<Range>::begin()')
        t = rw.sub(t, r'(?<![\w.>])m_wait_context\b', '(*self->m_wait_context)', 0, name='reference member')
        return rw.fields(t, ['m_body', 'm_range', 'm_stuff_last', 'm_parent', 'm_allocator'], 0)
    s = slice_ctor(PSC, r'final_sum\( Body& body, wait_context& w_o, small_object_allocator& alloc \)', FS)
    sliced.append('%s:%d final_sum(Body&, wait_context&, alloc)' % (PSC, s.line))
    t = ctor_c(rw, s, 'final_sum_ctor_body(struct final_sum* self, Body* body, wait_context* w_o, small_object_allocator* alloc)', forder, defaults=fdef, cname='final_sum')
    t = rw.sub(t, r'poison_pointer\(m_stuff_last\);', 'RG_NOP();', 0, name='poison_pointer (no-op in release builds) -> RG_NOP')
    t = common_calls(rw, t)
    t = refs(rw, t, ['body', 'w_o', 'alloc'])
    out.append(t)
    s = slice_ctor(PSC, r'final_sum\( final_sum& sum, small_object_allocator& alloc \)', FS)
    sliced.append('%s:%d final_sum(final_sum&, alloc)' % (PSC, s.line))
    t = ctor_c(rw, s, 'final_sum_ctor_split(struct final_sum* self, struct final_sum* sum, small_object_allocator* alloc)', forder, defaults=fdef, cname='final_sum')
    t = rw.sub(t, r'poison_pointer\(m_stuff_last\);', 'RG_NOP();', 0, name='poison_pointer (no-op in release builds) -> RG_NOP')
    t = rw.sub(t, r'\bsum\.m_wait_context\b', '(*sum->m_wait_context)', 0, name='reference member of a reference parameter')
    t = rw.sub(t, r'\bsum\.', 'sum->', 0, name='ref-param')
    t = common_calls(rw, t)
    t = refs(rw, t, ['alloc'])
    out.append(t)
    s = slice_block(PSC, r'void finish_construction\( sum_node_type\* parent, const Range& range, Body\* stuff_last \)', within=FS)
    sliced.append('%s:%d final_sum::finish_construction' % (PSC, s.line))
    t = 'void final_sum_finish_construction(struct final_sum* self, struct sum_node* parent, const Range* range, Body* stuff_last) ' + body_of(s.text)
    t = rw.sub(t, r'new\( m_range\.begin\(\) \) Range\(range\);', 'Range_copy_ctor(&self->m_range, range);', 0, name='placement-new copy of the range')
    t = ffields(t)
    t = rw.asserts(t, 0)
    out.append(t)
    release_finalize(rw, FS, 'final_sum', 'struct sum_node', sliced, out)
    s = slice_block(PSC, r'task\* execute\(execution_data& ed\) override', within=FS)
    sliced.append('%s:%d final_sum::execute' % (PSC, s.line))
    t = 'task* final_sum_execute(struct final_sum* self, execution_data* ed) ' + body_of(s.text)
    t = rw.sub(t, r'(?<![\w.>])m_body\( \*m_range\.begin\(\), (final|pre)_scan_tag\(\) \);', r'BODY_SCAN(self->m_body, *(&self->m_range), \1_scan_tag);', 0, name='body(range, tag()) -> BODY_SCAN(body, range, tag)')
    t = rw.sub(t, r'(?<![\w.>])m_stuff_last->assign\(m_body\);', 'Body_assign(self->m_stuff_last, &self->m_body);', 0, name='Body::assign')
    t = rw.sub(t, r'return finalize\(ed\);', 'return (task*)final_sum_finalize(self, ed);', 0, name='method')
    t = ffields(t)
    out.append(t)
    s = slice_block(PSC, r'task\* cancel\(execution_data& ed\) override', within=FS)
    t = 'task* final_sum_cancel(struct final_sum* self, execution_data* ed) ' + body_of(s.text)
    t = rw.sub(t, r'return finalize\(ed\);', 'return (task*)final_sum_finalize(self, ed);', 0, name='method')
    out.append(t)
    s = slice_block(PSC, r'void reverse_join\( final_sum& a \)', within=FS)
    sliced.append('%s:%d final_sum::reverse_join(final_sum&)' % (PSC, s.line))
    t = 'void final_sum_reverse_join(struct final_sum* self, struct final_sum* a) ' + body_of(s.text)
    t = rw.sub(t, r'(?<![\w.>])m_body\.reverse_join\(a\.m_body\);', 'Body_reverse_join(&self->m_body, &a->m_body);', 0, name='Body::reverse_join (this.reverse_join(a): a lies to the LEFT of this)')
    out.append(t)
    s = slice_block(PSC, r'void reverse_join\( Body& body \)', within=FS)
    t = 'void final_sum_reverse_join_body(struct final_sum* self, Body* body) ' + body_of(s.text)
    t = rw.sub(t, r'(?<![\w.>])m_body\.reverse_join\(body\);', 'Body_reverse_join(&self->m_body, body);', 0, name='Body::reverse_join')
    out.append(t)
    s = slice_block(PSC, r'void assign_to\( Body& body \)', within=FS)
    t = 'void final_sum_assign_to(struct final_sum* self, Body* body) ' + body_of(s.text)
    t = rw.sub(t, r'\bbody\.assign\(m_body\);', 'Body_assign(body, &self->m_body);', 0, name='Body::assign')
    out.append(t)
    s = slice_block(PSC, r'void operator\(\)\( const Range& r, Tag tag \)', within=FS)
    sliced.append('%s:%d final_sum::operator()' % (PSC, s.line))
    t = 'void final_sum_call(struct final_sum* self, const Range* r, int tag) ' + body_of(s.text)
    t = rw.sub(t, r'(?<![\w.>])m_body\( r, tag \);', 'BODY_SCAN(self->m_body, *r, tag);', 0, name='body(range, tag)')
    out.append(t)
    # ------------------------------------------------------------------ sum_node
    ncls = slice_block(PSC, SN)
    NMEM = ['m_incoming', 'm_body', 'm_stuff_last', 'm_left_sum', 'm_left', 'm_right', 'm_left_is_final', 'm_range', 'm_wait_context', 'm_parent', 'm_allocator', 'ref_count']
    norder = member_order(ncls.text, NMEM, 'sum_node')

    def nfields(t):
        t = rw.sub(t, r'(?<![\w.>])m_wait_context\b', '(*self->m_wait_context)', 0, name='reference member')
        return rw.fields(t, [m for m in NMEM if m != 'm_wait_context'], 0)
    s = slice_ctor(PSC, r'sum_node\( const Range range, bool left_is_final_, sum_node\* parent, wait_context& w_o, small_object_allocator& alloc \)', SN)
    sliced.append('%s:%d sum_node constructor' % (PSC, s.line))
    t = ctor_c(rw, s, 'sum_node_ctor(struct sum_node* self, const Range range, bool left_is_final_, struct sum_node* parent, wait_context* w_o, small_object_allocator* alloc)', norder, defaults=nsdmi(ncls.text, ['ref_count']), cname='sum_node')
    t = rw.sub(t, r'poison_pointer\(m_(?:body|incoming)\);', 'RG_NOP();', 0, name='poison_pointer (no-op in release builds) -> RG_NOP')
    t = rw.atomics(t, ['ref_count'], 0)
    t = refs(rw, t, ['w_o', 'alloc'])
    b = cxx2c.mask(t).find('{')
    t = t[:b] + rw.fields(t[b:], ['m_parent'], 0)
    out.append(t)
    release_finalize(rw, SN, 'sum_node', 'struct sum_node', sliced, out)
    s = slice_block(PSC, r'void prepare_for_execution\(final_sum_type& body, final_sum_type\* incoming, Body \*stuff_last\)', within=SN)
    sliced.append('%s:%d sum_node::prepare_for_execution' % (PSC, s.line))
    t = 'void sum_node_prepare_for_execution(struct sum_node* self, struct final_sum* body, struct final_sum* incoming, Body* stuff_last) ' + body_of(s.text)
    t = rw.sub(t, r'\bthis->', 'self->', 0, name='this->')
    t = refs(rw, t, ['body'])
    out.append(t)
    s = slice_block(PSC, r'task\* create_child\( const Range& range, final_sum_type& body, sum_node\* child, final_sum_type\* incoming, Body\* stuff_last \)', within=SN)
    sliced.append('%s:%d sum_node::create_child' % (PSC, s.line))
    t = 'task* sum_node_create_child(struct sum_node* self, const Range* range, struct final_sum* body, struct sum_node* child, struct final_sum* incoming, Body* stuff_last) ' + body_of(s.text)
    t = rw.sub(t, r'(?s)__TBB_ASSERT\( is_poisoned\(child->m_body\) && is_poisoned\(child->m_incoming\), nullptr \);', 'RG_NOP();', 0, name='poison check (debug only) -> RG_NOP')
    t = rw.sub(t, r'child->prepare_for_execution\(body, incoming, stuff_last\);', 'sum_node_prepare_for_execution(child, &body, incoming, stuff_last);', 0, name='method')
    t = rw.sub(t, r'\bbody\.finish_construction\(this, range, stuff_last\);', 'final_sum_finish_construction(&body, self, &range, stuff_last);', 0, name='method')
    t = rw.sub(t, r'return child;', 'return (task*)child;', 0, name='upcast')
    t = rw.sub(t, r'return &body;', 'return (task*)&body;', 0, name='upcast')
    t = refs(rw, t, ['range', 'body'])
    out.append(t)
    s = slice_block(PSC, r'task\* execute\(execution_data& ed\) override', within=SN)
    sliced.append('%s:%d sum_node::execute' % (PSC, s.line))
    t = 'task* sum_node_execute(struct sum_node* self, execution_data* ed) ' + body_of(s.text)
    t = rw.sub(t, r'(?<![\w.>])(m_\w+)->reverse_join\(\s*\*(m_\w+)\s*\);', r'final_sum_reverse_join(\1, &*\2);', 0, name='final_sum::reverse_join(final_sum&): method + reference argument')

    def cc(mm, a):
        if len(a) != 5:
            raise ExtractionBreak('sum_node::execute: create_child with %d arguments' % len(a))
        tm = re.fullmatch(r'Range\(\s*(\w+)\s*,\s*split\(\)\s*\)', a[0])
        a0 = 'RANGE_SPLIT_TEMP(%s)' % tm.group(1) if tm else '&(%s)' % a[0]
        return 'sum_node_create_child(self, %s, &(%s), %s, %s, %s)' % (a0, a[1], a[2], a[3], a[4])
    t = rw.call(t, r'\bthis->create_child', cc, 0, name='method create_child: reference arguments -> addresses, temporary Range(r, split()) -> RANGE_SPLIT_TEMP(r)')
    t = rw.sub(t, r'(?<![\w.>])ref_count = ([^;]*);', r'ATOMIC_STORE(ref_count, \1);', 0, name='atomic = (store)')
    t = rw.sub(t, r'spawn\(\*right_child, \*ed\.context\);', 'SPAWN(right_child, ed->context);', 0, name='callee stub (spawn)')
    t = rw.sub(t, r'return finalize\(ed\);', 'return (task*)sum_node_finalize(self, ed);', 0, name='method')
    t = nfields(t)
    t = rw.number_sites(t, 'snx', by_kind=True)
    out.append(t)
    s = slice_block(PSC, r'task\* cancel\(execution_data& ed\) override', within=SN)
    sliced.append('%s:%d sum_node::cancel' % (PSC, s.line))
    t = 'task* sum_node_cancel(struct sum_node* self, execution_data* ed) ' + body_of(s.text)
    t = rw.sub(t, r'return finalize\(ed\);', 'return (task*)sum_node_finalize(self, ed);', 0, name='method')
    out.append(t)
    # ------------------------------------------------------------------ finish_scan
    qcls = slice_block(PSC, FN)
    QMEM = ['m_sum_slot', 'm_return_slot', 'm_allocator', 'm_right_zombie', 'm_result', 'ref_count', 'm_parent', 'm_wait_context']
    qorder = member_order(qcls.text, QMEM, 'finish_scan')
    s = slice_ctor(PSC, r'finish_scan\(sum_node_type\*& return_slot, final_sum_type\*\* sum, sum_node_type& result_, finish_scan\* parent, wait_context& w_o, small_object_allocator& alloc\)', FN)
    sliced.append('%s:%d finish_scan constructor' % (PSC, s.line))
    t = ctor_c(rw, s, 'finish_scan_ctor(struct finish_scan* self, struct sum_node** return_slot, struct final_sum** sum, struct sum_node* result_, struct finish_scan* parent, wait_context* w_o, small_object_allocator* alloc)',
               qorder, defaults=nsdmi(qcls.text, ['ref_count']), cname='finish_scan')
    t = rw.sub(t, r'__TBB_ASSERT\( !m_return_slot, nullptr \);', 'VERIF_ASSERT(!(*self->m_return_slot), "!m_return_slot");', 0, name='assert on a reference member')
    t = refs(rw, t, ['return_slot', 'result_', 'w_o', 'alloc'])
    out.append(t)
    release_finalize(rw, FN, 'finish_scan', 'struct finish_scan', sliced, out)
    s = slice_block(PSC, r'task\* execute\(execution_data& ed\) override', within=FN)
    sliced.append('%s:%d finish_scan::execute' % (PSC, s.line))
    t = 'task* finish_scan_execute(struct finish_scan* self, execution_data* ed) ' + body_of(s.text)
    t = rw.sub(t, r'(?s)__TBB_ASSERT\( m_result\.ref_count\.load\(\) == static_cast<unsigned int>\(\(m_result\.m_left!=nullptr\)\+\(m_result\.m_right!=nullptr\)\), nullptr \);', 'RG_NOP();', 0,
               name='debug assertion on the result node\'s child count -> RG_NOP')
    t = rw.atomics(t, ['m_right_zombie'], 0)
    t = rw.sub(t, r'(?P<x>\(\*\w+\)|[\w.]+)->reverse_join\(\s*\*(?P<y>[^;]+?)\s*\);', r'final_sum_reverse_join(\g<x>, &*\g<y>);', 0, name='final_sum::reverse_join(final_sum&): method + reference argument')
    t = rw.sub(t, r'(?<![\w.>])m_result\.self_destroy\(ed\);', 'SUM_NODE_SELF_DESTROY(m_result, ed);', 0, name='callee stub (sum_node::self_destroy: frees the node)')
    t = rw.sub(t, r'\bright_zombie->self_destroy\(ed\);', 'FINAL_SUM_SELF_DESTROY(*right_zombie, ed);', 0, name='callee stub (final_sum::self_destroy: frees the body task)')
    t = rw.sub(t, r'final_sum_type\*', 'struct final_sum*', 0, name='type alias')
    t = rw.sub(t, r'return finalize\(ed\);', 'return (task*)finish_scan_finalize(self, ed);', 0, name='method')
    t = rw.sub(t, r'(?<![\w.>])m_return_slot\b', '(*self->m_return_slot)', 0, name='reference member m_return_slot -> (*self->m_return_slot)')
    t = rw.sub(t, r'(?<![\w.>])m_result\b', '(*self->m_result)', 0, name='reference member m_result -> (*self->m_result)')
    t = rw.fields(t, ['m_sum_slot', 'm_right_zombie', 'm_parent'], 0)
    t = rw.asserts(t, 0)
    t = rw.number_sites(t, 'fin', by_kind=True)
    out.append(t)
    s = slice_block(PSC, r'task\* cancel\(execution_data& ed\) override', within=FN)
    sliced.append('%s:%d finish_scan::cancel' % (PSC, s.line))
    t = 'task* finish_scan_cancel(struct finish_scan* self, execution_data* ed) ' + body_of(s.text)
    t = rw.sub(t, r'return finalize\(ed\);', 'return (task*)finish_scan_finalize(self, ed);', 0, name='method')
    out.append(t)
    # ------------------------------------------------------------------ start_scan
    scls = slice_block(PSC, SS)
    SMEM = ['m_return_slot', 'm_range', 'm_body', 'm_partition', 'm_sum_slot', 'm_is_final', 'm_is_right_child', 'm_parent', 'm_allocator', 'm_wait_context']
    sorder = member_order(scls.text, SMEM, 'start_scan')
    s = slice_ctor(PSC, r'start_scan\( sum_node_type\*& return_slot, start_scan& parent, small_object_allocator& alloc \)', SS)
    sliced.append('%s:%d start_scan splitting constructor' % (PSC, s.line))
    t = ctor_c(rw, s, 'start_scan_ctor_split(struct start_scan* self, struct sum_node** return_slot, struct start_scan* parent, small_object_allocator* alloc)', sorder, cname='start_scan')
    t = rw.sub(t, r'__TBB_ASSERT\( !m_return_slot, nullptr \);', 'VERIF_ASSERT(!(*self->m_return_slot), "!m_return_slot");', 0, name='assert on a reference_wrapper member')
    t = rw.sub(t, r'\bparent\.m_(body|wait_context|return_slot)\b', r'(*parent->m_\1)', 0, name='reference(-wrapper) member of a reference parameter')
    t = rw.sub(t, r'\bparent\.', 'parent->', 0, name='ref-param')
    t = common_calls(rw, t)
    t = refs(rw, t, ['return_slot', 'alloc'])
    out.append(t)
    s = slice_ctor(PSC, r'start_scan\( sum_node_type\*& return_slot, const Range& range, final_sum_type& body, const Partitioner& partitioner, wait_context& w_o, small_object_allocator& alloc \)', SS)
    sliced.append('%s:%d start_scan root constructor' % (PSC, s.line))
    t = ctor_c(rw, s, 'start_scan_ctor_root(struct start_scan* self, struct sum_node** return_slot, const Range* range, struct final_sum* body, const Partitioner* partitioner, wait_context* w_o, small_object_allocator* alloc)', sorder, cname='start_scan')
    t = rw.sub(t, r'__TBB_ASSERT\( !m_return_slot, nullptr \);', 'VERIF_ASSERT(!(*self->m_return_slot), "!m_return_slot");', 0, name='assert on a reference_wrapper member')
    t = refs(rw, t, ['return_slot', 'range', 'body', 'partitioner', 'w_o', 'alloc'])
    out.append(t)
    release_finalize(rw, SS, 'start_scan', 'struct finish_scan', sliced, out)
    s = slice_block(PSC, r'task\* start_scan<Range,Body,Partitioner>::execute\( execution_data& ed \)')
    sliced.append('%s:%d start_scan::execute' % (PSC, s.line))
    t = 'task* start_scan_execute(struct start_scan* self, execution_data* ed) ' + body_of(s.text)
    t = rw.sub(t, r'\bis_stolen\(ed\)', 'STUB_is_stolen(ed)', 0, name='callee stub')
    t = rw.sub(t, r'&m_body\.get\(\)', '&(*self->m_body)', 0, name='reference_wrapper::get()')
    t = rw.atomics(t, ['m_right_zombie'], 0)
    t = rw.sub(t, r'(?<![\w.>])m_body = \*right_zombie;', 'REBIND(self->m_body, *right_zombie);', 0, name='reference_wrapper rebind')
    t = rw.sub(t, r'(?<![\w.>])m_partition\.should_execute_range\(ed\)', 'Partition_should_execute_range(&self->m_partition, ed)', 0, name='member-object method (stub)')
    t = rw.sub(t, r'(?<![\w.>])m_range\.is_divisible\(\)', 'Range_is_divisible(&self->m_range)', 0, name='Range::is_divisible')
    t = rw.sub(t, r'(?<![\w.>])m_body\(m_range, (final|pre)_scan_tag\(\)\);', r'final_sum_call(self->m_body, &self->m_range, \1_scan_tag);', 0, name='reference_wrapper call -> final_sum::operator()')
    t = rw.sub(t, r'\*m_sum_slot = &\(\*self->m_body\);', '*self->m_sum_slot = &(*self->m_body);', 0, name='field')
    t = rw.sub(t, r'next_task = finalize\(ed\);', 'next_task = (task*)start_scan_finalize(self, ed);', 0, name='method')
    t = rw.sub(t, r'\bauto result = ', 'struct sum_node* result = ', 0, name='auto')
    t = rw.sub(t, r'\bauto new_parent = ', 'struct finish_scan* new_parent = ', 0, name='auto')
    t = rw.sub(t, r'\bauto& right_child = \*alloc\.new_object<start_scan>', 'struct start_scan* right_child_p = alloc.new_object<start_scan>', 0, name='auto& x = *p -> pointer')
    t = rw.sub(t, r'\bfinal_sum_type\* right_zombie\b', 'struct final_sum* right_zombie', 0, name='type alias')
    t = rw.sub(t, r'(?<![\w.>])m_parent->m_result\b', '(*m_parent->m_result)', 0, name='reference member of the parent')

    def newobj(mm, a):
        return 'NEW_%s_%d(alloc%s)' % (mm.group(1), len(a), ''.join(', ' + x for x in a))
    t = rw.call(t, r'\balloc\.new_object<(sum_node_type|finish_pass1_type|start_scan|final_sum_type)>', newobj, 0, name='alloc.new_object<T>(args) -> NEW_T(alloc, args): allocate, then the sliced constructor')
    t = rw.sub(t, r'spawn\(right_child, \*ed\.context\);', 'SPAWN(right_child_p, ed->context);', 0, name='callee stub (spawn)')
    t = rw.sub(t, r'(?<![\w.>])m_return_slot = result->m_left;', 'REBIND(self->m_return_slot, result->m_left);', 0, name='reference_wrapper rebind')
    t = rw.sub(t, r'next_task = this;', 'next_task = (task*)self;', 0, name='this')
    t = rw.sub(t, r'(?<![\w.>])m_return_slot\b', '(*self->m_return_slot)', 0, name='reference_wrapper member m_return_slot -> (*self->m_return_slot)')
    t = rw.sub(t, r'(?<![\w.>])m_wait_context\b', '(*self->m_wait_context)', 0, name='reference member')
    t = rw.sub(t, r'(?<![\w.>])m_body\b', '(*self->m_body)', 0, name='reference_wrapper member')
    t = common_calls(rw, t)
    t = rw.fields(t, ['m_range', 'm_partition', 'm_sum_slot', 'm_is_final', 'm_is_right_child', 'm_parent', 'm_allocator'], 0)
    t = rw.asserts(t, 0)
    t = rw.number_sites(t, 'ssx', by_kind=True)
    out.append(t)
    s = slice_block(PSC, r'task\* cancel\( execution_data& ed \) override', within=SS)
    sliced.append('%s:%d start_scan::cancel' % (PSC, s.line))
    t = 'task* start_scan_cancel(struct start_scan* self, execution_data* ed) ' + body_of(s.text)
    t = rw.sub(t, r'return finalize\(ed\);', 'return (task*)start_scan_finalize(self, ed);', 0, name='method')
    out.append(t)
    # ------------------------------------------------------------------ start_scan::run (pass 1, then pass 2 or the single-sweep shortcut)
    s = slice_block(PSC, r'static void run\( const Range& range, Body& body, const Partitioner& partitioner \)', within=SS)
    sliced.append('%s:%d start_scan::run' % (PSC, s.line))
    t = 'void start_scan_run(const Range* range, Body* body, const Partitioner* partitioner) ' + body_of(s.text)
    t = rw.sub(t, r'\brange\.empty\(\)', 'Range_empty(range)', 0, name='Range::empty()')
    t = rw.sub(t, r'task_group_context context\(PARALLEL_SCAN\);', 'task_group_context context; CONTEXT_CTOR(context, PARALLEL_SCAN);', 0, name='local context object + constructor')
    t = rw.sub(t, r'using start_pass1_type = start_scan<Range,Body,Partitioner>;', 'RG_NOP();', 0, name='type alias declaration -> RG_NOP')
    t = rw.sub(t, r'sum_node_type\* root = nullptr;', 'struct sum_node* root = nullptr;', 0, name='type alias')
    t = rw.sub(t, r'wait_context w_ctx\{1\};', 'wait_context w_ctx; WAIT_CTOR(w_ctx, 1);', 0, name='local wait_context{1}')
    t = common_calls(rw, t)
    t = rw.sub(t, r'auto& temp_body = \*alloc\.new_object<final_sum_type>', 'struct final_sum* temp_body_p = alloc.new_object<final_sum_type>', 0, name='auto& x = *p -> pointer')
    t = rw.sub(t, r'auto& pass1 = \*alloc\.new_object<start_pass1_type>', 'struct start_scan* pass1_p = alloc.new_object<start_pass1_type>', 0, name='auto& x = *p -> pointer')
    t = rw.sub(t, r'\btemp_body\.reverse_join\(body\);', 'final_sum_reverse_join_body(temp_body_p, &body);', 0, name='method + reference argument')
    t = rw.sub(t, r'\broot->prepare_for_execution\(temp_body, nullptr, &body\);', 'sum_node_prepare_for_execution(root, &temp_body, nullptr, &body);', 0, name='method + reference argument')
    t = rw.sub(t, r'\broot->prepare_for_execution\(([^,;]*), ([^;]*)\);', r'sum_node_prepare_for_execution(root, &\1, \2);', 0, name='method + reference argument')
    t = rw.sub(t, r'\bw_ctx\.reserve\(\);', 'WAIT_RESERVE(w_ctx);', 0, name='callee stub (wait_context::reserve)')
    t = rw.sub(t, r'\btemp_body\.assign_to\(body\);', 'final_sum_assign_to(temp_body_p, &body);', 0, name='method + reference argument')
    t = rw.sub(t, r'\btemp_body\.finish_construction\(nullptr, range, nullptr\);', 'final_sum_finish_construction(temp_body_p, nullptr, &range, nullptr);', 0, name='method + reference argument')
    t = rw.sub(t, r'\balloc\.delete_object<final_sum_type>\(&temp_body\);', 'DELETE_TEMP_BODY(alloc, &temp_body);', 0, name='callee stub (delete_object)')
    t = rw.call(t, r'\balloc\.new_object<(start_pass1_type|final_sum_type)>', newobj, 0, name='alloc.new_object<T>(args) -> NEW_T_<argc>(alloc, args): allocate, then the sliced constructor')
    t = rw.sub(t, r'execute_and_wait\(([^;]*)\);', r'EXECUTE_AND_WAIT(\1);', 0, name='callee stub (r1::execute_and_wait)')
    t = rw.sub(t, r'(?<![\w.>])temp_body\b', '(*temp_body_p)', 0, name='local reference -> (*pointer)')
    t = rw.sub(t, r'(?<![\w.>])pass1\b', '(*pass1_p)', 0, name='local reference -> (*pointer)')
    t = refs(rw, t, ['range', 'body', 'partitioner'])
    out.append(t)
    common.write(ctx, 'scan.inc', rw.std('\n'.join(out)) + '\n')
    fired['parallel_scan'] = rw.fired
    # ------------------------------------------------------------------ lambda_scan_body
    lrw = Rewriter('lambda_scan_body')
    LS = r'class lambda_scan_body \{'
    lcls = slice_block(PSC, LS)
    LMEM = ['m_sum_slot', 'identity_element', 'm_scan', 'm_reverse_join']
    lorder = member_order(lcls.text, LMEM, 'lambda_scan_body')
    lout = []

    def lfields(t):
        t = lrw.sub(t, r'\b(a|b)\.(identity_element|m_scan|m_reverse_join)\b', r'(*\1->\2)', 0, name='reference member of a reference parameter')
        t = lrw.sub(t, r'\b(a|b)\.m_sum_slot\b', r'\1->m_sum_slot', 0, name='ref-param')
        t = lrw.sub(t, r'(?<![\w.>])(identity_element|m_scan|m_reverse_join)\b', r'(*self->\1)', 0, name='reference member m -> (*self->m)')
        t = lrw.sub(t, r'(?<![\w.>])m_sum_slot\b', 'self->m_sum_slot', 0, name='field')

        def inv(mm, a):
            return 'INVOKE%d(%s)' % (len(a), ', '.join(a))
        return lrw.call(t, r'\btbb::detail::invoke', inv, 0, name='tbb::detail::invoke(f, args) -> INVOKE<argc>(f, args)')
    s = slice_ctor(PSC, r'lambda_scan_body\( const Value& identity, const Scan& scan, const ReverseJoin& rev_join \)', LS)
    sliced.append('%s:%d lambda_scan_body constructor' % (PSC, s.line))
    t = ctor_c(lrw, s, 'lambda_scan_body_ctor(struct lambda_scan_body* self, const Value* identity, const Scan* scan, const ReverseJoin* rev_join)', lorder, cname='lambda_scan_body')
    t = refs(lrw, t, ['identity', 'scan', 'rev_join'])
    lout.append(t)
    s = slice_ctor(PSC, r'lambda_scan_body\( lambda_scan_body& b, split \)', LS)
    sliced.append('%s:%d lambda_scan_body splitting constructor' % (PSC, s.line))
    t = ctor_c(lrw, s, 'lambda_scan_body_split_ctor(struct lambda_scan_body* self, struct lambda_scan_body* b)', lorder, cname='lambda_scan_body')
    bb = cxx2c.mask(t).find('{')
    t = t[:bb] + lfields(t[bb:])
    lout.append(t)
    s = slice_block(PSC, r'void operator\(\)\( const Range& r, Tag tag \)', within=LS)
    sliced.append('%s:%d lambda_scan_body::operator()' % (PSC, s.line))
    t = 'void lambda_scan_body_call(struct lambda_scan_body* self, const Range* r, bool tag) ' + lfields(body_of(s.text))
    t = refs(lrw, t, ['r'])
    lout.append(t)
    s = slice_block(PSC, r'void reverse_join\( lambda_scan_body& a \)', within=LS)
    sliced.append('%s:%d lambda_scan_body::reverse_join' % (PSC, s.line))
    lout.append('void lambda_scan_body_reverse_join(struct lambda_scan_body* self, struct lambda_scan_body* a) ' + lfields(body_of(s.text)))
    s = slice_block(PSC, r'void assign\( lambda_scan_body& b \)', within=LS)
    sliced.append('%s:%d lambda_scan_body::assign' % (PSC, s.line))
    lout.append('void lambda_scan_body_assign(struct lambda_scan_body* self, struct lambda_scan_body* b) ' + lfields(body_of(s.text)))
    common.write(ctx, 'lscan.inc', lrw.std('\n'.join(lout)) + '\n')
    fired['lambda_scan_body'] = lrw.fired


def extract(ctx):
    sliced, fired = [], {}
    rw = Rewriter('parallel_sort')
    out = []
    # pretest body
    s = slice_block(PS, r'void operator\(\)\( const blocked_range<RandomAccessIterator>& range \) const', within=r'class quick_sort_pretest_body \{')
    sliced.append('%s:%d quick_sort_pretest_body::operator()' % (PS, s.line))
    t = rw.sub(s.text, r'void operator\(\)\( const blocked_range<RandomAccessIterator>& range \) const', 'void pretest_body(RandomAccessIterator range_begin, RandomAccessIterator range_end)', 1, 1, name='sig (blocked_range<It> -> its two ends)')
    t = rw.sub(t, r'range\.end\(\)', 'range_end', 1, 1, name='range accessor')
    t = rw.sub(t, r'range\.begin\(\)', 'range_begin', 1, 1, name='range accessor')
    t = rw.sub(t, r'context\.is_group_execution_cancelled\(\)', 'STUB_is_cancelled()', 1, 1, name='callee stub')
    t = rw.sub(t, r'context\.cancel_group_execution\(\);', 'STUB_cancel();', 1, 1, name='callee stub')
    t = rw.sub(t, r'comp\(\*\(?(k(?: [-+] \d+)?)\)?, \*\(?(k(?: [-+] \d+)?)\)?\)', r'COMP_AT(\1, \2)', 1, 1, name='comparator stub on iterator positions')
    t = tag_loops(t, 'pretest', rw, expect=1)
    out.append(t)
    s = slice_block(PS, r'void parallel_quick_sort\( RandomAccessIterator begin, RandomAccessIterator end, const Compare& comp \)')
    sliced.append('%s:%d parallel_quick_sort' % (PS, s.line))
    t = rw.sub(s.text, r'void parallel_quick_sort\( RandomAccessIterator begin, RandomAccessIterator end, const Compare& comp \)', 'void parallel_quick_sort(RandomAccessIterator begin, RandomAccessIterator end)', 1, 1, name='sig (Compare bound)')
    t = rw.sub(t, r'task_group_context my_context\(PARALLEL_SORT\);', 'STUB_context_init();', 1, 1, name='context ctor -> stub')
    t = rw.sub(t, r'constexpr int serial_cutoff = 9;', 'const int serial_cutoff = 9;', 1, 1, name='constexpr')
    t = rw.sub(t, r'comp\(\*\(?(k(?: [-+] \d+)?)\)?, \*\(?(k(?: [-+] \d+)?)\)?\)', r'COMP_AT(\1, \2)', 1, 1, name='comparator stub on iterator positions')
    t = rw.sub(t, r'do_parallel_quick_sort\(begin, end, comp\);', 'STUB_do_parallel_quick_sort(begin, end);', 2, 2, name='callee stub')
    t = rw.sub(t, r'(?s)parallel_for\(blocked_range<RandomAccessIterator>\(k \+ 1, end\),\s*quick_sort_pretest_body<RandomAccessIterator, Compare>\(comp, my_context\),\s*auto_partitioner\(\),\s*my_context\);',
               'STUB_parallel_for_pretest(k + 1, end);', 0, name='parallel_for -> stub that runs the body on an arbitrary chunk of the range')
    t = rw.sub(t, r'(?s)parallel_for\(blocked_range<RandomAccessIterator>\(([^;]*?)\),\s*quick_sort_pretest_body<RandomAccessIterator, Compare>\(comp, my_context\),\s*auto_partitioner\(\),\s*my_context\);',
               r'STUB_parallel_for_pretest(\1);', 0, name='parallel_for -> stub that runs the body on an arbitrary chunk of the range')
    if 'STUB_parallel_for_pretest(' not in t:
        raise ExtractionBreak('parallel_quick_sort: the probing parallel_for was not found')
    t = rw.sub(t, r'my_context\.is_group_execution_cancelled\(\)', 'STUB_is_cancelled()', 1, 1, name='callee stub')
    t = rw.asserts(t, 1)
    t = tag_loops(t, 'pqs', rw, expect=1)
    out.append(t)
    s = slice_block(PS, r'void parallel_sort\( RandomAccessIterator begin, RandomAccessIterator end, const Compare& comp \)')
    sliced.append('%s:%d parallel_sort' % (PS, s.line))
    t = rw.sub(s.text, r'void parallel_sort\( RandomAccessIterator begin, RandomAccessIterator end, const Compare& comp \)', 'void parallel_sort(RandomAccessIterator begin, RandomAccessIterator end)', 1, 1, name='sig')
    t = rw.sub(t, r'constexpr int min_parallel_size = 500;', 'const int min_parallel_size = 500;', 1, 1, name='constexpr')
    t = rw.sub(t, r'std::sort\(begin, end, comp\);', 'STUB_std_sort(begin, end);', 1, 1, name='callee stub')
    t = rw.sub(t, r'parallel_quick_sort\(begin, end, comp\);', 'STUB_parallel_quick_sort(begin, end);', 1, 1, name='callee stub')
    out.append(t)
    # median functions + split_range
    for name, sig in (('median_of_three', r'std::size_t median_of_three\( const RandomAccessIterator& array, std::size_t l, std::size_t m, std::size_t r \) const'),):
        s = slice_block(PS, sig)
        sliced.append('%s:%d quick_sort_range::%s' % (PS, s.line, name))
        t = rw.sub(s.text, sig, 'size_t median_of_three(RandomAccessIterator array, size_t l, size_t m, size_t r)', 1, 1, name='sig')
        t = rw.sub(t, r'comp\(array\[(\w)\], array\[(\w)\]\)', r'COMP_AT(array + \1, array + \2)', 5, 5, name='comparator stub on iterator positions')
        out.append(t)
    common.write(ctx, 'sort.inc', '\n'.join(out) + '\n')
    fired['parallel_sort'] = rw.fired
    return sliced, fired


def build(ctx):
    sliced, fired = extract(ctx)
    nov = extract_dispatch(ctx, sliced, fired)
    extract_fold(ctx, sliced, fired)
    extract_reduce(ctx, sliced, fired)
    extract_detred(ctx, sliced, fired)
    extract_lambda(ctx, sliced, fired)
    extract_split_range(ctx, sliced, fired)
    extract_scan(ctx, sliced, fired)
    C = os.path.join(HERE, 'c06.c')
    jobs = [
        Job('reduce.fold_tree', C, 'h_fold', route='RG', loops=True, nloops=1, defines=['FOLD'], target='fold_tree<TreeNodeType> (any tree depth, any number of concurrently finishing children)', source=PT,
            inputs=['IN_depth', 'IN_start', 'IN_k', 'IN_others'], timeout=300),
        Job('reduce.execute', C, 'h_red_execute', route='RG', defines=['REDUCE'], target='start_reduce::execute + finalize (lazy body split against a concurrently finishing left sibling)', source=PR),
        Job('reduce.cancel', C, 'h_red_cancel', route='LF', defines=['REDUCE'], target='start_reduce::cancel + finalize', source=PR),
        Job('reduce.offer_work.split', C, 'h_red_offer_split', route='LF', defines=['REDUCE'], target='start_reduce::offer_work_impl<start_reduce&, split_type&> + splitting constructor + reduction_tree_node/tree_node/node constructors + spawn_self', source=PR),
        Job('reduce.offer_work.demand', C, 'h_red_offer_demand', route='LF', defines=['REDUCE'], target='start_reduce::offer_work_impl<start_reduce&, const Range&, depth_t> + demand constructor + reduction_tree_node/tree_node/node constructors + spawn_self', source=PR),
        Job('reduce.run', C, 'h_red_run4', route='LF', defines=['REDUCE'], target='start_reduce::run(range, body, partitioner, context) + root constructor + wait_node constructor', source=PR),
        Job('reduce.run.own_context', C, 'h_red_run3', route='LF', defines=['REDUCE'], target='start_reduce::run(range, body, partitioner)', source=PR),
        Job('reduce.join', C, 'h_red_join', route='LF', defines=['REDUCE'], target='reduction_tree_node::join', source=PR),
        Job('detreduce.execute', C, 'h_det_execute', route='LF', defines=['DETRED'], target='start_deterministic_reduce::execute + finalize', source=PR),
        Job('detreduce.cancel', C, 'h_det_cancel', route='LF', defines=['DETRED'], target='start_deterministic_reduce::cancel + finalize', source=PR),
        Job('detreduce.offer_work', C, 'h_det_offer', route='LF', defines=['DETRED'], target='start_deterministic_reduce::offer_work_impl + splitting constructor + deterministic_reduction_tree_node/tree_node/node constructors + spawn_self', source=PR),
        Job('detreduce.run', C, 'h_det_run4', route='LF', defines=['DETRED'], target='start_deterministic_reduce::run(range, body, partitioner, context) + root constructor + wait_node constructor', source=PR),
        Job('detreduce.run.own_context', C, 'h_det_run3', route='LF', defines=['DETRED'], target='start_deterministic_reduce::run(range, body, partitioner)', source=PR),
        Job('detreduce.join', C, 'h_det_join', route='LF', defines=['DETRED'], target='deterministic_reduction_tree_node::join', source=PR),
        Job('reduce.lambda.join', C, 'h_lambda_join', route='LF', defines=['LAMBDA'], target='lambda_reduce_body::join', source=PR),
        Job('reduce.lambda.call', C, 'h_lambda_call', route='LF', defines=['LAMBDA'], target='lambda_reduce_body::operator()', source=PR),
        Job('reduce.lambda.ctors', C, 'h_lambda_ctors', route='LF', defines=['LAMBDA'], target='lambda_reduce_body constructors (from identity; splitting)', source=PR),
        Job('sort.split_range', C, 'h_split', route='LC', loops=True, nloops=3, defines=['SPLIT', 'ELEM=signed char'], solver='cadical', timeout=600, inputs=['IN_n', 'IN_q', 'IN_k0'],
            target='quick_sort_range::split_range + pseudo_median_of_nine + median_of_three + splitting constructor (any range size)', source=PS),
        Job('scan.final_sum.execute', C, 'h_scan_final_execute', route='RG', defines=['SCAN'], target='final_sum::execute + finalize + release_parent (pass-2 leaf)', source=PSC),
        Job('scan.final_sum.cancel', C, 'h_scan_final_cancel', route='RG', defines=['SCAN'], target='final_sum::cancel + finalize + release_parent', source=PSC),
        Job('scan.sum_node.execute', C, 'h_scan_sum_execute', route='LF', defines=['SCAN'], target='sum_node::execute (pass 2) + create_child + prepare_for_execution + final_sum::finish_construction + final_sum::reverse_join', source=PSC),
        Job('scan.sum_node.finish', C, 'h_scan_sum_finish', route='RG', defines=['SCAN'], target='sum_node::execute (children done) / cancel + finalize + release_parent', source=PSC),
        Job('scan.finish_scan.execute', C, 'h_scan_finish_execute', route='RG', defines=['SCAN'], target='finish_scan::execute + finalize + release_parent (end of pass 1 for one node)', source=PSC),
        Job('scan.start_scan.execute', C, 'h_scan_start_execute', route='RG', defines=['SCAN'], target='start_scan::execute (pass 1: stolen handling, leaf scan, split) + splitting constructor + sum_node/finish_scan/final_sum constructors + finalize', source=PSC),
        Job('scan.cancel', C, 'h_scan_cancels', route='RG', defines=['SCAN'], target='start_scan::cancel, finish_scan::cancel + finalize + release_parent', source=PSC),
        Job('scan.run', C, 'h_scan_run', route='LF', defines=['SCAN'], target='start_scan::run (pass 1, then pass 2 or the single-sweep shortcut) + root constructors', source=PSC),
        Job('scan.lambda_body', C, 'h_lscan', route='LF', defines=['LSCAN'], target='lambda_scan_body: reverse_join, operator(), assign, constructors', source=PSC),
        Job('reduce.dispatch', C, 'h_reduce_dispatch', route='LF', defines=['DISPATCH'], target='all %d public overloads of parallel_reduce / parallel_deterministic_reduce' % nov, source=PR, inputs=['IN_overload'],
            must_have=['parallel_deterministic_reduce(Range, Value, RealBody, Reduction, static_partitioner, task_group_context) ends in the runner']),
        Job('sort.probe_coverage', C, 'h_probe', route='LC', loops=True, nloops=1, unwind=12, timeout=600, defines=['SORT'],
            target='parallel_quick_sort (serial probe, unwound 9) + quick_sort_pretest_body::operator() (loop contract): every adjacent pair is examined', source=PS),
        Job('sort.dispatch', C, 'h_dispatch', route='LF', defines=['SORT'], target='parallel_sort(begin,end,comp) dispatch', source=PS),
        Job('sort.median_of_three', C, 'h_median', route='LF', defines=['SORT'], target='quick_sort_range::median_of_three', source=PS),
    ]
    return {
        'jobs': jobs, 'sliced': sliced, 'fired': fired,
        'trusted': [
            'parallel_for applies the probe body to chunks that tile the given range (C05) -- the stub runs the body on one arbitrary chunk containing the ghost pair', 'do_parallel_quick_sort / std::sort sort (stubs)',
            'sort.probe_coverage: the comparator is an arbitrary relation on positions (stub); sort.split_range, sort.median_of_three: std::less on the element values',
            'user Body / Range operations are stubs: Body(b, split()) yields a fresh body, Range(r, split()) moves the right part of r into the new range and leaves the left part in r (blocked_range splitting itself: C05), b.join / reverse_join / assign / operator() only record their operands',
            'partitioner: Partition::execute calls run_body/offer_work on the task it is given (stub; the execute loops are C05); check_being_stolen, note_affinity, should_execute_range, is_divisible return arbitrary values; spawn_task / spawn make the task runnable on any thread at once',
            'small_object_allocator::new_object<T>(args) = allocation (never fails) followed by the SLICED constructor of T; delete_object / deallocate / self_destroy destroy and free the object (stubs that poison it)',
            'r1::execute_and_wait runs the task tree to completion and returns when the wait_context reaches 0 (stub; scheduler: C01); wait_context::release/reserve are counters',
            'reduce.execute / reduce.offer_work / finalize use fold_tree through its contract (job reduce.fold_tree); fold_tree uses join through a stub checked by reduce.join / detreduce.join',
            'scan.*: each job takes as its rely the node-local tree invariant that the other scan jobs establish as their guarantee (stated in c06.c where each pre-state is built); the induction over the whole tree and over the two passes is the usual rely/guarantee argument and is not itself mechanised',
            'is_stolen(ed) == false means the task runs on the thread that created it, after everything that thread spawned later (LIFO): the left sibling has then completed (scheduler property, C01)'],
        'drops': ['RandomAccessIterator := int* (probe, median), signed char* (split_range)', 'Compare bound (calls become COMP_AT on iterator positions)', 'task_group_context -> ghost cancelled flag',
                  'template parameters bound: Range, Body, Partitioner, Value, RealBody, Reduction, Scan, ReverseJoin := opaque structs; TreeNodeType := the C view of the tree node',
                  'reference parameters and reference / reference_wrapper members -> pointers; constructor init lists -> INIT_<member>_<argc>() in base-then-declared order (harvested from the class text), default member initialisers included',
                  'variadic offer_work_impl<Args...> instantiated for the argument packs its two callers pass (checked against the class text)',
                  'ITT notifications, poison_pointer and poison checks (no-ops in release builds) -> RG_NOP()', 'memory orders (SC assumed)', 'finish_scan::execute debug assertion on the child count of the result node -> RG_NOP()'],
        'not_decided': ['the induction that glues the per-function contracts into the whole-algorithm statement (result == sequential fold / scan) is a paper argument over the stated node-local invariants, not a checked proof',
                        'partitioner execute / work_balance loops and the range pool that decide WHERE ranges are cut (C05) and affinity replay',
                        'reduction_tree_node destructor (destroys the zombie body), exception paths (a body that throws), task_group_context cancellation propagation (C04)',
                        'parallel_scan public overloads (dispatch to start_scan::run) and the pre-C++20 concept checks', 'do_parallel_quick_sort / quick_sort_body recursion: that the two subranges are sorted recursively and std::sort sorts the leaves',
                        'pseudo_median_of_nine picks a good pivot (only: any in-range pivot) ', 'comparators other than std::less on a totally ordered element type (a general strict weak ordering with incomparable elements)',
                        'memory reclamation beyond "freed once, not used after": leaks', 'dependence on the scheduler (C01): that spawned tasks run exactly once, that is_stolen is truthful'],
        'assumptions': ['a probe chunk has fewer than 2^31 elements (the int counter of the pretest body; affects only the cancellation polling period)',
                        'reference counts stay below INT_MAX (fold_tree) / 1000 pending children per scan task in the RG census (the real trees have 2)',
                        'tree depth <= 2^12 in reduce.fold_tree, split_range sizes <= 2^12, scan indices <= 2^40 (symbolic below these bounds)',
                        'sequentially consistent atomics; the only shared words are m_ref_count (reduce), ref_count / m_right_zombie / m_left_sum (scan); all other fields are touched by one thread at a time (ownership passes with the count reaching 0 or with spawn)',
                        'split_range is proved for RandomAccessIterator = signed char* and std::less<signed char> (with int the same proof takes 8 min; the code is type-generic)'],
    }


def replay(ctx, jobname, failure):
    """native recipes on the REAL headers (c06_replay.cpp picks the recipe from the job name: sort.*, reduce.*/detreduce.*, scan.*)"""
    exe = native.build([os.path.join(HERE, 'c06_replay.cpp')], os.path.join(ctx.work, 'c06_replay'), link_tbb=True)
    rc, out = native.run([exe, jobname], timeout=90)
    rep = {'cmd': exe + ' ' + jobname, 'rc': rc, 'output': out[-1500:], 'reproduced': False, 'detail': 'native search found no failing input'}
    m = re.search(r'REPRODUCED (.*)', out)
    if m:
        rep['reproduced'] = True
        rep['detail'] = m.group(1)
        w = re.search(r'class=(\S+)', m.group(1))
        rep['witness_class'] = w.group(1) if w else None
    elif rc != 0:
        # on the unmodified tree every recipe ends within seconds with exit code 0
        rep['reproduced'] = True
        rep['witness_class'] = 'hang-or-crash'
        rep['detail'] = 'class=hang-or-crash the native recipe for %s on the real library %s' % (jobname, 'did not finish within 90 s' if rc == 'timeout' else 'died with exit status %s' % rc)
    return rep
