// Native replay for C06: the REAL parallel_sort on inputs with a single inversion at every position.
#include <oneapi/tbb/parallel_sort.h>
#include <cstdio>
#include <vector>
#include <algorithm>
#include <string>
int main(int argc, char** argv) {
    for (size_t n : {500u, 501u, 512u, 1000u, 4096u}) {
        for (size_t p = 0; p + 1 < n; ++p) {
            if (n > 600 && p > 20 && p + 20 < n && p % 97) continue;
            std::vector<int> v(n); for (size_t i = 0; i < n; ++i) v[i] = (int)(2 * i);
            v[p + 1] = v[p] - 1;                       // the only descent is between positions p and p+1
            std::vector<int> expect = v; std::sort(expect.begin(), expect.end());
            tbb::parallel_sort(v.begin(), v.end());
            if (v != expect) { std::printf("REPRODUCED class=sort-probe-misses-pair parallel_sort of %zu ints that are sorted except for one descent between positions %zu and %zu returned the input unsorted\n", n, p, p + 1); return 0; }
        }
    }
    for (int t = 0; t < 200; ++t) { size_t n = 400 + 37 * t; std::vector<int> v(n); unsigned s = t * 7919u + 1; for (auto& x : v) { s = s * 1103515245u + 12345u; x = (int)(s >> 16) % 1000; }
        std::vector<int> e = v; std::sort(e.begin(), e.end()); tbb::parallel_sort(v.begin(), v.end()); if (v != e) { std::printf("REPRODUCED class=sort-wrong parallel_sort of %zu pseudo-random ints is not sorted\n", n); return 0; } }
    std::printf("NOT-REPRODUCED\n"); return 0;
}
