// Native replay for C06 on the REAL headers / library (argv[1] = name of the job whose obligation failed):
//   sort.*            parallel_sort on inputs with a single inversion at every position + pseudo-random inputs
//   reduce.* detreduce.*   free-monoid (string) reductions: operand order of every parallel_reduce overload; schedule independence of every
//                     parallel_deterministic_reduce overload (parenthesisation string + float bit pattern) under forced and perturbed schedules
//   scan.*            parallel_scan with a non-commutative operation: every element gets exactly one final pass with the right prefix; total returned
#include <oneapi/tbb/parallel_sort.h>
#include <oneapi/tbb/parallel_reduce.h>
#include <oneapi/tbb/parallel_scan.h>
#include <oneapi/tbb/blocked_range.h>
#include <oneapi/tbb/task_arena.h>
#include <oneapi/tbb/task_group.h>
#include <oneapi/tbb/global_control.h>
#include <atomic>
#include <chrono>
#include <cstdio>
#include <cstring>
#include <thread>
#include <vector>
#include <algorithm>
#include <string>

using range_t = tbb::blocked_range<int>;
using clk = std::chrono::steady_clock;

static int sort_recipe(const std::string& job) {
    const char* cls = job.find("probe") != std::string::npos ? "sort-probe-misses-pair" : "sort-result-not-sorted";
    for (size_t n : {500u, 501u, 512u, 1000u, 4096u}) {
        for (size_t p = 0; p + 1 < n; ++p) {
            if (n > 600 && p > 20 && p + 20 < n && p % 97) continue;
            std::vector<int> v(n); for (size_t i = 0; i < n; ++i) v[i] = (int)(2 * i);
            v[p + 1] = v[p] - 1;                       // the only descent is between positions p and p+1
            std::vector<int> expect = v; std::sort(expect.begin(), expect.end());
            tbb::parallel_sort(v.begin(), v.end());
            if (v != expect) { std::printf("REPRODUCED class=%s parallel_sort of %zu ints that are sorted except for one descent between positions %zu and %zu did not return them sorted\n", cls, n, p, p + 1); return 0; }
        }
    }
    // inputs whose only descents lie behind a sorted prefix and that never rise again (plateaus, organ pipes): the parallel probe must still see a descent
    for (size_t n : {500u, 777u, 2048u}) for (int shape = 0; shape < 3; ++shape) {
        std::vector<int> v(n); for (size_t i = 0; i < 10; ++i) v[i] = 41 + (int)i;
        for (size_t i = 10; i < n; ++i) v[i] = shape == 0 ? (i + 1 == n ? 20 : 50) : shape == 1 ? (i < n / 2 ? 50 : 40) : 50 - (int)((i - 10) * 40 / n);
        std::vector<int> expect = v; std::sort(expect.begin(), expect.end());
        tbb::parallel_sort(v.begin(), v.end());
        if (v != expect) { std::printf("REPRODUCED class=%s parallel_sort of %zu ints (ten ascending, then %s) returned them unsorted\n", cls, n, shape == 0 ? "a plateau with one final drop" : shape == 1 ? "two descending plateaus" : "a descending ramp"); return 0; }
    }
    for (int t = 0; t < 200; ++t) { size_t n = 400 + 37 * t; std::vector<int> v(n); unsigned s = t * 7919u + 1; for (auto& x : v) { s = s * 1103515245u + 12345u; x = (int)(s >> 16) % (t % 3 ? 1000 : 7); }
        std::vector<int> e = v; std::sort(e.begin(), e.end()); tbb::parallel_sort(v.begin(), v.end()); if (v != e) { std::printf("REPRODUCED class=sort-wrong parallel_sort of %zu pseudo-random ints is not a sorted permutation of its input\n", n); return 0; } }
    std::printf("NOT-REPRODUCED\n"); return 0;
}

// ---- schedule perturbation inside the user's leaf function ---------------------------------------------------------------------------
static std::atomic<int> g_perturb{0};      // 0: none, else seed
static void perturb(int key) {
    int s = g_perturb.load(std::memory_order_relaxed); if (!s) return;
    unsigned h = (unsigned)key * 2654435761u ^ (unsigned)s * 40503u; h ^= h >> 13; unsigned us = h % 60;
    if (us < 20) return; auto t0 = clk::now(); while (clk::now() - t0 < std::chrono::microseconds(us)) std::this_thread::yield();
}
static char sym(int i) { return (char)('a' + i % 26); }

// ---- parallel_reduce: operand order ----------------------------------------------------------------------------------------------------
struct CatBody {
    std::string s;
    CatBody() {}
    CatBody(CatBody&, tbb::split) {}
    void operator()(const range_t& r) { perturb(r.begin()); for (int i = r.begin(); i != r.end(); ++i) s += sym(i); }
    void join(CatBody& rhs) { s += rhs.s; }
};
static std::string cat_leaf(const range_t& r, std::string v) { perturb(r.begin()); for (int i = r.begin(); i != r.end(); ++i) v += sym(i); return v; }
static std::string cat_join(const std::string& a, const std::string& b) { return a + b; }

template <typename F> static bool check_cat(const char* what, int n, int grain, F call) {
    std::string want; for (int i = 0; i < n; ++i) want += sym(i);
    std::string got = call(range_t(0, n, grain));
    if (got == want) return true;
    size_t k = 0; while (k < got.size() && k < want.size() && got[k] == want[k]) ++k;
    std::printf("REPRODUCED class=reduce-operand-order %s over [0,%d) grain %d with string concatenation (associative, not commutative) returned a value of length %zu that differs from the left-to-right fold (length %zu) first at position %zu\n",
                what, n, grain, got.size(), want.size(), k);
    return false;
}
static bool reduce_order() {
    tbb::affinity_partitioner ap1, ap2, ap3, ap4;
    for (int threads : {1, 2, 4, 8}) {
        tbb::task_arena arena(threads);
        bool ok = true;
        arena.execute([&] {
            for (int rep = 0; rep < 6 && ok; ++rep) for (int n : {1, 2, 7, 64, 1000, 4099}) for (int grain : {1, 3, 100}) {
                g_perturb = (rep % 2) ? rep * 31 + n : 0;
                tbb::task_group_context c;
#define L(desc, ...) ok = ok && check_cat(desc, n, grain, [&](const range_t& r) { return tbb::parallel_reduce(r, std::string(), cat_leaf, cat_join, ##__VA_ARGS__); })
                L("parallel_reduce(range, identity, f, reduction)"); L("parallel_reduce(.., simple_partitioner)", tbb::simple_partitioner()); L("parallel_reduce(.., auto_partitioner)", tbb::auto_partitioner());
                L("parallel_reduce(.., static_partitioner)", tbb::static_partitioner()); L("parallel_reduce(.., affinity_partitioner)", ap1);
                L("parallel_reduce(.., context)", c); L("parallel_reduce(.., simple_partitioner, context)", tbb::simple_partitioner(), c); L("parallel_reduce(.., auto_partitioner, context)", tbb::auto_partitioner(), c);
                L("parallel_reduce(.., static_partitioner, context)", tbb::static_partitioner(), c); L("parallel_reduce(.., affinity_partitioner, context)", ap2, c);
#undef L
#define B(desc, ...) ok = ok && check_cat(desc, n, grain, [&](const range_t& r) { CatBody b; tbb::parallel_reduce(r, b, ##__VA_ARGS__); return b.s; })
                B("parallel_reduce(range, body)"); B("parallel_reduce(range, body, simple_partitioner)", tbb::simple_partitioner()); B("parallel_reduce(range, body, auto_partitioner)", tbb::auto_partitioner());
                B("parallel_reduce(range, body, static_partitioner)", tbb::static_partitioner()); B("parallel_reduce(range, body, affinity_partitioner)", ap3);
                B("parallel_reduce(range, body, context)", c); B("parallel_reduce(range, body, simple_partitioner, context)", tbb::simple_partitioner(), c); B("parallel_reduce(range, body, auto_partitioner, context)", tbb::auto_partitioner(), c);
                B("parallel_reduce(range, body, static_partitioner, context)", tbb::static_partitioner(), c); B("parallel_reduce(range, body, affinity_partitioner, context)", ap4, c);
#undef B
                if (!ok) return;
            }
        });
        g_perturb = 0;
        if (!ok) return false;
    }
    return true;
}

// ---- parallel_deterministic_reduce: the join tree does not depend on the schedule ------------------------------------------------------
enum Mode { FREE, OVERLAP };
static std::atomic<int> mode{FREE};
static std::atomic<bool> right_started{false};
static void leaf_hook(const range_t& r) {
    perturb(r.begin());
    if (mode.load() != OVERLAP) return;
    if (r.begin() != 0) { right_started = true; return; }
    auto t0 = clk::now(); while (!right_started && clk::now() - t0 < std::chrono::seconds(5)) std::this_thread::yield();   // left half: do not finish before the right half has started
}
static std::vector<float> fdata;
static float fleaf(const range_t& r, float v) { leaf_hook(r); for (int i = r.begin(); i != r.end(); ++i) v += fdata[i]; return v; }
static float fjoin(float a, float b) { return a + b; }
static std::string pleaf(const range_t& r, std::string v) { leaf_hook(r); for (int i = r.begin(); i != r.end(); ++i) v += sym(i); return v; }
static std::string pjoin(const std::string& a, const std::string& b) { return "(" + a + "." + b + ")"; }
struct ParenBody {
    std::string s;
    ParenBody() {}
    ParenBody(ParenBody&, tbb::split) {}
    void operator()(const range_t& r) { leaf_hook(r); for (int i = r.begin(); i != r.end(); ++i) s += sym(i); }
    void join(ParenBody& rhs) { s = "(" + s + "." + rhs.s + ")"; }
};
static unsigned bits(float f) { unsigned u; std::memcpy(&u, &f, sizeof u); return u; }
template <typename F> static bool with_busy_worker(F fn) {      // runs fn while the arena's only worker is held inside an unrelated task
    tbb::task_group tg; std::atomic<bool> started{false}, release{false};
    tg.run([&] { started = true; auto t0 = clk::now(); while (!release && clk::now() - t0 < std::chrono::seconds(10)) std::this_thread::yield(); });
    auto t0 = clk::now(); while (!started && clk::now() - t0 < std::chrono::seconds(5)) std::this_thread::yield();
    bool ok = started; if (ok) fn(); release = true; tg.wait(); return ok;
}
static bool det_fail(const char* what, const char* sched, const std::string& got, const std::string& want) {
    std::printf("REPRODUCED class=deterministic-reduce-schedule-dependent %s: join tree is %s under schedule '%s' but %s under the reference schedule - the split/join tree depends on the schedule\n", what, got.c_str(), sched, want.c_str());
    return false;
}
static bool det_reduce() {
    const int N = 1000; fdata.resize(N); unsigned s = 12345u;
    for (int i = 0; i < N; ++i) { s = s * 1664525u + 1013904223u; float mag = (i % 5 == 0) ? 1.0e6f : (i % 3 == 0 ? 1.0e-3f : 1.0f); fdata[i] = mag * (float((s >> 8) & 0xffff) / 65536.0f - 0.37f); }
    const range_t srange(0, 12), frange(0, N); const tbb::static_partitioner sp; const tbb::simple_partitioner simp;
    bool ok = true;
    // (1) static_partitioner, 2-thread arena: siblings overlap (S1) vs. left sibling finishes first (S2), all static overloads, symbolic and float
    tbb::task_arena arena2(2);
    arena2.execute([&] {
        tbb::task_group_context c;
        auto sym_calls = [&](int k) -> std::string {
            right_started = false;
            switch (k) { case 0: return tbb::parallel_deterministic_reduce(srange, std::string(), pleaf, pjoin, sp);
                         case 1: return tbb::parallel_deterministic_reduce(srange, std::string(), pleaf, pjoin, sp, c);
                         case 2: { ParenBody b; tbb::parallel_deterministic_reduce(srange, b, sp); return b.s; }
                         default: { ParenBody b; tbb::parallel_deterministic_reduce(srange, b, sp, c); return b.s; } } };
        const char* names[] = {"parallel_deterministic_reduce(range, identity, f, reduction, static_partitioner)", "parallel_deterministic_reduce(range, identity, f, reduction, static_partitioner, context)",
                               "parallel_deterministic_reduce(range, body, static_partitioner)", "parallel_deterministic_reduce(range, body, static_partitioner, context)"};
        mode = OVERLAP; std::string want[4]; float fwant[2];
        for (int k = 0; k < 4; ++k) want[k] = sym_calls(k);
        right_started = false; fwant[0] = tbb::parallel_deterministic_reduce(frange, 0.0f, fleaf, fjoin, sp);
        right_started = false; fwant[1] = tbb::parallel_deterministic_reduce(frange, 0.0f, fleaf, fjoin, sp, c);
        mode = FREE;
        for (int k = 1; k < 4 && ok; ++k) if (want[k] != want[0]) ok = det_fail(names[k], "siblings overlap", want[k], want[0]);
        if (ok && bits(fwant[0]) != bits(fwant[1])) { std::printf("REPRODUCED class=deterministic-reduce-schedule-dependent float sum differs between the static_partitioner overloads with and without context: 0x%08x vs 0x%08x\n", bits(fwant[1]), bits(fwant[0])); ok = false; }
        if (!ok) return;
        with_busy_worker([&] {
            for (int k = 0; k < 4 && ok; ++k) { std::string got = sym_calls(k); if (got != want[0]) ok = det_fail(names[k], "left sibling finishes before the right one starts", got, want[0]); }
            if (!ok) return;
            float g0 = tbb::parallel_deterministic_reduce(frange, 0.0f, fleaf, fjoin, sp), g1 = tbb::parallel_deterministic_reduce(frange, 0.0f, fleaf, fjoin, sp, c);
            if (bits(g0) != bits(fwant[0]) || bits(g1) != bits(fwant[0])) { std::printf("REPRODUCED class=deterministic-reduce-schedule-dependent float sum of 1000 values with static_partitioner is 0x%08x / 0x%08x (with context) when the left sibling finishes first, 0x%08x when siblings overlap - not bit-identical across schedules\n", bits(g0), bits(g1), bits(fwant[0])); ok = false; }
        });
        for (int rep = 0; rep < 200 && ok; ++rep) { g_perturb = rep + 1; for (int k = 0; k < 4 && ok; ++k) { std::string got = sym_calls(k); if (got != want[0]) ok = det_fail(names[k], "perturbed leaf timing", got, want[0]); } }
        g_perturb = 0;
    });
    if (!ok) return false;
    // (2) simple_partitioner (and the default): the tree depends on range and grain only: identical for 1, 2, 4, 8 threads and any leaf timing
    const char* snames[] = {"parallel_deterministic_reduce(range, identity, f, reduction)", "parallel_deterministic_reduce(range, identity, f, reduction, simple_partitioner)", "parallel_deterministic_reduce(range, identity, f, reduction, context)",
                            "parallel_deterministic_reduce(range, identity, f, reduction, simple_partitioner, context)", "parallel_deterministic_reduce(range, body)", "parallel_deterministic_reduce(range, body, simple_partitioner)",
                            "parallel_deterministic_reduce(range, body, context)", "parallel_deterministic_reduce(range, body, simple_partitioner, context)"};
    for (int n : {13, 64}) for (int grain : {1, 3}) {
        const range_t r(0, n, grain); std::string ref;
        for (int threads : {1, 2, 4, 8}) {
            tbb::task_arena arena(threads);
            arena.execute([&] {
                tbb::task_group_context c;
                for (int rep = 0; rep < (threads == 1 ? 1 : 25) && ok; ++rep) {
                    g_perturb = threads == 1 ? 0 : rep + 7 * threads;
                    for (int k = 0; k < 8 && ok; ++k) {
                        std::string got;
                        switch (k) { case 0: got = tbb::parallel_deterministic_reduce(r, std::string(), pleaf, pjoin); break; case 1: got = tbb::parallel_deterministic_reduce(r, std::string(), pleaf, pjoin, simp); break;
                                     case 2: got = tbb::parallel_deterministic_reduce(r, std::string(), pleaf, pjoin, c); break; case 3: got = tbb::parallel_deterministic_reduce(r, std::string(), pleaf, pjoin, simp, c); break;
                                     case 4: { ParenBody b; tbb::parallel_deterministic_reduce(r, b); got = b.s; break; } case 5: { ParenBody b; tbb::parallel_deterministic_reduce(r, b, simp); got = b.s; break; }
                                     case 6: { ParenBody b; tbb::parallel_deterministic_reduce(r, b, c); got = b.s; break; } default: { ParenBody b; tbb::parallel_deterministic_reduce(r, b, simp, c); got = b.s; break; } }
                        if (ref.empty()) ref = got;
                        if (got != ref) { char sch[64]; std::snprintf(sch, sizeof sch, "%d threads, perturbed leaf timing", threads); ok = det_fail(snames[k], sch, got, ref); }
                        std::string flat; for (char ch : got) if (ch != '(' && ch != ')' && ch != '.') flat += ch;
                        std::string want; for (int i = 0; i < n; ++i) want += sym(i);
                        if (ok && flat != want) { std::printf("REPRODUCED class=reduce-operand-order %s over [0,%d): the leaves of the join tree read %s, not the elements in order\n", snames[k], n, flat.c_str()); ok = false; }
                    }
                }
                g_perturb = 0;
            });
            if (!ok) return false;
        }
    }
    return true;
}

// ---- parallel_scan ------------------------------------------------------------------------------------------------------------------------
static std::vector<std::string> g_out; static std::vector<std::atomic<int>> g_finals(5000);
struct ScanBody {
    std::string sum;
    ScanBody(const std::string& init) : sum(init) {}
    ScanBody(ScanBody&, tbb::split) {}
    template <typename Tag> void operator()(const range_t& r, Tag) {
        perturb(r.begin());
        for (int i = r.begin(); i != r.end(); ++i) { sum += sym(i); if (Tag::is_final_scan()) { g_out[i] = sum; g_finals[i]++; } }
    }
    void reverse_join(ScanBody& a) { sum = a.sum + sum; }
    void assign(ScanBody& b) { sum = b.sum; }
};
static bool scan_check(const char* what, int n, int grain, const std::string& init, const std::string& total) {
    std::string pre = init;
    for (int i = 0; i < n; ++i) {
        pre += sym(i);
        if (g_finals[i] != 1) { std::printf("REPRODUCED class=scan-final-pass-count %s over [0,%d) grain %d: element %d got %d final passes\n", what, n, grain, i, (int)g_finals[i]); return false; }
        if (g_out[i] != pre) { std::printf("REPRODUCED class=scan-wrong-prefix %s over [0,%d) grain %d: the final pass of element %d ran with a prefix of length %zu that is not the %zu elements before it (in order)\n", what, n, grain, i, g_out[i].size() ? g_out[i].size() - 1 : 0, pre.size() - 1); return false; }
    }
    if (total != pre) { std::printf("REPRODUCED class=scan-wrong-total %s over [0,%d) grain %d returned a total of length %zu, the full reduction has length %zu\n", what, n, grain, total.size(), pre.size()); return false; }
    return true;
}
static bool scan_recipe() {
    for (int threads : {1, 2, 4, 8}) {
        tbb::task_arena arena(threads); bool ok = true;
        arena.execute([&] {
            for (int rep = 0; rep < 12 && ok; ++rep) for (int n : {1, 2, 9, 100, 1500}) for (int grain : {1, 4, 64}) for (int k = 0; k < 6 && ok; ++k) {
                g_perturb = (rep % 3) ? rep * 17 + n + k : 0;
                g_out.assign(n, std::string()); for (int i = 0; i < n; ++i) g_finals[i] = 0;
                const range_t r(0, n, grain); std::string total; const char* what; std::string init;
                auto lam = [&](const range_t& rr, const std::string& v, bool is_final) { perturb(rr.begin()); std::string s = v; for (int i = rr.begin(); i != rr.end(); ++i) { s += sym(i); if (is_final) { g_out[i] = s; g_finals[i]++; } } return s; };
                auto comb = [](const std::string& a, const std::string& b) { return a + b; };
                switch (k) {
                    case 0: { what = "parallel_scan(range, body)"; init = "^"; ScanBody b(init); tbb::parallel_scan(r, b); total = b.sum; break; }
                    case 1: { what = "parallel_scan(range, body, simple_partitioner)"; init = "^"; ScanBody b(init); tbb::parallel_scan(r, b, tbb::simple_partitioner()); total = b.sum; break; }
                    case 2: { what = "parallel_scan(range, body, auto_partitioner)"; init = "^"; ScanBody b(init); tbb::parallel_scan(r, b, tbb::auto_partitioner()); total = b.sum; break; }
                    case 3: what = "parallel_scan(range, identity, scan, reverse_join)"; total = tbb::parallel_scan(r, std::string(), lam, comb); break;
                    case 4: what = "parallel_scan(range, identity, scan, reverse_join, simple_partitioner)"; total = tbb::parallel_scan(r, std::string(), lam, comb, tbb::simple_partitioner()); break;
                    default: what = "parallel_scan(range, identity, scan, reverse_join, auto_partitioner)"; total = tbb::parallel_scan(r, std::string(), lam, comb, tbb::auto_partitioner()); break;
                }
                ok = scan_check(what, n, grain, init, total);
            }
            g_perturb = 0;
        });
        if (!ok) return false;
    }
    return true;
}

int main(int argc, char** argv) {
    std::string job = argc > 1 ? argv[1] : "sort";
    std::setvbuf(stdout, nullptr, _IONBF, 0);
    if (job.rfind("sort", 0) == 0) return sort_recipe(job);
    if (job.rfind("scan", 0) == 0) { if (scan_recipe()) std::printf("NOT-REPRODUCED\n"); return 0; }
    if (job.rfind("detreduce", 0) == 0 || job == "reduce.dispatch") { if (det_reduce() && reduce_order()) std::printf("NOT-REPRODUCED\n"); return 0; }
    if (reduce_order() && det_reduce()) std::printf("NOT-REPRODUCED\n");
    return 0;
}
