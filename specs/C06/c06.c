/* C06 harnesses.  Every function body comes from an .inc file that spec.py slices out of the current tree on each run; this file holds types, callee stubs, ghost state, contracts and harnesses.
   Sections: SORT (pre-sortedness probe, dispatch, median_of_three) . SPLIT (quick_sort_range::split_range, loop contracts) . DISPATCH (all public reduce overloads) . FOLD (fold_tree, RG + loop contract)
             REDUCE / DETRED (start_reduce, start_deterministic_reduce, the two tree nodes) . LAMBDA (lambda_reduce_body) . SCAN (final_sum, sum_node, finish_scan, start_scan) . LSCAN (lambda_scan_body) */
#include "verif.h"
#include <stdlib.h>
#ifdef SORT
typedef int *RandomAccessIterator;
int *g_base; size_t g_n, g_p; bool g_inv, g_cancelled, g_pair_examined, g_sort_called; int g_mode;
#define TARGET (g_base + g_p + 1)
static bool COMP_AT(int *x, int *y) {
    OBLIGATION(__CPROVER_same_object(x, g_base) && __CPROVER_same_object(y, g_base) && x >= g_base && x < g_base + g_n && y >= g_base && y < g_base + g_n,
               "C06.probe: every compared position lies inside [begin,end) (k-1 is never before begin, k+1 never at end)");
    if (g_mode == 1) return *x < *y;                                   /* median harness: std::less<int> on the values */
    if (x == TARGET && y == g_base + g_p) { g_pair_examined = true; return g_inv; }   /* the ghost adjacent pair (p, p+1) */
    return nondet_bool();                                               /* any other pair: arbitrary contents */
}
static bool STUB_is_cancelled(void) { return g_cancelled; }
static void STUB_cancel(void) { g_cancelled = true; }
static void STUB_context_init(void) { g_cancelled = false; }
static void STUB_do_parallel_quick_sort(int *b, int *e) { OBLIGATION(b == g_base && e == g_base + g_n, "C06.probe: the whole sequence is handed to the sort"); g_sort_called = true; }
/* loop contract of the probe body: once the ghost pair's second element has been passed and the pair is an inversion, the context is cancelled */
#define LOOP_pretest_1 __CPROVER_assigns(k, i, g_cancelled, g_pair_examined) \
    __CPROVER_loop_invariant(i >= 0 && (long)i <= (long)(my_end - range_begin) && k == range_begin + i \
                             && (!(g_inv && (long)(range_begin - g_base) <= (long)(g_p + 1) && (long)(g_p + 1) < (long)(range_begin - g_base) + i) || g_cancelled)) \
    __CPROVER_decreases((long)(my_end - range_begin) - i)
#define LOOP_pqs_1
void pretest_body(RandomAccessIterator range_begin, RandomAccessIterator range_end);
static void STUB_parallel_for_pretest(int *first, int *last) {
    OBLIGATION(__CPROVER_same_object(first, g_base) && first >= g_base && first <= last && last == g_base + g_n, "C06.probe: the parallel probe ends at end and starts inside the sequence");
    /* some other chunk may already have found a different inversion */
    if (nondet_bool()) g_cancelled = true;
    if (first < last) {
        /* parallel_for tiles [first,last) into chunks (C05); take the chunk that holds the ghost pair's second element, or any chunk */
        size_t lo = nondet_size_t(), hi = nondet_size_t();
        __CPROVER_assume(lo < hi && hi <= (size_t)(last - first));
        if (TARGET >= first && TARGET < last) __CPROVER_assume(first + lo <= TARGET && TARGET < first + hi);
        pretest_body(first + lo, first + hi);
        OBLIGATION(!(g_inv && TARGET >= first + lo && TARGET < first + hi) || g_cancelled, "C06.probe: a chunk that contains an inverted pair cancels the probe");
    }
}
bool g_std_sort, g_pqs; int *g_arg_b, *g_arg_e;
static void STUB_std_sort(int *b, int *e) { g_std_sort = true; g_arg_b = b; g_arg_e = e; }
static void STUB_parallel_quick_sort(int *b, int *e) { g_pqs = true; g_arg_b = b; g_arg_e = e; }
#include "sort.inc"
size_t IN_n, IN_p, IN_a, IN_b;
void h_probe(void) {
    g_mode = 0;
    g_n = IN_n = nondet_size_t(); __CPROVER_assume(g_n >= 500 && g_n <= ((size_t)1 << 20));      /* parallel_sort only gets here for >= 500 elements */
    g_base = malloc(g_n * sizeof(int)); __CPROVER_assume(g_base != NULL);
    g_p = IN_p = nondet_size_t(); __CPROVER_assume(g_p < g_n - 1);                              /* an arbitrary adjacent pair (p, p+1) */
    g_inv = nondet_bool(); g_sort_called = false; g_pair_examined = false;
    parallel_quick_sort(g_base, g_base + g_n);
    OBLIGATION(!g_inv || g_sort_called, "C06.probe: an inversion at ANY adjacent position forces the sort (the probe can never call an unsorted input sorted)");
    VACUITY_END();
}
void h_dispatch(void) {
    g_mode = 0; g_n = 1 << 12; g_base = malloc(g_n * sizeof(int)); __CPROVER_assume(g_base != NULL);
    size_t a = IN_a = nondet_size_t(), b = IN_b = nondet_size_t(); __CPROVER_assume(a <= g_n && b <= g_n);
    g_std_sort = g_pqs = false;
    parallel_sort(g_base + a, g_base + b);
    OBLIGATION(b > a || (!g_std_sort && !g_pqs), "C06.dispatch: an empty or reversed iterator pair does nothing");
    OBLIGATION(!(b > a && b - a < 500) || (g_std_sort && !g_pqs && g_arg_b == g_base + a && g_arg_e == g_base + b), "C06.dispatch: fewer than 500 elements are sorted serially, whole range");
    OBLIGATION(!(b > a && b - a >= 500) || (g_pqs && !g_std_sort && g_arg_b == g_base + a && g_arg_e == g_base + b), "C06.dispatch: 500 or more elements go to the parallel quicksort, whole range");
    VACUITY_END();
}
size_t IN_l, IN_m, IN_r;
void h_median(void) {
    g_mode = 1; g_n = 4; g_base = malloc(g_n * sizeof(int)); __CPROVER_assume(g_base != NULL);
    size_t l = IN_l = nondet_size_t(), m = IN_m = nondet_size_t(), r = IN_r = nondet_size_t(); __CPROVER_assume(l < g_n && m < g_n && r < g_n);
    size_t x = median_of_three(g_base, l, m, r);
    OBLIGATION(x == l || x == m || x == r, "C06.median: the result is one of the three candidates");
    int vl = g_base[l], vm = g_base[m], vr = g_base[r], vx = g_base[x];
    int lo = vl < vm ? (vl < vr ? vl : vr) : (vm < vr ? vm : vr), hi = vl > vm ? (vl > vr ? vl : vr) : (vm > vr ? vm : vr);
    OBLIGATION((long)vx == (long)vl + vm + vr - lo - hi, "C06.median: its value is the median of the three values");
    VACUITY_END();
}
#endif /* SORT */

#ifdef DISPATCH
/* Every public overload of parallel_reduce / parallel_deterministic_reduce (sliced one by one from parallel_reduce.h; the descriptor row of each overload is derived
   from its SIGNATURE only: name, body form or functional form, partitioner class or none, context or none).  The runner is a stub that records how it was called. */
typedef long Value;
struct Range { int d; }; struct Body { int d; }; struct RealBody { int d; }; struct Reduction { int d; }; struct task_group_context { int d; };
struct simple_partitioner { int d; }; struct auto_partitioner { int d; }; struct static_partitioner { int d; }; struct affinity_partitioner { int d; };
struct lambda_reduce_body { Value *identity; struct RealBody *real_body; struct Reduction *reduction; Value my_value; int constructed; };
enum { K_start_reduce = 1, K_start_deterministic_reduce = 2 };
enum { N_parallel_reduce = 1, N_parallel_deterministic_reduce = 2 };
enum { FORM_BODY = 1, FORM_LAMBDA = 2 };
enum { TT_none = 0, TT_Range, TT_Body, TT_lambda_reduce_body_Range_Value_RealBody_Reduction, TT_simple_partitioner, TT_auto_partitioner, TT_static_partitioner, TT_affinity_partitioner };
static struct simple_partitioner g_temp_simple_partitioner; static struct auto_partitioner g_temp_auto_partitioner; static struct static_partitioner g_temp_static_partitioner; static struct affinity_partitioner g_temp_affinity_partitioner;
#define TEMP(T) (&g_temp_##T)
struct ov_args { struct Range *range; struct Body *body; Value *identity; struct RealBody *real_body; struct Reduction *reduction; struct task_group_context *context;
                 struct simple_partitioner *p_simple_partitioner; struct auto_partitioner *p_auto_partitioner; struct static_partitioner *p_static_partitioner; struct affinity_partitioner *p_affinity_partitioner; };
int g_runs, g_kind, g_t1, g_t2, g_t3, g_nargs; void *g_a_range, *g_a_body, *g_a_part, *g_a_ctx; Value g_result; int g_lctor; bool g_ran_on_lbody; void *g_l_identity, *g_l_real_body, *g_l_reduction; static struct lambda_reduce_body *g_lbody;
static void lambda_reduce_body_ctor(struct lambda_reduce_body *b, Value *identity, struct RealBody *rb, struct Reduction *red) { b->identity = identity; b->real_body = rb; b->reduction = red; b->my_value = *identity; b->constructed = 1; g_lctor++; g_lbody = b; g_l_identity = identity; g_l_real_body = rb; g_l_reduction = red; }
static Value lambda_reduce_body_result(struct lambda_reduce_body *b) { return b->my_value; }
static void run_(int kind, int t1, int t2, int t3, int nargs, void *range, void *body, void *part, void *ctx) {
    g_runs++; g_kind = kind; g_t1 = t1; g_t2 = t2; g_t3 = t3; g_nargs = nargs; g_a_range = range; g_a_body = body; g_a_part = part; g_a_ctx = ctx;
    if (t2 == TT_lambda_reduce_body_Range_Value_RealBody_Reduction && g_lctor > 0 && body == (void *)g_lbody) { g_ran_on_lbody = true; g_lbody->my_value = g_result; }    /* the reduction leaves its value in the body it was given */
}
#define STUB_run3(kind, t1, t2, t3, r, b, p) run_((kind), (t1), (t2), (t3), 3, (r), (b), (p), NULL)
#define STUB_run4(kind, t1, t2, t3, r, b, p, c) run_((kind), (t1), (t2), (t3), 4, (r), (b), (p), (c))
#include "dispatch.inc"
unsigned IN_overload;
static void *part_of(struct ov_args *A, int tag) { return tag == TT_simple_partitioner ? (void *)A->p_simple_partitioner : tag == TT_auto_partitioner ? (void *)A->p_auto_partitioner : tag == TT_static_partitioner ? (void *)A->p_static_partitioner : tag == TT_affinity_partitioner ? (void *)A->p_affinity_partitioner : NULL; }
static void *temp_of(int tag) { return tag == TT_simple_partitioner ? (void *)&g_temp_simple_partitioner : tag == TT_auto_partitioner ? (void *)&g_temp_auto_partitioner : tag == TT_static_partitioner ? (void *)&g_temp_static_partitioner : (void *)&g_temp_affinity_partitioner; }
#define CHECK_OV(i, fn, NAME, FORM, PART, HASCTX, SIG) \
    if (which == (i)) { Value r = call_##fn(&A); int want_part = (PART) != TT_none ? (PART) : ((NAME) == N_parallel_reduce ? TT_auto_partitioner : TT_simple_partitioner); \
        OBLIGATION(g_runs == 1, "C06.dispatch: " SIG " starts exactly one reduction"); \
        OBLIGATION((NAME) == N_parallel_deterministic_reduce ? g_kind == K_start_deterministic_reduce : (g_kind == K_start_reduce || g_kind == K_start_deterministic_reduce), \
                   "C06.dispatch: " SIG " ends in the runner whose contracts give what this entry point promises (parallel_deterministic_reduce: only start_deterministic_reduce, the eager split whose join tree does not depend on the schedule)"); \
        OBLIGATION(g_t3 == want_part, "C06.dispatch: " SIG " instantiates the runner for the partitioner class the caller chose (default: auto_partitioner for parallel_reduce, simple_partitioner for parallel_deterministic_reduce)"); \
        OBLIGATION(g_a_part == ((PART) != TT_none ? part_of(&A, (PART)) : temp_of(want_part)), "C06.dispatch: " SIG " hands the caller's own partitioner object to the runner (a fresh default one if none was given)"); \
        OBLIGATION(g_t1 == TT_Range && g_a_range == (void *)A.range, "C06.dispatch: " SIG " reduces the caller's range"); \
        OBLIGATION((HASCTX) ? (g_nargs == 4 && g_a_ctx == (void *)A.context) : g_nargs == 3, "C06.dispatch: " SIG " runs in the caller's task_group_context if one was given, otherwise in the runner's own bound context"); \
        if ((FORM) == FORM_BODY) OBLIGATION(g_t2 == TT_Body && g_a_body == (void *)A.body && g_lctor == 0, "C06.dispatch: " SIG " reduces into the caller's body"); \
        else { OBLIGATION(g_t2 == TT_lambda_reduce_body_Range_Value_RealBody_Reduction && g_lctor == 1 && g_ran_on_lbody && g_l_identity == (void *)A.identity && g_l_real_body == (void *)A.real_body && g_l_reduction == (void *)A.reduction, \
                          "C06.dispatch: " SIG " reduces into one lambda_reduce_body built from the caller's identity, range function and reduction (in that order)"); \
               OBLIGATION(r == g_result, "C06.dispatch: " SIG " returns the value the reduction left in that body"); } \
    }
void h_reduce_dispatch(void) {
    struct Range range; struct Body body; Value identity = nondet_long(); struct RealBody rb; struct Reduction red; struct task_group_context ctx;
    struct simple_partitioner ps; struct auto_partitioner pa; struct static_partitioner pst; struct affinity_partitioner paf;
    struct ov_args A = { &range, &body, &identity, &rb, &red, &ctx, &ps, &pa, &pst, &paf };
    g_runs = 0; g_lctor = 0; g_lbody = NULL; g_ran_on_lbody = false; g_l_identity = g_l_real_body = g_l_reduction = NULL; g_result = nondet_long(); g_kind = g_t1 = g_t2 = g_t3 = g_nargs = 0; g_a_range = g_a_body = g_a_part = g_a_ctx = NULL;
    unsigned which = IN_overload = nondet_unsigned(); __CPROVER_assume(which < C06_N_OVERLOADS);
    C06_OVERLOADS(CHECK_OV)
    VACUITY_END();
}
#endif /* DISPATCH */

#ifdef FOLD
/* partitioner.h fold_tree<TreeNodeType>: rely/guarantee on node::m_ref_count, for a tree of ANY depth (loop contract over the walk towards the root).
   The chain of ancestors is the array N[0..g_depth]: N[j]'s parent is N[j+1]; N[g_depth] is the wait_node (no parent).
   INV(j): N[j].m_ref_count == number of children of N[j] that have not finished yet (established by offer_work_impl: ref count 2 for two children; wait_node: 1).
   Rely: other children finish at any time - the count only decreases, and never below the references still held (mine is counted while g_mine).
   Guarantee of every step of this thread: INV again; a node is read, joined, freed only while this thread holds a counted reference to it or after its own
   decrement brought the count to 0 (then no other thread has any business with the node). */
typedef struct node { int m_ref_count; } node;
typedef node TreeNodeType; typedef node wait_node;
typedef struct execution_data { void *context; } execution_data;
#define DMAX ((size_t)1 << 12)
static node *N; static size_t g_depth, g_start;
size_t g_at;      /* ghost: the level this thread is at */
bool g_mine;      /* this thread is an unfinished child of N[g_at]: its reference is still counted */
bool g_excl;      /* this thread's decrement was the last one: ALL children of N[g_at] have finished */
bool g_joined;    /* N[g_at] has been joined by this thread */
long g_others;    /* ghost census: OTHER unfinished children of N[g_at] */
int g_released; size_t g_k; int g_join_k, g_free_k; void *g_ctx;
#define INV_AT (g_others >= 0 && g_others < INT_MAX && N[g_at].m_ref_count == g_others + (g_mine ? 1 : 0))
static void interfere(void) {   /* any number of other children of the node finish */
    if (g_mine) { long o = nondet_long(); __CPROVER_assume(o >= 0 && o <= g_others); g_others = o; N[g_at].m_ref_count = (int)(o + 1); }
}
#define ACCESS(x) __CPROVER_assert(&(x) == &N[g_at].m_ref_count && (g_mine || g_excl), "C06.fold: a node is touched only by a thread that still holds a counted reference to it, or whose decrement was the last (otherwise the node may already be freed)")
/* the word operated on is N[g_at].m_ref_count - ACCESS has just checked that this is the very word the code names; going through N[g_at] keeps CBMC from dereferencing a loop-havocked pointer */
#define W (N[g_at].m_ref_count)
#define ATOMIC_LOAD_AT(site, x) ({ ACCESS(x); interfere(); W; })
#define ATOMIC_PREDEC_AT(site, x) ({ ACCESS(x); interfere(); __CPROVER_assert(g_mine, "C06.fold: each finishing child decrements its parent's count exactly once"); int r_ = --W; g_mine = false; g_excl = (g_others == 0); \
    __CPROVER_assert(INV_AT, "guarantee: m_ref_count equals the number of unfinished children, at " #site); r_; })
#define ATOMIC_FETCH_SUB_AT(site, x, v) ({ ACCESS(x); interfere(); __CPROVER_assert(g_mine, "C06.fold: each finishing child decrements its parent's count exactly once"); int o_ = W; W -= (v); g_mine = false; g_excl = (g_others == 0); \
    __CPROVER_assert(INV_AT, "guarantee: m_ref_count equals the number of unfinished children, at " #site); o_; })
static node *node_parent(node *n) { __CPROVER_assert(n == &N[g_at] && (g_mine || g_excl), "C06.fold: the parent link is read from a node this thread may still touch"); return g_at == g_depth ? NULL : &N[g_at + 1]; }
#define NODE_PARENT(n) node_parent(n)
static void TreeNodeType_join(TreeNodeType *self, void *context) {
    __CPROVER_assert(self == &N[g_at] && g_at < g_depth, "C06.fold: join is applied to the tree node whose count was just decremented, never to the wait node");
    OBLIGATION(g_excl, "C06.fold: a node is joined only by the thread whose decrement brought m_ref_count to 0, i.e. after ALL children of that node have finished");
    OBLIGATION(!g_joined, "C06.fold: a node is joined at most once");
    OBLIGATION(context == g_ctx, "C06.fold: join sees the context of the executing task (cancellation test)");
    g_joined = true; if (g_at == g_k) g_join_k++;
}
static void STUB_delete_node(TreeNodeType *self, const execution_data *ed) {
    __CPROVER_assert(self == &N[g_at] && g_at < g_depth, "C06.fold: the node freed is the tree node whose count was just decremented, never the wait node");
    OBLIGATION(g_excl, "C06.fold: a node is freed only by the thread whose decrement brought m_ref_count to 0");
    OBLIGATION(g_joined, "C06.fold: a node is joined before it is destroyed (the right body lives inside the node)");
    if (g_at == g_k) g_free_k++;
    /* the finished subtree N[g_at] is now one finishing child of its parent: this thread's reference there is still counted */
    g_at++; g_mine = true; g_excl = false; g_joined = false; g_others = nondet_long(); __CPROVER_assume(g_others >= 0 && g_others < INT_MAX); N[g_at].m_ref_count = (int)(g_others + 1);
}
static void STUB_wait_release(wait_node *w) {
    __CPROVER_assert(w == &N[g_depth] && g_at == g_depth, "C06.fold: only the root wait node is released");
    OBLIGATION(g_excl, "C06.fold: the root's wait is released only by the thread whose decrement brought the root count to 0 (everything below has finished and was joined)");
    g_released++;
}
#define LOOP_fold_1 __CPROVER_assigns(n, g_at, g_mine, g_excl, g_joined, g_others, g_join_k, g_free_k, __CPROVER_object_whole(N)) \
    __CPROVER_loop_invariant(g_start <= g_at && g_at <= g_depth && n == &N[g_at] && g_mine && !g_excl && !g_joined && g_released == 0 && INV_AT \
        && g_join_k == ((g_k >= g_start && g_k < g_at) ? 1 : 0) && g_free_k == g_join_k) \
    __CPROVER_decreases(g_depth - g_at)
#include "fold.inc"
size_t IN_depth, IN_start, IN_k; long IN_others;
void h_fold(void) {
    g_depth = IN_depth = nondet_size_t(); __CPROVER_assume(g_depth <= DMAX);
    N = malloc((g_depth + 1) * sizeof(node)); __CPROVER_assume(N != NULL);
    g_start = g_at = IN_start = nondet_size_t(); __CPROVER_assume(g_start <= g_depth);          /* a finishing task hangs under any node of the chain, possibly directly under the wait node */
    g_k = IN_k = nondet_size_t(); __CPROVER_assume(g_k <= g_depth);
    g_mine = true; g_excl = false; g_joined = false; g_released = 0; g_join_k = g_free_k = 0;
    g_others = IN_others = nondet_long(); __CPROVER_assume(g_others >= 0 && g_others < INT_MAX); N[g_at].m_ref_count = (int)(g_others + 1);
    execution_data ed; ed.context = g_ctx = nondet_ptr();
    fold_tree(&N[g_at], &ed);
    OBLIGATION(!g_mine, "C06.fold: the finishing child has given up its reference (decremented exactly once per node it was counted in)");
    OBLIGATION(g_released ? (g_released == 1 && g_at == g_depth && g_excl) : !g_excl,
               "C06.fold: fold_tree stops only where other children are still unfinished (it was not the last there), or at the root after releasing the wait exactly once; the thread that brings a count to 0 never walks away from the node");
    OBLIGATION(g_join_k == ((g_k >= g_start && g_k < g_at) ? 1 : 0) && g_free_k == g_join_k, "C06.fold: every node this thread was the last child of is joined exactly once and then freed exactly once; no other node is joined or freed");
    VACUITY_END();
}
#endif /* FOLD */

#if defined(REDUCE) || defined(DETRED)
/* ---- vocabulary shared by the start_reduce / start_deterministic_reduce sections (types and callee stubs; the functions themselves come from reduce.inc / detred.inc) ---- */
typedef struct Range { size_t id; } Range;                 /* opaque: identity only; copying and splitting are callee stubs (blocked_range splitting: C05) */
typedef struct Body { int id; } Body;                      /* opaque user body */
typedef struct small_object_allocator { void *pool; } small_object_allocator;
typedef struct split_type { int d; } split_type; typedef unsigned char depth_t; typedef unsigned short slot_id;
typedef struct Partition { int divisor; } Partition; typedef struct Partitioner { int d; } Partitioner;
typedef struct task_group_context { int traits; bool cancelled; } task_group_context;
typedef struct execution_data { task_group_context *context; } execution_data;
typedef struct wait_context { int refs; } wait_context;
typedef struct task task;
/* node, tree_node, wait_node and the two reduction tree nodes as one C struct (base-class part first) */
typedef struct node { struct node *my_parent; int m_ref_count; small_object_allocator m_allocator; bool m_child_stolen; wait_context m_wait;
                      Body zombie; Body *left_body; bool has_right_zombie; Body right_body; } node;
typedef node tree_node_type; typedef node wait_node; typedef node tree_node;
#define ZOMBIE_BEGIN(n) (&(n)->zombie)
static split_type g_split_tag;
#define SPLIT_TAG g_split_tag
#define PARALLEL_REDUCE 7
#define ALLOCATOR_INIT(a) ((a).pool = NULL)
#define INIT_my_parent_1(s, e) ((s)->my_parent = (e))
#define INIT_m_ref_count_1(s, e) ((s)->m_ref_count = (e))
#define INIT_node_2(s, p, r) node_ctor((s), (p), (r))
#define INIT_m_allocator_1(s, a) ((s)->m_allocator = (a))
#define INIT_m_child_stolen_1(s, e) ((s)->m_child_stolen = (e))
#define INIT_m_wait_1(s, e) ((s)->m_wait.refs = (e))
#define INIT_tree_node_3(s, p, r, a) tree_node_ctor((s), (p), (r), &(a))
#define INIT_left_body_1(s, b) ((s)->left_body = &(b))              /* reference member bound to b */
#define INIT_has_right_zombie_1(s, e) ((s)->has_right_zombie = (e))
#define INIT_right_body_2(s, b, tag) Body_split_ctor(&(s)->right_body, &(b))
#define INIT_my_range_1(s, r) Range_copy_ctor(&(s)->my_range, &(r))
#define INIT_my_range_2(s, r, so) Range_split_ctor(&(s)->my_range, &(r), (so))
#define INIT_my_partition_1(s, p) Partition_ctor(&(s)->my_partition, &(p))
#define INIT_my_partition_2(s, p, so) Partition_split_ctor(&(s)->my_partition, &(p), &(so))
#define INIT_my_allocator_1(s, a) ((s)->my_allocator = (a))
#define INIT_is_right_child_1(s, e) ((s)->is_right_child = (e))
#define STUB_get_range_split_object(so) (&(so))
Body *g_zombie_place; bool *g_zombie_flag;
int g_rcopies, g_rsplits, g_bsplits, g_bjoins, g_psplits; Range *g_rsplit_dst, *g_rsplit_src, *g_rcopy_dst; const Range *g_rcopy_src; Body *g_bsplit_dst, *g_bsplit_src, *g_bjoin_dst, *g_bjoin_src; void *g_rsplit_obj;
static void Range_copy_ctor(Range *dst, const Range *src) { g_rcopies++; g_rcopy_dst = dst; g_rcopy_src = src; dst->id = src->id; }
static void Range_split_ctor(Range *dst, Range *src, void *so) { g_rsplits++; g_rsplit_dst = dst; g_rsplit_src = src; g_rsplit_obj = so; dst->id = nondet_size_t(); src->id = nondet_size_t(); }   /* Range(r, split): *dst = the right part, *src shrinks to the left part */
static bool range_empty_(const Range *r) { return r->id == 0; }
#define Range_empty(r) range_empty_(&(r))
static Body *Body_split_ctor(Body *place, Body *src) {   /* Body(src, split()) constructed at place: user code, may throw */
    if (g_zombie_place != NULL && place == g_zombie_place)
        __CPROVER_assert(!*g_zombie_flag, "C06.lazy_split: the join node claims a zombie body (has_right_zombie) only after that body's split constructor has returned - if the constructor throws, ~reduction_tree_node must not destroy storage no Body was constructed in");
    g_bsplits++; g_bsplit_dst = place; g_bsplit_src = src; place->id = nondet_int(); return place; }
static void Body_join(Body *dst, Body *src) { g_bjoins++; g_bjoin_dst = dst; g_bjoin_src = src; }                                                        /* dst.join(src) */
static void Partition_ctor(Partition *dst, Partitioner *p) { dst->divisor = nondet_int(); }
static void Partition_split_ctor(Partition *dst, Partition *src, split_type *so) { g_psplits++; dst->divisor = nondet_int(); src->divisor = nondet_int(); }
static void Partition_align_depth(Partition *p, depth_t d) { }
static void Partition_note_affinity(Partition *p, slot_id s) { }
static bool STUB_is_same_affinity(execution_data *ed) { return nondet_bool(); }
static slot_id STUB_execution_slot(execution_data *ed) { return nondet_ushort(); }
static task_group_context *STUB_context(execution_data *ed) { return ed->context; }
static bool STUB_is_cancelled(task_group_context *c) { return c->cancelled; }
#define CONTEXT_CTOR(c, traits_) ((c).traits = (traits_), (c).cancelled = false)
void node_ctor(struct node *self, struct node *parent, int ref_count);
void tree_node_ctor(struct node *self, struct node *parent, int ref_count, small_object_allocator *alloc);
void wait_node_ctor(struct node *self);
#define WAIT_NODE_CTOR(w) wait_node_ctor(&(w))
#endif

#ifdef REDUCE
/* parallel_reduce.h: struct start_reduce and reduction_tree_node.  The lazy body split in execute() is a rely/guarantee argument on the parent's m_ref_count:
   while this right child has not finished the count is 2 until the whole left subtree has folded, then 1, and it never goes back (fold_tree only decrements). */
struct start_reduce { Range my_range; Body *my_body; node *my_parent; Partition my_partition; small_object_allocator my_allocator; bool is_right_child; };
#define INIT_my_body_1(s, e) ((s)->my_body = (e))
static struct start_reduce g_new_task; static node g_new_node; int g_task_allocs, g_node_allocs;
static struct start_reduce *alloc_task(small_object_allocator *a) { g_task_allocs++; return &g_new_task; }
static node *alloc_node(small_object_allocator *a) { g_node_allocs++; return &g_new_node; }
void start_reduce_ctor_root(struct start_reduce *self, const Range *range, Body *body, Partitioner *partitioner, small_object_allocator *alloc);
void start_reduce_ctor_split(struct start_reduce *self, struct start_reduce *parent_, split_type *split_obj, small_object_allocator *alloc);
void start_reduce_ctor_demand(struct start_reduce *self, struct start_reduce *parent_, const Range *r, depth_t d, small_object_allocator *alloc);
void reduction_tree_node_ctor(struct node *self, struct node *parent, int ref_count, Body *input_left_body, small_object_allocator *alloc);
#define NEW_start_reduce_root(a, r, b, p, a2) ({ struct start_reduce *t_ = alloc_task(&(a)); start_reduce_ctor_root(t_, &(r), &(b), &(p), &(a2)); t_; })
#define NEW_start_reduce_split(a, ed, par, so, a2) ({ struct start_reduce *t_ = alloc_task(&(a)); start_reduce_ctor_split(t_, &(par), &(so), &(a2)); t_; })
#define NEW_start_reduce_demand(a, ed, par, r, d, a2) ({ struct start_reduce *t_ = alloc_task(&(a)); start_reduce_ctor_demand(t_, &(par), &(r), (d), &(a2)); t_; })
#define NEW_tree_node(a, ed, parent, rc, lb, a2) ({ node *n_ = alloc_node(&(a)); reduction_tree_node_ctor(n_, (parent), (rc), &(lb), &(a2)); n_; })
/* ghost state of the scenario */
static struct start_reduce T; static node P, P2; static Body LB, OB; static Range g_r; static Body g_body; static Partitioner g_partitioner; static task_group_context g_ctx;
bool g_is_right0, g_left_done, g_left_done_when_read; int g_loads, g_pexec, g_dtor, g_folds, g_deallocs, g_spawns, g_waits, g_run4s; Body *g_body0, *g_body_used; node *g_parent_at_exit; void *g_pool0; bool g_zombie_flag0;
/* rely: the left sibling's subtree may fold at any moment: 2 -> 1, once */
static void interfere(void) { if (g_is_right0 && !g_left_done && nondet_bool()) { g_left_done = true; P.m_ref_count = 1; } }
#define ATOMIC_LOAD_AT(site, x) ({ interfere(); __CPROVER_assert(&(x) == &P.m_ref_count, "C06.lazy_split: the count consulted is the parent's"); g_loads++; g_left_done_when_read = g_left_done; (x); })
static bool Partition_check_being_stolen(Partition *p, struct start_reduce *t, execution_data *ed) { return nondet_bool(); }
static void Partition_execute(Partition *p, struct start_reduce *t, Range *r, execution_data *ed) {
    interfere();
    OBLIGATION(t == &T && r == &T.my_range && p == &T.my_partition, "C06.execute: the partitioner works on this task and this task's own range");
    g_pexec++; g_body_used = T.my_body;                       /* run_body() applies *my_body to pieces of my_range */
    if (g_is_right0) {
        if (g_body_used == &LB) OBLIGATION(g_loads >= 1 && g_left_done_when_read,
            "C06.lazy_split: a right child keeps accumulating into the left sibling's body only if the whole left subtree had already finished when the parent's count was read (count no longer 2); otherwise two tasks would update one body at once and operands could be folded out of order");
        else OBLIGATION(g_body_used == &P.zombie && g_bsplits == 1 && g_bsplit_dst == &P.zombie && g_bsplit_src == &LB,
            "C06.lazy_split: otherwise the right child works on ONE fresh body split off the left body, constructed in its own parent's zombie space (so that it is joined back into exactly the body it was split from)");
    } else OBLIGATION(g_body_used == g_body0 && g_bsplits == 0, "C06.lazy_split: a left child (or the root) keeps its body and never constructs a zombie");
    if (nondet_bool()) T.my_parent = &P2;                       /* offer_work() may hang this task under a new tree node */
    g_parent_at_exit = T.my_parent;
}
static void STUB_task_dtor(struct start_reduce *t) { g_dtor++; g_pool0 = t->my_allocator.pool; t->my_parent = NULL; t->my_body = NULL; t->my_allocator.pool = NULL; }   /* the task object is dead: its fields are poisoned */
static void STUB_fold_tree(node *parent, const execution_data *ed) {
    g_folds++;
    OBLIGATION(parent == g_parent_at_exit && parent != NULL, "C06.finalize: completion is reported to the node this task hangs under NOW (read before the task is destroyed)");
    if (g_pexec) {
        OBLIGATION(g_body_used != &P.zombie || P.has_right_zombie, "C06.lazy_split: a body split into the zombie space is marked present before completion is reported, so that the join merges it (left.join(zombie))");
        OBLIGATION(!(g_is_right0 && P.has_right_zombie) || (g_bsplits == 1 && g_body_used == &P.zombie), "C06.lazy_split: has_right_zombie is set only if a body was really constructed there and used");
        OBLIGATION(g_is_right0 || P.has_right_zombie == g_zombie_flag0, "C06.lazy_split: a left child never touches its parent's zombie flag (it belongs to the right sibling)");
    }
}
static void STUB_deallocate(small_object_allocator *a, struct start_reduce *t, const execution_data *ed) { g_deallocs++; OBLIGATION(t == &T && a->pool == g_pool0 && g_dtor == 1, "C06.finalize: the task is freed once, after its destruction, with the allocator it was created from"); }
static void Partition_spawn_task(Partition *p, struct start_reduce *t, task_group_context *c) {
    g_spawns++;
    OBLIGATION(t == &g_new_task && p == &g_new_task.my_partition && c == &g_ctx, "C06.offer_work: the task spawned is the new right child, in the context of the running task");
    OBLIGATION(g_node_allocs == 1 && t->my_parent == &g_new_node && g_new_node.m_ref_count == 2 && g_new_node.left_body == &LB && !g_new_node.has_right_zombie && t->is_right_child && t->my_body == &LB,
               "C06.offer_work: when the right child becomes visible to thieves it already hangs under the new join node (count 2, left body = the splitting task's body, no zombie yet), is marked as right child and provisionally points at the left body");
}
struct start_reduce *g_ew_task; void *g_ew_c1, *g_ew_c2, *g_ew_w;
#define EXECUTE_AND_WAIT(t, c1, w, c2) do { g_waits++; g_ew_task = &(t); g_ew_c1 = &(c1); g_ew_w = &(w); g_ew_c2 = &(c2); \
    OBLIGATION(g_ew_task == &g_new_task && g_ew_task->my_body == &g_body && g_ew_task->my_range.id == g_r.id && g_rcopies == 1 && g_rcopy_src == &g_r && !g_ew_task->is_right_child, "C06.run: the root task covers the caller's whole range and reduces into the caller's body; it is not a right child"); \
    OBLIGATION(g_ew_task->my_parent != NULL && g_ew_task->my_parent->my_parent == NULL && g_ew_task->my_parent->m_ref_count == 1 && g_ew_w == (void *)&g_ew_task->my_parent->m_wait && g_ew_task->my_parent->m_wait.refs == 1, \
               "C06.run: the root task hangs under a wait node (no parent, count 1) and the caller waits on that node's wait_context"); \
    OBLIGATION(g_ew_c1 == (void *)&g_ctx && g_ew_c2 == (void *)&g_ctx, "C06.run: the reduction runs and is waited for in the caller's context"); } while (0)
void *g_r4_range, *g_r4_body, *g_r4_part; task_group_context *g_r4_ctx; int g_r4_traits;
#define RUN4(r, b, p, c) do { g_run4s++; g_r4_range = (void *)&(r); g_r4_body = &(b); g_r4_part = &(p); g_r4_ctx = &(c); g_r4_traits = (c).traits; } while (0)
#include "reduce.inc"
static void reset_ghost(void) { g_rcopies = g_rsplits = g_bsplits = g_bjoins = g_psplits = g_loads = g_pexec = g_dtor = g_folds = g_deallocs = g_spawns = g_waits = g_run4s = g_task_allocs = g_node_allocs = 0; g_left_done = g_left_done_when_read = false; g_body_used = NULL; }
static void mk_task(void) {    /* an arbitrary task that is about to run: the root, a left child, or a right child created by offer_work_impl (post-state of that function) */
    reset_ghost();
    g_is_right0 = T.is_right_child = nondet_bool(); T.my_parent = &P; T.my_allocator.pool = nondet_ptr(); T.my_range.id = nondet_size_t(); g_ctx.cancelled = nondet_bool();
    P.my_parent = nondet_bool() ? &P2 : NULL; P2.my_parent = NULL; P2.m_ref_count = 1;
    if (g_is_right0) { T.my_body = &LB; P.left_body = &LB; P.has_right_zombie = false; g_left_done = nondet_bool(); P.m_ref_count = g_left_done ? 1 : 2; }
    else { T.my_body = nondet_bool() ? &LB : &OB; P.left_body = T.my_body; P.has_right_zombie = nondet_bool(); P.m_ref_count = nondet_bool() ? 1 : 2; }
    g_body0 = T.my_body; g_zombie_flag0 = P.has_right_zombie; g_parent_at_exit = &P; g_zombie_place = &P.zombie; g_zombie_flag = &P.has_right_zombie;
}
void h_red_execute(void) {
    mk_task(); execution_data ed; ed.context = &g_ctx;
    task *r = start_reduce_execute(&T, &ed);
    OBLIGATION(g_pexec == 1, "C06.execute: the task's range is processed exactly once");
    OBLIGATION(g_folds == 1 && g_dtor == 1 && g_deallocs == 1, "C06.execute: the finished task reports completion to its parent exactly once (one fold_tree per task) and is destroyed and freed once");
    OBLIGATION(r == NULL, "C06.execute: no task is returned for bypass");
    VACUITY_END();
}
void h_red_cancel(void) {
    mk_task(); execution_data ed; ed.context = &g_ctx;
    task *r = start_reduce_cancel(&T, &ed);
    OBLIGATION(g_pexec == 0 && g_bsplits == 0 && g_body0 == g_body0, "C06.cancel: a cancelled task processes nothing and splits no body");
    OBLIGATION(g_folds == 1 && g_dtor == 1 && g_deallocs == 1 && r == NULL, "C06.cancel: a cancelled task still reports completion to its parent exactly once (the count must reach 0 for the join/wait to be released)");
    VACUITY_END();
}
static void offer_post(bool demand, Range *r) {
    struct start_reduce *R = &g_new_task; node *NN = &g_new_node;
    OBLIGATION(g_task_allocs == 1 && g_node_allocs == 1 && g_spawns == 1, "C06.offer_work: one right child and one join node are created, and exactly the right child is spawned");
    OBLIGATION(NN->my_parent == &P && NN->m_ref_count == 2 && NN->left_body == &LB && !NN->has_right_zombie, "C06.offer_work: the new join node takes this task's place under the old parent, counts two children, remembers the LEFT body and holds no zombie yet");
    OBLIGATION(T.my_parent == NN && R->my_parent == NN, "C06.offer_work: both children hang under the new join node");
    OBLIGATION(T.my_body == &LB && R->my_body == &LB && R->is_right_child && g_bsplits == 0, "C06.offer_work: the left child keeps its body; the right child is marked as right child and only borrows the left body pointer - no body is split here (lazy split: decided in execute)");
    if (!demand) OBLIGATION(g_rsplits == 1 && g_rsplit_dst == &R->my_range && g_rsplit_src == &T.my_range && g_rcopies == 0, "C06.offer_work: the right child's range is the part split off this task's own range; this task keeps the left part (each element stays in exactly one of the two)");
    else OBLIGATION(g_rcopies == 1 && g_rcopy_dst == &R->my_range && g_rcopy_src == r && g_rsplits == 0, "C06.offer_work: the right child gets exactly the range handed over by the range pool");
    OBLIGATION(P.m_ref_count == 2 && P.left_body == &OB, "C06.offer_work: the old parent is not touched (the new node inherits this task's reference)");
}
static void mk_splitter(void) { reset_ghost(); T.is_right_child = nondet_bool(); T.my_parent = &P; T.my_body = &LB; T.my_range.id = nondet_size_t(); P.m_ref_count = 2; P.left_body = &OB; P.my_parent = NULL; g_is_right0 = false; }
void h_red_offer_split(void) {
    mk_splitter(); execution_data ed; ed.context = &g_ctx; split_type so;
    start_reduce_offer_work_impl_split(&T, &ed, &T, &so);
    offer_post(false, NULL);
    VACUITY_END();
}
void h_red_offer_demand(void) {
    mk_splitter(); execution_data ed; ed.context = &g_ctx; Range r; r.id = nondet_size_t(); depth_t d = nondet_uchar();
    start_reduce_offer_work_impl_demand(&T, &ed, &T, &r, d);
    offer_post(true, &r);
    OBLIGATION(g_new_task.my_range.id == r.id, "C06.offer_work: the handed-over range is copied unchanged");
    VACUITY_END();
}
void h_red_run4(void) {
    reset_ghost(); g_r.id = nondet_size_t(); g_ctx.cancelled = nondet_bool();
    start_reduce_run4(&g_r, &g_body, &g_partitioner, &g_ctx);
    OBLIGATION(g_r.id == 0 ? (g_waits == 0 && g_task_allocs == 0) : (g_waits == 1 && g_task_allocs == 1), "C06.run: an empty range starts nothing (the body is left untouched); otherwise exactly one root task is run and waited for");
    VACUITY_END();
}
void h_red_run3(void) {
    reset_ghost(); g_r.id = nondet_size_t();
    start_reduce_run3(&g_r, &g_body, &g_partitioner);
    OBLIGATION(g_run4s == 1 && g_r4_range == (void *)&g_r && g_r4_body == (void *)&g_body && g_r4_part == (void *)&g_partitioner && g_r4_ctx != NULL && g_r4_traits == PARALLEL_REDUCE,
               "C06.run: without a context the same range, body and partitioner are run once in a fresh bound context");
    VACUITY_END();
}
void h_red_join(void) {
    reset_ghost(); node n; n.left_body = &LB; n.has_right_zombie = nondet_bool(); g_ctx.cancelled = nondet_bool();
    reduction_tree_node_join(&n, &g_ctx);
    if (n.has_right_zombie && !g_ctx.cancelled) OBLIGATION(g_bjoins == 1 && g_bjoin_dst == &LB && g_bjoin_src == &n.zombie, "C06.join: the zombie (right) body is merged INTO the left body - left.join(right), never the other way round - exactly once");
    else OBLIGATION(g_bjoins == 0, "C06.join: nothing is joined when no right body was ever constructed (the zombie space is raw memory) or when the group is cancelled");
    VACUITY_END();
}
#endif /* REDUCE */

#ifdef DETRED
/* parallel_reduce.h: struct start_deterministic_reduce and deterministic_reduction_tree_node: the body is split EAGERLY when the join node is built; nothing in these
   functions may consult a reference count or a stolen flag (any atomic operation on them is an obligation failure): the split/join tree is a function of range and partition only. */
struct start_deterministic_reduce { Range my_range; Body *my_body; node *my_parent; Partition my_partition; small_object_allocator my_allocator; };
#define INIT_my_body_1(s, e) ((s)->my_body = &(e))                /* reference member bound to e */
static struct start_deterministic_reduce g_new_task; static node g_new_node; int g_task_allocs, g_node_allocs;
static struct start_deterministic_reduce *alloc_task(small_object_allocator *a) { g_task_allocs++; return &g_new_task; }
static node *alloc_node(small_object_allocator *a) { g_node_allocs++; return &g_new_node; }
void start_deterministic_reduce_ctor_root(struct start_deterministic_reduce *self, const Range *range, Partitioner *partitioner, Body *body, small_object_allocator *alloc);
void start_deterministic_reduce_ctor_split(struct start_deterministic_reduce *self, struct start_deterministic_reduce *parent_, split_type *split_obj, Body *body, small_object_allocator *alloc);
void deterministic_reduction_tree_node_ctor(struct node *self, struct node *parent, int ref_count, Body *input_left_body, small_object_allocator *alloc);
#define NEW_start_deterministic_reduce_root(a, r, p, b, a2) ({ struct start_deterministic_reduce *t_ = alloc_task(&(a)); start_deterministic_reduce_ctor_root(t_, &(r), &(p), &(b), &(a2)); t_; })
#define NEW_start_deterministic_reduce_split(a, ed, par, so, b, a2) ({ struct start_deterministic_reduce *t_ = alloc_task(&(a)); start_deterministic_reduce_ctor_split(t_, &(par), &(so), &(b), &(a2)); t_; })
#define NEW_det_tree_node(a, ed, parent, rc, lb, a2) ({ node *n_ = alloc_node(&(a)); deterministic_reduction_tree_node_ctor(n_, (parent), (rc), &(lb), &(a2)); n_; })
static struct start_deterministic_reduce T; static node P, P2; static Body LB; static Range g_r; static Body g_body; static Partitioner g_partitioner; static task_group_context g_ctx;
int g_pexec, g_dtor, g_folds, g_deallocs, g_spawns, g_waits, g_run4s, g_atomic; Body *g_body0, *g_body_used; node *g_parent_at_exit; void *g_pool0;
#define SCHEDULE_DEPENDENT(x) ({ g_atomic++; OBLIGATION(0, "C06.deterministic: parallel_deterministic_reduce never consults a reference count or a stolen flag: where bodies are split and joined depends on range and partition only, never on the schedule"); (x); })
#define ATOMIC_LOAD_AT(site, x) SCHEDULE_DEPENDENT(x)
#define ATOMIC_LOAD(x) SCHEDULE_DEPENDENT(x)
static bool Partition_check_being_stolen(Partition *p, struct start_deterministic_reduce *t, execution_data *ed) { return nondet_bool(); }
static void Partition_execute(Partition *p, struct start_deterministic_reduce *t, Range *r, execution_data *ed) {
    OBLIGATION(t == &T && r == &T.my_range && p == &T.my_partition, "C06.execute: the partitioner works on this task and this task's own range");
    g_pexec++; g_body_used = T.my_body;
    OBLIGATION(g_body_used == g_body0 && g_bsplits == 0, "C06.deterministic: a task works on the body it was created with - execute() never splits or swaps bodies (the split happened when the join node was built)");
    if (nondet_bool()) T.my_parent = &P2;
    g_parent_at_exit = T.my_parent;
}
static void STUB_task_dtor(struct start_deterministic_reduce *t) { g_dtor++; g_pool0 = t->my_allocator.pool; t->my_parent = NULL; t->my_body = NULL; t->my_allocator.pool = NULL; }
static void STUB_fold_tree(node *parent, const execution_data *ed) { g_folds++; OBLIGATION(parent == g_parent_at_exit && parent != NULL, "C06.finalize: completion is reported to the node this task hangs under NOW (read before the task is destroyed)"); }
static void STUB_deallocate(small_object_allocator *a, struct start_deterministic_reduce *t, const execution_data *ed) { g_deallocs++; OBLIGATION(t == &T && a->pool == g_pool0 && g_dtor == 1, "C06.finalize: the task is freed once, after its destruction, with the allocator it was created from"); }
static void Partition_spawn_task(Partition *p, struct start_deterministic_reduce *t, task_group_context *c) {
    g_spawns++;
    OBLIGATION(t == &g_new_task && p == &g_new_task.my_partition && c == &g_ctx, "C06.offer_work: the task spawned is the new right child, in the context of the running task");
    OBLIGATION(g_node_allocs == 1 && t->my_parent == &g_new_node && g_new_node.m_ref_count == 2 && g_new_node.left_body == &LB && t->my_body == &g_new_node.right_body && g_bsplits == 1,
               "C06.offer_work: when the right child becomes visible to thieves it already hangs under the new join node (count 2, left body = the splitting task's body) and owns the node's freshly split right body");
}
struct start_deterministic_reduce *g_ew_task; void *g_ew_c1, *g_ew_c2, *g_ew_w;
#define EXECUTE_AND_WAIT(t, c1, w, c2) do { g_waits++; g_ew_task = &(t); g_ew_c1 = &(c1); g_ew_w = &(w); g_ew_c2 = &(c2); \
    OBLIGATION(g_ew_task == &g_new_task && g_ew_task->my_body == &g_body && g_ew_task->my_range.id == g_r.id && g_rcopies == 1 && g_rcopy_src == &g_r, "C06.run: the root task covers the caller's whole range and reduces into the caller's body"); \
    OBLIGATION(g_ew_task->my_parent != NULL && g_ew_task->my_parent->my_parent == NULL && g_ew_task->my_parent->m_ref_count == 1 && g_ew_w == (void *)&g_ew_task->my_parent->m_wait && g_ew_task->my_parent->m_wait.refs == 1, \
               "C06.run: the root task hangs under a wait node (no parent, count 1) and the caller waits on that node's wait_context"); \
    OBLIGATION(g_ew_c1 == (void *)&g_ctx && g_ew_c2 == (void *)&g_ctx, "C06.run: the reduction runs and is waited for in the caller's context"); } while (0)
void *g_r4_range, *g_r4_body, *g_r4_part; task_group_context *g_r4_ctx; int g_r4_traits;
#define RUN4(r, b, p, c) do { g_run4s++; g_r4_range = (void *)&(r); g_r4_body = &(b); g_r4_part = &(p); g_r4_ctx = &(c); g_r4_traits = (c).traits; } while (0)
#include "detred.inc"
static void reset_ghost(void) { g_rcopies = g_rsplits = g_bsplits = g_bjoins = g_psplits = g_pexec = g_dtor = g_folds = g_deallocs = g_spawns = g_waits = g_run4s = g_task_allocs = g_node_allocs = g_atomic = 0; g_body_used = NULL; }
static void mk_task(void) {
    reset_ghost(); T.my_parent = &P; T.my_allocator.pool = nondet_ptr(); T.my_range.id = nondet_size_t(); T.my_body = nondet_bool() ? &LB : &P.right_body; g_ctx.cancelled = nondet_bool();
    P.my_parent = nondet_bool() ? &P2 : NULL; P.m_ref_count = nondet_bool() ? 1 : 2; P.left_body = &LB; P2.my_parent = NULL; P2.m_ref_count = 1;
    g_body0 = T.my_body; g_parent_at_exit = &P;
}
void h_det_execute(void) {
    mk_task(); execution_data ed; ed.context = &g_ctx;
    task *r = start_deterministic_reduce_execute(&T, &ed);
    OBLIGATION(g_pexec == 1, "C06.execute: the task's range is processed exactly once");
    OBLIGATION(g_folds == 1 && g_dtor == 1 && g_deallocs == 1 && r == NULL, "C06.execute: the finished task reports completion to its parent exactly once (one fold_tree per task) and is destroyed and freed once");
    OBLIGATION(g_atomic == 0, "C06.deterministic: no schedule-dependent state was read");
    VACUITY_END();
}
void h_det_cancel(void) {
    mk_task(); execution_data ed; ed.context = &g_ctx;
    task *r = start_deterministic_reduce_cancel(&T, &ed);
    OBLIGATION(g_pexec == 0 && g_bsplits == 0, "C06.cancel: a cancelled task processes nothing and splits no body");
    OBLIGATION(g_folds == 1 && g_dtor == 1 && g_deallocs == 1 && r == NULL, "C06.cancel: a cancelled task still reports completion to its parent exactly once");
    VACUITY_END();
}
void h_det_offer(void) {
    reset_ghost(); T.my_parent = &P; T.my_body = &LB; T.my_range.id = nondet_size_t(); P.m_ref_count = nondet_bool() ? 1 : 2; P.my_parent = NULL; P.m_child_stolen = nondet_bool(); int rc0 = P.m_ref_count;
    execution_data ed; ed.context = &g_ctx; split_type so;
    start_deterministic_reduce_offer_work_impl(&T, &ed, &T, &so);
    struct start_deterministic_reduce *R = &g_new_task; node *NN = &g_new_node;
    OBLIGATION(g_task_allocs == 1 && g_node_allocs == 1 && g_spawns == 1, "C06.offer_work: one right child and one join node are created, and exactly the right child is spawned");
    OBLIGATION(NN->my_parent == &P && NN->m_ref_count == 2 && NN->left_body == &LB, "C06.offer_work: the new join node takes this task's place under the old parent, counts two children and remembers the LEFT body");
    OBLIGATION(g_bsplits == 1 && g_bsplit_dst == &NN->right_body && g_bsplit_src == &LB, "C06.deterministic: the body is split eagerly, exactly once per range split: the node's right body is split off the splitting task's body - whatever the schedule");
    OBLIGATION(T.my_body == &LB && R->my_body == &NN->right_body, "C06.deterministic: the left child keeps its body, the right child works on the new node's right body (joined back into exactly the body it was split from)");
    OBLIGATION(T.my_parent == NN && R->my_parent == NN, "C06.offer_work: both children hang under the new join node");
    OBLIGATION(g_rsplits == 1 && g_rsplit_dst == &R->my_range && g_rsplit_src == &T.my_range && g_rcopies == 0, "C06.offer_work: the right child's range is the part split off this task's own range; this task keeps the left part");
    OBLIGATION(g_atomic == 0 && P.m_ref_count == rc0, "C06.deterministic: no reference count or stolen flag is consulted or changed when splitting");
    VACUITY_END();
}
void h_det_run4(void) {
    reset_ghost(); g_r.id = nondet_size_t(); g_ctx.cancelled = nondet_bool();
    start_deterministic_reduce_run4(&g_r, &g_body, &g_partitioner, &g_ctx);
    OBLIGATION(g_r.id == 0 ? (g_waits == 0 && g_task_allocs == 0) : (g_waits == 1 && g_task_allocs == 1), "C06.run: an empty range starts nothing (the body is left untouched); otherwise exactly one root task is run and waited for");
    OBLIGATION(g_bsplits == 0, "C06.run: the root works on the caller's body itself");
    VACUITY_END();
}
void h_det_run3(void) {
    reset_ghost(); g_r.id = nondet_size_t();
    start_deterministic_reduce_run3(&g_r, &g_body, &g_partitioner);
    OBLIGATION(g_run4s == 1 && g_r4_range == (void *)&g_r && g_r4_body == (void *)&g_body && g_r4_part == (void *)&g_partitioner && g_r4_ctx != NULL && g_r4_traits == PARALLEL_REDUCE,
               "C06.run: without a context the same range, body and partitioner are run once in a fresh bound context");
    VACUITY_END();
}
void h_det_join(void) {
    reset_ghost(); node n; n.left_body = &LB; g_ctx.cancelled = nondet_bool();
    deterministic_reduction_tree_node_join(&n, &g_ctx);
    if (!g_ctx.cancelled) OBLIGATION(g_bjoins == 1 && g_bjoin_dst == &LB && g_bjoin_src == &n.right_body, "C06.join: the node's right body is merged INTO the left body - left.join(right), never the other way round - exactly once");
    else OBLIGATION(g_bjoins == 0, "C06.join: nothing is joined when the group is cancelled");
    VACUITY_END();
}
#endif /* DETRED */

#ifdef LAMBDA
/* parallel_reduce.h lambda_reduce_body: the adaptor behind the functional overloads.  Values are symbolic tokens (free-monoid view): the user's functions are stubs that
   record their operands IN ORDER and return a fresh token, so an operand swap or a lost/duplicated operand shows up as a different record. */
typedef long Value; typedef struct Range { int d; } Range; typedef struct RealBody { int d; } RealBody; typedef struct Reduction { int d; } Reduction;
struct lambda_reduce_body { const Value *my_identity_element; const RealBody *my_real_body; const Reduction *my_reduction; Value my_value; };
#define INIT_my_identity_element_1(s, e) ((s)->my_identity_element = &(e))
#define INIT_my_real_body_1(s, e) ((s)->my_real_body = &(e))
#define INIT_my_reduction_1(s, e) ((s)->my_reduction = &(e))
#define INIT_my_value_1(s, e) ((s)->my_value = (e))
#define MOVE(x) (x)
static RealBody g_rb; static Reduction g_red; static Value g_identity; int g_calls; const void *g_f; const void *g_arg1; Value g_op1, g_op2, g_out;
static Value invoke_(const void *f, const void *a, const void *b) {
    g_calls++; g_f = f; g_out = nondet_long();
    if (f == (const void *)&g_rb) { g_arg1 = a; g_op2 = *(const Value *)b; }           /* real_body(range, running value) */
    else { g_op1 = *(const Value *)a; g_op2 = *(const Value *)b; }                       /* reduction(left, right) */
    return g_out;
}
#define INVOKE(f, a, b) invoke_(&(f), &(a), &(b))
#include "lambda.inc"
static void mk_body(struct lambda_reduce_body *b) { b->my_identity_element = &g_identity; b->my_real_body = &g_rb; b->my_reduction = &g_red; b->my_value = nondet_long(); }
void h_lambda_join(void) {
    struct lambda_reduce_body l, r; mk_body(&l); mk_body(&r); Value lv = l.my_value, rv = r.my_value; g_calls = 0;
    lambda_reduce_body_join(&l, &r);
    OBLIGATION(g_calls == 1 && g_f == (const void *)&g_red && g_op1 == lv && g_op2 == rv, "C06.lambda.join: the reduction is applied once to (this body's value, the joined body's value) in THAT order - operands are never swapped, so a non-commutative reduction gives the sequential result");
    OBLIGATION(l.my_value == g_out, "C06.lambda.join: the result replaces this (left) body's value");
    VACUITY_END();
}
void h_lambda_call(void) {
    struct lambda_reduce_body l; mk_body(&l); Value v0 = l.my_value; Range rg; g_calls = 0;
    lambda_reduce_body_call(&l, &rg);
    OBLIGATION(g_calls == 1 && g_f == (const void *)&g_rb && g_arg1 == (const void *)&rg && g_op2 == v0, "C06.lambda.call: the range function is applied once to the subrange and the RUNNING value (accumulation continues from what the body already holds: nothing is dropped)");
    OBLIGATION(l.my_value == g_out, "C06.lambda.call: its result becomes the body's value");
    VACUITY_END();
}
void h_lambda_ctors(void) {
    struct lambda_reduce_body a, b; g_identity = nondet_long(); g_calls = 0;
    lambda_reduce_body_ctor(&a, &g_identity, &g_rb, &g_red);
    OBLIGATION(a.my_value == g_identity && a.my_identity_element == &g_identity && a.my_real_body == &g_rb && a.my_reduction == &g_red, "C06.lambda.ctor: a new body starts from the identity and refers to the caller's identity, range function and reduction");
    a.my_value = nondet_long();
    lambda_reduce_body_split_ctor(&b, &a);
    OBLIGATION(b.my_value == g_identity, "C06.lambda.split: a split-off body starts from the IDENTITY, not from a copy of the running value (otherwise the left operands would contribute twice)");
    OBLIGATION(b.my_identity_element == &g_identity && b.my_real_body == &g_rb && b.my_reduction == &g_red && g_calls == 0, "C06.lambda.split: it shares identity, range function and reduction with the body it was split from");
    VACUITY_END();
}
#endif /* LAMBDA */

#ifdef SPLIT
/* parallel_sort.h quick_sort_range: pseudo_median_of_nine + split_range + the splitting constructor, for ranges of ANY size (loop contracts on the three partition loops).
   Universal facts are stated for one arbitrary position g_q (ghost index); "the result is a permutation" is stated for one arbitrary element that is tracked through
   every exchange (g_pos: where the element that started at IN_k0 is now) - every write to the array goes through ITER_SWAP.
   Instantiation: RandomAccessIterator := ELEM*, Compare := std::less<ELEM>; ELEM is signed char in the job (int proves too, 8 min: the SAT cost is in the array equalities). */
#ifndef ELEM
#define ELEM int
#endif
typedef ELEM *RandomAccessIterator;
struct quick_sort_range { const void *comp; size_t size; RandomAccessIterator begin; };
#define INIT_comp_1(s, e) ((s)->comp = (e))
#define INIT_size_1(s, e) ((s)->size = (e))
#define INIT_begin_1(s, e) ((s)->begin = (e))
#ifndef NMAX
#define NMAX ((size_t)1 << 12)
#endif
static ELEM *A; static size_t g_n, g_q, g_pos; static ELEM g_v0;
static bool COMP_AT(ELEM *x, ELEM *y) {
    OBLIGATION(__CPROVER_same_object(x, A) && __CPROVER_same_object(y, A) && x >= A && x < A + g_n && y >= A && y < A + g_n, "C06.split: every compared position lies inside the range being split");
    return *x < *y;
}
static void ITER_SWAP(ELEM *x, ELEM *y) {
    OBLIGATION(__CPROVER_same_object(x, A) && __CPROVER_same_object(y, A) && x >= A && x < A + g_n && y >= A && y < A + g_n, "C06.split: elements are exchanged only inside the range being split");
    ELEM t = *x; *x = *y; *y = t;
    if (x == A + g_pos) g_pos = (size_t)(y - A); else if (y == A + g_pos) g_pos = (size_t)(x - A);
}
#define LE_KEY(k) (!(A[0] < A[k]))        /* not greater than the pivot (which sits at the front while the loops run) */
#define GE_KEY(k) (!(A[k] < A[0]))        /* not less than the pivot */
#define COMMON_INV (j <= g_n && g_pos < g_n && A[g_pos] == g_v0 && (i == 0 || LE_KEY(i)) && (!(1 <= g_q && g_q <= i) || LE_KEY(g_q)))
#define LOOP_split_1 __CPROVER_assigns(i, j, g_pos, __CPROVER_object_whole(A)) \
    __CPROVER_loop_invariant(i < j && COMMON_INV && (!(j <= g_q && g_q < g_n) || GE_KEY(g_q))) __CPROVER_decreases(j - i)
#define LOOP_split_2 __CPROVER_assigns(j) \
    __CPROVER_loop_invariant(i < j && j <= __CPROVER_loop_entry(j) && COMMON_INV && (!(j <= g_q && g_q < g_n) || GE_KEY(g_q))) __CPROVER_decreases(j)
#define LOOP_split_3 __CPROVER_assigns(i) \
    __CPROVER_loop_invariant(i <= j && i >= __CPROVER_loop_entry(i) && COMMON_INV && (!(j < g_q && g_q < g_n) || GE_KEY(g_q)) && LE_KEY(j)) __CPROVER_decreases(j - i)
#include "split_range.inc"
size_t IN_n, IN_q, IN_k0;
void h_split(void) {
    g_n = IN_n = nondet_size_t(); __CPROVER_assume(g_n >= 1 && g_n <= NMAX);
    A = malloc(g_n * sizeof(ELEM)); __CPROVER_assume(A != NULL);
    g_q = IN_q = nondet_size_t(); __CPROVER_assume(g_q < g_n);
    size_t k0 = IN_k0 = nondet_size_t(); __CPROVER_assume(k0 < g_n); g_pos = k0; g_v0 = A[k0];
    int cmp; struct quick_sort_range left, right; left.comp = &cmp; left.size = g_n; left.begin = A;
    quick_sort_range_split_ctor(&right, &left);
    size_t j = left.size;
    OBLIGATION(left.begin == A && j < g_n && right.begin == A + j + 1 && right.size == g_n - j - 1 && right.comp == &cmp,
               "C06.split: the two subranges are [begin, begin+j) and [begin+j+1, end): together with the pivot position j they tile the old range - every element is in exactly one of the three");
    OBLIGATION(g_q >= j || !(A[j] < A[g_q]), "C06.split: no element of the left subrange is greater than the pivot");
    OBLIGATION(g_q <= j || !(A[g_q] < A[j]), "C06.split: no element of the right subrange is less than the pivot");
    OBLIGATION(g_pos < g_n && A[g_pos] == g_v0, "C06.split: the result is a permutation of the input: an arbitrary element, tracked through every exchange, is still in the range (all writes are exchanges of two in-range positions)");
    VACUITY_END();
}
#endif /* SPLIT */

#ifdef VACUITY
#define VACUITY_CASE(c, m) do { if (c) __CPROVER_assert(0, "VACUITY: case reachable: " m); } while (0)
#else
#define VACUITY_CASE(c, m) ((void)0)
#endif
#ifdef SCAN
/* parallel_scan.h: final_sum, sum_node, finish_scan, start_scan.  Ghost model of a user Body: the contiguous block [lo,hi) of elements whose values it has accumulated, in order
   (lo == hi: still the identity).  The user's operations are stubs that check and update this block:
     pre-scan of [b,e)   needs the block to end at b (or be empty)                    -> block grows to e
     FINAL scan of [b,e) needs the block to be exactly [0,b) - the correct incoming prefix -> block becomes [0,e); one ghost element g_x counts its final passes
     this.reverse_join(a) needs a's block to end where this one starts (a lies to the left)  -> this block starts at a.lo
   The tree invariants between the two passes are the rely of each job and are stated where the job builds its pre-state. */
typedef struct Range { size_t b, e; } Range;
typedef struct Body { size_t lo, hi; bool init; } Body;   /* init: the block starts with the caller's INITIAL body state (then lo == 0) */
typedef struct small_object_allocator { void *pool; } small_object_allocator;
typedef struct wait_context { int refs; } wait_context;
typedef struct Partition { int d; } Partition; typedef struct Partitioner { int d; } Partitioner;
typedef struct task_group_context { int d; } task_group_context;
typedef struct execution_data { task_group_context *context; } execution_data;
typedef struct task task;
struct sum_node; struct finish_scan;
struct final_sum { Body m_body; Range m_range; Body *m_stuff_last; wait_context *m_wait_context; struct sum_node *m_parent; small_object_allocator m_allocator; };
struct sum_node { struct final_sum *m_incoming, *m_body; Body *m_stuff_last; struct final_sum *m_left_sum; struct sum_node *m_left, *m_right; bool m_left_is_final; Range m_range; wait_context *m_wait_context;
                  struct sum_node *m_parent; small_object_allocator m_allocator; unsigned ref_count; };
struct finish_scan { struct final_sum **m_sum_slot; struct sum_node **m_return_slot; small_object_allocator m_allocator; struct final_sum *m_right_zombie; struct sum_node *m_result; unsigned ref_count;
                     struct finish_scan *m_parent; wait_context *m_wait_context; };
struct start_scan { struct sum_node **m_return_slot; Range m_range; struct final_sum *m_body; Partition m_partition; struct final_sum **m_sum_slot; bool m_is_final, m_is_right_child;
                    struct finish_scan *m_parent; small_object_allocator m_allocator; wait_context *m_wait_context; };
enum { pre_scan_tag = 1, final_scan_tag = 2 };
#define SPLIT_TAG 0
#define ALLOCATOR_INIT(a) ((a).pool = NULL)
#define REBIND(w, lv) ((w) = &(lv))                                   /* std::reference_wrapper assignment: refer to another object */
/* constructor initialisers */
#define INIT_m_body_2(s, b, tag) Body_split_ctor(&(s)->m_body, &(b))                 /* final_sum::m_body(b, split()) */
#define INIT_m_body_1(s, b) ((s)->m_body = &(b))                                      /* start_scan::m_body: reference_wrapper<final_sum> */
#define INIT_m_wait_context_1(s, w) ((s)->m_wait_context = &(w))
#define INIT_m_parent_1(s, e) ((s)->m_parent = (e))
#define INIT_m_allocator_1(s, a) ((s)->m_allocator = (a))
#define INIT_m_stuff_last_1(s, e) ((s)->m_stuff_last = (e))
#define INIT_m_left_sum_1(s, e) ((s)->m_left_sum = (e))
#define INIT_m_left_1(s, e) ((s)->m_left = (e))
#define INIT_m_right_1(s, e) ((s)->m_right = (e))
#define INIT_m_left_is_final_1(s, e) ((s)->m_left_is_final = (e))
#define INIT_m_range_1(s, r) ((s)->m_range = (r))                                     /* Range copy */
#define INIT_m_range_2(s, r, tag) Range_split_ctor(&(s)->m_range, &(r))               /* Range(r, split()) */
#define INIT_ref_count_1(s, e) ((s)->ref_count = (e))
#define INIT_m_sum_slot_1(s, e) ((s)->m_sum_slot = (e))
#define INIT_m_return_slot_1(s, lv) ((s)->m_return_slot = &(lv))                      /* reference (wrapper) bound to lv */
#define INIT_m_right_zombie_1(s, e) ((s)->m_right_zombie = (e))
#define INIT_m_result_1(s, lv) ((s)->m_result = &(lv))
#define INIT_m_partition_1(s, p) ((s)->m_partition.d = nondet_int())
#define INIT_m_partition_2(s, p, tag) ((s)->m_partition.d = nondet_int(), (p).d = nondet_int())
#define INIT_m_is_final_1(s, e) ((s)->m_is_final = (e))
#define INIT_m_is_right_child_1(s, e) ((s)->m_is_right_child = (e))
/* ghost */
size_t g_x, g_mid; int g_final_x, g_finals, g_prescans, g_rjoins, g_rsplits, g_bsplits, g_assigns, g_spawns, g_deleted, g_wait_released, g_node_destroyed, g_zombie_destroyed; void *g_spawned; Body *g_scan_body; Range g_scan_range; Body *g_bsplit_src;
static void Body_split_ctor(Body *dst, Body *src) { g_bsplits++; g_bsplit_src = src; dst->lo = dst->hi = 0; dst->init = false; }
static void body_scan(Body *b, const Range *r, int tag) {
    OBLIGATION(r->b < r->e, "C06.scan: a body is applied to a non-empty subrange");
    g_scan_body = b; g_scan_range = *r;
    if (tag == final_scan_tag) {
        OBLIGATION(b->lo == 0 && b->hi == r->b && b->init, "C06.scan: the FINAL pass over a subrange runs with the correct incoming prefix: the body has accumulated exactly the caller's initial state and the elements [0, begin) - nothing missing, nothing twice");
        g_finals++; if (r->b <= g_x && g_x < r->e) { g_final_x++; OBLIGATION(g_final_x == 1, "C06.scan: an element gets the final pass at most once"); }
        b->hi = r->e;
    } else {
        OBLIGATION(b->lo == b->hi || b->hi == r->b, "C06.scan: a pre-scan extends the block the body has accumulated contiguously to the right");
        g_prescans++; if (b->lo == b->hi) b->lo = r->b; b->hi = r->e;
    }
}
#define BODY_SCAN(body, range, tag) body_scan(&(body), &(range), (tag))
static void Body_reverse_join(Body *self, Body *a) {       /* self.reverse_join(a): a was split off earlier, it lies to the LEFT */
    g_rjoins++;
    OBLIGATION(a->lo == a->hi || self->lo == self->hi || a->hi == self->lo, "C06.scan: reverse_join merges a body that ends exactly where this one starts (left operand first: operands are never reordered)");
    OBLIGATION(!self->init, "C06.scan: nothing is ever joined in front of the caller's initial state");
    if (a->lo != a->hi) { if (self->lo == self->hi) self->hi = a->hi; self->lo = a->lo; }
    if (a->init) self->init = true;
}
static void Body_assign(Body *dst, Body *src) { g_assigns++; *dst = *src; }
static Range g_tmp_range;
static void Range_split_ctor(Range *dst, Range *src) { g_rsplits++; __CPROVER_assume(src->b < g_mid && g_mid < src->e); dst->b = g_mid; dst->e = src->e; src->e = g_mid; }   /* Range(r, split()): *dst = right part, r keeps the left part; the cut is a function of r alone */
static Range *range_split_temp(Range *r) { Range_split_ctor(&g_tmp_range, r); return &g_tmp_range; }
#define RANGE_SPLIT_TEMP(r) range_split_temp(&(r))
static void Range_copy_ctor(Range *dst, const Range *src) { *dst = *src; }
static bool Range_is_divisible(const Range *r) { return r->e - r->b >= 2 && nondet_bool(); }
static bool Partition_should_execute_range(Partition *p, execution_data *ed) { return nondet_bool(); }
bool g_stolen; static bool STUB_is_stolen(execution_data *ed) { return g_stolen; }
#define SPAWN(t, c) do { g_spawns++; g_spawned = (void *)(t); spawn_hook(); } while (0)
#define WAIT_RELEASE(w) do { g_wait_released++; } while (0)
void *g_self; 
#define DELETE_OBJECT(a, obj, ed) do { g_deleted++; OBLIGATION((void *)(obj) == g_self, "C06.scan: a finished task frees itself"); (obj)->m_parent = NULL; (obj)->m_wait_context = NULL; } while (0)
#define SUM_NODE_SELF_DESTROY(n, ed) do { g_node_destroyed++; } while (0)
#define FINAL_SUM_SELF_DESTROY(f, ed) do { g_zombie_destroyed++; } while (0)
/* ---- rely/guarantee on the parent's ref_count (number of its children that have not finished; this task is counted while g_mine) ---- */
unsigned *g_rc; long g_others; bool g_mine, g_last;
static void interfere(void) { if (g_mine) { long o = nondet_long(); __CPROVER_assume(o >= 0 && o <= g_others); g_others = o; *g_rc = (unsigned)(o + 1); } }
#define ATOMIC_FETCH_SUB_AT(site, x, v) ({ __CPROVER_assert(&(x) == g_rc && g_mine, "C06.scan: a finishing task gives up exactly its own reference on its parent, once"); interfere(); unsigned o_ = (x); (x) -= (v); g_mine = false; g_last = (g_others == 0); \
    __CPROVER_assert((long)*g_rc == g_others, "guarantee: ref_count equals the number of unfinished children, at " #site); o_; })
#define ATOMIC_FETCH_ADD(x, v) ((x) += (v))
#define ATOMIC_STORE_AT(site, x, v) ((x) = (v))
#define ATOMIC_LOAD_AT(site, x) (x)
static void spawn_hook(void);
void final_sum_ctor_split(struct final_sum *self, struct final_sum *sum, small_object_allocator *alloc);
void sum_node_ctor(struct sum_node *self, const Range range, bool left_is_final_, struct sum_node *parent, wait_context *w_o, small_object_allocator *alloc);
void finish_scan_ctor(struct finish_scan *self, struct sum_node **return_slot, struct final_sum **sum, struct sum_node *result_, struct finish_scan *parent, wait_context *w_o, small_object_allocator *alloc);
void start_scan_ctor_split(struct start_scan *self, struct sum_node **return_slot, struct start_scan *parent, small_object_allocator *alloc);
static struct final_sum g_new_final; static struct sum_node g_new_node; static struct finish_scan g_new_finish; static struct start_scan g_new_start; int g_allocs_final, g_allocs_node, g_allocs_finish, g_allocs_start;
#define NEW_final_sum_type_2(a, sum, a2) ({ g_allocs_final++; final_sum_ctor_split(&g_new_final, &(sum), &(a2)); &g_new_final; })
#define NEW_sum_node_type_5(a, range, lif, parent, w, a2) ({ g_allocs_node++; sum_node_ctor(&g_new_node, (range), (lif), (parent), &(w), &(a2)); &g_new_node; })
#define NEW_finish_pass1_type_6(a, rs, ss, res, parent, w, a2) ({ g_allocs_finish++; finish_scan_ctor(&g_new_finish, &(rs), (ss), &(res), (parent), &(w), &(a2)); &g_new_finish; })
#define NEW_start_scan_3(a, rs, par, a2) ({ g_allocs_start++; start_scan_ctor_split(&g_new_start, &(rs), &(par), &(a2)); &g_new_start; })
/* start_scan::run */
#define PARALLEL_SCAN 9
#define CONTEXT_CTOR(c, traits_) ((c).d = (traits_))
#define WAIT_CTOR(w, n) ((w).refs = (n))
#define WAIT_RESERVE(w) do { (w).refs++; g_reserved++; } while (0)
static bool range_empty_(const Range *r) { return r->b >= r->e; }
#define Range_empty(r) range_empty_(&(r))
void final_sum_ctor_body(struct final_sum *self, Body *body, wait_context *w_o, small_object_allocator *alloc);
void start_scan_ctor_root(struct start_scan *self, struct sum_node **return_slot, const Range *range, struct final_sum *body, const Partitioner *partitioner, wait_context *w_o, small_object_allocator *alloc);
static struct final_sum g_temp_body; static struct sum_node g_root_node; int g_reserved, g_waits, g_temp_deleted; Range g_run_range; static Body g_user_body; bool g_tree_kept;
#define NEW_final_sum_type_3(a, body, w, a2) ({ g_allocs_final++; final_sum_ctor_body(&g_temp_body, &(body), &(w), &(a2)); &g_temp_body; })
#define NEW_start_pass1_type_6(a, rs, range, body, part, w, a2) ({ g_allocs_start++; start_scan_ctor_root(&g_new_start, &(rs), &(range), &(body), &(part), &(w), &(a2)); &g_new_start; })
#define DELETE_TEMP_BODY(a, p) do { g_temp_deleted++; OBLIGATION((p) == &g_temp_body, "C06.scan.run: the temporary body is freed"); } while (0)
static void run_wait(void *t, void *c1, wait_context *w, void *c2);
#define EXECUTE_AND_WAIT(t, c1, w, c2) run_wait((void *)&(t), (void *)&(c1), &(w), (void *)&(c2))
#include "scan.inc"
static wait_context g_wctx; static task_group_context g_tctx;
/* the two execute_and_wait calls of run(): the first runs pass 1 (jobs scan.start_scan.*, scan.finish_scan.*: leaves a tree or nothing), the second pass 2 (jobs scan.sum_node.*, scan.final_sum.*) */
static void run_wait(void *t, void *c1, wait_context *w, void *c2) {
    g_waits++;
    OBLIGATION(c1 == c2 && w->refs == 1, "C06.scan.run: each pass runs and is waited for in one context, with exactly one pending reference on the wait object");
    if (g_waits == 1) {
        struct start_scan *st = t;
        OBLIGATION(st == &g_new_start && st->m_is_final && !st->m_is_right_child && st->m_parent == NULL && st->m_sum_slot == NULL && st->m_body == &g_temp_body && st->m_range.b == g_run_range.b && st->m_range.e == g_run_range.e && *st->m_return_slot == NULL,
                   "C06.scan.run: pass 1 starts with ONE final root task over the caller's whole range, working on the temporary body, with an empty slot for the tree");
        OBLIGATION(g_temp_body.m_body.lo == g_temp_body.m_body.hi && g_temp_body.m_body.init && g_bsplits == 1, "C06.scan.run: the temporary body is split off the caller's body and then takes over the caller's INITIAL state (the prefix of element 0)");
        /* outcome of pass 1: either the whole range got its final pass in one sweep by the temporary body, or a tree is left and the temporary body holds some prefix */
        g_tree_kept = nondet_bool(); g_temp_body.m_body.lo = 0; g_temp_body.m_body.init = true;
        if (g_tree_kept) { *st->m_return_slot = &g_root_node; g_temp_body.m_body.hi = nondet_size_t(); } else g_temp_body.m_body.hi = g_run_range.e;
        w->refs = 0;
    } else {
        struct sum_node *n = t;
        OBLIGATION(g_waits == 2 && g_tree_kept && n == &g_root_node && n->m_body == &g_temp_body && n->m_incoming == NULL && n->m_stuff_last == &g_user_body,
                   "C06.scan.run: pass 2 runs the root node prepared with the temporary body, no incoming prefix (it is on the left edge) and the caller's body as the place for the total of the last subrange");
        w->refs = 0;
    }
}
static void reset(void) { g_final_x = g_finals = g_prescans = g_rjoins = g_rsplits = g_bsplits = g_assigns = g_spawns = g_deleted = g_wait_released = g_node_destroyed = g_zombie_destroyed = 0; g_spawned = NULL; g_scan_body = NULL;
    g_allocs_final = g_allocs_node = g_allocs_finish = g_allocs_start = 0; g_x = nondet_size_t(); g_mid = nondet_size_t(); g_mine = g_last = false; g_rc = NULL; g_others = 0; g_stolen = nondet_bool(); }
#define NMAXS ((size_t)1 << 40)
static void mk_range(Range *r, size_t minlen) { r->b = nondet_size_t(); r->e = nondet_size_t(); __CPROVER_assume(r->b < r->e && r->e <= NMAXS && r->e - r->b >= minlen); }
static void mk_rc(unsigned *rc) { g_rc = rc; g_mine = true; g_others = nondet_long(); __CPROVER_assume(g_others >= 0 && g_others < 1000); *rc = (unsigned)(g_others + 1); }
/* what every release_parent/finalize pair must do; `ret` is what the task's execute/cancel returned, `parent` the parent it had */
#define FINALIZE_POST(ret, parent) do { \
    if ((parent) != NULL) { OBLIGATION(!g_mine, "C06.scan: the finished task has given up its reference on the parent"); \
        OBLIGATION((void *)(ret) == (g_last ? (void *)(parent) : NULL), "C06.scan: the parent (the continuation that combines the children) is handed on for execution by exactly the child that finishes LAST - so it runs once, after all its children"); \
        OBLIGATION(g_wait_released == 0, "C06.scan: only a task without parent releases the wait"); } \
    else OBLIGATION((ret) == NULL && g_wait_released == 1, "C06.scan: a task without parent releases the caller's wait exactly once"); \
    OBLIGATION(g_deleted == 1, "C06.scan: the finished task is freed exactly once"); } while (0)
int g_mode_spawn; static void spawn_hook_start(void);
static void spawn_hook(void) { if (g_mode_spawn == 1) spawn_hook_start(); }

/* ---------------- final_sum::execute / cancel: the pass-2 leaf ---------------- */
static struct final_sum F; static struct sum_node PN; static Body UB;
static void mk_leaf(void) {
    reset(); mk_range(&F.m_range, 1); F.m_body.lo = 0; F.m_body.hi = F.m_range.b; F.m_body.init = true;          /* rely (established by sum_node::execute, job scan.sum_node.execute): the leaf's body holds exactly the prefix [0, begin) */
    F.m_stuff_last = nondet_bool() ? &UB : NULL; UB.lo = nondet_size_t(); UB.hi = nondet_size_t(); UB.init = nondet_bool(); F.m_wait_context = &g_wctx; g_self = &F;
    if (nondet_bool()) { F.m_parent = &PN; mk_rc(&PN.ref_count); } else F.m_parent = NULL;
}
void h_scan_final_execute(void) {
    mk_leaf(); struct sum_node *parent = F.m_parent; Range r0 = F.m_range; bool last = F.m_stuff_last != NULL; execution_data ed; ed.context = &g_tctx;
    task *ret = final_sum_execute(&F, &ed);
    OBLIGATION(g_finals == 1 && g_prescans == 0 && g_scan_body == &F.m_body && g_scan_range.b == r0.b && g_scan_range.e == r0.e, "C06.scan: a pass-2 leaf runs the final pass exactly once, over exactly its own subrange, with its own body");
    OBLIGATION(F.m_body.lo == 0 && F.m_body.hi == r0.e && F.m_body.init, "C06.scan: afterwards the leaf's body holds the prefix up to the end of its subrange");
    if (last) OBLIGATION(g_assigns == 1 && UB.lo == 0 && UB.hi == r0.e && UB.init, "C06.scan: the leaf of the last subrange hands the complete reduction to the caller's body (after its final pass)");
    else OBLIGATION(g_assigns == 0, "C06.scan: no other leaf writes to the caller's body");
    FINALIZE_POST(ret, parent);
    VACUITY_END();
}
void h_scan_final_cancel(void) {
    mk_leaf(); struct sum_node *parent = F.m_parent; execution_data ed; ed.context = &g_tctx;
    task *ret = final_sum_cancel(&F, &ed);
    OBLIGATION(g_finals == 0 && g_prescans == 0 && g_assigns == 0, "C06.scan: a cancelled leaf touches no body");
    FINALIZE_POST(ret, parent);
    VACUITY_END();
}

/* ---------------- sum_node::execute: pass 2, one arbitrary node of the tree ---------------- */
static struct sum_node N, L, R; static struct final_sum FB, FI, FL;
#define COVERS(f, a, z) ((f)->m_body.lo == (a) && (f)->m_body.hi == (z))
#define PREFIX(f, z) (COVERS(f, 0, z) && (f)->m_body.init)          /* the body holds the caller's initial state and exactly the elements [0,z) */
void h_scan_sum_execute(void) {
    reset(); execution_data ed; ed.context = &g_tctx; g_self = &N;
    mk_range(&N.m_range, 2); size_t p = N.m_range.b, q = N.m_range.e; __CPROVER_assume(p < g_mid && g_mid < q);
    bool spine = nondet_bool();                 /* the node lies on the leftmost spine of the tree (nothing to its left) */
    N.m_left = nondet_bool() ? &L : NULL; N.m_right = nondet_bool() ? &R : NULL; N.m_stuff_last = nondet_bool() ? &UB : NULL; N.m_wait_context = &g_wctx; N.ref_count = nondet_unsigned();
    FB.m_parent = FI.m_parent = FL.m_parent = NULL; FB.m_wait_context = FI.m_wait_context = FL.m_wait_context = &g_wctx;
    /* rely = what pass 1 leaves behind for a node that is kept (jobs scan.start_scan.*, scan.finish_scan.execute) and what the parent node hands down (this job, one level up):
       spine:     no incoming; the left sum holds everything up to the cut, [0,mid); the left part either had its final pass in pass 1 or has a subtree of its own
       elsewhere: incoming holds exactly [0,p); the body for the left part's final pass holds [0,p) too (it may be the same object); the left sum holds exactly the left part [p,mid);
                  nothing right of the spine was final in pass 1 */
    if (spine) { __CPROVER_assume(p == 0); N.m_incoming = NULL; N.m_body = &FB; FB.m_body.lo = 0; FB.m_body.hi = nondet_size_t(); FB.m_body.init = true;
                 N.m_left_sum = (N.m_left == NULL && nondet_bool()) ? &FB : &FL;   /* the left sum is the spine body itself only if that body did the whole left part in pass 1 */
                 N.m_left_sum->m_body.lo = 0; N.m_left_sum->m_body.hi = g_mid; N.m_left_sum->m_body.init = true; N.m_left_is_final = (N.m_left == NULL); }
    else { __CPROVER_assume(p > 0); N.m_incoming = &FI; N.m_body = nondet_bool() ? &FI : &FB; FI.m_body.lo = FB.m_body.lo = 0; FI.m_body.hi = FB.m_body.hi = p; FI.m_body.init = FB.m_body.init = true; N.m_left_sum = &FL; FL.m_body.lo = p; FL.m_body.hi = g_mid; FL.m_body.init = false; N.m_left_is_final = false; }
    VACUITY_CASE(spine && N.m_left_sum == &FB, "spine, left part final in pass 1"); VACUITY_CASE(spine && N.m_left != NULL, "spine, left subtree"); VACUITY_CASE(!spine && N.m_left == NULL && N.m_right == NULL, "inner node, two leaves");
    VACUITY_CASE(!spine && N.m_left != NULL && N.m_right != NULL && N.m_body == &FI, "inner node, two subtrees");
    struct final_sum *body0 = N.m_body, *incoming0 = N.m_incoming, *lsum = N.m_left_sum; bool lfinal = N.m_left_is_final;
    task *ret = sum_node_execute(&N, &ed);
    /* the right part: always gets its final pass in pass 2, with the left sum as body and incoming */
    OBLIGATION(PREFIX(lsum, g_mid), "C06.scan: the body handed to the right part holds exactly the initial state and [0, cut): incoming prefix joined with the left part's sum, left operand first");
    OBLIGATION(g_rsplits == 1 && N.m_range.b == p && N.m_range.e == g_mid, "C06.scan: the node's range is cut once; the left part is [begin, cut)");
    if (N.m_right) OBLIGATION(R.m_body == lsum && R.m_incoming == lsum && R.m_stuff_last == N.m_stuff_last, "C06.scan: a right subtree is prepared with the left sum as its body and as its incoming prefix, and inherits the 'last subrange' slot");
    else OBLIGATION(lsum->m_parent == &N && lsum->m_range.b == g_mid && lsum->m_range.e == q && lsum->m_stuff_last == N.m_stuff_last, "C06.scan: a right leaf covers exactly [cut, end), runs with the left sum as its body, and inherits the 'last subrange' slot");
    /* the left part: gets a final pass in pass 2 exactly if it did not get one in pass 1 */
    bool left_child = !lfinal;
    if (lfinal) OBLIGATION(body0 == lsum || body0->m_parent == NULL, "C06.scan: a left part that had its final pass in pass 1 is not scanned again (no left leaf is set up)");
    else if (N.m_left) OBLIGATION(L.m_body == body0 && L.m_incoming == incoming0 && L.m_stuff_last == NULL, "C06.scan: a left subtree is prepared with this node's body and this node's incoming prefix (it starts at the same element)");
    else OBLIGATION(body0->m_parent == &N && body0->m_range.b == p && body0->m_range.e == g_mid && body0->m_stuff_last == NULL && PREFIX(body0, p) && body0 != lsum,
                    "C06.scan: a left leaf covers exactly [begin, cut) and runs with a body that holds exactly [0, begin), distinct from the body of the right part");
    OBLIGATION(N.ref_count == (unsigned)(1 + left_child), "C06.scan: the node waits for exactly the children it started");
    OBLIGATION(N.m_body == NULL, "C06.scan: the node is marked so that its next execution (when the children are done) only finishes it");
    void *rchild = N.m_right ? (void *)&R : (void *)lsum, *lchild = N.m_left ? (void *)&L : (void *)body0;
    if (left_child) { OBLIGATION(g_spawns == 1 && g_spawned == rchild && (void *)ret == lchild, "C06.scan: both children are dispatched exactly once: the right one spawned, the left one run next");
                      OBLIGATION(body0 != lsum, "C06.scan: two children that run concurrently never share a body"); }
    else OBLIGATION(g_spawns == 0 && (void *)ret == rchild, "C06.scan: the only child is dispatched exactly once");
    OBLIGATION(g_finals == 0 && g_prescans == 0 && g_deleted == 0, "C06.scan: the node itself scans nothing");
    VACUITY_END();
}
void h_scan_sum_finish(void) {      /* second execution of a node (m_body == nullptr): all children done */
    reset(); execution_data ed; ed.context = &g_tctx; g_self = &N; N.m_body = NULL; N.m_wait_context = &g_wctx;
    static struct sum_node PP; if (nondet_bool()) { N.m_parent = &PP; mk_rc(&PP.ref_count); } else N.m_parent = NULL; struct sum_node *parent = N.m_parent;
    task *ret = nondet_bool() ? sum_node_execute(&N, &ed) : sum_node_cancel(&N, &ed);
    OBLIGATION(g_finals == 0 && g_prescans == 0 && g_rjoins == 0 && g_spawns == 0, "C06.scan: a node whose children are done (or that is cancelled) scans and joins nothing");
    FINALIZE_POST(ret, parent);
    VACUITY_END();
}
/* ---------------- finish_scan::execute: end of pass 1 for one arbitrary node (both children have finished) ---------------- */
static struct finish_scan Q, QP; static struct final_sum Z, ZZ, LS; static struct final_sum *SLOTV; static struct sum_node *RS;
void h_scan_finish_execute(void) {
    reset(); execution_data ed; ed.context = &g_tctx; g_self = &Q;
    mk_range(&N.m_range, 2); size_t p = N.m_range.b, q = N.m_range.e; __CPROVER_assume(p < g_mid && g_mid < q);
    bool stolen = nondet_bool(), has_slot = nondet_bool(), lfin = nondet_bool();    /* right child was (really or virtually) stolen; somebody above wants this node's sum; the left part had its final pass */
    size_t la = nondet_bool() ? 0 : p; __CPROVER_assume(!lfin || la == 0);
    /* rely = what the two start_scan children leave behind (jobs scan.start_scan.*): the left child always reports its body in m_left_sum; a stolen right child works on a fresh zombie body
       and (if a sum is wanted) the rightmost leaf below it reports a body that holds exactly the right part; a right child that was not stolen continued with the left child's body */
    Q.m_result = &N; Q.m_sum_slot = has_slot ? &SLOTV : NULL; RS = NULL; Q.m_return_slot = &RS; Q.m_right_zombie = stolen ? &Z : NULL; Q.m_wait_context = &g_wctx;
    N.m_left_sum = &LS; N.m_left = nondet_bool() ? &L : NULL; N.m_right = (stolen && nondet_bool()) ? &R : NULL; N.m_left_is_final = lfin;
    bool right_scanned_by_left_body = !stolen && (lfin || has_slot);
    LS.m_body.lo = la; LS.m_body.hi = right_scanned_by_left_body ? q : g_mid; LS.m_body.init = (la == 0);    /* a block that starts at element 0 belongs to the leftmost (final) sweep and carries the initial state */
    SLOTV = NULL; if (has_slot) { if (stolen) { SLOTV = nondet_bool() ? &Z : &ZZ; SLOTV->m_body.lo = g_mid; SLOTV->m_body.hi = q; SLOTV->m_body.init = false; } else SLOTV = &LS; }
    if (nondet_bool()) { Q.m_parent = &QP; mk_rc(&QP.ref_count); } else Q.m_parent = NULL; struct finish_scan *parent = Q.m_parent;
    VACUITY_CASE(stolen && has_slot && N.m_right != NULL, "stolen right subtree, sum wanted"); VACUITY_CASE(!stolen && !has_slot && lfin, "left-to-right final run"); VACUITY_CASE(stolen && !has_slot && N.m_right == NULL, "stolen leaf, no sum wanted");
    task *ret = finish_scan_execute(&Q, &ed);
    if (has_slot) OBLIGATION(SLOTV != NULL && SLOTV->m_body.lo == la && SLOTV->m_body.hi == q && SLOTV->m_body.init == (la == 0), "C06.scan: the sum a node reports upward holds its WHOLE range (left part joined in front of the right part: left operand first), so that the total returned is the full reduction");
    OBLIGATION(!stolen || RS == &N, "C06.scan: a node whose right part only got a pre-scan (stolen right child) is kept for pass 2 - that part still needs its final pass");
    if (RS == &N) { OBLIGATION(g_node_destroyed == 0, "C06.scan: a node that is kept is not destroyed");
                    OBLIGATION(N.m_left_sum->m_body.lo == la && N.m_left_sum->m_body.hi == g_mid, "C06.scan: in a kept node the left sum holds exactly the left part (or the whole prefix up to the cut): this is what pass 2 hands to the right part as incoming prefix"); }
    else OBLIGATION(RS == NULL && g_node_destroyed == 1 && !stolen, "C06.scan: a node whose whole range was processed by one body in one sweep is dropped (exactly once): its range is not scanned again as two parts");
    OBLIGATION(N.m_left_is_final == (lfin && N.m_left == NULL), "C06.scan: 'left part is final' is withdrawn exactly when the left part has a kept subtree (something in it still needs pass 2)");
    OBLIGATION(g_zombie_destroyed == 0 || (g_zombie_destroyed == 1 && stolen && !has_slot && N.m_right == NULL && Q.m_right_zombie == NULL), "C06.scan: the right zombie body is destroyed only when nothing refers to it any more (no sum slot above, no right subtree)");
    OBLIGATION(g_finals == 0 && g_prescans == 0, "C06.scan: the join task itself scans nothing");
    FINALIZE_POST(ret, parent);
    VACUITY_END();
}

/* ---------------- start_scan::execute: pass 1, one arbitrary task ---------------- */
static struct start_scan ST; static struct final_sum OTHER;
static void spawn_hook_start(void) {
    OBLIGATION(g_spawned == (void *)&g_new_start && g_new_start.m_parent == &g_new_finish && g_new_finish.ref_count == 2 && g_new_finish.m_result == &g_new_node && g_new_start.m_is_right_child && g_new_start.m_return_slot == &g_new_node.m_right,
               "C06.scan: when the right child becomes visible to thieves it is fully wired: under the new join task (count 2), marked as right child, returning its subtree into the node's right slot");
}
void h_scan_start_execute(void) {
    reset(); execution_data ed; ed.context = &g_tctx; g_self = &ST; g_mode_spawn = 1;
    mk_range(&ST.m_range, 1); size_t b = ST.m_range.b, e = ST.m_range.e;
    bool rc = nondet_bool(), fin = nondet_bool(), has_slot = nondet_bool();
    ST.m_is_right_child = rc; ST.m_is_final = fin; SLOTV = NULL; ST.m_sum_slot = has_slot ? &SLOTV : NULL; ST.m_body = &FB; RS = NULL; ST.m_return_slot = &RS; ST.m_wait_context = &g_wctx; FB.m_wait_context = &g_wctx;
    if (rc || nondet_bool()) { ST.m_parent = &Q; mk_rc(&Q.ref_count); Q.m_result = &PN; Q.m_right_zombie = NULL; } else ST.m_parent = NULL; struct finish_scan *parent = ST.m_parent;
    PN.m_left_sum = nondet_bool() ? &FB : (nondet_bool() ? &OTHER : NULL);
    bool same = ST.m_parent != NULL && PN.m_left_sum == &FB;
    /* rely: a task that is not a right child owns its body: it holds [0,b) if the task is final, and otherwise nothing or a block that ends at b.  A right child that runs un-stolen right after its
       left sibling (same thread) and finds its own body in the parent node's left sum continues that body, which then ends at b.  A stolen right child knows nothing about the body: the left sibling may be using it */
    FB.m_body.lo = nondet_size_t(); FB.m_body.hi = nondet_size_t(); FB.m_body.init = nondet_bool();
    if (!rc || (!g_stolen && same)) { __CPROVER_assume(fin ? (FB.m_body.lo == 0 && FB.m_body.hi == b && FB.m_body.init) : (!FB.m_body.init && (FB.m_body.lo == FB.m_body.hi || FB.m_body.hi == b))); }
    bool treat = rc && (g_stolen || !same);
    VACUITY_CASE(treat && has_slot, "stolen right child, sum wanted"); VACUITY_CASE(rc && !treat && fin, "right child continues the final sweep"); VACUITY_CASE(!rc && fin, "left/root final");
    task *ret = start_scan_execute(&ST, &ed);
    struct final_sum *used = treat ? &g_new_final : &FB; bool fin2 = fin && !treat;
    if (treat) { OBLIGATION(g_allocs_final == 1 && g_bsplits == 1 && g_bsplit_src == &FB.m_body && Q.m_right_zombie == &g_new_final && ST.m_body == &g_new_final,
                            "C06.scan: a right child that is stolen, or whose body is not the one its left sibling finished with, switches to ONE fresh body split off its body and publishes it as the parent's right zombie");
                 OBLIGATION(!ST.m_is_final || g_allocs_node == 0 && g_deleted == 1, "C06.scan: such a task is no longer final"); }
    else OBLIGATION(g_allocs_final == 0 && g_bsplits == 0 && (ST.m_parent == NULL || Q.m_right_zombie == NULL || g_allocs_node == 1) && (g_deleted == 1 || ST.m_body == &FB), "C06.scan: any other task keeps its body and publishes no zombie");
    if (g_deleted) {      /* the task processed its range as a leaf */
        OBLIGATION(g_allocs_node == 0 && g_allocs_finish == 0 && g_allocs_start == 0 && g_spawns == 0, "C06.scan: a leaf creates no tree node");
        OBLIGATION(g_finals == (fin2 ? 1 : 0) && g_prescans == ((!fin2 && has_slot) ? 1 : 0), "C06.scan: a pass-1 leaf runs the final pass exactly once if it is final (its prefix is known), else one pre-scan if a sum is wanted, else nothing - never both");
        OBLIGATION(g_finals + g_prescans == 0 || (g_scan_body == &used->m_body && g_scan_range.b == b && g_scan_range.e == e), "C06.scan: the scan covers exactly the task's own subrange, with the task's (possibly fresh) body");
        OBLIGATION(!has_slot || SLOTV == used, "C06.scan: the body that holds the subrange's sum is reported in the sum slot");
        OBLIGATION(RS == NULL, "C06.scan: a leaf returns no subtree");
        FINALIZE_POST(ret, parent);
    } else {              /* the task split its range */
        struct sum_node *NN = &g_new_node; struct finish_scan *QQ = &g_new_finish; struct start_scan *RC = &g_new_start;
        OBLIGATION(!(rc && !treat), "C06.scan: a right child that continues its left sibling's body never splits (it must stay a leaf so that its body advances sequentially)");
        OBLIGATION(g_allocs_node == 1 && g_allocs_finish == 1 && g_allocs_start == 1 && g_spawns == 1 && g_spawned == (void *)RC && (void *)ret == (void *)&ST, "C06.scan: a split creates one node, one join task and one right child; the right child is spawned once and this task continues as the left child");
        OBLIGATION(NN->m_range.b == b && NN->m_range.e == e && NN->m_left_is_final == fin2 && NN->m_left == NULL && NN->m_right == NULL && NN->m_left_sum == NULL && NN->m_parent == (parent ? &PN : NULL),
                   "C06.scan: the new node remembers the whole range, whether its left part gets its final pass now (= this task is final), and has empty child and sum slots");
        OBLIGATION(QQ->m_return_slot == &RS && QQ->m_sum_slot == (has_slot ? &SLOTV : NULL) && QQ->m_result == NN && QQ->m_parent == parent && QQ->ref_count == 2 && QQ->m_right_zombie == NULL,
                   "C06.scan: the join task takes over this task's return slot, sum slot and parent, and waits for two children");
        OBLIGATION(ST.m_parent == QQ && ST.m_sum_slot == &NN->m_left_sum && ST.m_return_slot == &NN->m_left && !ST.m_is_right_child && ST.m_range.b == b && ST.m_range.e == g_mid && ST.m_body == used && ST.m_is_final == fin2,
                   "C06.scan: this task becomes the LEFT child: left part of the range, reports its sum in the node's m_left_sum, returns its subtree in m_left, is no right child");
        OBLIGATION(RC->m_parent == QQ && RC->m_sum_slot == (has_slot ? &SLOTV : NULL) && RC->m_return_slot == &NN->m_right && RC->m_is_right_child && RC->m_range.b == g_mid && RC->m_range.e == e && RC->m_body == used && RC->m_is_final == fin2,
                   "C06.scan: the RIGHT child gets the right part of the range, provisionally the same body and finality, reports into the sum slot this task had (it holds the last subrange) and returns its subtree in m_right");
        OBLIGATION(g_finals == 0 && g_prescans == 0 && (parent == NULL || g_mine) && g_wait_released == 0, "C06.scan: a splitting task scans nothing and does not yet report completion");
    }
    VACUITY_END();
}
void h_scan_cancels(void) {
    reset(); execution_data ed; ed.context = &g_tctx; task *ret; bool which = nondet_bool();
    if (which) { g_self = &ST; ST.m_wait_context = &g_wctx; if (nondet_bool()) { ST.m_parent = &Q; mk_rc(&Q.ref_count); } else ST.m_parent = NULL; struct finish_scan *parent = ST.m_parent; ret = start_scan_cancel(&ST, &ed); FINALIZE_POST(ret, parent); }
    else { g_self = &Q; Q.m_wait_context = &g_wctx; if (nondet_bool()) { Q.m_parent = &QP; mk_rc(&QP.ref_count); } else Q.m_parent = NULL; struct finish_scan *parent = Q.m_parent; ret = finish_scan_cancel(&Q, &ed); FINALIZE_POST(ret, parent); }
    OBLIGATION(g_finals == 0 && g_prescans == 0 && g_rjoins == 0 && g_spawns == 0, "C06.scan: cancelled pass-1 tasks scan and join nothing, but still report completion");
    VACUITY_END();
}
void h_scan_run(void) {
    reset(); g_waits = g_reserved = g_temp_deleted = 0; g_run_range.b = 0; g_run_range.e = nondet_size_t(); __CPROVER_assume(g_run_range.e <= NMAXS); g_user_body.lo = g_user_body.hi = 0; g_user_body.init = true; Partitioner part;
    Range r = g_run_range;
    start_scan_run(&r, &g_user_body, &part);
    if (g_run_range.e == 0) OBLIGATION(g_waits == 0 && g_allocs_final == 0 && g_allocs_start == 0, "C06.scan.run: an empty range starts nothing");
    else if (g_tree_kept) OBLIGATION(g_waits == 2 && g_reserved == 1 && g_temp_deleted == 0 && g_assigns == 0, "C06.scan.run: if pass 1 left a tree, pass 2 is run exactly once (the total is delivered by its last leaf)");
    else { OBLIGATION(g_waits == 1 && g_temp_deleted == 1, "C06.scan.run: if pass 1 finished everything in one sweep there is no pass 2");
           OBLIGATION(g_assigns == 1 && g_user_body.lo == 0 && g_user_body.hi == g_run_range.e && g_user_body.init, "C06.scan.run: the caller's body then receives the full reduction from the temporary body"); }
    VACUITY_CASE(g_run_range.e != 0 && g_tree_kept, "two passes"); VACUITY_CASE(g_run_range.e != 0 && !g_tree_kept, "single sweep");
    VACUITY_END();
}
#endif /* SCAN */

#ifdef LSCAN
/* parallel_scan.h lambda_scan_body: the adaptor behind the functional overloads; values are symbolic tokens, the user's functions record their operands IN ORDER */
typedef long Value; typedef struct Range { int d; } Range; typedef struct Scan { int d; } Scan; typedef struct ReverseJoin { int d; } ReverseJoin;
struct lambda_scan_body { Value m_sum_slot; const Value *identity_element; const Scan *m_scan; const ReverseJoin *m_reverse_join; };
#define INIT_m_sum_slot_1(s, e) ((s)->m_sum_slot = (e))
#define INIT_identity_element_1(s, e) ((s)->identity_element = &(e))
#define INIT_m_scan_1(s, e) ((s)->m_scan = &(e))
#define INIT_m_reverse_join_1(s, e) ((s)->m_reverse_join = &(e))
static Scan g_scan; static ReverseJoin g_rj; static Value g_identity; int g_calls; const void *g_f, *g_range; Value g_op1, g_op2, g_out; bool g_tag;
static Value invoke3_(const void *f, Value a, Value b) { g_calls++; g_f = f; g_op1 = a; g_op2 = b; g_out = nondet_long(); return g_out; }
static Value invoke4_(const void *f, const void *r, Value v, bool tag) { g_calls++; g_f = f; g_range = r; g_op2 = v; g_tag = tag; g_out = nondet_long(); return g_out; }
#define INVOKE3(f, a, b) invoke3_(&(f), (a), (b))
#define INVOKE4(f, r, v, tag) invoke4_(&(f), &(r), (v), (tag))
#include "lscan.inc"
static void mk(struct lambda_scan_body *b) { b->identity_element = &g_identity; b->m_scan = &g_scan; b->m_reverse_join = &g_rj; b->m_sum_slot = nondet_long(); }
void h_lscan(void) {
    struct lambda_scan_body x, a, c; mk(&x); mk(&a); Value xv = x.m_sum_slot, av = a.m_sum_slot; g_calls = 0; g_identity = nondet_long();
    lambda_scan_body_reverse_join(&x, &a);
    OBLIGATION(g_calls == 1 && g_f == (const void *)&g_rj && g_op1 == av && g_op2 == xv && x.m_sum_slot == g_out,
               "C06.lscan.reverse_join: the combine function is applied once to (the joined body's value, this body's value) - the body that lies to the LEFT is the left operand - and the result replaces this body's value");
    Range r; bool tag = nondet_bool(); Value v0 = x.m_sum_slot; g_calls = 0;
    lambda_scan_body_call(&x, &r, tag);
    OBLIGATION(g_calls == 1 && g_f == (const void *)&g_scan && g_range == (const void *)&r && g_op2 == v0 && g_tag == tag && x.m_sum_slot == g_out,
               "C06.lscan.call: the scan function is applied once to the subrange, the running value and the pass tag; its result becomes the running value");
    lambda_scan_body_assign(&a, &x);
    OBLIGATION(a.m_sum_slot == x.m_sum_slot, "C06.lscan.assign: assign copies the running value");
    g_calls = 0; lambda_scan_body_split_ctor(&c, &x);
    OBLIGATION(c.m_sum_slot == g_identity && c.identity_element == &g_identity && c.m_scan == &g_scan && c.m_reverse_join == &g_rj && g_calls == 0, "C06.lscan.split: a split-off body starts from the identity (not from a copy of the running value) and shares the functions");
    lambda_scan_body_ctor(&c, &g_identity, &g_scan, &g_rj);
    OBLIGATION(c.m_sum_slot == g_identity && c.identity_element == &g_identity && c.m_scan == &g_scan && c.m_reverse_join == &g_rj, "C06.lscan.ctor: a new body starts from the identity");
    VACUITY_END();
}
#endif /* LSCAN */
