/* C06 harnesses: parallel_sort's pre-sortedness probe, dispatch and median selection (sliced from parallel_sort.h) */
#include "verif.h"
#include <stdlib.h>
typedef int *RandomAccessIterator;
int *g_base; size_t g_n, g_p; bool g_inv, g_cancelled, g_pair_examined, g_sort_called; int g_mode;
#define TARGET (g_base + g_p + 1)
static bool COMP_AT(int *x, int *y) {
    OBLIGATION(__CPROVER_same_object(x, g_base) && __CPROVER_same_object(y, g_base) && x >= g_base && x < g_base + g_n && y >= g_base && y < g_base + g_n,
               "C06.probe: every compared position lies inside [begin,end) (k-1 is never before begin, k+1 never at end)");
    if (g_mode == 1) return *x < *y;                                   /* median harness: std::less<int> on the values */
    if (x == TARGET && y == g_base + g_p) { g_pair_examined = true; return g_inv; }   /* the ghost adjacent pair (p, p+1) */
    return nondet_bool();                                               /* any other pair: arbitrary contents */
}
static bool STUB_is_cancelled(void) { return g_cancelled; }
static void STUB_cancel(void) { g_cancelled = true; }
static void STUB_context_init(void) { g_cancelled = false; }
static void STUB_do_parallel_quick_sort(int *b, int *e) { OBLIGATION(b == g_base && e == g_base + g_n, "C06.probe: the whole sequence is handed to the sort"); g_sort_called = true; }
/* loop contract of the probe body: once the ghost pair's second element has been passed and the pair is an inversion, the context is cancelled */
#define LOOP_pretest_1 __CPROVER_assigns(k, i, g_cancelled, g_pair_examined) \
    __CPROVER_loop_invariant(i >= 0 && (long)i <= (long)(my_end - range_begin) && k == range_begin + i \
                             && (!(g_inv && (long)(range_begin - g_base) <= (long)(g_p + 1) && (long)(g_p + 1) < (long)(range_begin - g_base) + i) || g_cancelled)) \
    __CPROVER_decreases((long)(my_end - range_begin) - i)
#define LOOP_pqs_1
void pretest_body(RandomAccessIterator range_begin, RandomAccessIterator range_end);
static void STUB_parallel_for_pretest(int *first, int *last) {
    OBLIGATION(__CPROVER_same_object(first, g_base) && first >= g_base && first <= last && last == g_base + g_n, "C06.probe: the parallel probe ends at end and starts inside the sequence");
    /* some other chunk may already have found a different inversion */
    if (nondet_bool()) g_cancelled = true;
    if (first < last) {
        /* parallel_for tiles [first,last) into chunks (C05); take the chunk that holds the ghost pair's second element, or any chunk */
        size_t lo = nondet_size_t(), hi = nondet_size_t();
        __CPROVER_assume(lo < hi && hi <= (size_t)(last - first));
        if (TARGET >= first && TARGET < last) __CPROVER_assume(first + lo <= TARGET && TARGET < first + hi);
        pretest_body(first + lo, first + hi);
        OBLIGATION(!(g_inv && TARGET >= first + lo && TARGET < first + hi) || g_cancelled, "C06.probe: a chunk that contains an inverted pair cancels the probe");
    }
}
bool g_std_sort, g_pqs; int *g_arg_b, *g_arg_e;
static void STUB_std_sort(int *b, int *e) { g_std_sort = true; g_arg_b = b; g_arg_e = e; }
static void STUB_parallel_quick_sort(int *b, int *e) { g_pqs = true; g_arg_b = b; g_arg_e = e; }
#include "sort.inc"
size_t IN_n, IN_p, IN_a, IN_b;
void h_probe(void) {
    g_mode = 0;
    g_n = IN_n = nondet_size_t(); __CPROVER_assume(g_n >= 500 && g_n <= ((size_t)1 << 20));      /* parallel_sort only gets here for >= 500 elements */
    g_base = malloc(g_n * sizeof(int)); __CPROVER_assume(g_base != NULL);
    g_p = IN_p = nondet_size_t(); __CPROVER_assume(g_p < g_n - 1);                              /* an arbitrary adjacent pair (p, p+1) */
    g_inv = nondet_bool(); g_sort_called = false; g_pair_examined = false;
    parallel_quick_sort(g_base, g_base + g_n);
    OBLIGATION(!g_inv || g_sort_called, "C06.probe: an inversion at ANY adjacent position forces the sort (the probe can never call an unsorted input sorted)");
    VACUITY_END();
}
void h_dispatch(void) {
    g_mode = 0; g_n = 1 << 12; g_base = malloc(g_n * sizeof(int)); __CPROVER_assume(g_base != NULL);
    size_t a = IN_a = nondet_size_t(), b = IN_b = nondet_size_t(); __CPROVER_assume(a <= g_n && b <= g_n);
    g_std_sort = g_pqs = false;
    parallel_sort(g_base + a, g_base + b);
    OBLIGATION(b > a || (!g_std_sort && !g_pqs), "C06.dispatch: an empty or reversed iterator pair does nothing");
    OBLIGATION(!(b > a && b - a < 500) || (g_std_sort && !g_pqs && g_arg_b == g_base + a && g_arg_e == g_base + b), "C06.dispatch: fewer than 500 elements are sorted serially, whole range");
    OBLIGATION(!(b > a && b - a >= 500) || (g_pqs && !g_std_sort && g_arg_b == g_base + a && g_arg_e == g_base + b), "C06.dispatch: 500 or more elements go to the parallel quicksort, whole range");
    VACUITY_END();
}
size_t IN_l, IN_m, IN_r;
void h_median(void) {
    g_mode = 1; g_n = 4; g_base = malloc(g_n * sizeof(int)); __CPROVER_assume(g_base != NULL);
    size_t l = IN_l = nondet_size_t(), m = IN_m = nondet_size_t(), r = IN_r = nondet_size_t(); __CPROVER_assume(l < g_n && m < g_n && r < g_n);
    size_t x = median_of_three(g_base, l, m, r);
    OBLIGATION(x == l || x == m || x == r, "C06.median: the result is one of the three candidates");
    int vl = g_base[l], vm = g_base[m], vr = g_base[r], vx = g_base[x];
    int lo = vl < vm ? (vl < vr ? vl : vr) : (vm < vr ? vm : vr), hi = vl > vm ? (vl > vr ? vl : vr) : (vm > vr ? vm : vr);
    OBLIGATION((long)vx == (long)vl + vm + vr - lo - hi, "C06.median: its value is the median of the three values");
    VACUITY_END();
}
