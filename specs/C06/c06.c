/* C06 harnesses: parallel_sort's pre-sortedness probe, dispatch and median selection (sliced from parallel_sort.h) */
#include "verif.h"
#include <stdlib.h>
#ifdef SORT
typedef int *RandomAccessIterator;
int *g_base; size_t g_n, g_p; bool g_inv, g_cancelled, g_pair_examined, g_sort_called; int g_mode;
#define TARGET (g_base + g_p + 1)
static bool COMP_AT(int *x, int *y) {
    OBLIGATION(__CPROVER_same_object(x, g_base) && __CPROVER_same_object(y, g_base) && x >= g_base && x < g_base + g_n && y >= g_base && y < g_base + g_n,
               "C06.probe: every compared position lies inside [begin,end) (k-1 is never before begin, k+1 never at end)");
    if (g_mode == 1) return *x < *y;                                   /* median harness: std::less<int> on the values */
    if (x == TARGET && y == g_base + g_p) { g_pair_examined = true; return g_inv; }   /* the ghost adjacent pair (p, p+1) */
    return nondet_bool();                                               /* any other pair: arbitrary contents */
}
static bool STUB_is_cancelled(void) { return g_cancelled; }
static void STUB_cancel(void) { g_cancelled = true; }
static void STUB_context_init(void) { g_cancelled = false; }
static void STUB_do_parallel_quick_sort(int *b, int *e) { OBLIGATION(b == g_base && e == g_base + g_n, "C06.probe: the whole sequence is handed to the sort"); g_sort_called = true; }
/* loop contract of the probe body: once the ghost pair's second element has been passed and the pair is an inversion, the context is cancelled */
#define LOOP_pretest_1 __CPROVER_assigns(k, i, g_cancelled, g_pair_examined) \
    __CPROVER_loop_invariant(i >= 0 && (long)i <= (long)(my_end - range_begin) && k == range_begin + i \
                             && (!(g_inv && (long)(range_begin - g_base) <= (long)(g_p + 1) && (long)(g_p + 1) < (long)(range_begin - g_base) + i) || g_cancelled)) \
    __CPROVER_decreases((long)(my_end - range_begin) - i)
#define LOOP_pqs_1
void pretest_body(RandomAccessIterator range_begin, RandomAccessIterator range_end);
static void STUB_parallel_for_pretest(int *first, int *last) {
    OBLIGATION(__CPROVER_same_object(first, g_base) && first >= g_base && first <= last && last == g_base + g_n, "C06.probe: the parallel probe ends at end and starts inside the sequence");
    /* some other chunk may already have found a different inversion */
    if (nondet_bool()) g_cancelled = true;
    if (first < last) {
        /* parallel_for tiles [first,last) into chunks (C05); take the chunk that holds the ghost pair's second element, or any chunk */
        size_t lo = nondet_size_t(), hi = nondet_size_t();
        __CPROVER_assume(lo < hi && hi <= (size_t)(last - first));
        if (TARGET >= first && TARGET < last) __CPROVER_assume(first + lo <= TARGET && TARGET < first + hi);
        pretest_body(first + lo, first + hi);
        OBLIGATION(!(g_inv && TARGET >= first + lo && TARGET < first + hi) || g_cancelled, "C06.probe: a chunk that contains an inverted pair cancels the probe");
    }
}
bool g_std_sort, g_pqs; int *g_arg_b, *g_arg_e;
static void STUB_std_sort(int *b, int *e) { g_std_sort = true; g_arg_b = b; g_arg_e = e; }
static void STUB_parallel_quick_sort(int *b, int *e) { g_pqs = true; g_arg_b = b; g_arg_e = e; }
#include "sort.inc"
size_t IN_n, IN_p, IN_a, IN_b;
void h_probe(void) {
    g_mode = 0;
    g_n = IN_n = nondet_size_t(); __CPROVER_assume(g_n >= 500 && g_n <= ((size_t)1 << 20));      /* parallel_sort only gets here for >= 500 elements */
    g_base = malloc(g_n * sizeof(int)); __CPROVER_assume(g_base != NULL);
    g_p = IN_p = nondet_size_t(); __CPROVER_assume(g_p < g_n - 1);                              /* an arbitrary adjacent pair (p, p+1) */
    g_inv = nondet_bool(); g_sort_called = false; g_pair_examined = false;
    parallel_quick_sort(g_base, g_base + g_n);
    OBLIGATION(!g_inv || g_sort_called, "C06.probe: an inversion at ANY adjacent position forces the sort (the probe can never call an unsorted input sorted)");
    VACUITY_END();
}
void h_dispatch(void) {
    g_mode = 0; g_n = 1 << 12; g_base = malloc(g_n * sizeof(int)); __CPROVER_assume(g_base != NULL);
    size_t a = IN_a = nondet_size_t(), b = IN_b = nondet_size_t(); __CPROVER_assume(a <= g_n && b <= g_n);
    g_std_sort = g_pqs = false;
    parallel_sort(g_base + a, g_base + b);
    OBLIGATION(b > a || (!g_std_sort && !g_pqs), "C06.dispatch: an empty or reversed iterator pair does nothing");
    OBLIGATION(!(b > a && b - a < 500) || (g_std_sort && !g_pqs && g_arg_b == g_base + a && g_arg_e == g_base + b), "C06.dispatch: fewer than 500 elements are sorted serially, whole range");
    OBLIGATION(!(b > a && b - a >= 500) || (g_pqs && !g_std_sort && g_arg_b == g_base + a && g_arg_e == g_base + b), "C06.dispatch: 500 or more elements go to the parallel quicksort, whole range");
    VACUITY_END();
}
size_t IN_l, IN_m, IN_r;
void h_median(void) {
    g_mode = 1; g_n = 4; g_base = malloc(g_n * sizeof(int)); __CPROVER_assume(g_base != NULL);
    size_t l = IN_l = nondet_size_t(), m = IN_m = nondet_size_t(), r = IN_r = nondet_size_t(); __CPROVER_assume(l < g_n && m < g_n && r < g_n);
    size_t x = median_of_three(g_base, l, m, r);
    OBLIGATION(x == l || x == m || x == r, "C06.median: the result is one of the three candidates");
    int vl = g_base[l], vm = g_base[m], vr = g_base[r], vx = g_base[x];
    int lo = vl < vm ? (vl < vr ? vl : vr) : (vm < vr ? vm : vr), hi = vl > vm ? (vl > vr ? vl : vr) : (vm > vr ? vm : vr);
    OBLIGATION((long)vx == (long)vl + vm + vr - lo - hi, "C06.median: its value is the median of the three values");
    VACUITY_END();
}
#endif /* SORT */

#ifdef DISPATCH
/* Every public overload of parallel_reduce / parallel_deterministic_reduce (sliced one by one from parallel_reduce.h; the descriptor row of each overload is derived
   from its SIGNATURE only: name, body form or functional form, partitioner class or none, context or none).  The runner is a stub that records how it was called. */
typedef long Value;
struct Range { int d; }; struct Body { int d; }; struct RealBody { int d; }; struct Reduction { int d; }; struct task_group_context { int d; };
struct simple_partitioner { int d; }; struct auto_partitioner { int d; }; struct static_partitioner { int d; }; struct affinity_partitioner { int d; };
struct lambda_reduce_body { Value *identity; struct RealBody *real_body; struct Reduction *reduction; Value my_value; int constructed; };
enum { K_start_reduce = 1, K_start_deterministic_reduce = 2 };
enum { N_parallel_reduce = 1, N_parallel_deterministic_reduce = 2 };
enum { FORM_BODY = 1, FORM_LAMBDA = 2 };
enum { TT_none = 0, TT_Range, TT_Body, TT_lambda_reduce_body_Range_Value_RealBody_Reduction, TT_simple_partitioner, TT_auto_partitioner, TT_static_partitioner, TT_affinity_partitioner };
static struct simple_partitioner g_temp_simple_partitioner; static struct auto_partitioner g_temp_auto_partitioner; static struct static_partitioner g_temp_static_partitioner; static struct affinity_partitioner g_temp_affinity_partitioner;
#define TEMP(T) (&g_temp_##T)
struct ov_args { struct Range *range; struct Body *body; Value *identity; struct RealBody *real_body; struct Reduction *reduction; struct task_group_context *context;
                 struct simple_partitioner *p_simple_partitioner; struct auto_partitioner *p_auto_partitioner; struct static_partitioner *p_static_partitioner; struct affinity_partitioner *p_affinity_partitioner; };
int g_runs, g_kind, g_t1, g_t2, g_t3, g_nargs; void *g_a_range, *g_a_body, *g_a_part, *g_a_ctx; Value g_result; int g_lctor; bool g_ran_on_lbody; void *g_l_identity, *g_l_real_body, *g_l_reduction; static struct lambda_reduce_body *g_lbody;
static void lambda_reduce_body_ctor(struct lambda_reduce_body *b, Value *identity, struct RealBody *rb, struct Reduction *red) { b->identity = identity; b->real_body = rb; b->reduction = red; b->my_value = *identity; b->constructed = 1; g_lctor++; g_lbody = b; g_l_identity = identity; g_l_real_body = rb; g_l_reduction = red; }
static Value lambda_reduce_body_result(struct lambda_reduce_body *b) { return b->my_value; }
static void run_(int kind, int t1, int t2, int t3, int nargs, void *range, void *body, void *part, void *ctx) {
    g_runs++; g_kind = kind; g_t1 = t1; g_t2 = t2; g_t3 = t3; g_nargs = nargs; g_a_range = range; g_a_body = body; g_a_part = part; g_a_ctx = ctx;
    if (t2 == TT_lambda_reduce_body_Range_Value_RealBody_Reduction && g_lctor > 0 && body == (void *)g_lbody) { g_ran_on_lbody = true; g_lbody->my_value = g_result; }    /* the reduction leaves its value in the body it was given */
}
#define STUB_run3(kind, t1, t2, t3, r, b, p) run_((kind), (t1), (t2), (t3), 3, (r), (b), (p), NULL)
#define STUB_run4(kind, t1, t2, t3, r, b, p, c) run_((kind), (t1), (t2), (t3), 4, (r), (b), (p), (c))
#include "dispatch.inc"
unsigned IN_overload;
static void *part_of(struct ov_args *A, int tag) { return tag == TT_simple_partitioner ? (void *)A->p_simple_partitioner : tag == TT_auto_partitioner ? (void *)A->p_auto_partitioner : tag == TT_static_partitioner ? (void *)A->p_static_partitioner : tag == TT_affinity_partitioner ? (void *)A->p_affinity_partitioner : NULL; }
static void *temp_of(int tag) { return tag == TT_simple_partitioner ? (void *)&g_temp_simple_partitioner : tag == TT_auto_partitioner ? (void *)&g_temp_auto_partitioner : tag == TT_static_partitioner ? (void *)&g_temp_static_partitioner : (void *)&g_temp_affinity_partitioner; }
#define CHECK_OV(i, fn, NAME, FORM, PART, HASCTX, SIG) \
    if (which == (i)) { Value r = call_##fn(&A); int want_part = (PART) != TT_none ? (PART) : ((NAME) == N_parallel_reduce ? TT_auto_partitioner : TT_simple_partitioner); \
        OBLIGATION(g_runs == 1, "C06.dispatch: " SIG " starts exactly one reduction"); \
        OBLIGATION((NAME) == N_parallel_deterministic_reduce ? g_kind == K_start_deterministic_reduce : (g_kind == K_start_reduce || g_kind == K_start_deterministic_reduce), \
                   "C06.dispatch: " SIG " ends in the runner whose contracts give what this entry point promises (parallel_deterministic_reduce: only start_deterministic_reduce, the eager split whose join tree does not depend on the schedule)"); \
        OBLIGATION(g_t3 == want_part, "C06.dispatch: " SIG " instantiates the runner for the partitioner class the caller chose (default: auto_partitioner for parallel_reduce, simple_partitioner for parallel_deterministic_reduce)"); \
        OBLIGATION(g_a_part == ((PART) != TT_none ? part_of(&A, (PART)) : temp_of(want_part)), "C06.dispatch: " SIG " hands the caller's own partitioner object to the runner (a fresh default one if none was given)"); \
        OBLIGATION(g_t1 == TT_Range && g_a_range == (void *)A.range, "C06.dispatch: " SIG " reduces the caller's range"); \
        OBLIGATION((HASCTX) ? (g_nargs == 4 && g_a_ctx == (void *)A.context) : g_nargs == 3, "C06.dispatch: " SIG " runs in the caller's task_group_context if one was given, otherwise in the runner's own bound context"); \
        if ((FORM) == FORM_BODY) OBLIGATION(g_t2 == TT_Body && g_a_body == (void *)A.body && g_lctor == 0, "C06.dispatch: " SIG " reduces into the caller's body"); \
        else { OBLIGATION(g_t2 == TT_lambda_reduce_body_Range_Value_RealBody_Reduction && g_lctor == 1 && g_ran_on_lbody && g_l_identity == (void *)A.identity && g_l_real_body == (void *)A.real_body && g_l_reduction == (void *)A.reduction, \
                          "C06.dispatch: " SIG " reduces into one lambda_reduce_body built from the caller's identity, range function and reduction (in that order)"); \
               OBLIGATION(r == g_result, "C06.dispatch: " SIG " returns the value the reduction left in that body"); } \
    }
void h_reduce_dispatch(void) {
    struct Range range; struct Body body; Value identity = nondet_long(); struct RealBody rb; struct Reduction red; struct task_group_context ctx;
    struct simple_partitioner ps; struct auto_partitioner pa; struct static_partitioner pst; struct affinity_partitioner paf;
    struct ov_args A = { &range, &body, &identity, &rb, &red, &ctx, &ps, &pa, &pst, &paf };
    g_runs = 0; g_lctor = 0; g_lbody = NULL; g_ran_on_lbody = false; g_l_identity = g_l_real_body = g_l_reduction = NULL; g_result = nondet_long(); g_kind = g_t1 = g_t2 = g_t3 = g_nargs = 0; g_a_range = g_a_body = g_a_part = g_a_ctx = NULL;
    unsigned which = IN_overload = nondet_unsigned(); __CPROVER_assume(which < C06_N_OVERLOADS);
    C06_OVERLOADS(CHECK_OV)
    VACUITY_END();
}
#endif /* DISPATCH */

#ifdef FOLD
/* partitioner.h fold_tree<TreeNodeType>: rely/guarantee on node::m_ref_count, for a tree of ANY depth (loop contract over the walk towards the root).
   The chain of ancestors is the array N[0..g_depth]: N[j]'s parent is N[j+1]; N[g_depth] is the wait_node (no parent).
   INV(j): N[j].m_ref_count == number of children of N[j] that have not finished yet (established by offer_work_impl: ref count 2 for two children; wait_node: 1).
   Rely: other children finish at any time - the count only decreases, and never below the references still held (mine is counted while g_mine).
   Guarantee of every step of this thread: INV again; a node is read, joined, freed only while this thread holds a counted reference to it or after its own
   decrement brought the count to 0 (then no other thread has any business with the node). */
typedef struct node { int m_ref_count; } node;
typedef node TreeNodeType; typedef node wait_node;
typedef struct execution_data { void *context; } execution_data;
#define DMAX ((size_t)1 << 12)
static node *N; static size_t g_depth, g_start;
size_t g_at;      /* ghost: the level this thread is at */
bool g_mine;      /* this thread is an unfinished child of N[g_at]: its reference is still counted */
bool g_excl;      /* this thread's decrement was the last one: ALL children of N[g_at] have finished */
bool g_joined;    /* N[g_at] has been joined by this thread */
long g_others;    /* ghost census: OTHER unfinished children of N[g_at] */
int g_released; size_t g_k; int g_join_k, g_free_k; void *g_ctx;
#define INV_AT (g_others >= 0 && g_others < INT_MAX && N[g_at].m_ref_count == g_others + (g_mine ? 1 : 0))
static void interfere(void) {   /* any number of other children of the node finish */
    if (g_mine) { long o = nondet_long(); __CPROVER_assume(o >= 0 && o <= g_others); g_others = o; N[g_at].m_ref_count = (int)(o + 1); }
}
#define ACCESS(x) __CPROVER_assert(&(x) == &N[g_at].m_ref_count && (g_mine || g_excl), "C06.fold: a node is touched only by a thread that still holds a counted reference to it, or whose decrement was the last (otherwise the node may already be freed)")
#define ATOMIC_LOAD_AT(site, x) ({ ACCESS(x); interfere(); (x); })
#define ATOMIC_PREDEC_AT(site, x) ({ ACCESS(x); interfere(); __CPROVER_assert(g_mine, "C06.fold: each finishing child decrements its parent's count exactly once"); int r_ = --(x); g_mine = false; g_excl = (g_others == 0); \
    __CPROVER_assert(INV_AT, "guarantee: m_ref_count equals the number of unfinished children, at " #site); r_; })
#define ATOMIC_FETCH_SUB_AT(site, x, v) ({ ACCESS(x); interfere(); __CPROVER_assert(g_mine, "C06.fold: each finishing child decrements its parent's count exactly once"); int o_ = (x); (x) -= (v); g_mine = false; g_excl = (g_others == 0); \
    __CPROVER_assert(INV_AT, "guarantee: m_ref_count equals the number of unfinished children, at " #site); o_; })
static node *node_parent(node *n) { __CPROVER_assert(n == &N[g_at] && (g_mine || g_excl), "C06.fold: the parent link is read from a node this thread may still touch"); return g_at == g_depth ? NULL : &N[g_at + 1]; }
#define NODE_PARENT(n) node_parent(n)
static void TreeNodeType_join(TreeNodeType *self, void *context) {
    __CPROVER_assert(self == &N[g_at] && g_at < g_depth, "C06.fold: join is applied to the tree node whose count was just decremented, never to the wait node");
    OBLIGATION(g_excl, "C06.fold: a node is joined only by the thread whose decrement brought m_ref_count to 0, i.e. after ALL children of that node have finished");
    OBLIGATION(!g_joined, "C06.fold: a node is joined at most once");
    OBLIGATION(context == g_ctx, "C06.fold: join sees the context of the executing task (cancellation test)");
    g_joined = true; if (g_at == g_k) g_join_k++;
}
static void STUB_delete_node(TreeNodeType *self, const execution_data *ed) {
    __CPROVER_assert(self == &N[g_at] && g_at < g_depth, "C06.fold: the node freed is the tree node whose count was just decremented, never the wait node");
    OBLIGATION(g_excl, "C06.fold: a node is freed only by the thread whose decrement brought m_ref_count to 0");
    OBLIGATION(g_joined, "C06.fold: a node is joined before it is destroyed (the right body lives inside the node)");
    if (g_at == g_k) g_free_k++;
    /* the finished subtree N[g_at] is now one finishing child of its parent: this thread's reference there is still counted */
    g_at++; g_mine = true; g_excl = false; g_joined = false; g_others = nondet_long(); __CPROVER_assume(g_others >= 0 && g_others < INT_MAX); N[g_at].m_ref_count = (int)(g_others + 1);
}
static void STUB_wait_release(wait_node *w) {
    __CPROVER_assert(w == &N[g_depth] && g_at == g_depth, "C06.fold: only the root wait node is released");
    OBLIGATION(g_excl, "C06.fold: the root's wait is released only by the thread whose decrement brought the root count to 0 (everything below has finished and was joined)");
    g_released++;
}
#define LOOP_fold_1 __CPROVER_assigns(n, g_at, g_mine, g_excl, g_joined, g_others, g_join_k, g_free_k, __CPROVER_object_whole(N)) \
    __CPROVER_loop_invariant(g_at <= g_depth && n == &N[g_at] && g_mine && !g_excl && !g_joined && g_released == 0 && INV_AT \
        && g_join_k == ((g_k >= g_start && g_k < g_at) ? 1 : 0) && g_free_k == g_join_k) \
    __CPROVER_decreases(g_depth - g_at)
#include "fold.inc"
size_t IN_depth, IN_start, IN_k; long IN_others;
void h_fold(void) {
    g_depth = IN_depth = nondet_size_t(); __CPROVER_assume(g_depth <= DMAX);
    N = malloc((g_depth + 1) * sizeof(node)); __CPROVER_assume(N != NULL);
    g_start = g_at = IN_start = nondet_size_t(); __CPROVER_assume(g_start <= g_depth);          /* a finishing task hangs under any node of the chain, possibly directly under the wait node */
    g_k = IN_k = nondet_size_t(); __CPROVER_assume(g_k <= g_depth);
    g_mine = true; g_excl = false; g_joined = false; g_released = 0; g_join_k = g_free_k = 0;
    g_others = IN_others = nondet_long(); __CPROVER_assume(g_others >= 0 && g_others < INT_MAX); N[g_at].m_ref_count = (int)(g_others + 1);
    execution_data ed; ed.context = g_ctx = nondet_ptr();
    fold_tree(&N[g_at], &ed);
    OBLIGATION(!g_mine, "C06.fold: the finishing child has given up its reference (decremented exactly once per node it was counted in)");
    OBLIGATION(g_released ? (g_released == 1 && g_at == g_depth && g_excl) : !g_excl,
               "C06.fold: fold_tree stops only where other children are still unfinished (it was not the last there), or at the root after releasing the wait exactly once; the thread that brings a count to 0 never walks away from the node");
    OBLIGATION(g_join_k == ((g_k >= g_start && g_k < g_at) ? 1 : 0) && g_free_k == g_join_k, "C06.fold: every node this thread was the last child of is joined exactly once and then freed exactly once; no other node is joined or freed");
    VACUITY_END();
}
#endif /* FOLD */
