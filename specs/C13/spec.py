"""C13 -- concurrent_priority_queue: heap maintenance (heapify/reheap, every size), the batch handler (every batch length), the API wrappers and the aggregator hand-off."""
import os
import sys
import re
HERE = os.path.dirname(os.path.abspath(__file__))
sys.path.insert(0, os.path.join(HERE, '..'))
sys.path.insert(0, os.path.join(HERE, '..', '..', 'tools'))
import common
import native
import cxx2c
from cxx2c import Rewriter, CClass, Slice, slice_block, tag_loops, ExtractionBreak, load
from prove import Job

PQ = 'include/oneapi/tbb/concurrent_priority_queue.h'
VEC = [(r'\bdata\.size\(\)', 'VEC_SIZE(self)', 0), (r'\bdata\.empty\(\)', '(VEC_SIZE(self) == 0)', 0), (r'\bdata\.back\(\)', 'VEC_BACK(self)', 0),
       (r'\bdata\.pop_back\(\);', 'VEC_POP_BACK(self);', 0), (r'\bdata\[', 'self->data[', 0), (r'std::move\(([^()]*(?:\([^()]*\))?[^()]*)\)', r'(\1)', 0),
       (r'\bmy_compare\(', 'COMPARE(', 0), (r'call_itt_notify\([^;]*\);', 'RG_NOP();', 0), (r'\bvalue_type\b', 'value_type', 0)]


WRITE_TOKENS = r'DATA_MOVE|VEC_POP_BACK|VEC_PUSH_BACK|cpq_\w+\(|OP_SET_NEXT|self->data\[[^\]]*\]\s*(?:=[^=]|\+\+|--|[-+*/|&^]=)|(?:\+\+|--)\s*self->data'


def number_hooks(rw, t, fname, defaults):
    """COMPARE( -> COMPARE_<fn>_<k>( (k in textual order) and element moves `data[i] = move(data[j]);` / `data[i] = move(data.back());`
    -> DATA_MOVE_<fn>_<k>(self, i, j); / DATA_MOVE_BACK_<fn>_<k>(self, i);  The hooks default to the plain operation (#ifndef block emitted in
    front of the function); proof sections redefine them to add ghost updates / lemma instances.  The move rules have minimum count 0:
    a change that deletes or reshapes a move must fail an obligation, not break extraction."""
    for tok, pat, rep, dflt, minc in (
            ('COMPARE', r'\bCOMPARE\(', 'COMPARE_%s_%d(', 'COMPARE', 0),
            ('DATA_MOVE', r'self->data\[([^\]]+)\] = \(self->data\[([^\]]+)\]\);', 'DATA_MOVE_%s_%d(self, \\1, \\2);', None, 0),
            ('DATA_MOVE_BACK', r'self->data\[([^\]]+)\] = \(VEC_BACK\(self\)\);', 'DATA_MOVE_BACK_%s_%d(self, \\1);', None, 0)):
        k = [0]

        def fn(m, tok=tok, rep=rep):
            k[0] += 1
            return m.expand(rep % (fname, k[0]))
        t = re.sub(pat, fn, t)
        rw._rec('hook:%s(%s)' % (tok, fname), k[0], minc)
        for i in range(1, k[0] + 1):
            nm = '%s_%s_%d' % (tok, fname, i)
            body = {'COMPARE': '#define %s COMPARE' % nm, 'DATA_MOVE': '#define %s(s, i, j) ((s)->data[i] = (s)->data[j])' % nm,
                    'DATA_MOVE_BACK': '#define %s(s, i) ((s)->data[i] = VEC_BACK(s))' % nm}[tok]
            defaults.append('#ifndef %s\n%s\n#endif' % (nm, body))
    return t


def head_site(rw, t, loop_macro, site):
    """A lemma instance (an instance of the loop's universally quantified invariant at another index) may only be assumed in the loop-head
    state: between the loop header and the site there must be no write to the array, no call, no nested loop."""
    a = t.find(loop_macro)
    b = t.find(site, a)
    if a < 0 or b < 0:      # the comparison is gone: no lemma is supplied, the order proof then fails on its own
        rw.fired['head-site:' + site] = 0
        return
    seg = t[a + len(loop_macro):b]
    if re.search(WRITE_TOKENS, seg) or re.search(r'\b(for|while|do|goto|continue)\b', seg):
        raise ExtractionBreak('lemma site %s is no longer at the head of loop %s (a write or a loop precedes it)' % (site, loop_macro))
    rw.fired['head-site:' + site] = 1


def extract(ctx):
    sliced, fired = [], {}
    pq = CClass(PQ, r'class concurrent_priority_queue \{', 'cpq', tbind={'size_type': 'size_t'})
    for pat, what in ((r'size_type mark;', 'mark'), (r'std::atomic<size_type> my_size;', 'my_size'), (r'vector_type data;', 'data'), (r'enum operation_type \{INVALID_OP, PUSH_OP, POP_OP, PUSH_RVALUE_OP\};', 'operation_type'),
                      (r'enum operation_status \{WAIT = 0, SUCCEEDED, FAILED\};', 'operation_status')):
        if not re.search(pat, load(PQ)):
            raise ExtractionBreak('concurrent_priority_queue.h: %s changed' % what)
    pq.members = [('size_t', 'mark', ''), ('size_t', 'my_size', ''), ('value_type*', 'data', ''), ('size_t', 'data_n', '')]
    rw = pq.rw
    out, defaults = [], []
    t = pq.convert(pq.method(r'void heapify\(\)'), 'cpq_heapify', pre=VEC)
    t = tag_loops(t, 'heapify', rw, expect=2)
    t = number_hooks(rw, t, 'heapify', defaults)
    head_site(rw, t, 'LOOP_heapify_2', 'COMPARE_heapify_1(')
    out.append(t)
    t = pq.convert(pq.method(r'void reheap\(\)'), 'cpq_reheap', pre=VEC)
    t = tag_loops(t, 'reheap', rw, expect=1)
    t = number_hooks(rw, t, 'reheap', defaults)
    head_site(rw, t, 'LOOP_reheap_1', 'COMPARE_reheap_2(')
    out.append(t)
    common.write(ctx, 'cpq_heap.inc', pq.struct_decl() + '\n'.join(defaults) + '\n' + '\n'.join(out))
    s = pq.method(r'void handle_operations\( cpq_operation\* op_list \)')
    txt = cxx2c.cpp_resolve(s.text, {'TBB_USE_EXCEPTIONS': 0}, 'handle_operations')
    rw.fired['cpp-resolve(TBB_USE_EXCEPTIONS=0: the catch arm is cut)'] = 1
    t = pq.convert(Slice(s.rel, s.start, s.end, txt, s.line), 'cpq_handle_operations', methods=['heapify', 'reheap'], pre=VEC + [
        (r'\bop_list->next\.load\(std::memory_order_relaxed\)', 'op_list->next', 0), (r'pop_list->next\.load\(std::memory_order_relaxed\)', 'pop_list->next', 0),
        (r'tmp->next\.store\((\w+), std::memory_order_relaxed\);', r'tmp->next = \1;', 0),
        (r'tmp->status\.store\(uintptr_t\((\w+)\), std::memory_order_release\);', r'SET_STATUS(tmp, \1);', 0),
        (r'my_size\.store\(my_size\.load\(std::memory_order_relaxed\) ([-+]) 1, std::memory_order_relaxed\);', r'my_size = my_size \1 1;', 0),
        (r'push_back_helper\(\*\(tmp->elem\)\);', 'VEC_PUSH_BACK(self, *(tmp->elem));', 0), (r'data\.push_back\(\(\*\(tmp->elem\)\)\);', 'VEC_PUSH_BACK(self, *(tmp->elem));', 0)])
    t = rw.sub(t, r'cpq_operation\* tmp, \*pop_list = NULL;', 'cpq_operation* tmp; cpq_operation* pop_list = NULL;', 1, 1, name='multi-declarator')
    t = tag_loops(t, 'handle', rw, expect=2)
    out.append(t)
    common.write(ctx, 'cpq.inc', pq.struct_decl() + '\n'.join(defaults) + '\n' + '\n'.join(out))
    # ---- handle_operations once more, with every access to an operation record and every element hand-over behind a hook (proof section HANDLELC):
    # the records of a batch of symbolic length are not laid out in memory; the hooks model them with ghost indices
    h = t
    h = rw.sub(h, r'\b(\w+)->next = (\w+);', r'OP_SET_NEXT(\1, \2);', 0, name='hook: op->next = x')
    h = rw.sub(h, r'\b(\w+)->next\b', r'OP_NEXT(\1)', 0, name='hook: op->next')
    h = rw.sub(h, r'\b(\w+)->type\b', r'OP_TYPE(\1)', 3, name='hook: op->type')
    k = [0]

    def take(m):
        k[0] += 1
        return ('POP_TAKE_BACK(%s, self);' % m.group(1)) if m.group(2).startswith('VEC_BACK') else ('POP_TAKE_AT(%s, self, %s);' % (m.group(1), m.group(3)))
    h = re.sub(r'\*\((\w+)->elem\) = \((VEC_BACK\(self\)|self->data\[([^\]]+)\])\);', take, h)
    rw._rec('hook: *(op->elem) = move(data.back() | data[i])', k[0], 0)
    h = rw.sub(h, r'\*\((\w+)->elem\)', r'(*OP_ELEM(\1))', 0, name='hook: *(op->elem)')
    hd = []
    h = number_hooks(rw, h, 'handle', hd)
    head_site(rw, h, 'LOOP_handle_1', 'OP_NEXT(op_list)')
    common.write(ctx, 'cpq_handle.inc', pq.struct_decl() + '\n'.join(hd) + '\n' + h)
    # ---- API wrappers and whole-container operations (section WRAP) -----------------------------------------------------------------
    wr = Rewriter('cpq-wrappers')
    STORE = (r'my_size\.store\((.*?), std::memory_order_relaxed\);', r'my_size = \1;', 0)
    LOADO = (r'other\.my_size\.load\(std::memory_order_relaxed\)', 'other.my_size', 0)
    pq.tbind['InputIterator'] = 'const value_type*'
    wout = []
    for sig, cname, opt in ((r'void push\( const value_type& value \)', 'cpq_push_copy', 'PUSH_OP'), (r'void push\( value_type&& value \)', 'cpq_push_move', 'PUSH_RVALUE_OP'),
                            (r'bool try_pop\( value_type& value \)', 'cpq_try_pop', 'POP_OP')):
        sl = pq.method(sig)
        t = wr.sub(sl.text, sig, ('bool ' if 'try_pop' in sig else 'void ') + cname + '(struct cpq* self, value_type* value)', 1, 1, name='sig')
        t = wr.sub(t, r'cpq_operation op_data\(value, (\w+)\);', r'cpq_operation op_data; cpq_operation_ctor(&op_data, value, \1);', 1, 1, name='local object with constructor call')
        t = wr.sub(t, r'my_aggregator\.execute\(&op_data\);', 'AGG_EXECUTE(self, &op_data);', 0, name='aggregator.execute -> stub')
        t = wr.sub(t, r'throw_exception\(exception_id::bad_alloc\);', 'THROW_BAD_ALLOC();', 0, name='throw -> stub')
        wout.append(t)
    sl = slice_block(PQ, r'cpq_operation\( const value_type& value, operation_type t \)', within=r'class cpq_operation : public aggregated_operation<cpq_operation> \{')
    pq.sliced.append('%s:%d cpq_operation::cpq_operation' % (PQ, sl.line))
    t = wr.sub(sl.text, r'cpq_operation\( const value_type& value, operation_type t \)\s*: type\((\w+)\), elem\(const_cast<value_type\*>\(&(\w+)\)\) \{\}',
               r'static void cpq_operation_ctor(cpq_operation* self, value_type* value, int t) { aggregated_operation_ctor(self); self->type = \1; self->elem = \2; }', 1, 1, name='ctor init-list -> assignments (base first)')
    sl = slice_block('include/oneapi/tbb/detail/_aggregator.h', r'aggregated_operation\(\) : status\{\}, next\(nullptr\)', within=r'class aggregated_operation \{')
    pq.sliced.append('include/oneapi/tbb/detail/_aggregator.h:%d aggregated_operation::aggregated_operation' % sl.line)
    t0 = wr.sub(sl.text, r'aggregated_operation\(\) : status\{\}, next\((\w+)\) \{\}', r'static void aggregated_operation_ctor(cpq_operation* self) { self->status = 0 /* status{} */; self->next = \1; }', 1, 1, name='ctor init-list -> assignments')
    t0 = wr.std(t0)
    wout = [t0, t] + wout
    wout.append(pq.convert(pq.method(r'size_type size\(\) const'), 'cpq_size', pre=[(r'my_size\.load\(std::memory_order_relaxed\)', 'my_size', 1)]))
    t = pq.convert(pq.method(r'bool empty\(\) const'), 'cpq_empty', methods=['size'], pre=[(r'__TBB_nodiscard\s*', '', 0)])
    wout.append(t)
    wout.append(pq.convert(pq.method(r'void clear\(\)'), 'cpq_clear', pre=[(r'\bdata\.clear\(\);', 'VEC_CLEAR(self);', 0), STORE]))
    wout.append(pq.convert(pq.method(r'void assign\( InputIterator begin, InputIterator end \)'), 'cpq_assign', methods=['heapify'], pre=[(r'\bdata\.assign\(begin, end\);', 'VEC_ASSIGN(self, begin, end);', 0)] + VEC[:1] + [STORE]))
    sl = pq.method(r'concurrent_priority_queue& operator=\( const concurrent_priority_queue& other \)')
    txt = wr.sub(sl.text, r'concurrent_priority_queue& operator=\( const concurrent_priority_queue& other \)', 'void copy_assign( const concurrent_priority_queue& other )', 1, 1, name='operator= -> named function')
    txt = wr.sub(txt, r'return \*this;', 'return;', 1, 1, name='return *this')
    wout.append(pq.convert(Slice(sl.rel, sl.start, sl.end, txt, sl.line), 'cpq_copy_assign', other={'other': pq},
                           pre=[(r'\(this != &other\)', '(self != other)', 1), (r'\bdata = other\.data;', 'VEC_COPY(self, other);', 0), LOADO, STORE]))
    common.write(ctx, 'cpq_wrap.inc', pq.struct_decl() + '\n'.join(wout))
    fired['concurrent_priority_queue wrappers'] = wr.fired
    # ---- aggregator_generic: the hand-off that makes the handler sequential ---------------------
    AG = 'include/oneapi/tbb/detail/_aggregator.h'
    rwa = Rewriter('aggregator')
    W = r'class aggregator_generic \{'
    outa = []
    s = slice_block(AG, r'void start_handle_operations\( HandlerType& handle_operations \)', within=W)
    sliced.append('%s:%d aggregator_generic::start_handle_operations' % (AG, s.line))
    t = rwa.sub(s.text, r'void start_handle_operations\( HandlerType& handle_operations \)', 'static void agg_start_handle_operations(struct agg* self)', 1, 1, name='sig (handler bound to a stub)')
    t = rwa.sub(t, r'call_itt_notify\([^;]*\);', 'RG_NOP();', 3, name='itt -> RG_NOP')
    t = rwa.sub(t, r'spin_wait_until_eq\(handler_busy, uintptr_t\(0\)\);', 'SPIN_WAIT_UNTIL_EQ(self->handler_busy, 0);', 1, 1, name='spin-wait')
    t = rwa.sub(t, r'(?<![\w.>])(handler_busy|pending_operations)\.', r'self->\1.', 3, name='field')
    t = rwa.atomics(t, ['handler_busy', 'pending_operations'], 3)
    t = rwa.sub(t, r'handle_operations\(op_list\);', 'STUB_handle_operations(op_list);', 1, 1, name='handler -> stub')
    t = rwa.sub(t, r'OperationType\*', 'struct op*', 1, name='bind-template')
    t = rwa.std(t)
    t = rwa.number_sites(t, 'sho', by_kind=True)
    outa.append(t)
    s = slice_block(AG, r'void execute\( OperationType\* op, HandlerType& handle_operations, bool long_life_time = true \)', within=W)
    sliced.append('%s:%d aggregator_generic::execute' % (AG, s.line))
    t = rwa.sub(s.text, r'void execute\( OperationType\* op, HandlerType& handle_operations, bool long_life_time = true \)', 'static void agg_execute(struct agg* self, struct op* op, bool long_life_time)', 1, 1, name='sig')
    t = rwa.sub(t, r'call_itt_notify\([^;]*\);', 'RG_NOP();', 3, name='itt -> RG_NOP')
    t = rwa.sub(t, r'start_handle_operations\(handle_operations\);', 'agg_start_handle_operations(self);', 1, 1, name='method')
    t = rwa.sub(t, r'spin_wait_while_eq\(op->status, uintptr_t\(0\)\);', 'SPIN_WAIT_WHILE_EQ(op->status, 0);', 1, 1, name='spin-wait')
    t = rwa.sub(t, r'(?<![\w.>])pending_operations\.', 'self->pending_operations.', 2, name='field')
    t = rwa.atomics(t, ['pending_operations', 'status', 'next'], 4)
    t = rwa.sub(t, r'OperationType\*', 'struct op*', 1, name='bind-template')
    t = rwa.asserts(t, 2)
    t = rwa.std(t)
    t = rwa.number_sites(t, 'exe', by_kind=True)
    t = tag_loops(t, 'exe', rwa, expect=1)
    outa.append(t)
    common.write(ctx, 'agg.inc', '\n'.join(outa) + '\n')
    fired['aggregator'] = rwa.fired
    sliced += pq.sliced
    fired['concurrent_priority_queue'] = rw.fired
    return sliced, fired


def build(ctx):
    sliced, fired = extract(ctx)
    C = os.path.join(HERE, 'c13.c')
    q, th = (6, 9) if ctx.tier == 'quick' else (9, 13)
    jobs = [
        Job('agg.execute', C, 'h_agg', route='RG', defines=['AGG'], loops=True, nloops=1, timeout=600, target='aggregator_generic::execute + start_handle_operations (single handler, every operation in exactly one batch)', source='include/oneapi/tbb/detail/_aggregator.h'),
        Job('book.reheap', C, 'h_reheap_lc', route='LC', loops=True, nloops=1, defines=['LCMODE'], timeout=600, target='concurrent_priority_queue::reheap (bookkeeping + memory safety, every size)', source=PQ),
        Job('book.heapify', C, 'h_heapify_lc', route='LC', loops=True, nloops=2, defines=['LCMODE'], timeout=600, target='concurrent_priority_queue::heapify (bookkeeping + memory safety, every size)', source=PQ),
        Job('heap.heapify.order', C, 'h_heapify_lc', route='LC', loops=True, nloops=2, solver='cadical', defines=['HEAPLC', 'PART_ORDER'], timeout=400, inputs=['IN_n', 'IN_mark', 'IN_k'],
            target='concurrent_priority_queue::heapify (heap order at an arbitrary position, every size)', source=PQ),
        Job('heap.heapify.kept', C, 'h_heapify_lc', route='LC', loops=True, nloops=2, solver='cadical', defines=['HEAPLC', 'PART_KEPT'], timeout=400, inputs=['IN_n', 'IN_mark', 'IN_k'],
            target='concurrent_priority_queue::heapify (an arbitrary element followed: it keeps a place, every size)', source=PQ),
        Job('heap.heapify.distinct', C, 'h_heapify_lc', route='LC', loops=True, nloops=2, solver='cadical', defines=['HEAPLC', 'PART_DIST'], timeout=400, inputs=['IN_n', 'IN_mark', 'IN_k'],
            target='concurrent_priority_queue::heapify (two arbitrary elements followed: their places stay distinct, every size)', source=PQ),
        Job('heap.reheap.order', C, 'h_reheap_lc', route='LC', loops=True, nloops=1, defines=['HEAPLC', 'PART_ORDER'], timeout=400, inputs=['IN_n', 'IN_mark', 'IN_k'],
            target='concurrent_priority_queue::reheap (heap order at an arbitrary position, every size)', source=PQ),
        Job('heap.reheap.kept', C, 'h_reheap_lc', route='LC', loops=True, nloops=1, defines=['HEAPLC', 'PART_KEPT'], timeout=400, inputs=['IN_n', 'IN_mark', 'IN_k'],
            target='concurrent_priority_queue::reheap (an arbitrary element followed: it keeps a place, every size)', source=PQ),
        Job('heap.reheap.distinct', C, 'h_reheap_lc', route='LC', loops=True, nloops=1, defines=['HEAPLC', 'PART_DIST'], timeout=400, inputs=['IN_n', 'IN_mark', 'IN_k'],
            target='concurrent_priority_queue::reheap (two arbitrary elements followed: their places stay distinct, every size)', source=PQ),
        Job('batch.handle_operations.records', C, 'h_handle_lc', route='LC', loops=True, nloops=2, defines=['HANDLELC', 'PART_L'], timeout=600, inputs=['IN_n', 'IN_nops'],
            target='concurrent_priority_queue::handle_operations (batch of every length: records, postponed-pop list, status words, termination)', source=PQ),
        Job('batch.handle_operations.elements', C, 'h_handle_lc', route='LC', loops=True, nloops=2, defines=['HANDLELC', 'PART_E'], timeout=600, inputs=['IN_n', 'IN_nops'],
            target='concurrent_priority_queue::handle_operations (batch of every length, queue of every size: elements, priority, heap order, sizes; heapify/reheap by their contracts)', source=PQ),
        Job('lemma.rootmax', C, 'h_lemma_rootmax', route='LW', defines=['HANDLELC'], unwind=18, timeout=300, target='lemma: heap order at every position => the root is maximal (size <= 2^16)', source='specs/C13/c13.c'),
        Job('api.push_copy', C, 'h_push_copy', route='LF', defines=['WRAP'], timeout=120, target='concurrent_priority_queue::push(const value_type&) + cpq_operation / aggregated_operation constructors', source=PQ),
        Job('api.push_move', C, 'h_push_move', route='LF', defines=['WRAP'], timeout=120, target='concurrent_priority_queue::push(value_type&&) + constructors', source=PQ),
        Job('api.try_pop', C, 'h_try_pop', route='LF', defines=['WRAP'], timeout=120, target='concurrent_priority_queue::try_pop + constructors', source=PQ),
        Job('api.size_empty', C, 'h_size_empty', route='LF', defines=['WRAP'], timeout=120, target='concurrent_priority_queue::size, empty', source=PQ),
        Job('container.clear', C, 'h_clear', route='LF', defines=['WRAP'], timeout=120, target='concurrent_priority_queue::clear', source=PQ),
        Job('container.assign', C, 'h_assign', route='LF', defines=['WRAP'], timeout=120, target='concurrent_priority_queue::assign(begin, end) (bulk load, mark reset, heapify by its contract)', source=PQ),
        Job('container.copy_assign', C, 'h_copy_assign', route='LF', defines=['WRAP'], timeout=120, target='concurrent_priority_queue::operator=(const concurrent_priority_queue&)', source=PQ),
        Job('batch.handle_operations', C, 'h_handle', route='BD', bound_text='queue of at most 4 elements, batch of at most 3 operations', defines=['MAXN=8', 'BATCH'], unwind=14, timeout=900,
            target='concurrent_priority_queue::handle_operations (+heapify, reheap)', source=PQ),
    ]
    return {
        'jobs': jobs, 'sliced': sliced, 'fired': fired,
        'trusted': ['std::vector<T> data modelled as array + length (VEC_* macros); capacity never exhausted (push_back does not throw)', 'Compare bound to std::less<int>',
                    'heap.*/batch.*: a universally quantified invariant is proved at one arbitrary index; where the loop body needs it at a second, state-dependent index (parent of the hole in heapify, child that moves up in reheap, record at the cursor in handle_operations) that instance of the SAME formula is assumed at the head of the loop body (induction hypothesis); the extraction checks that the site precedes every write of the body',
                    'batch.handle_operations.*: heapify / reheap replaced by stubs that assert the precondition and assume the postcondition proved by heap.heapify.* / heap.reheap.* (order at g_k, the followed element keeps a place, heap-region elements stay in the heap region) plus lemma.rootmax; the composition (order for all positions => root maximal) is on paper',
                    'batch.handle_operations.*: operation records are tokens, every field access is a hook; POST[] is a prophecy array resolved at the first-pass decision; part E over-approximates the postponed list (any pop record or NULL)',
                    'api.*: aggregator::execute + handler replaced by a stub that answers SUCCEEDED or FAILED (agg.execute and batch.handle_operations.records prove exactly one non-zero status per record)',
                    'container.*: std::vector assign / clear / copy-assignment modelled on the length only'],
        'drops': ['try/catch around push (TBB_USE_EXCEPTIONS arm cut)', 'std::move -> copy', 'status/next atomics -> plain fields or hooks (handler is the only thread touching the batch)', 'call_itt_notify -> RG_NOP()',
                  'element moves data[i] = move(data[j]) / data[i] = move(data.back()) -> DATA_MOVE*/ hooks (same assignment + ghost position update)', '*(op->elem) = move(data.back()|data[i]) -> POP_TAKE_* hooks',
                  'op->type / op->next / op->elem / op->status.store -> OP_* / SET_STATUS hooks', 'throw_exception(bad_alloc) -> THROW_BAD_ALLOC() counter', 'memory orders'],
        'not_decided': ['exception thrown by the element copy/move inside the handler (catch arm cut: FAILED status of a push is produced only there)',
                        'linearizability ACROSS batches and the real-time order between a batch and operations that completed before it: paper argument (each batch is handled atomically by one thread: agg.execute; within a batch every pop is checked against the elements queued before the batch)',
                        'distinctness of places at batch level (two followed elements) is proved for heapify/reheap only; for handle_operations one element is followed and the sizes are counted',
                        'range constructor, copy/move constructors, move assignment, swap, emplace (forwarding to push(T&&)), allocator-extended constructors',
                        'element types other than int / comparators other than std::less<int> (a strict weak order is what the proofs use: !(a<b) chains)',
                        'arrays above 2^16 elements (heap.*) / batches above 2^12 records over queues above 2^12 elements (batch.*): numeric bounds of the symbolic arrays, not unwinding bounds'],
        'assumptions': ['element type int, Compare = std::less<int>', 'sequentially consistent atomics; the handler is the only thread that touches the batch and the array (agg.execute)', 'allocation in push_back succeeds',
                        'every record of a batch has type PUSH_OP, POP_OP or PUSH_RVALUE_OP (api.* prove that push/try_pop build no other)'],
    }


def replay(ctx, jobname, failure):
    exe = native.build([os.path.join(HERE, 'c13_replay.cpp')], os.path.join(ctx.work, 'c13_replay'), flags=['-fno-access-control'], link_tbb=True)
    rc, out = native.run([exe, jobname], timeout=120)
    rep = {'cmd': exe + ' ' + jobname, 'rc': rc, 'output': out[-1500:], 'reproduced': False, 'detail': 'native recipes found no failing sequence'}
    m = re.search(r'REPRODUCED (.*)', out)
    if m:
        rep['reproduced'] = True
        rep['detail'] = m.group(1)
        w = re.search(r'class=(\S+)', m.group(1))
        rep['witness_class'] = w.group(1) if w else None
    return rep
