"""C13 -- concurrent_priority_queue: the serial handler (heap maintenance + batch bookkeeping) and the aggregator hand-off."""
import os
import sys
import re
HERE = os.path.dirname(os.path.abspath(__file__))
sys.path.insert(0, os.path.join(HERE, '..'))
sys.path.insert(0, os.path.join(HERE, '..', '..', 'tools'))
import common
import native
import cxx2c
from cxx2c import Rewriter, CClass, Slice, slice_block, tag_loops, ExtractionBreak, load
from prove import Job

PQ = 'include/oneapi/tbb/concurrent_priority_queue.h'
VEC = [(r'\bdata\.size\(\)', 'VEC_SIZE(self)', 0), (r'\bdata\.empty\(\)', '(VEC_SIZE(self) == 0)', 0), (r'\bdata\.back\(\)', 'VEC_BACK(self)', 0),
       (r'\bdata\.pop_back\(\);', 'VEC_POP_BACK(self);', 0), (r'\bdata\[', 'self->data[', 0), (r'std::move\(([^()]*(?:\([^()]*\))?[^()]*)\)', r'(\1)', 0),
       (r'\bmy_compare\(', 'COMPARE(', 0), (r'call_itt_notify\([^;]*\);', 'RG_NOP();', 0), (r'\bvalue_type\b', 'value_type', 0)]


def extract(ctx):
    sliced, fired = [], {}
    pq = CClass(PQ, r'class concurrent_priority_queue \{', 'cpq', tbind={'size_type': 'size_t'})
    for pat, what in ((r'size_type mark;', 'mark'), (r'std::atomic<size_type> my_size;', 'my_size'), (r'vector_type data;', 'data'), (r'enum operation_type \{INVALID_OP, PUSH_OP, POP_OP, PUSH_RVALUE_OP\};', 'operation_type'),
                      (r'enum operation_status \{WAIT = 0, SUCCEEDED, FAILED\};', 'operation_status')):
        if not re.search(pat, load(PQ)):
            raise ExtractionBreak('concurrent_priority_queue.h: %s changed' % what)
    pq.members = [('size_t', 'mark', ''), ('size_t', 'my_size', ''), ('value_type*', 'data', ''), ('size_t', 'data_n', '')]
    rw = pq.rw
    out = []
    t = pq.convert(pq.method(r'void heapify\(\)'), 'cpq_heapify', pre=VEC)
    t = tag_loops(t, 'heapify', rw, expect=2)
    out.append(t)
    t = pq.convert(pq.method(r'void reheap\(\)'), 'cpq_reheap', pre=VEC)
    t = tag_loops(t, 'reheap', rw, expect=1)
    out.append(t)
    s = pq.method(r'void handle_operations\( cpq_operation\* op_list \)')
    txt = cxx2c.cpp_resolve(s.text, {'TBB_USE_EXCEPTIONS': 0}, 'handle_operations')
    rw.fired['cpp-resolve(TBB_USE_EXCEPTIONS=0: the catch arm is cut)'] = 1
    t = pq.convert(Slice(s.rel, s.start, s.end, txt, s.line), 'cpq_handle_operations', methods=['heapify', 'reheap'], pre=VEC + [
        (r'\bop_list->next\.load\(std::memory_order_relaxed\)', 'op_list->next', 1), (r'pop_list->next\.load\(std::memory_order_relaxed\)', 'pop_list->next', 1),
        (r'tmp->next\.store\(pop_list, std::memory_order_relaxed\);', 'tmp->next = pop_list;', 1),
        (r'tmp->status\.store\(uintptr_t\((\w+)\), std::memory_order_release\);', r'SET_STATUS(tmp, \1);', 4),
        (r'my_size\.store\(my_size\.load\(std::memory_order_relaxed\) ([-+]) 1, std::memory_order_relaxed\);', r'my_size = my_size \1 1;', 4),
        (r'push_back_helper\(\*\(tmp->elem\)\);', 'VEC_PUSH_BACK(self, *(tmp->elem));', 1), (r'data\.push_back\(\(\*\(tmp->elem\)\)\);', 'VEC_PUSH_BACK(self, *(tmp->elem));', 1)])
    t = rw.sub(t, r'cpq_operation\* tmp, \*pop_list = NULL;', 'cpq_operation* tmp; cpq_operation* pop_list = NULL;', 1, 1, name='multi-declarator')
    t = tag_loops(t, 'handle', rw, expect=2)
    out.append(t)
    common.write(ctx, 'cpq.inc', pq.struct_decl() + '\n'.join(out))
    # ---- aggregator_generic: the hand-off that makes the handler sequential ---------------------
    AG = 'include/oneapi/tbb/detail/_aggregator.h'
    rwa = Rewriter('aggregator')
    W = r'class aggregator_generic \{'
    outa = []
    s = slice_block(AG, r'void start_handle_operations\( HandlerType& handle_operations \)', within=W)
    sliced.append('%s:%d aggregator_generic::start_handle_operations' % (AG, s.line))
    t = rwa.sub(s.text, r'void start_handle_operations\( HandlerType& handle_operations \)', 'static void agg_start_handle_operations(struct agg* self)', 1, 1, name='sig (handler bound to a stub)')
    t = rwa.sub(t, r'call_itt_notify\([^;]*\);', 'RG_NOP();', 3, name='itt -> RG_NOP')
    t = rwa.sub(t, r'spin_wait_until_eq\(handler_busy, uintptr_t\(0\)\);', 'SPIN_WAIT_UNTIL_EQ(self->handler_busy, 0);', 1, 1, name='spin-wait')
    t = rwa.sub(t, r'(?<![\w.>])(handler_busy|pending_operations)\.', r'self->\1.', 3, name='field')
    t = rwa.atomics(t, ['handler_busy', 'pending_operations'], 3)
    t = rwa.sub(t, r'handle_operations\(op_list\);', 'STUB_handle_operations(op_list);', 1, 1, name='handler -> stub')
    t = rwa.sub(t, r'OperationType\*', 'struct op*', 1, name='bind-template')
    t = rwa.std(t)
    t = rwa.number_sites(t, 'sho', by_kind=True)
    outa.append(t)
    s = slice_block(AG, r'void execute\( OperationType\* op, HandlerType& handle_operations, bool long_life_time = true \)', within=W)
    sliced.append('%s:%d aggregator_generic::execute' % (AG, s.line))
    t = rwa.sub(s.text, r'void execute\( OperationType\* op, HandlerType& handle_operations, bool long_life_time = true \)', 'static void agg_execute(struct agg* self, struct op* op, bool long_life_time)', 1, 1, name='sig')
    t = rwa.sub(t, r'call_itt_notify\([^;]*\);', 'RG_NOP();', 3, name='itt -> RG_NOP')
    t = rwa.sub(t, r'start_handle_operations\(handle_operations\);', 'agg_start_handle_operations(self);', 1, 1, name='method')
    t = rwa.sub(t, r'spin_wait_while_eq\(op->status, uintptr_t\(0\)\);', 'SPIN_WAIT_WHILE_EQ(op->status, 0);', 1, 1, name='spin-wait')
    t = rwa.sub(t, r'(?<![\w.>])pending_operations\.', 'self->pending_operations.', 2, name='field')
    t = rwa.atomics(t, ['pending_operations', 'status', 'next'], 4)
    t = rwa.sub(t, r'OperationType\*', 'struct op*', 1, name='bind-template')
    t = rwa.asserts(t, 2)
    t = rwa.std(t)
    t = rwa.number_sites(t, 'exe', by_kind=True)
    t = tag_loops(t, 'exe', rwa, expect=1)
    outa.append(t)
    common.write(ctx, 'agg.inc', '\n'.join(outa) + '\n')
    fired['aggregator'] = rwa.fired
    sliced += pq.sliced
    fired['concurrent_priority_queue'] = rw.fired
    return sliced, fired


def build(ctx):
    sliced, fired = extract(ctx)
    C = os.path.join(HERE, 'c13.c')
    q, th = (6, 9) if ctx.tier == 'quick' else (9, 13)
    jobs = [
        Job('agg.execute', C, 'h_agg', route='RG', defines=['AGG'], loops=True, nloops=1, timeout=600, target='aggregator_generic::execute + start_handle_operations (single handler, every operation in exactly one batch)', source='include/oneapi/tbb/detail/_aggregator.h'),
        Job('book.reheap', C, 'h_reheap_lc', route='LC', loops=True, nloops=1, defines=['LCMODE'], timeout=600, target='concurrent_priority_queue::reheap (bookkeeping + memory safety, every size)', source=PQ),
        Job('book.heapify', C, 'h_heapify_lc', route='LC', loops=True, nloops=2, defines=['LCMODE'], timeout=600, target='concurrent_priority_queue::heapify (bookkeeping + memory safety, every size)', source=PQ),
        Job('heap.reheap', C, 'h_reheap', route='BD', bound_text='heap of at most %d elements, arbitrary int keys' % q, defines=['MAXN=%d' % q], unwind=q + 6, timeout=900,
            target='concurrent_priority_queue::reheap', source=PQ),
        Job('heap.heapify', C, 'h_heapify', route='BD', bound_text='at most %d elements, arbitrary int keys' % q, defines=['MAXN=%d' % q], unwind=q + 6, timeout=900,
            target='concurrent_priority_queue::heapify', source=PQ),
        Job('batch.handle_operations', C, 'h_handle', route='BD', bound_text='queue of at most 4 elements, batch of at most 3 operations', defines=['MAXN=8', 'BATCH'], unwind=14, timeout=900,
            target='concurrent_priority_queue::handle_operations (+heapify, reheap)', source=PQ),
    ]
    return {
        'jobs': jobs, 'sliced': sliced, 'fired': fired,
        'trusted': ['std::vector<T> data modelled as array + length (VEC_* macros); capacity never exhausted', 'Compare bound to std::less<int>', 'the aggregator runs handle_operations on one thread at a time (aggregator hand-off: not proved here)'],
        'drops': ['try/catch around push (TBB_USE_EXCEPTIONS arm cut)', 'std::move -> copy', 'status/next atomics -> plain fields (handler is the only thread touching the batch)', 'call_itt_notify -> RG_NOP()'],
        'not_decided': ['heap order for more elements than the stated bound (only bounded unwinding: neighbouring-index facts need quantifiers, which no available back end decides)',
                        'aggregator exclusivity (single handler, each operation in exactly one batch)', 'linearizability across batches (paper argument in DESIGN.md)', 'exception from the element copy'],
        'assumptions': ['element type int, Compare = std::less<int>'],
    }


def replay(ctx, jobname, failure):
    exe = native.build([os.path.join(HERE, 'c13_replay.cpp')], os.path.join(ctx.work, 'c13_replay'), flags=['-fno-access-control'], link_tbb=True)
    rc, out = native.run([exe, jobname], timeout=120)
    rep = {'cmd': exe + ' ' + jobname, 'rc': rc, 'output': out[-1500:], 'reproduced': False, 'detail': 'native recipes found no failing sequence'}
    m = re.search(r'REPRODUCED (.*)', out)
    if m:
        rep['reproduced'] = True
        rep['detail'] = m.group(1)
        w = re.search(r'class=(\S+)', m.group(1))
        rep['witness_class'] = w.group(1) if w else None
    return rep
