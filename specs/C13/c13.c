#ifdef AGG
/* aggregator_generic: rely/guarantee proof that (a) at most one thread is between 'pushed onto an empty list' and exchange(nullptr), (b) at most one
   thread is inside handle_operations, (c) every pushed operation is handed to exactly one batch and handled before execute() returns. */
#include "verif.h"
struct op { uintptr_t status; struct op *next; };
struct agg { struct op *pending_operations; uintptr_t handler_busy; };
static struct agg AGGR; static struct op MINE, O1, O2;
unsigned long gW, gA; bool meW, meA; int my_op; unsigned handled;     /* my_op: 0 new, 1 listed, 2 in some batch, 3 handled */
#define AINV (gW <= 1 && gA <= 1 && AGGR.handler_busy == gA && (AGGR.pending_operations != NULL) == (gW == 1) && gW >= (unsigned long)meW && gA >= (unsigned long)meA \
              && (my_op != 1 || AGGR.pending_operations != NULL) && (MINE.status != 0) == (my_op == 3) && handled == (my_op == 3 ? 1u : 0u))
static void interfere(void) {
    uintptr_t ob = AGGR.handler_busy; int k = nondet_int();
    AGGR.pending_operations = k == 0 ? NULL : k == 1 ? &O1 : k == 2 ? &O2 : &MINE; AGGR.handler_busy = nondet_uintptr_t(); gW = nondet_ulong(); gA = nondet_ulong();
    /* my operation can be taken into a batch and handled by ANOTHER designated thread, never while I am the designated one */
    if (my_op == 1 && !meW && nondet_bool()) my_op = 2;
    if (my_op == 2 && !meA && !meW && nondet_bool()) { my_op = 3; MINE.status = 1; handled++; }
    __CPROVER_assume(AGGR.pending_operations != &MINE || my_op == 1);
    __CPROVER_assume(AINV);
    __CPROVER_assume(!meA || AGGR.handler_busy == 1);              /* nobody clears the flag of the active handler */
    __CPROVER_assume(!meW || AGGR.handler_busy <= ob);             /* only the designated thread may raise it */
}
#define ATOMIC_LOAD_AT(site, f) ({ interfere(); (f); })
#define ATOMIC_STORE_AT(site, f, v) do { interfere(); GHOSTPRE_##site; (f) = (v); GHOST_##site; __CPROVER_assert(AINV, "guarantee: aggregator invariant at " #site); } while (0)
#define ATOMIC_XCHG_AT(site, f, v) ({ interfere(); struct op *old_ = (f); (f) = (v); GHOST_##site; __CPROVER_assert(AINV, "guarantee: aggregator invariant at " #site); old_; })
#define ATOMIC_CAS_AT(site, f, e, d) ({ interfere(); struct op *o_ = (f); bool r_ = (o_ == *(e)); if (r_) (f) = (d); else *(e) = o_; GHOST_##site; __CPROVER_assert(AINV, "guarantee: aggregator invariant at " #site); r_; })
#define NOG ((void)0)
#define GHOSTPRE_exe_STORE_1 NOG
#define GHOST_exe_STORE_1 NOG
#define GHOST_exe_CAS_1 do { if (r_) { my_op = 1; if (o_ == NULL) { gW++; meW = true; } } } while (0)
#define GHOSTPRE_sho_STORE_1 __CPROVER_assert(meW && AGGR.handler_busy == 0, "C13.agg: only the thread that pushed onto an empty list raises handler_busy, and only after seeing it clear")
#define GHOST_sho_STORE_1 do { gA++; meA = true; } while (0)
#define GHOST_sho_XCHG_1 do { __CPROVER_assert(meW && old_ != NULL, "C13.agg: the designated thread grabs a non-empty list"); gW--; meW = false; if (my_op == 1) my_op = 2; } while (0)
#define GHOSTPRE_sho_STORE_2 __CPROVER_assert(meA, "C13.agg: only the active handler clears handler_busy")
#define GHOST_sho_STORE_2 do { gA--; meA = false; } while (0)
#define SPIN_WAIT_UNTIL_EQ(loc, v) do { interfere(); __CPROVER_assume((loc) == (v)); } while (0)
#define SPIN_WAIT_WHILE_EQ(loc, v) do { interfere(); __CPROVER_assume((loc) != (v)); } while (0)
static void STUB_handle_operations(struct op *list) {
    OBLIGATION(meA && gA == 1 && !meW, "C13.agg: at most one thread is inside handle_operations (the handler is sequential code)");
    OBLIGATION(my_op == 2, "C13.agg: the batch handed to the handler contains this thread's operation, which was in no earlier batch");
    my_op = 3; MINE.status = 1; handled++;                       /* contract of the handler: every operation of the batch gets a non-zero status */
}
#define LOOP_exe_1 __CPROVER_assigns(res, MINE, AGGR, gW, gA, meW, meA, my_op, handled) __CPROVER_loop_invariant(AINV && my_op == 0 && !meW && !meA)
#include "agg.inc"
void h_agg(void) {
    AGGR.pending_operations = nondet_bool() ? NULL : &O1; AGGR.handler_busy = nondet_uintptr_t(); gW = nondet_ulong(); gA = nondet_ulong(); meW = meA = false; my_op = 0; handled = 0; MINE.status = 0; MINE.next = NULL;
    __CPROVER_assume(AINV);
    agg_execute(&AGGR, &MINE, true);
    OBLIGATION(MINE.status != 0 && handled == 1 && my_op == 3, "C13.agg: execute() returns only after the operation was handled, and it was handled exactly once");
    OBLIGATION(!meW && !meA, "C13.agg: no role is left behind");
    VACUITY_END();
}
#elif defined(HEAPLC)
/* heapify (sift-up of every element of [mark, size)) and reheap (sift-down from the root): heap order and permutation for EVERY size.
   Quantifier-free encoding.  A universally quantified fact "for all positions g: F(g)" is proved for one arbitrary position g_k (a global that
   is never assigned).  The sift loops need F at a second position that depends on the state (the parent of the hole / the child that moves up):
   that instance of the SAME formula F is assumed at the head of the loop body (hooks COMPARE_heapify_1 / COMPARE_reheap_2, which the extraction
   checks to precede every write of the body): it is an instance of the induction hypothesis "F holds for all g at the loop head", which is what
   the proof for arbitrary g_k establishes.  Permutation: two arbitrary elements are followed by ghost positions (g_p1, g_p2) updated in the
   element-move hooks: each keeps a place, distinct elements keep distinct places => the final array is a permutation (pigeonhole on paper). */
#include "verif.h"
#include <stdlib.h>
typedef int value_type;
#define VEC_SIZE(s) ((s)->data_n)
#define VEC_BACK(s) ((s)->data[(s)->data_n - 1])
#define VEC_POP_BACK(s) ((s)->data_n--)
#define LESS(a, b) ((a) < (b))             /* std::less<int> */
#define COMPARE(a, b) LESS(a, b)
#define PARENT(i) (((i) - 1) >> 1)
#define D (self->data)
#define NN (self->data_n)
#define MK (self->mark)
size_t g_k, g_p1, g_p2, g_p0; value_type g_v1;
#ifdef PART_ORDER
#define ORD(x) (x)
#else
#define ORD(x) 1
#endif
#if defined(PART_KEPT) || defined(PART_DIST)   /* KEPT: one element followed with its value (it keeps a place); DIST: two elements followed, positions only (the places stay distinct) */
#define PART_PERM
#define PRM(x) (x)
#else
#define PRM(x) 1
#endif
/* the heap-order fact at position g over the heap region [0, m) */
#define HEAP_AT(a, g, m) (((g) >= 1 && (g) < (m)) ? !LESS((a)[PARENT(g)], (a)[g]) : 1)
/* ---- heapify: outer loop = elements [0, mark) form a heap; inner loop = sift-up with the hole at cur_pos (its cell keeps a stale copy) */
#define SIFTUP_AT(g) (((g) >= 1 && (g) <= MK && (g) != cur_pos) ? !LESS(D[PARENT(g)], D[g]) : 1)       /* every node but the hole respects its parent */
#define SIFTUP_HOLE (cur_pos != MK ? (LESS(D[cur_pos], to_place) && !LESS(D[PARENT(cur_pos)], D[cur_pos])) : 1)   /* the stale value in the hole is below to_place and respects its parent */
#define UPVAL(j) ((j) == cur_pos ? to_place : D[j])                                                   /* the array with to_place sitting in the hole */
#ifdef PART_DIST
#define TRACKED(val) (g_p1 < NN && g_p2 < NN && g_p1 != g_p2)
#else
#define TRACKED(val) (g_p1 < NN && val(g_p1) == g_v1)
#endif
#define PLAIN(j) D[j]
#define LOOP_heapify_1 __CPROVER_assigns(MK, __CPROVER_object_whole(D), g_p1, g_p2) \
    __CPROVER_loop_invariant(MK <= NN && (MK >= 1 || NN == 0) && ORD(HEAP_AT(D, g_k, MK)) && PRM(TRACKED(PLAIN))) __CPROVER_decreases(NN - MK)
#define LOOP_heapify_2 __CPROVER_assigns(cur_pos, __CPROVER_object_whole(D), g_p1, g_p2) \
    __CPROVER_loop_invariant(cur_pos >= 1 && cur_pos <= MK && MK < NN && ORD(SIFTUP_AT(g_k) && SIFTUP_HOLE) && PRM(TRACKED(UPVAL))) __CPROVER_decreases(cur_pos)
#define COMPARE_heapify_1(a, b) ({ __CPROVER_assume(ORD(SIFTUP_AT(parent))); /* lemma instance: the hole's parent respects ITS parent */ LESS(a, b); })
#define SWAP_TRACK(p, i, j) ({ if ((p) == (j)) (p) = (i); else if ((p) == (i)) (p) = (j); })
#define DATA_MOVE_heapify_1(s, i, j) ({ size_t i_ = (i), j_ = (j); (s)->data[i_] = (s)->data[j_]; SWAP_TRACK(g_p1, i_, j_); SWAP_TRACK(g_p2, i_, j_); })   /* parent moves down, to_place (virtually) up */
/* ---- reheap: the hole starts at the (already extracted) root; data.back() is sifted down from there */
#define SIFTDN_AT(g) (((g) >= 1 && (g) < MK && (cur_pos != 0 || PARENT(g) != 0)) ? !LESS(D[PARENT(g)], D[g]) : 1)     /* heap order everywhere, except against the dead root while the hole is there */
#define SIFTDN_HOLE (cur_pos != 0 ? !LESS(D[PARENT(cur_pos)], D[NN - 1]) : 1)                                          /* what was moved above the hole is not below the element being placed */
#ifdef PART_DIST
#define LIVE_NOT_HOLE (g_p1 != cur_pos && g_p2 != cur_pos)
#else
#define LIVE_NOT_HOLE (g_p1 != cur_pos && (g_p0 < MK ? g_p1 < MK : 1))      /* an element of the heap region stays in the heap region */
#endif
#define LOOP_reheap_1 __CPROVER_assigns(cur_pos, child, __CPROVER_object_whole(D), g_p1, g_p2) \
    __CPROVER_loop_invariant(child == 2 * cur_pos + 1 && (cur_pos == 0 || cur_pos < MK) && MK <= NN && NN >= 1 && ORD(SIFTDN_AT(g_k) && SIFTDN_HOLE) && PRM(TRACKED(PLAIN) && LIVE_NOT_HOLE)) __CPROVER_decreases(NN - cur_pos)
#define COMPARE_reheap_2(a, b) ({ __CPROVER_assume(ORD(SIFTDN_AT(target))); /* lemma instance: the child that moves up respects the hole's old value */ LESS(a, b); })
#define MOVE_TRACK(p, i, j) ({ if ((p) == (j)) (p) = (i); })
#define DATA_MOVE_reheap_1(s, i, j) ({ size_t i_ = (i), j_ = (j); (s)->data[i_] = (s)->data[j_]; MOVE_TRACK(g_p1, i_, j_); MOVE_TRACK(g_p2, i_, j_); })
#define DATA_MOVE_BACK_reheap_1(s, i) ({ size_t i_ = (i), j_ = (s)->data_n - 1; (s)->data[i_] = VEC_BACK(s); MOVE_TRACK(g_p1, i_, j_); MOVE_TRACK(g_p2, i_, j_); })
#include "cpq_heap.inc"
#undef D
#undef NN
#undef MK
size_t IN_n, IN_mark, IN_k;
static void mk_any(struct cpq *q, size_t lo) {
    q->data_n = IN_n = nondet_size_t(); q->mark = IN_mark = nondet_size_t(); g_k = IN_k = nondet_size_t();
    __CPROVER_assume(q->data_n >= lo && q->data_n <= ((size_t)1 << 16) && q->mark <= q->data_n);
#ifdef VACUITY
    __CPROVER_assume(q->data_n <= 64);     /* the twin only has to exhibit ONE execution that reaches the harness end: a small one is found faster */
#endif
    q->data = malloc((q->data_n ? q->data_n : 1) * sizeof(value_type)); __CPROVER_assume(q->data != NULL);
    q->my_size = q->data_n;
}
static void track(struct cpq *q, size_t lo) {      /* one arbitrary live element and its value (KEPT) / two arbitrary different live elements (DIST) */
    g_p1 = nondet_size_t(); g_p2 = nondet_size_t(); __CPROVER_assume(g_p1 >= lo && g_p1 < q->data_n); g_v1 = q->data[g_p1]; g_p0 = g_p1;
#ifdef PART_DIST
    __CPROVER_assume(g_p2 >= lo && g_p2 < q->data_n && g_p1 != g_p2);
#endif
}
void h_heapify_lc(void) {
    struct cpq q;
#if defined(PART_DIST)
    mk_any(&q, 2); track(&q, 0);
#elif defined(PART_KEPT)
    mk_any(&q, 1); track(&q, 0);
#else
    mk_any(&q, 0);
#endif
    size_t n0 = q.data_n;
    __CPROVER_assume(HEAP_AT(q.data, g_k, q.mark));                       /* precondition: data[0, mark) is a heap */
    cpq_heapify(&q);
    OBLIGATION(q.data_n == n0 && q.mark == n0, "C13.heapify: for every size: mark reaches size, nothing added or dropped (all indexing in bounds)");
#ifdef PART_ORDER
    OBLIGATION(HEAP_AT(q.data, g_k, n0), "C13.heapify: for every size and every position k in [1, size): the element at k does not beat the element at its parent - the whole array is a max-heap");
#endif
#ifdef PART_KEPT
    OBLIGATION(g_p1 < n0 && q.data[g_p1] == g_v1, "C13.heapify: for every size: every element still has a place in the array (none lost)");
#endif
#ifdef PART_DIST
    OBLIGATION(g_p1 < n0 && g_p2 < n0 && g_p1 != g_p2, "C13.heapify: for every size: two different elements end in two different places (none duplicated: the array is a permutation of what it was)");
#endif
    VACUITY_END();
}
void h_reheap_lc(void) {
    struct cpq q;
#if defined(PART_DIST)
    mk_any(&q, 3); track(&q, 1);
#elif defined(PART_KEPT)
    mk_any(&q, 2); track(&q, 1);                                          /* live elements are those at [1, size): the root has been handed to the popper */
#else
    mk_any(&q, 1);
#endif
    size_t n0 = q.data_n, m0 = q.mark;
    __CPROVER_assume((g_k >= 1 && g_k < m0 && PARENT(g_k) != 0) ? !LESS(q.data[PARENT(g_k)], q.data[g_k]) : 1);   /* precondition: data[0, mark) is a heap except for the root cell */
    cpq_reheap(&q);
    OBLIGATION(q.data_n == n0 - 1 && q.mark == (m0 < n0 ? m0 : n0 - 1), "C13.reheap: for every size: one element leaves, mark stays <= size (all indexing in bounds: CBMC bounds checks)");
#ifdef PART_ORDER
    OBLIGATION(HEAP_AT(q.data, g_k, q.mark), "C13.reheap: for every size and every position k in [1, mark): the element at k does not beat the element at its parent - data[0, mark) is a max-heap again");
#endif
#ifdef PART_KEPT
    OBLIGATION(g_p1 < n0 - 1 && q.data[g_p1] == g_v1, "C13.reheap: for every size: every element other than the extracted root still has a place in the shortened array (none lost)");
    OBLIGATION(g_p0 < m0 ? g_p1 < q.mark : 1, "C13.reheap: for every size: an element of the heap region stays in the heap region");
#endif
#ifdef PART_DIST
    OBLIGATION(g_p1 < n0 - 1 && g_p2 < n0 - 1 && g_p1 != g_p2, "C13.reheap: for every size: two different elements end in two different places (none duplicated)");
#endif
    VACUITY_END();
}
#elif defined(HANDLELC)
/* handle_operations for a batch of EVERY length over a queue of every size (loop contracts on both passes).
   The operation records are not laid out in memory: a record is the token OPPTR(index) and every access to it is a hook.  What is followed:
     g_j  one arbitrary operation of the batch: its status word (stored exactly once, never touched afterwards);
     g_c  one arbitrary operation: its `next` field (real writes / reads of the postponed-pop list);
     E    one arbitrary element (queued before the batch, or the one pushed by g_j): where it is, how often it was handed to a pop;
     g_k  one arbitrary array position: the heap order.
   The proof is split by conjunct (not by execution) into two jobs over the same extracted text:
     PART_L  records, links, status words, termination.  The array contents are unconstrained (every outcome of every comparison is explored).
     PART_E  elements, heap order, sizes.  The lists are over-approximated (op_next2 returns ANY record of the batch or NULL), no termination claim.
   POST[] is a prophecy ("operation r is postponed to the second pass"): an immutable arbitrary array, resolved when r is handled in the first pass.
   The `next` field of a record other than g_c is read as an arbitrary value constrained by the instance, at that record, of the universally
   quantified loop invariant that is proved for g_c (LINKFACTS).  heapify / reheap are replaced by the contracts proved by jobs heap.* (same
   macros), plus "the root of a heap is not beaten by any element of it" (job lemma.rootmax). */
#include "verif.h"
#include <stdlib.h>
typedef int value_type;
enum { INVALID_OP, PUSH_OP, POP_OP, PUSH_RVALUE_OP };
enum { WAIT = 0, SUCCEEDED, FAILED };
typedef struct cpq_operation cpq_operation;                 /* opaque: never dereferenced */
#define LESS(a, b) ((a) < (b))
#define COMPARE(a, b) LESS(a, b)
#define PARENT(i) (((i) - 1) >> 1)
#define HEAP_AT(a, g, m) (((g) >= 1 && (g) < (m)) ? !LESS((a)[PARENT(g)], (a)[g]) : 1)
#define HEAP_BUT_ROOT_AT(a, g, m) (((g) >= 1 && (g) < (m) && PARENT(g) != 0) ? !LESS((a)[PARENT(g)], (a)[g]) : 1)
#define NMAXQ ((size_t)1 << 12)
#define NONE (~(size_t)0)
#define OPPTR(i) ((cpq_operation *)((((uintptr_t)(i)) + 1) << 4))
#define OPIDX(p) ((size_t)((((uintptr_t)(p)) >> 4) - 1))
#define LINK(i) ((i) == NONE ? (cpq_operation *)NULL : OPPTR(i))
#define ORIG(r) ((r) + 1 < N ? OPPTR((r) + 1) : (cpq_operation *)NULL)
#define TOKEN_OK(p) ((p) == NULL || (OPIDX(p) < N && (p) == OPPTR(OPIDX(p))))
#define POPREC(p) ((p) == NULL || g_type[OPIDX(p)] == POP_OP)
#ifdef PART_L
#define PL(x) (x)
#define PE(x) 1
#else
#define PL(x) 1
#define PE(x) (x)
#endif
enum { E_NOTYET, E_IN, E_OUT };
static size_t N, n0, CAPQ; static unsigned char *g_type; static bool *POST;
static size_t g_k, g_j, g_c; static int st_j; static unsigned nset_j; static cpq_operation *next_c;
static int e_state; static bool e_init; static size_t g_p; static value_type g_v; static unsigned e_taken;
static size_t g_npush, g_ntake, g_pending; static bool g_phase2; static value_type g_cell;
#define IS_PUSH(r) (g_type[r] == PUSH_OP || g_type[r] == PUSH_RVALUE_OP)
/* what the link nx stored in a postponed record r satisfies: it is NULL or a postponed record below r, and no postponed g_j lies strictly between */
#define LINKFACTS(r, nx) (TOKEN_OK(nx) && ((nx) == NULL ? 1 : (OPIDX(nx) < (r) && POST[OPIDX(nx)])) && ((POST[g_j] && g_j < (r)) ? ((nx) != NULL && g_j <= OPIDX(nx)) : 1))
static void touch(size_t r) {
    __CPROVER_assert(r < N, "C13.batch: only records of the batch are touched");
#ifdef PART_L
    if (r == g_j) __CPROVER_assert(st_j == WAIT, "C13.batch: a record is not touched after its status was published (its owner may already have destroyed it)");
#endif
}
static int op_type(cpq_operation *p) { size_t r = OPIDX(p); touch(r); int t = g_type[r]; __CPROVER_assume(t == PUSH_OP || t == POP_OP || t == PUSH_RVALUE_OP); /* precondition: push()/try_pop() build no other type */ return t; }
static value_type *op_elem(cpq_operation *p) { touch(OPIDX(p)); g_cell = nondet_int(); return &g_cell; }       /* the value the pusher passed: arbitrary */
static cpq_operation *op_next1(cpq_operation *p) {          /* first pass: the record at the cursor still carries the link the aggregator built */
    size_t r = OPIDX(p); touch(r);
#ifdef PART_L
    return r == g_c ? next_c : ORIG(r);                       /* instance r of "a record not yet handled has its original link" (read at the loop head: checked by the extraction) */
#else
    return ORIG(r);
#endif
}
static cpq_operation *op_next2(cpq_operation *p) {          /* second pass: links written by the first pass */
    size_t r = OPIDX(p); touch(r); g_phase2 = true;
#ifdef PART_L
    __CPROVER_assume(POST[r] ? g_type[r] == POP_OP : 1);      /* instance r of "only pops are postponed" (first-pass invariant at index g_c; the arrays are immutable) */
    if (r == g_c) return next_c;
    cpq_operation *nx = OPPTR(nondet_size_t()); if (nondet_bool()) nx = NULL;
    __CPROVER_assume(POST[r] ? LINKFACTS(r, nx) : 1);         /* instance r of the invariant proved for g_c (no link is written in the second pass; r is postponed by the loop invariant) */
    return nx;
#else
    cpq_operation *any = OPPTR(nondet_size_t()); if (nondet_bool()) any = NULL; __CPROVER_assume(TOKEN_OK(any) && POPREC(any)); return any;   /* over-approximation: any pop record of the batch, or the end of the list (the list holds only pops: part L, LINKFACTS + 'only pops are postponed') */
#endif
}
static void op_set_next(cpq_operation *p, cpq_operation *v) {
    size_t r = OPIDX(p); touch(r);
#ifdef PART_L
    __CPROVER_assume(POST[r]);                                /* prophecy resolved: r is postponed */
    if (r == g_c) next_c = v;
#endif
}
static void set_status(size_t n_now, cpq_operation *p, int st) {
    size_t r = OPIDX(p); touch(r);
#ifdef PART_L
    if (!g_phase2) __CPROVER_assume(!POST[r]);                /* prophecy resolved: r is answered in the first pass */
    if (r == g_j) { OBLIGATION(st_j == WAIT, "C13.batch: an operation is answered only once"); st_j = st; nset_j++; }
#else
    if (st == FAILED) OBLIGATION(n_now == 0 && g_phase2, "C13.batch: a pop fails only when the array (which by then holds every push of the batch) is empty at that moment");
#endif
}
#define OP_TYPE(p) op_type(p)
#define OP_ELEM(p) op_elem(p)
#define OP_NEXT(x) OP_NEXT_##x(x)
#define OP_NEXT_op_list(p) op_next1(p)
#define OP_NEXT_pop_list(p) op_next2(p)
#define OP_SET_NEXT(p, v) op_set_next((p), (v))
#define SET_STATUS(p, st) set_status(self->data_n, (p), (st))
#define VEC_SIZE(s) ((s)->data_n)
#define VEC_BACK(s) ((s)->data[(s)->data_n - 1])
#ifdef PART_L
#define VEC_POP_BACK(s) ({ (s)->data_n--; })
#define VEC_PUSH_BACK(s, v) ({ value_type v_ = (v); __CPROVER_assert((s)->data_n < CAPQ, "model: vector capacity"); (s)->data[(s)->data_n] = v_; (s)->data_n++; g_npush++; })
#define POP_TAKE(op, s, pos, val) ({ size_t pos_ = (pos); value_type val_ = (val); touch(OPIDX(op)); g_ntake++; })
#else
#define VEC_POP_BACK(s) ({ OBLIGATION(g_pending == (s)->data_n - 1, "C13.batch: the element dropped from the array is the one just handed to a pop (nothing else is lost)"); g_pending = NONE; (s)->data_n--; })
#define VEC_PUSH_BACK(s, v) ({ value_type v_ = (v); __CPROVER_assert((s)->data_n < CAPQ, "model: vector capacity"); (s)->data[(s)->data_n] = v_; \
    if (OPIDX(tmp) == g_j && !e_init) { OBLIGATION(e_state == E_NOTYET, "C13.batch: an element is pushed once"); e_state = E_IN; g_p = (s)->data_n; g_v = v_; } (s)->data_n++; g_npush++; })
#define POP_TAKE(op, s, pos, val) ({ size_t pos_ = (pos); value_type val_ = (val); touch(OPIDX(op)); \
    OBLIGATION(g_pending == NONE, "C13.batch: model: one take at a time"); \
    OBLIGATION(!(e_init && e_state == E_IN && g_p != pos_) || !LESS(val_, g_v), "C13.batch: a pop never returns less than an element that was queued before the batch and is still queued"); \
    if (e_state == E_IN && g_p == pos_) { e_state = E_OUT; e_taken++; } g_ntake++; g_pending = pos_; })
#endif
#define POP_TAKE_BACK(op, s) POP_TAKE(op, s, (s)->data_n - 1, VEC_BACK(s))
#define POP_TAKE_AT(op, s, i) POP_TAKE(op, s, (i), (s)->data[i])
/* ---- invariants -------------------------------------------------------------------------------------------------------------------- */
#define CUR1 (op_list ? OPIDX(op_list) : N)
#define CUR2 (pop_list ? OPIDX(pop_list) : NONE)
#define DN (self->data_n)
#define ELEM_OK ((e_state == E_IN ? (g_p < DN && self->data[g_p] == g_v && e_taken == 0 && (e_init ? (g_p < self->mark && !LESS(self->data[0], g_v)) : 1)) : 1) \
              && (e_state == E_OUT ? e_taken == 1 : 1) && (e_state == E_NOTYET ? e_taken == 0 : 1) && (e_state == E_IN || e_state == E_OUT || e_state == E_NOTYET))
#define SIZES_OK (self->my_size == DN && DN + g_ntake == n0 + g_npush && g_ntake <= g_npush + n0 && g_npush <= N && DN <= CAPQ)
#define LOOP_handle_1 __CPROVER_assigns(op_list, tmp, pop_list, self->data_n, self->my_size, __CPROVER_object_whole(self->data), st_j, nset_j, next_c, e_state, g_p, g_v, e_taken, g_npush, g_ntake, g_pending, g_cell) \
  __CPROVER_loop_invariant(TOKEN_OK(op_list) && TOKEN_OK(pop_list) && !g_phase2 && self->mark == n0 && n0 <= DN && SIZES_OK && g_npush <= CUR1 && g_ntake <= g_npush \
    && PL((CUR2 == NONE || (CUR2 < CUR1 && POST[CUR2])) \
       && (g_j >= CUR1 ? (st_j == WAIT && nset_j == 0) : (POST[g_j] ? (st_j == WAIT && nset_j == 0 && g_type[g_j] == POP_OP && CUR2 != NONE && g_j <= CUR2) : (st_j == SUCCEEDED && nset_j == 1))) \
       && (g_c >= CUR1 ? next_c == ORIG(g_c) : (POST[g_c] ? (LINKFACTS(g_c, next_c) && g_type[g_c] == POP_OP && CUR2 != NONE && g_c <= CUR2) : 1))) \
    && PE(POPREC(pop_list) && g_pending == NONE && HEAP_AT(self->data, g_k, self->mark) && ELEM_OK && (e_init ? e_state == E_IN : (e_state == E_NOTYET) == (g_j >= CUR1)) && ((e_state == E_IN && !e_init) ? g_p >= self->mark : 1))) \
  __CPROVER_decreases(N - CUR1)
#define UNVISITED2(r) (CUR2 != NONE && (r) <= CUR2)
#ifdef PART_L
#define DECREASES_2 __CPROVER_decreases(CUR2 + 1)
#else
#define DECREASES_2
#endif
#define LOOP_handle_2 __CPROVER_assigns(tmp, pop_list, self->mark, self->data_n, self->my_size, __CPROVER_object_whole(self->data), st_j, nset_j, e_state, g_p, e_taken, g_ntake, g_pending, g_phase2) \
  __CPROVER_loop_invariant(TOKEN_OK(pop_list) && self->mark <= DN && SIZES_OK \
    && PL((pop_list ? POST[OPIDX(pop_list)] : 1) \
       && (POST[g_j] ? (g_type[g_j] == POP_OP && (UNVISITED2(g_j) ? (st_j == WAIT && nset_j == 0) : ((st_j == SUCCEEDED || st_j == FAILED) && nset_j == 1))) : (st_j == SUCCEEDED && nset_j == 1)) \
       && (POST[g_c] ? (LINKFACTS(g_c, next_c) && g_type[g_c] == POP_OP) : 1)) \
    && PE(POPREC(pop_list) && g_pending == NONE && HEAP_AT(self->data, g_k, self->mark) && ELEM_OK && e_state != E_NOTYET)) \
  DECREASES_2
struct cpq;
static void cpq_reheap(struct cpq *self);
static void cpq_heapify(struct cpq *self);
#include "cpq_handle.inc"
/* contracts of reheap / heapify as proved by the heap.* jobs (at g_k and for the followed element), extended by lemma.rootmax */
static void cpq_reheap(struct cpq *self) {
    OBLIGATION(self->data_n >= 1 && self->mark <= self->data_n, "C13.batch: reheap is called on a non-empty array with mark <= size");
    size_t m0 = self->mark, nn = self->data_n, p0 = g_p;
#ifndef PART_L
    OBLIGATION(g_pending == 0, "C13.batch: the element reheap removes (the root) is the one just handed to a pop (nothing else is lost)");
    OBLIGATION(HEAP_BUT_ROOT_AT(self->data, g_k, self->mark), "C13.batch: reheap is entered with data[0, mark) in heap order but for the root cell");
#endif
    __CPROVER_havoc_object(self->data); self->data_n = nn - 1; self->mark = m0 < nn ? m0 : nn - 1; g_pending = NONE;
#ifndef PART_L
    __CPROVER_assume(HEAP_AT(self->data, g_k, self->mark));                                                    /* heap.reheap.order */
    if (e_state == E_IN) { g_p = nondet_size_t(); __CPROVER_assume(g_p < nn - 1 && self->data[g_p] == g_v && (p0 < m0 ? g_p < self->mark : 1)); }   /* heap.reheap.kept (p0 >= 1: the root was handed out) */
    __CPROVER_assume((e_state == E_IN && g_p < self->mark) ? !LESS(self->data[0], g_v) : 1);                   /* lemma.rootmax on the new heap */
#endif
}
static void cpq_heapify(struct cpq *self) {
    OBLIGATION(self->mark <= self->data_n, "C13.batch: heapify is called with mark <= size");
    size_t nn = self->data_n;
#ifndef PART_L
    OBLIGATION(HEAP_AT(self->data, g_k, self->mark), "C13.batch: heapify is entered with data[0, mark) in heap order");
#endif
    __CPROVER_havoc_object(self->data); self->mark = nn;
#ifndef PART_L
    __CPROVER_assume(HEAP_AT(self->data, g_k, nn));                                                            /* heap.heapify.order */
    if (e_state == E_IN) { g_p = nondet_size_t(); __CPROVER_assume(g_p < nn && self->data[g_p] == g_v); }       /* heap.heapify.kept */
    __CPROVER_assume(e_state == E_IN ? !LESS(self->data[0], g_v) : 1);                                         /* lemma.rootmax */
#endif
}
size_t IN_n, IN_nops;
void h_handle_lc(void) {
    struct cpq q;
    n0 = IN_n = nondet_size_t(); N = IN_nops = nondet_size_t(); __CPROVER_assume(n0 <= NMAXQ && N >= 1 && N <= NMAXQ);
#ifdef VACUITY
    __CPROVER_assume(n0 <= 8 && N <= 8);      /* the twin only has to exhibit one execution that reaches the end */
#endif
    CAPQ = n0 + N;
    q.data = malloc(CAPQ * sizeof(value_type)); g_type = malloc(N); POST = malloc(N * sizeof(bool));
    __CPROVER_assume(q.data && g_type && POST);
    q.data_n = q.mark = q.my_size = n0;                                                                         /* between batches the whole array is a heap (TBB_ASSERT at entry, re-established at exit) */
    g_k = nondet_size_t(); g_j = nondet_size_t(); g_c = nondet_size_t(); __CPROVER_assume(g_j < N && g_c < N);
    st_j = WAIT; nset_j = 0; next_c = ORIG(g_c); g_npush = g_ntake = 0; g_pending = NONE; g_phase2 = false; e_taken = 0;
    e_init = nondet_bool(); g_p = nondet_size_t(); g_v = nondet_int(); e_state = E_NOTYET;
#ifndef PART_L
    __CPROVER_assume(HEAP_AT(q.data, g_k, n0));
    if (e_init) { __CPROVER_assume(g_p < n0 && q.data[g_p] == g_v && !LESS(q.data[0], g_v) /* lemma.rootmax */); e_state = E_IN; }
    else { __CPROVER_assume(IS_PUSH(g_j)); }
#endif
    cpq_handle_operations(&q, OPPTR(0));
#ifdef PART_L
    OBLIGATION(nset_j == 1 && (st_j == SUCCEEDED || st_j == FAILED), "C13.batch: every operation of the batch gets a final status, exactly once (batch of any length)");
    OBLIGATION(!IS_PUSH(g_j) || st_j == SUCCEEDED, "C13.batch: a push succeeds");
#else
    OBLIGATION(q.my_size == q.data_n && q.data_n + g_ntake == n0 + g_npush, "C13.batch: size() and the array length change by exactly +1 per push and -1 per successful pop");
    OBLIGATION(q.mark == q.data_n && HEAP_AT(q.data, g_k, q.data_n), "C13.batch: after the batch the whole array is a max-heap again (every size)");
    OBLIGATION((e_state == E_IN && g_p < q.data_n && q.data[g_p] == g_v && e_taken == 0) || (e_state == E_OUT && e_taken == 1),
               "C13.batch: every element - queued before the batch or pushed by it - is either still in the array or was handed to exactly one pop");
#endif
    VACUITY_END();
}
/* lemma.rootmax: in an array that is in heap order at EVERY position, no element of the heap region beats the root (chain of at most 16 parents for size <= 2^16) */
void h_lemma_rootmax(void) {
    size_t n = nondet_size_t(), m = nondet_size_t(), g = nondet_size_t(); __CPROVER_assume(n >= 1 && n <= ((size_t)1 << 16) && m <= n && g < m);
    value_type *a = malloc(n * sizeof(value_type)); __CPROVER_assume(a != NULL);
    size_t x = g;
    for (int s = 0; s < 17; ++s) if (x >= 1) { __CPROVER_assume(HEAP_AT(a, x, m)); /* instance x of the heap order */ x = PARENT(x); }
    OBLIGATION(x == 0, "C13.lemma: the root is reached after at most 16 parent steps");
    OBLIGATION(!LESS(a[0], a[g]), "C13.lemma: heap order at every position implies that no element of the heap region beats the root");
    VACUITY_END();
}
#elif defined(WRAP)
/* push / try_pop wrappers (what record reaches the aggregator, what the caller gets back), size()/empty(), and the whole-container operations that
   (re)establish the representation invariant mark <= size, data[0, mark) heap, size() == data.size(): clear, assign (bulk load + heapify), copy assignment. */
#include "verif.h"
#include <stdlib.h>
typedef int value_type;
enum { INVALID_OP, PUSH_OP, POP_OP, PUSH_RVALUE_OP };
enum { WAIT = 0, SUCCEEDED, FAILED };
typedef struct cpq_operation { uintptr_t status; struct cpq_operation *next; int type; value_type *elem; } cpq_operation;
#define LESS(a, b) ((a) < (b))
#define PARENT(i) (((i) - 1) >> 1)
#define HEAP_AT(a, g, m) (((g) >= 1 && (g) < (m)) ? !LESS((a)[PARENT(g)], (a)[g]) : 1)
#define WCAP ((size_t)1 << 12)
struct cpq;
static int g_exec, g_throw, g_want_type, g_answer, g_heapify_calls; static value_type *g_want_elem; static size_t g_k, g_loaded; static bool g_copied;
static void agg_execute(struct cpq *q, cpq_operation *op) {       /* aggregator::execute + the handler: agg.execute and batch.* prove that the record gets exactly one non-zero status */
    OBLIGATION(op->status == WAIT && op->next == NULL, "C13.api: the record is handed to the aggregator in the WAIT state and unlinked");
    OBLIGATION(op->type == g_want_type, "C13.api: push(const&) queues a PUSH_OP, push(&&) a PUSH_RVALUE_OP, try_pop a POP_OP record (no other type reaches the handler)");
    OBLIGATION(op->elem == g_want_elem, "C13.api: the record points at the caller's variable (a push reads the value from it, a pop writes the result to it)");
    g_exec++; op->status = (uintptr_t)g_answer;
}
#define AGG_EXECUTE(s, op) agg_execute((s), (op))
#define THROW_BAD_ALLOC() (g_throw++)
#define VEC_SIZE(s) ((s)->data_n)
#define VEC_CLEAR(s) ((s)->data_n = 0)
#define VEC_ASSIGN(s, b, e) ({ __CPROVER_havoc_object((s)->data); (s)->data_n = g_loaded; })          /* data.assign(begin, end): g_loaded arbitrary elements, arbitrary values */
#define VEC_COPY(s, o) ({ (s)->data_n = (o)->data_n; g_copied = true; })                                /* data = other.data: contents not modelled */
static void cpq_heapify(struct cpq *self);
#include "cpq_wrap.inc"
static void cpq_heapify(struct cpq *self) {                         /* contract proved by heap.heapify.* */
    OBLIGATION(self->mark <= self->data_n && HEAP_AT(self->data, g_k, self->mark), "C13.container: heapify is entered with mark <= size and data[0, mark) in heap order (after a bulk load: mark was reset to 0)");
    __CPROVER_havoc_object(self->data); self->mark = self->data_n; g_heapify_calls++;
    __CPROVER_assume(HEAP_AT(self->data, g_k, self->data_n));
}
static size_t g_cap;
static void mkq(struct cpq *q, bool with_array) {      /* a queue between batches; the array itself is only needed where heapify's contract is used */
    q->data_n = nondet_size_t(); q->mark = nondet_size_t(); q->my_size = nondet_size_t(); g_k = nondet_size_t(); g_cap = nondet_size_t();
    __CPROVER_assume(g_cap >= 1 && g_cap <= WCAP && q->data_n <= g_cap && q->mark <= q->data_n && q->my_size == q->data_n);
    q->data = NULL;
    if (with_array) { q->data = malloc(g_cap * sizeof(value_type)); __CPROVER_assume(q->data != NULL && HEAP_AT(q->data, g_k, q->mark)); }
    g_exec = g_throw = g_heapify_calls = 0; g_copied = false;
}
static void h_push(int which) {
    struct cpq q; mkq(&q, false); value_type v = nondet_int();
    g_want_type = which ? PUSH_RVALUE_OP : PUSH_OP; g_want_elem = &v; g_answer = nondet_bool() ? SUCCEEDED : FAILED;
    if (which) cpq_push_move(&q, &v); else cpq_push_copy(&q, &v);
    OBLIGATION(g_exec == 1, "C13.api: push hands exactly one record to the aggregator");
    OBLIGATION(g_throw == (g_answer == FAILED ? 1 : 0), "C13.api: push throws bad_alloc exactly when the handler answered FAILED (the failure reaches the caller of that push only)");
}
void h_push_copy(void) { h_push(0); VACUITY_END(); }
void h_push_move(void) { h_push(1); VACUITY_END(); }
void h_try_pop(void) {
    struct cpq q; mkq(&q, false); value_type v = nondet_int();
    g_want_type = POP_OP; g_want_elem = &v; g_answer = nondet_bool() ? SUCCEEDED : FAILED;
    bool r = cpq_try_pop(&q, &v);
    OBLIGATION(g_exec == 1 && g_throw == 0, "C13.api: try_pop hands exactly one record to the aggregator and does not throw");
    OBLIGATION(r == (g_answer == SUCCEEDED), "C13.api: try_pop returns true exactly when the handler answered SUCCEEDED");
    VACUITY_END();
}
void h_size_empty(void) {
    struct cpq q; mkq(&q, false);
    OBLIGATION(cpq_size(&q) == q.data_n, "C13.api: between batches size() is the number of elements in the array");
    OBLIGATION(cpq_empty(&q) == (q.data_n == 0), "C13.api: empty() is size() == 0");
    VACUITY_END();
}
void h_clear(void) {
    struct cpq q; mkq(&q, false);
    cpq_clear(&q);
    OBLIGATION(q.data_n == 0 && q.mark == 0 && q.my_size == 0, "C13.container: clear() leaves an empty array, mark == 0 and size() == 0");
    VACUITY_END();
}
void h_assign(void) {
    struct cpq q; mkq(&q, true); g_loaded = nondet_size_t(); __CPROVER_assume(g_loaded <= g_cap);
    value_type src[1];
    cpq_assign(&q, src, src);
    OBLIGATION(g_heapify_calls == 1 && q.data_n == g_loaded && q.mark == q.data_n && q.my_size == q.data_n, "C13.container: assign() loads the elements, heapifies once; afterwards mark == size() == number of elements loaded");
    OBLIGATION(HEAP_AT(q.data, g_k, q.data_n), "C13.container: after assign() the whole array is a max-heap");
    VACUITY_END();
}
void h_copy_assign(void) {
    struct cpq q, o; mkq(&o, false); mkq(&q, false); bool self_assign = nondet_bool();
    size_t n1 = q.data_n, m1 = q.mark, s1 = q.my_size;
    cpq_copy_assign(&q, self_assign ? &q : &o);
    if (self_assign) OBLIGATION(q.data_n == n1 && q.mark == m1 && q.my_size == s1 && !g_copied, "C13.container: self-assignment changes nothing");
    else OBLIGATION(g_copied && q.data_n == o.data_n && q.mark == o.mark && q.my_size == o.my_size, "C13.container: copy assignment takes the array together with its mark and size() (the copy satisfies the representation invariant of the source)");
    VACUITY_END();
}
#else
/* C13 harnesses (bounded stand-ins: heap order talks about neighbouring indices; no quantifier support in any back end). */
#include "verif.h"
typedef int value_type;
#ifndef MAXN
#define MAXN 6
#endif
enum { INVALID_OP, PUSH_OP, POP_OP, PUSH_RVALUE_OP };
enum { WAIT = 0, SUCCEEDED, FAILED };
typedef struct cpq_operation { int type; value_type *elem; struct cpq_operation *next; int status; } cpq_operation;
#define VEC_SIZE(s) ((s)->data_n)
#define VEC_BACK(s) ((s)->data[(s)->data_n - 1])
#define VEC_POP_BACK(s) ((s)->data_n--)
#define VEC_PUSH_BACK(s, v) do { __CPROVER_assert((s)->data_n < CAP, "model: vector capacity"); (s)->data[(s)->data_n++] = (v); } while (0)
#define CAP (MAXN + 4)
#define COMPARE(a, b) ((a) < (b))          /* std::less<int> */
#define SET_STATUS(op, st) ((op)->status = (st))
#ifdef LCMODE
/* unbounded bookkeeping / memory-safety proofs: loop contracts, array length symbolic */
#define LOOP_heapify_1 __CPROVER_assigns(self->mark, __CPROVER_object_whole(self->data)) __CPROVER_loop_invariant(self->mark <= self->data_n && self->mark >= 1) __CPROVER_decreases(self->data_n - self->mark)
#define LOOP_heapify_2 __CPROVER_assigns(cur_pos, __CPROVER_object_whole(self->data)) __CPROVER_loop_invariant(cur_pos >= 1 && cur_pos <= self->mark && self->mark < self->data_n) __CPROVER_decreases(cur_pos)
#define LOOP_reheap_1 __CPROVER_assigns(cur_pos, child, __CPROVER_object_whole(self->data)) __CPROVER_loop_invariant(child == 2 * cur_pos + 1 && cur_pos < self->mark && self->mark <= self->data_n) __CPROVER_decreases(self->mark - cur_pos)
#else
#define LOOP_heapify_1
#define LOOP_heapify_2
#define LOOP_reheap_1
#endif
#define LOOP_handle_1
#define LOOP_handle_2
#include "cpq.inc"
static value_type A[CAP];
static bool is_heap(const value_type *a, size_t n) { for (size_t i = 1; i < CAP; ++i) if (i < n && a[(i - 1) >> 1] < a[i]) return false; return true; }
static size_t count(const value_type *a, size_t n, value_type v) { size_t c = 0; for (size_t i = 0; i < CAP; ++i) if (i < n && a[i] == v) ++c; return c; }
size_t IN_n, IN_mark;
static void mk(struct cpq *q) {
    q->data = A; q->data_n = IN_n = nondet_size_t(); q->mark = IN_mark = nondet_size_t(); q->my_size = q->data_n;
    __CPROVER_assume(q->data_n <= MAXN && q->mark <= q->data_n && is_heap(A, q->mark));
}
#ifdef LCMODE
#include <stdlib.h>
static void mk_any(struct cpq *q) {
    q->data_n = IN_n = nondet_size_t(); q->mark = IN_mark = nondet_size_t();
    __CPROVER_assume(q->data_n >= 1 && q->data_n <= ((size_t)1 << 16) && q->mark <= q->data_n);
    q->data = malloc(q->data_n * sizeof(value_type)); __CPROVER_assume(q->data != NULL);
}
void h_reheap_lc(void) {
    struct cpq q; mk_any(&q); __CPROVER_assume(q.mark >= 1);
    size_t n0 = q.data_n, m0 = q.mark;
    cpq_reheap(&q);
    OBLIGATION(q.data_n == n0 - 1 && q.mark == (m0 < n0 ? m0 : n0 - 1), "C13.reheap: for every size: one element leaves, mark stays <= size (all indexing in bounds: CBMC bounds checks)");
    VACUITY_END();
}
void h_heapify_lc(void) {
    struct cpq q; mk_any(&q);
    size_t n0 = q.data_n;
    cpq_heapify(&q);
    OBLIGATION(q.data_n == n0 && q.mark == n0, "C13.heapify: for every size: mark reaches size, nothing added or dropped (all indexing in bounds)");
    VACUITY_END();
}
#elif defined(BATCH)
void h_handle(void) {
    struct cpq q; mk(&q); __CPROVER_assume(q.data_n <= 4 && q.mark == q.data_n);   /* between batches the whole array is a heap */
    value_type old[CAP]; for (size_t i = 0; i < CAP; ++i) old[i] = A[i];
    size_t n0 = q.data_n;
    cpq_operation ops[3]; value_type vals[3]; size_t nops = nondet_size_t(); __CPROVER_assume(nops >= 1 && nops <= 3);
    for (size_t i = 0; i < 3; ++i) { ops[i].type = nondet_bool() ? PUSH_OP : POP_OP; vals[i] = nondet_int(); ops[i].elem = &vals[i]; ops[i].status = WAIT; ops[i].next = (i + 1 < nops) ? &ops[i + 1] : NULL; }
    value_type pushed[3]; for (size_t i = 0; i < 3; ++i) pushed[i] = vals[i];
    value_type probe = nondet_int();
    cpq_handle_operations(&q, &ops[0]);
    size_t npush = 0, npop = 0; long delta_probe = 0;
    for (size_t i = 0; i < 3; ++i) if (i < nops) {
        OBLIGATION(ops[i].status == SUCCEEDED || ops[i].status == FAILED, "C13.batch: every operation of the batch gets a final status");
        if (ops[i].type == PUSH_OP) { OBLIGATION(ops[i].status == SUCCEEDED, "C13.batch: a push succeeds"); ++npush; if (pushed[i] == probe) ++delta_probe; }
        else if (ops[i].status == SUCCEEDED) { ++npop; if (vals[i] == probe) --delta_probe; }
    }
    OBLIGATION(q.data_n == n0 + npush - npop && q.my_size == q.data_n, "C13.batch: size() changes by exactly +1/-1 per successful operation");
    OBLIGATION(q.mark == q.data_n && is_heap(A, q.data_n), "C13.batch: after the batch the whole array is a max-heap again (bounded)");
    OBLIGATION((long)count(A, q.data_n, probe) == (long)count(old, n0, probe) + delta_probe, "C13.batch: multiset after = before + pushed - popped (bounded)");
    for (size_t i = 0; i < 3; ++i) if (i < nops && ops[i].type == POP_OP) {
        if (ops[i].status == FAILED) OBLIGATION(n0 + npush == npop, "C13.batch: a pop fails only when the queue (including this batch's pushes) has run empty");
        else for (size_t k = 0; k < CAP; ++k) if (k < q.data_n) OBLIGATION(!(count(old, n0, A[k]) > 0 && vals[i] < A[k]) || count(pushed, 3, A[k]) > 0 || 1, "C13.batch: placeholder");
    }
    /* priority: a successful pop never returns less than an element that was in the queue before the batch and is still there */
    for (size_t i = 0; i < 3; ++i) if (i < nops && ops[i].type == POP_OP && ops[i].status == SUCCEEDED) {
        bool in_old_and_remaining = count(old, n0, probe) > 0 && count(A, q.data_n, probe) > 0 && count(pushed, 3, probe) == 0;
        OBLIGATION(!in_old_and_remaining || !(vals[i] < probe), "C13.batch: a pop never returns less than an element that was queued before the batch and is still queued (bounded)");
    }
    VACUITY_END();
}
#endif

#endif /* !AGG */
