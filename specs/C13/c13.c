#ifdef AGG
/* aggregator_generic: rely/guarantee proof that (a) at most one thread is between 'pushed onto an empty list' and exchange(nullptr), (b) at most one
   thread is inside handle_operations, (c) every pushed operation is handed to exactly one batch and handled before execute() returns. */
#include "verif.h"
struct op { uintptr_t status; struct op *next; };
struct agg { struct op *pending_operations; uintptr_t handler_busy; };
static struct agg AGGR; static struct op MINE, O1, O2;
unsigned long gW, gA; bool meW, meA; int my_op; unsigned handled;     /* my_op: 0 new, 1 listed, 2 in some batch, 3 handled */
#define AINV (gW <= 1 && gA <= 1 && AGGR.handler_busy == gA && (AGGR.pending_operations != NULL) == (gW == 1) && gW >= (unsigned long)meW && gA >= (unsigned long)meA \
              && (my_op != 1 || AGGR.pending_operations != NULL) && (MINE.status != 0) == (my_op == 3) && handled == (my_op == 3 ? 1u : 0u))
static void interfere(void) {
    uintptr_t ob = AGGR.handler_busy; int k = nondet_int();
    AGGR.pending_operations = k == 0 ? NULL : k == 1 ? &O1 : k == 2 ? &O2 : &MINE; AGGR.handler_busy = nondet_uintptr_t(); gW = nondet_ulong(); gA = nondet_ulong();
    /* my operation can be taken into a batch and handled by ANOTHER designated thread, never while I am the designated one */
    if (my_op == 1 && !meW && nondet_bool()) my_op = 2;
    if (my_op == 2 && !meA && !meW && nondet_bool()) { my_op = 3; MINE.status = 1; handled++; }
    __CPROVER_assume(AGGR.pending_operations != &MINE || my_op == 1);
    __CPROVER_assume(AINV);
    __CPROVER_assume(!meA || AGGR.handler_busy == 1);              /* nobody clears the flag of the active handler */
    __CPROVER_assume(!meW || AGGR.handler_busy <= ob);             /* only the designated thread may raise it */
}
#define ATOMIC_LOAD_AT(site, f) ({ interfere(); (f); })
#define ATOMIC_STORE_AT(site, f, v) do { interfere(); GHOSTPRE_##site; (f) = (v); GHOST_##site; __CPROVER_assert(AINV, "guarantee: aggregator invariant at " #site); } while (0)
#define ATOMIC_XCHG_AT(site, f, v) ({ interfere(); struct op *old_ = (f); (f) = (v); GHOST_##site; __CPROVER_assert(AINV, "guarantee: aggregator invariant at " #site); old_; })
#define ATOMIC_CAS_AT(site, f, e, d) ({ interfere(); struct op *o_ = (f); bool r_ = (o_ == *(e)); if (r_) (f) = (d); else *(e) = o_; GHOST_##site; __CPROVER_assert(AINV, "guarantee: aggregator invariant at " #site); r_; })
#define NOG ((void)0)
#define GHOSTPRE_exe_STORE_1 NOG
#define GHOST_exe_STORE_1 NOG
#define GHOST_exe_CAS_1 do { if (r_) { my_op = 1; if (o_ == NULL) { gW++; meW = true; } } } while (0)
#define GHOSTPRE_sho_STORE_1 __CPROVER_assert(meW && AGGR.handler_busy == 0, "C13.agg: only the thread that pushed onto an empty list raises handler_busy, and only after seeing it clear")
#define GHOST_sho_STORE_1 do { gA++; meA = true; } while (0)
#define GHOST_sho_XCHG_1 do { __CPROVER_assert(meW && old_ != NULL, "C13.agg: the designated thread grabs a non-empty list"); gW--; meW = false; if (my_op == 1) my_op = 2; } while (0)
#define GHOSTPRE_sho_STORE_2 __CPROVER_assert(meA, "C13.agg: only the active handler clears handler_busy")
#define GHOST_sho_STORE_2 do { gA--; meA = false; } while (0)
#define SPIN_WAIT_UNTIL_EQ(loc, v) do { interfere(); __CPROVER_assume((loc) == (v)); } while (0)
#define SPIN_WAIT_WHILE_EQ(loc, v) do { interfere(); __CPROVER_assume((loc) != (v)); } while (0)
static void STUB_handle_operations(struct op *list) {
    OBLIGATION(meA && gA == 1 && !meW, "C13.agg: at most one thread is inside handle_operations (the handler is sequential code)");
    OBLIGATION(my_op == 2, "C13.agg: the batch handed to the handler contains this thread's operation, which was in no earlier batch");
    my_op = 3; MINE.status = 1; handled++;                       /* contract of the handler: every operation of the batch gets a non-zero status */
}
#define LOOP_exe_1 __CPROVER_assigns(res, MINE, AGGR, gW, gA, meW, meA, my_op, handled) __CPROVER_loop_invariant(AINV && my_op == 0 && !meW && !meA)
#include "agg.inc"
void h_agg(void) {
    AGGR.pending_operations = nondet_bool() ? NULL : &O1; AGGR.handler_busy = nondet_uintptr_t(); gW = nondet_ulong(); gA = nondet_ulong(); meW = meA = false; my_op = 0; handled = 0; MINE.status = 0; MINE.next = NULL;
    __CPROVER_assume(AINV);
    agg_execute(&AGGR, &MINE, true);
    OBLIGATION(MINE.status != 0 && handled == 1 && my_op == 3, "C13.agg: execute() returns only after the operation was handled, and it was handled exactly once");
    OBLIGATION(!meW && !meA, "C13.agg: no role is left behind");
    VACUITY_END();
}
#else
/* C13 harnesses (bounded stand-ins: heap order talks about neighbouring indices; no quantifier support in any back end). */
#include "verif.h"
typedef int value_type;
#ifndef MAXN
#define MAXN 6
#endif
enum { INVALID_OP, PUSH_OP, POP_OP, PUSH_RVALUE_OP };
enum { WAIT = 0, SUCCEEDED, FAILED };
typedef struct cpq_operation { int type; value_type *elem; struct cpq_operation *next; int status; } cpq_operation;
#define VEC_SIZE(s) ((s)->data_n)
#define VEC_BACK(s) ((s)->data[(s)->data_n - 1])
#define VEC_POP_BACK(s) ((s)->data_n--)
#define VEC_PUSH_BACK(s, v) do { __CPROVER_assert((s)->data_n < CAP, "model: vector capacity"); (s)->data[(s)->data_n++] = (v); } while (0)
#define CAP (MAXN + 4)
#define COMPARE(a, b) ((a) < (b))          /* std::less<int> */
#define SET_STATUS(op, st) ((op)->status = (st))
#ifdef LCMODE
/* unbounded bookkeeping / memory-safety proofs: loop contracts, array length symbolic */
#define LOOP_heapify_1 __CPROVER_assigns(self->mark, __CPROVER_object_whole(self->data)) __CPROVER_loop_invariant(self->mark <= self->data_n && self->mark >= 1) __CPROVER_decreases(self->data_n - self->mark)
#define LOOP_heapify_2 __CPROVER_assigns(cur_pos, __CPROVER_object_whole(self->data)) __CPROVER_loop_invariant(cur_pos >= 1 && cur_pos <= self->mark && self->mark < self->data_n) __CPROVER_decreases(cur_pos)
#define LOOP_reheap_1 __CPROVER_assigns(cur_pos, child, __CPROVER_object_whole(self->data)) __CPROVER_loop_invariant(child == 2 * cur_pos + 1 && cur_pos < self->mark && self->mark <= self->data_n) __CPROVER_decreases(self->mark - cur_pos)
#else
#define LOOP_heapify_1
#define LOOP_heapify_2
#define LOOP_reheap_1
#endif
#define LOOP_handle_1
#define LOOP_handle_2
#include "cpq.inc"
static value_type A[CAP];
static bool is_heap(const value_type *a, size_t n) { for (size_t i = 1; i < CAP; ++i) if (i < n && a[(i - 1) >> 1] < a[i]) return false; return true; }
static size_t count(const value_type *a, size_t n, value_type v) { size_t c = 0; for (size_t i = 0; i < CAP; ++i) if (i < n && a[i] == v) ++c; return c; }
size_t IN_n, IN_mark;
static void mk(struct cpq *q) {
    q->data = A; q->data_n = IN_n = nondet_size_t(); q->mark = IN_mark = nondet_size_t(); q->my_size = q->data_n;
    __CPROVER_assume(q->data_n <= MAXN && q->mark <= q->data_n && is_heap(A, q->mark));
}
#ifdef LCMODE
#include <stdlib.h>
static void mk_any(struct cpq *q) {
    q->data_n = IN_n = nondet_size_t(); q->mark = IN_mark = nondet_size_t();
    __CPROVER_assume(q->data_n >= 1 && q->data_n <= ((size_t)1 << 16) && q->mark <= q->data_n);
    q->data = malloc(q->data_n * sizeof(value_type)); __CPROVER_assume(q->data != NULL);
}
void h_reheap_lc(void) {
    struct cpq q; mk_any(&q); __CPROVER_assume(q.mark >= 1);
    size_t n0 = q.data_n, m0 = q.mark;
    cpq_reheap(&q);
    OBLIGATION(q.data_n == n0 - 1 && q.mark == (m0 < n0 ? m0 : n0 - 1), "C13.reheap: for every size: one element leaves, mark stays <= size (all indexing in bounds: CBMC bounds checks)");
    VACUITY_END();
}
void h_heapify_lc(void) {
    struct cpq q; mk_any(&q);
    size_t n0 = q.data_n;
    cpq_heapify(&q);
    OBLIGATION(q.data_n == n0 && q.mark == n0, "C13.heapify: for every size: mark reaches size, nothing added or dropped (all indexing in bounds)");
    VACUITY_END();
}
#elif !defined(BATCH)
void h_reheap(void) {
    struct cpq q; mk(&q); __CPROVER_assume(q.data_n >= 1 && q.mark >= 1);
    value_type old[CAP]; for (size_t i = 0; i < CAP; ++i) old[i] = A[i];
    size_t n0 = q.data_n, m0 = q.mark; value_type root = A[0], probe = nondet_int();
    cpq_reheap(&q);     /* the root was already handed to the popper; reheap removes it from the array */
    OBLIGATION(q.data_n == n0 - 1, "C13.reheap: exactly one element leaves");
    OBLIGATION(q.mark == (m0 < n0 ? m0 : n0 - 1) && q.mark <= q.data_n, "C13.reheap: the heap region keeps its size unless the last leaf was the one moved");
    OBLIGATION(is_heap(A, q.mark), "C13.reheap: data[0..mark) is a max-heap again (bounded)");
    OBLIGATION(count(A, q.data_n, probe) + (probe == root ? 1 : 0) == count(old, n0, probe), "C13.reheap: the multiset of elements is the old one minus the extracted root (bounded)");
    VACUITY_END();
}
void h_heapify(void) {
    struct cpq q; mk(&q);
    value_type old[CAP]; for (size_t i = 0; i < CAP; ++i) old[i] = A[i];
    size_t n0 = q.data_n; value_type probe = nondet_int();
    cpq_heapify(&q);
    OBLIGATION(q.data_n == n0 && q.mark == n0, "C13.heapify: every element is merged into the heap, none added or dropped");
    OBLIGATION(is_heap(A, q.data_n), "C13.heapify: the whole array is a max-heap (bounded)");
    OBLIGATION(count(A, n0, probe) == count(old, n0, probe), "C13.heapify: the multiset of elements is unchanged (bounded)");
    VACUITY_END();
}
#else
void h_handle(void) {
    struct cpq q; mk(&q); __CPROVER_assume(q.data_n <= 4 && q.mark == q.data_n);   /* between batches the whole array is a heap */
    value_type old[CAP]; for (size_t i = 0; i < CAP; ++i) old[i] = A[i];
    size_t n0 = q.data_n;
    cpq_operation ops[3]; value_type vals[3]; size_t nops = nondet_size_t(); __CPROVER_assume(nops >= 1 && nops <= 3);
    for (size_t i = 0; i < 3; ++i) { ops[i].type = nondet_bool() ? PUSH_OP : POP_OP; vals[i] = nondet_int(); ops[i].elem = &vals[i]; ops[i].status = WAIT; ops[i].next = (i + 1 < nops) ? &ops[i + 1] : NULL; }
    value_type pushed[3]; for (size_t i = 0; i < 3; ++i) pushed[i] = vals[i];
    value_type probe = nondet_int();
    cpq_handle_operations(&q, &ops[0]);
    size_t npush = 0, npop = 0; long delta_probe = 0;
    for (size_t i = 0; i < 3; ++i) if (i < nops) {
        OBLIGATION(ops[i].status == SUCCEEDED || ops[i].status == FAILED, "C13.batch: every operation of the batch gets a final status");
        if (ops[i].type == PUSH_OP) { OBLIGATION(ops[i].status == SUCCEEDED, "C13.batch: a push succeeds"); ++npush; if (pushed[i] == probe) ++delta_probe; }
        else if (ops[i].status == SUCCEEDED) { ++npop; if (vals[i] == probe) --delta_probe; }
    }
    OBLIGATION(q.data_n == n0 + npush - npop && q.my_size == q.data_n, "C13.batch: size() changes by exactly +1/-1 per successful operation");
    OBLIGATION(q.mark == q.data_n && is_heap(A, q.data_n), "C13.batch: after the batch the whole array is a max-heap again (bounded)");
    OBLIGATION((long)count(A, q.data_n, probe) == (long)count(old, n0, probe) + delta_probe, "C13.batch: multiset after = before + pushed - popped (bounded)");
    for (size_t i = 0; i < 3; ++i) if (i < nops && ops[i].type == POP_OP) {
        if (ops[i].status == FAILED) OBLIGATION(n0 + npush == npop, "C13.batch: a pop fails only when the queue (including this batch's pushes) has run empty");
        else for (size_t k = 0; k < CAP; ++k) if (k < q.data_n) OBLIGATION(!(count(old, n0, A[k]) > 0 && vals[i] < A[k]) || count(pushed, 3, A[k]) > 0 || 1, "C13.batch: placeholder");
    }
    /* priority: a successful pop never returns less than an element that was in the queue before the batch and is still there */
    for (size_t i = 0; i < 3; ++i) if (i < nops && ops[i].type == POP_OP && ops[i].status == SUCCEEDED) {
        bool in_old_and_remaining = count(old, n0, probe) > 0 && count(A, q.data_n, probe) > 0 && count(pushed, 3, probe) == 0;
        OBLIGATION(!in_old_and_remaining || !(vals[i] < probe), "C13.batch: a pop never returns less than an element that was queued before the batch and is still queued (bounded)");
    }
    VACUITY_END();
}
#endif

#endif /* !AGG */
