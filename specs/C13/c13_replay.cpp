// Native replay for C13: batches are handed to the REAL concurrent_priority_queue::handle_operations directly (white-box),
// which is exactly what the aggregator does with operations that arrive concurrently.
#include <oneapi/tbb/concurrent_priority_queue.h>
#include <cstdio>
#include <vector>
#include <random>
#include <algorithm>
#include <string>
using Q = tbb::concurrent_priority_queue<int>;
static bool one(std::mt19937& rng, std::string& why) {
    Q q; std::vector<int> model, initial;
    int n0 = rng() % 9; for (int i = 0; i < n0; ++i) { int v = rng() % 100; q.push(v); model.push_back(v); initial.push_back(v); }
    int nops = 1 + rng() % 4;
    std::vector<int> vals(nops); std::vector<Q::cpq_operation*> ops; std::string desc;
    for (int i = 0; i < nops; ++i) {
        bool push = rng() % 2; vals[i] = push ? int(rng() % 100) : -1;
        ops.push_back(new Q::cpq_operation(vals[i], push ? Q::PUSH_OP : Q::POP_OP));
        desc += push ? " push(" + std::to_string(vals[i]) + ")" : " pop";
    }
    for (int i = 0; i < nops; ++i) ops[i]->next.store(i + 1 < nops ? ops[i + 1] : nullptr);
    q.handle_operations(ops[0]);
    for (int i = 0; i < nops; ++i) if (ops[i]->type == Q::PUSH_OP) model.push_back(vals[i]);   // operations of one batch are mutually concurrent
    for (int i = 0; i < nops; ++i) {
        if (ops[i]->type == Q::POP_OP && ops[i]->status.load() == Q::SUCCEEDED) { auto it = std::find(model.begin(), model.end(), vals[i]); if (it == model.end()) { why = "batch" + desc + ": a pop returned " + std::to_string(vals[i]) + ", which was never in the queue"; return true; } model.erase(it); }
    }
    {   // a pop may not return less than an element that was queued before the batch and is still queued afterwards
        std::vector<int> pushed, rem = initial, pops;
        for (int i = 0; i < nops; ++i) { if (ops[i]->type == Q::PUSH_OP) pushed.push_back(vals[i]); else if (ops[i]->status.load() == Q::SUCCEEDED) pops.push_back(vals[i]); }
        for (int pv : pops) { auto it = std::find(pushed.begin(), pushed.end(), pv); if (it != pushed.end()) { pushed.erase(it); continue; } it = std::find(rem.begin(), rem.end(), pv); if (it != rem.end()) rem.erase(it); }
        if (!rem.empty()) { int mx = *std::max_element(rem.begin(), rem.end());
            for (int pv : pops) if (pv < mx) { why = "queue holding"; for (int x : initial) why += " " + std::to_string(x); why += ", one aggregated batch" + desc + ": a pop returned " + std::to_string(pv) + " while " + std::to_string(mx) + ", queued before the batch, is still in the queue"; return true; } }
    }
    std::vector<int> drained; int v; while (q.try_pop(v)) drained.push_back(v);
    std::sort(model.begin(), model.end(), std::greater<int>());
    if (drained != model) {
        why = "queue of " + std::to_string(n0) + " elements, one aggregated batch" + desc + ", then a serial drain returned";
        for (int x : drained) why += " " + std::to_string(x);
        why += " instead of"; for (int x : model) why += " " + std::to_string(x);
        return true;
    }
    for (auto* o : ops) delete o;
    return false;
}
int main(int argc, char** argv) {
    std::mt19937 rng(1); std::string why;
    for (int t = 0; t < 200000; ++t) if (one(rng, why)) { std::printf("REPRODUCED class=priority-order %s\n", why.c_str()); return 0; }
    std::printf("NOT-REPRODUCED\n"); return 0;
}
