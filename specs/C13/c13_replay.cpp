// Native replay for C13: batches are handed to the REAL concurrent_priority_queue::handle_operations directly (white-box),
// which is exactly what the aggregator does with operations that arrive concurrently.
#include <oneapi/tbb/concurrent_priority_queue.h>
#include <cstdio>
#include <vector>
#include <random>
#include <algorithm>
#include <string>
using Q = tbb::concurrent_priority_queue<int>;
static std::string cls = "priority-order";
static bool one(std::mt19937& rng, std::string& why) {
    Q q; std::vector<int> model, initial;
    int n0 = rng() % 9; for (int i = 0; i < n0; ++i) { int v = rng() % 100; q.push(v); model.push_back(v); initial.push_back(v); }
    int nops = 1 + rng() % 4;
    std::vector<int> vals(nops); std::vector<Q::cpq_operation*> ops; std::string desc;
    for (int i = 0; i < nops; ++i) {
        bool push = rng() % 2; vals[i] = push ? int(rng() % 100) : -1;
        ops.push_back(new Q::cpq_operation(vals[i], push ? Q::PUSH_OP : Q::POP_OP));
        desc += push ? " push(" + std::to_string(vals[i]) + ")" : " pop";
    }
    for (int i = 0; i < nops; ++i) ops[i]->next.store(i + 1 < nops ? ops[i + 1] : nullptr);
    q.handle_operations(ops[0]);
    {   // every operation is answered, pushes succeed, size() follows the successful operations
        long expect = n0;
        for (int i = 0; i < nops; ++i) {
            auto st = ops[i]->status.load();
            if (st != Q::SUCCEEDED && st != Q::FAILED) { why = "batch" + desc + ": operation " + std::to_string(i) + " was left without a final status"; cls = "status"; return true; }
            if (ops[i]->type == Q::PUSH_OP && st != Q::SUCCEEDED) { why = "batch" + desc + ": a push did not succeed"; cls = "status"; return true; }
            if (st == Q::SUCCEEDED) expect += ops[i]->type == Q::PUSH_OP ? 1 : -1;
        }
        if ((long)q.size() != expect) { why = "queue of " + std::to_string(n0) + " elements, batch" + desc + ": size() is " + std::to_string(q.size()) + " after the batch, the successful operations leave " + std::to_string(expect); cls = "size"; return true; }
    }
    for (int i = 0; i < nops; ++i) if (ops[i]->type == Q::PUSH_OP) model.push_back(vals[i]);   // operations of one batch are mutually concurrent
    for (int i = 0; i < nops; ++i) {
        if (ops[i]->type == Q::POP_OP && ops[i]->status.load() == Q::SUCCEEDED) { auto it = std::find(model.begin(), model.end(), vals[i]); if (it == model.end()) { why = "batch" + desc + ": a pop returned " + std::to_string(vals[i]) + ", which was never in the queue"; return true; } model.erase(it); }
    }
    {   // a pop may not return less than an element that was queued before the batch and is still queued afterwards
        std::vector<int> pushed, rem = initial, pops;
        for (int i = 0; i < nops; ++i) { if (ops[i]->type == Q::PUSH_OP) pushed.push_back(vals[i]); else if (ops[i]->status.load() == Q::SUCCEEDED) pops.push_back(vals[i]); }
        for (int pv : pops) { auto it = std::find(pushed.begin(), pushed.end(), pv); if (it != pushed.end()) { pushed.erase(it); continue; } it = std::find(rem.begin(), rem.end(), pv); if (it != rem.end()) rem.erase(it); }
        if (!rem.empty()) { int mx = *std::max_element(rem.begin(), rem.end());
            for (int pv : pops) if (pv < mx) { why = "queue holding"; for (int x : initial) why += " " + std::to_string(x); why += ", one aggregated batch" + desc + ": a pop returned " + std::to_string(pv) + " while " + std::to_string(mx) + ", queued before the batch, is still in the queue"; return true; } }
    }
    std::vector<int> drained; int v; while (drained.size() < model.size() + 8 && q.try_pop(v)) drained.push_back(v);   // bounded: a handler that forgets to remove what it hands out would never run empty
    std::sort(model.begin(), model.end(), std::greater<int>());
    if (drained != model) {
        why = "queue of " + std::to_string(n0) + " elements, one aggregated batch" + desc + ", then a serial drain returned";
        for (int x : drained) why += " " + std::to_string(x);
        why += " instead of"; for (int x : model) why += " " + std::to_string(x);
        return true;
    }
    for (auto* o : ops) delete o;
    return false;
}
// public API on one thread: push / try_pop / size / empty / clear / assign / copy assignment against a sorted model
static bool api(std::mt19937& rng, std::string& why) {
    cls = "api";
    auto drain_is = [&](Q& q, std::vector<int> m, const std::string& what) {
        std::sort(m.begin(), m.end(), std::greater<int>());
        if (q.size() != m.size() || q.empty() != m.empty()) { why = what + ": size() is " + std::to_string(q.size()) + ", empty() is " + (q.empty() ? "true" : "false") + " with " + std::to_string(m.size()) + " elements queued"; return false; }
        if (q.mark != q.data.size()) { why = what + ": mark is " + std::to_string(q.mark) + " with " + std::to_string(q.data.size()) + " elements in the array"; return false; }
        std::vector<int> d; int v = -1; while (d.size() < m.size() + 8 && q.try_pop(v)) d.push_back(v);
        if (d != m) { why = what + ": drained"; for (int x : d) why += " " + std::to_string(x); why += " instead of"; for (int x : m) why += " " + std::to_string(x); return false; }
        return true;
    };
    std::vector<int> a(rng() % 7), b(rng() % 12); for (auto& x : a) x = rng() % 100; for (auto& x : b) x = rng() % 100;
    { Q q; for (int x : a) q.push(x); for (int x : b) q.push(int(x)); std::vector<int> m = a; m.insert(m.end(), b.begin(), b.end()); if (!drain_is(q, m, "pushes, then a drain")) return true; }
    { Q q; for (int x : a) q.push(x); q.assign(b.begin(), b.end()); if (!drain_is(q, b, "assign over a queue of " + std::to_string(a.size()) + " elements")) return true; }
    { Q q; for (int x : a) q.push(x); Q c; for (int x : b) c.push(x); c = q; if (!drain_is(c, a, "copy assignment")) return true; }
    { Q q; for (int x : a) q.push(x); q.clear(); if (q.size() != 0 || !q.empty() || q.mark != 0) { why = "clear(): size() " + std::to_string(q.size()) + ", mark " + std::to_string(q.mark); return true; } for (int x : b) q.push(x); if (!drain_is(q, b, "clear, then pushes")) return true; }
    cls = "priority-order";
    return false;
}
int main(int argc, char** argv) {
    std::mt19937 rng(1); std::string why;
    try { std::mt19937 r2(7); std::string w2; for (int t = 0; t < 50; ++t) api(r2, w2); } catch (const std::exception& e) { std::printf("REPRODUCED class=api an operation on a queue used by one thread threw %s\n", e.what()); return 0; }
    cls = "priority-order";
    for (int t = 0; t < 2000; ++t) if (api(rng, why)) { std::printf("REPRODUCED class=%s %s\n", cls.c_str(), why.c_str()); return 0; }
    for (int t = 0; t < 200000; ++t) if (one(rng, why)) { std::printf("REPRODUCED class=%s %s\n", cls.c_str(), why.c_str()); return 0; }
    std::printf("NOT-REPRODUCED\n"); return 0;
}
