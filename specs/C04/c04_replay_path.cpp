// Native recipe for C04 jobs propagate.path.* and registry.* (white-box, single thread: no schedule has to be forced).
// A chain of n REAL task_group_context objects is linked by hand (entry i's parent is entry i+1) and registered in the calling thread's real context list
// (context_list::push_front, the list taken from a context the library bound itself).  Then the public cancel_group_execution() is called on entry s of the
// chain (or on an unrelated context when s >= n) and the property is read off is_group_execution_cancelled():
//     every entry below the cancelled one is cancelled, the cancelled one is cancelled, every entry above it keeps the state it had.
// usage: c04_replay_path <n> <s> <st00>      one scenario (the verifier's counterexample: chain length, position of the source, initial state of ctx)
//        c04_replay_path search              boundary search: n = 1..7, every s in 0..n+1, every initial marking of the chain (for n <= 5)
// exit 0 = property holds on every scenario tried, 1 = REPRODUCED, 3 = the scenario could not be set up
#include <oneapi/tbb/parallel_for.h>
#include <oneapi/tbb/task_group.h>
#include <oneapi/tbb/task_arena.h>
#include "tbb/thread_data.h"   // r1::context_list (white-box)
#include <cstdio>
#include <cstdlib>
#include <cstring>
#include <memory>
#include <new>
#include <vector>

using ctx_t = tbb::task_group_context;
using list_t = tbb::detail::r1::context_list;

static int g_bad = 0, g_runs = 0;

// runs inside a task of the calling thread; `list` is that thread's context list
static void scenario(list_t* list, size_t n, size_t s, const std::vector<unsigned>& st0) {
    ++g_runs;
    std::unique_ptr<char[]> mem(new char[(n + 1) * sizeof(ctx_t) + 128]);
    char* base = mem.get() + (128 - (reinterpret_cast<uintptr_t>(mem.get()) & 127));
    ctx_t* c = reinterpret_cast<ctx_t*>(base);
    for (size_t i = 0; i <= n; ++i) new (&c[i]) ctx_t();                    // entry n: the unrelated context (a root of its own)
    for (size_t i = 0; i < n; ++i) {
        c[i].my_parent = i + 1 < n ? &c[i + 1] : nullptr;
        c[i].my_state.store(ctx_t::state::bound, std::memory_order_relaxed);
        c[i].my_may_have_children.store(ctx_t::may_have_children, std::memory_order_relaxed);
        c[i].my_cancellation_requested.store(st0[i], std::memory_order_relaxed);
        c[i].my_context_list = list;
        list->push_front(c[i].my_node);
    }
    c[n].my_state.store(ctx_t::state::isolated, std::memory_order_relaxed);
    c[n].my_may_have_children.store(ctx_t::may_have_children, std::memory_order_relaxed);
    size_t src = s < n ? s : n;
    bool was = c[src].is_group_execution_cancelled();
    bool r = c[src].cancel_group_execution();
    if (r == was) { std::printf("REPRODUCED class=cancel-return n=%zu s=%zu: cancel returned %d on a context whose flag was %d\n", n, s, (int)r, (int)was); g_bad = 1; }
    for (size_t i = 0; i < n && !g_bad; ++i) {
        unsigned now = c[i].my_cancellation_requested.load(std::memory_order_relaxed);
        unsigned want = (s < n && i <= s && !was) ? 1u : st0[i];
        if (s < n && was) want = st0[i];                                 // a cancel that lost (flag already set) propagates nothing
        if (now != want) {
            const char* cls = want == 1 ? "descendant-not-cancelled" : "non-descendant-marked";
            std::printf("REPRODUCED class=%s n=%zu s=%zu: chain entry %zu (0 = the innermost context, %zu = the cancelled one%s) ends with cancellation flag %u, expected %u; initial flags:",
                        cls, n, s, i, s, s < n ? "" : " = a context outside the chain", now, want);
            for (size_t j = 0; j < n; ++j) std::printf(" %u", st0[j]);
            std::printf("\n");
            g_bad = 1;
        }
    }
    for (size_t i = 0; i <= n; ++i) c[i].~ctx_t();                          // unregisters the chain from the list
}

int main(int argc, char** argv) {
    bool search = argc >= 2 && !std::strcmp(argv[1], "search");
    size_t n = 3, s = 1; unsigned st00 = 0;
    if (!search) {
        if (argc < 4) { std::printf("usage: %s <n> <s> <st00> | search\n", argv[0]); return 3; }
        n = std::strtoull(argv[1], nullptr, 0); s = std::strtoull(argv[2], nullptr, 0); st00 = (unsigned)std::strtoull(argv[3], nullptr, 0);
        if (n < 1 || n > (1u << 16)) { std::printf("n out of range\n"); return 3; }
        if (st00 > 1) st00 = 1;      // the public interface only knows 0/1
    }
    tbb::task_arena arena(1);
    bool setup = false;
    arena.execute([&] {
        ctx_t G;                                       // explicit root: tasks below it are not under the arena's default context
        tbb::parallel_for(0, 1, [&](int) {
            ctx_t probe;                               // bound by the library beneath G in THIS thread
            tbb::parallel_for(0, 1, [&](int) {
                list_t* list = probe.my_context_list;
                if (!list || probe.my_state.load() != ctx_t::state::bound) return;
                setup = true;
                if (!search) {
                    std::vector<unsigned> st0(n, 0u); st0[0] = st00;
                    scenario(list, n, s, st0);
                    if (!g_bad) { st0.assign(n, 0u); st0[0] = st00; if (n > 1) st0[n - 1] = 0; scenario(list, n, s, st0); }
                } else {
                    for (size_t nn = 1; nn <= 7 && !g_bad; ++nn)
                        for (size_t ss = 0; ss <= nn + 1 && !g_bad; ++ss)
                            for (unsigned m = 0; m < (nn <= 5 ? (1u << nn) : 2u) && !g_bad; ++m) {
                                std::vector<unsigned> st0(nn);
                                for (size_t i = 0; i < nn; ++i) st0[i] = (m >> i) & 1u;
                                scenario(list, nn, ss, st0);
                            }
                }
            }, probe);
        }, G);
    });
    if (!setup) { std::printf("could not obtain a bound context / the thread's context list\n"); return 3; }
    if (g_bad) return 1;
    std::printf("NOT-REPRODUCED %d scenario(s): every descendant of the cancelled context ended cancelled and nothing else was marked\n", g_runs);
    return 0;
}
