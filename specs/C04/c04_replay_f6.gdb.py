# gdb script for the F6 schedule: binder stopped after the load of the parent's flag, before the store into the child; the canceller thread then runs
# P.cancel_group_execution() to completion (flag set, binder's context list walked, child marked); the binder is released and performs its store.
import gdb
gdb.execute('set pagination off'); gdb.execute('set confirm off'); gdb.execute('set breakpoint pending on')
import os
LINE = int(os.environ['F6_LINE'])
gdb.execute('break task_group_context.cpp:%d' % LINE)
gdb.execute('run')
gdb.execute('tbreak std::__atomic_base<unsigned int>::store')
gdb.execute('continue')
binder = gdb.selected_thread()
print('BINDER STOPPED AFTER THE LOAD, BEFORE THE STORE:', gdb.execute('bt 2', to_string=True))
target = None
for t in gdb.selected_inferior().threads():
    t.switch()
    f = gdb.newest_frame(); names = []
    while f is not None and len(names) < 12:
        names.append(f.name() or ''); f = f.older()
    if any('f6_controller_park' in n for n in names):
        target = t
if target is None:
    print('NO CANCELLER THREAD FOUND'); target = binder
target.switch()
gdb.execute('set scheduler-locking on')
try:
    gdb.execute('call (void)f6_do_cancel()')
except gdb.error as e:
    print('note: gdb could not restore the extended register state after the call:', e)
gdb.execute('set scheduler-locking off')
binder.switch()
gdb.execute('continue')
