// F6 replay (driven by c04_replay_f6.gdb.py: gdb stops the binder between its load of the parent's flag and its store, and makes the canceller thread run cancel_group_execution() in between): bind_to_impl, parent WITHOUT grand-ancestor: the child's state copy (load parent's flag; store) after registration races with a canceller of the parent.
#include <oneapi/tbb/parallel_for.h>
#include <oneapi/tbb/task_group.h>
#include <oneapi/tbb/global_control.h>
#include <atomic>
#include <cstdio>
using ctx_t = tbb::task_group_context;
ctx_t* g_P = nullptr; ctx_t* g_C = nullptr;
extern "C" void f6_do_cancel() { bool r = g_P->cancel_group_execution(); std::printf("cancel(P) returned %d\n", (int)r); std::fflush(stdout); }
extern "C" void f6_before_bind() {}     // gdb anchors
extern "C" void f6_after_bind() {}
#include <thread>
#include <chrono>
std::atomic<bool> g_stop{false};
extern "C" void f6_controller_park() { while (!g_stop.load()) std::this_thread::sleep_for(std::chrono::milliseconds(1)); }   // the canceller thread waits here until gdb makes it call f6_do_cancel()
int main() {
    tbb::global_control gc(tbb::global_control::max_allowed_parallelism, 1);
    std::thread canceller(f6_controller_park);
    ctx_t P(ctx_t::isolated); g_P = &P;
    int ran = 0;
    tbb::parallel_for(0, 1, [&](int) {
        ctx_t C; g_C = &C;                          // bound: will be bound beneath P (P has no parent)
        f6_before_bind();
        tbb::parallel_for(0, 1, [&](int) { ++ran; }, C);   // binds C to P in this thread
        f6_after_bind();
        std::printf("P cancelled=%d  C cancelled=%d (C bound beneath P; cancel(P) ran between the binder's load and store)\n", (int)P.is_group_execution_cancelled(), (int)C.is_group_execution_cancelled());
        if (P.is_group_execution_cancelled() && !C.is_group_execution_cancelled()) std::printf("REPRODUCED class=stale-state-copy the bound child is not cancelled although cancel() on its parent returned true and the binding completed\n");
        else std::printf("NOT-REPRODUCED\n");
        std::fflush(stdout);
    }, P);
    g_stop = true; canceller.join();
    return 0;
}
