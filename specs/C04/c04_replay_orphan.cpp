// Native recipe for C04 jobs registry.reachable.* (public interface only, no schedule has to be forced).
// A bound context C is created beneath a long-lived context P by a thread that then goes away (an external thread that ends, or a worker that is joined by tbb::finalize):
// C stays in the context list of that thread (the list is orphaned, it lives on until its last context is destroyed), but the thread - and with it the list - is taken out of
// the registry the cancellation propagator walks.  A later P.cancel_group_execution() must still cancel C (C is bound beneath P and alive).
// usage: c04_replay_orphan external | worker
// exit 0 = C ended cancelled, 1 = REPRODUCED (C is not cancelled although its parent is), 3 = scenario could not be set up
#include <oneapi/tbb/parallel_for.h>
#include <oneapi/tbb/task_group.h>
#include <oneapi/tbb/global_control.h>
#include <atomic>
#include <chrono>
#include <cstdio>
#include <cstring>
#include <thread>

using ctx_t = tbb::task_group_context;

int main(int argc, char** argv) {
    bool worker = argc >= 2 && !std::strcmp(argv[1], "worker");
    ctx_t P;                                    // long-lived parent
    std::atomic<ctx_t*> C{nullptr};
    if (!worker) {
        std::thread t1([&] {
            tbb::parallel_for(0, 1, [&](int) {
                ctx_t* c = new ctx_t;           // default kind: bound
                tbb::parallel_for(0, 1, [](int) {}, *c);   // first use: binds c beneath P, registers it in THIS thread's context list
                C = c;
            }, P);
        });
        t1.join();                              // the thread that registered C is gone
    } else {
        std::atomic<bool> done{false};
        auto main_id = std::this_thread::get_id();
        tbb::task_scheduler_handle h{tbb::attach{}};
        tbb::global_control gc(tbb::global_control::max_allowed_parallelism, 4);
        auto until = std::chrono::steady_clock::now() + std::chrono::seconds(60);
        while (!C.load() && std::chrono::steady_clock::now() < until)
            tbb::parallel_for(0, 100000, [&](int) {
                if (std::this_thread::get_id() != main_id && !done.exchange(true)) {
                    ctx_t* c = new ctx_t;
                    tbb::parallel_for(0, 1, [](int) {}, *c);   // bound beneath P in a WORKER's context list
                    C = c;
                }
                if (!done) std::this_thread::sleep_for(std::chrono::microseconds(50));
            }, P);
        if (!C.load()) { std::printf("no worker took part\n"); return 3; }
        if (!tbb::finalize(h, std::nothrow)) { std::printf("finalize failed\n"); return 3; }   // workers joined: their thread data is cleaned up
    }
    ctx_t* c = C.load();
    if (!c) { std::printf("context was not created\n"); return 3; }
    bool r = P.cancel_group_execution();
    bool pc = P.is_group_execution_cancelled(), cc = c->is_group_execution_cancelled();
    std::atomic<int> ran{0};
    tbb::parallel_for(0, 1000, [&](int) { ++ran; }, *c);
    int rc = 0;
    if (pc && !cc) {
        std::printf("REPRODUCED class=orphaned-list-not-reached (%s thread) cancel_group_execution() of the parent returned %d, parent cancelled=%d, the bound child that outlived the thread that bound it: cancelled=%d; "
                    "%d of 1000 iterations of a parallel_for under the child ran after the parent was cancelled\n", worker ? "worker" : "external", (int)r, (int)pc, (int)cc, ran.load());
        rc = 1;
    } else
        std::printf("NOT-REPRODUCED (%s thread) parent cancelled=%d child cancelled=%d iterations run=%d\n", worker ? "worker" : "external", (int)pc, (int)cc, ran.load());
    delete c;
    return rc;
}
