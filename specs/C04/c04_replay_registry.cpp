// Native recipe for C04 jobs registry.list.* / registry.destroy (white-box, single thread): the orphaned-list protocol of r1::context_list on the REAL class.
// The allocation functions the inline code of context_list calls are interposed by this executable, so that the number of times a list is freed - and whether its mutex is
// still held at that moment - can be observed.
//   every scenario: a fresh context_list, k contexts (list nodes) registered, then a sequence of orphan() / remove() in a given order;
//   expected: the list is freed exactly once, by the operation that makes (orphaned && empty) true, with its mutex released, and never earlier.
// exit 0 = protocol respected on every scenario, 1 = REPRODUCED
#include <oneapi/tbb/task_group.h>
#include <oneapi/tbb/mutex.h>
#include "tbb/thread_data.h"   // r1::context_list (white-box)
#include <cstdio>
#include <cstdlib>
#include <new>
#include <vector>

using list_t = tbb::detail::r1::context_list;
using node_t = tbb::detail::d1::intrusive_list_node;

static void* g_watch = nullptr; static int g_frees = 0; static bool g_locked_at_free = false;

namespace tbb { namespace detail { namespace r1 {
void* __TBB_EXPORTED_FUNC cache_aligned_allocate(std::size_t size) { void* p = nullptr; if (posix_memalign(&p, 128, size ? size : 1)) throw std::bad_alloc(); return p; }
void __TBB_EXPORTED_FUNC cache_aligned_deallocate(void* p) {
    if (p == g_watch) {
        ++g_frees;
        if (g_frees == 1) {
            list_t* l = static_cast<list_t*>(p);        // the destructor has run, the storage is still there: the mutex word tells whether it was released
            if (!l->m_mutex.try_lock()) g_locked_at_free = true;
        }
        return;                                          // keep the storage: later accesses by a defective protocol stay observable instead of crashing
    }
    std::free(p);
}
}}}

static int g_bad = 0;

// ops: 'o' = orphan, 'r' = remove the next registered context
static void scenario(int k, const char* ops) {
    list_t* l = new (tbb::detail::r1::cache_aligned_allocate(sizeof(list_t))) list_t{};
    g_watch = l; g_frees = 0; g_locked_at_free = false;
    std::vector<node_t> nodes(k);
    for (int i = 0; i < k; ++i) { nodes[i].my_prev_node = nodes[i].my_next_node = &nodes[i]; l->push_front(nodes[i]); }
    int in = k, next = 0; bool orph = false;
    for (const char* o = ops; *o && !g_bad; ++o) {
        if (g_frees) { std::printf("REPRODUCED class=list-freed-early k=%d ops=%s: the list was freed before operation '%c' (orphaned=%d, contexts left=%d)\n", k, ops, *o, (int)orph, in); g_bad = 1; break; }
        if (*o == 'o') { l->orphan(); orph = true; } else { l->remove(nodes[next++]); --in; }
        int want = (orph && in == 0) ? 1 : 0;
        if (g_frees != want) {
            std::printf("REPRODUCED class=%s k=%d ops=%s: after '%c' (orphaned=%d, contexts left=%d) the list was freed %d time(s), expected %d\n",
                        g_frees > want ? (g_frees > 1 ? "list-freed-twice" : "list-freed-early") : "list-leaked", k, ops, *o, (int)orph, in, g_frees, want);
            g_bad = 1;
        } else if (g_locked_at_free) {
            std::printf("REPRODUCED class=list-freed-locked k=%d ops=%s: the list was freed by '%c' while its mutex was still held\n", k, ops, *o);
            g_bad = 1;
        }
    }
    g_watch = nullptr;
    std::free(l);
}

int main() {
    int n = 0;
    const struct { int k; const char* ops; } sc[] = {
        {0, "o"}, {1, "or"}, {1, "ro"}, {2, "orr"}, {2, "ror"}, {2, "rro"}, {3, "rorr"}, {3, "orrr"}, {3, "rrro"}, {3, "rror"},
    };
    for (auto& s : sc) { if (g_bad) break; scenario(s.k, s.ops); ++n; }
    if (g_bad) return 1;
    std::printf("NOT-REPRODUCED %d scenario(s): every list was freed exactly once, by the operation that made it orphaned and empty, with its mutex released\n", n);
    return 0;
}
