// Native recipe for C04 (white-box: holds the per-thread context_list mutexes from a controller thread to force the schedule).
//   propagator_first: the propagation completes while the binder is parked inside register_with() -> the epoch check must notice it and re-read the parent's state
//   binder_first:     the binder completes (epoch mismatch -> slow path) while the propagator is parked between the child's list (already walked) and the parent's list
//                     -> the slow path must not be able to run until the propagation is complete
// exit 0 = the bound context ended cancelled (property holds on this schedule), 1 = it did not (REPRODUCED), 3 = the schedule could not be established
// Demo for property C04: a context that is being bound beneath a context tree while a
// cancellation of a grand-ancestor is propagating must end up cancelled once both the
// cancel call and the binding have returned.
//
// Tree:  G (root, used from the outermost level of the main thread)
//          `- P  (bound by the main thread M  -> registered in M's context list)
//               `- C (bound by the worker W   -> registered in W's context list)
//
// Schedule forced here (by holding the per-thread context-list mutexes from a controller
// thread, white-box):
//   1. G.cancel_group_execution() starts; the propagator walks W's list (C is not there yet),
//      syncs W's list epoch, and is parked in front of M's list (P is not yet marked).
//   2. W starts binding C to P: takes the epoch snapshot, speculatively copies P's flag (0)
//      and is parked inside register_with() (W's list mutex is held by the controller).
//   3. The propagator is released: it marks P, syncs M's list epoch, cancel() returns true.
//   4. W is released: it registers C and validates the speculation with the epoch check.
// The validation must notice that a propagation ran in between and re-read P's flag.

#include <oneapi/tbb/parallel_for.h>
#include <oneapi/tbb/blocked_range.h>
#include <oneapi/tbb/task_group.h>
#include <oneapi/tbb/global_control.h>
#include <oneapi/tbb/mutex.h>

#include "tbb/thread_data.h" // r1::context_list (white-box)

#include <atomic>
#include <chrono>
#include <cstdio>
#include <cstdlib>
#include <thread>
#include <string>

using ctx_t = tbb::task_group_context;
using list_t = tbb::detail::r1::context_list;
using clk = std::chrono::steady_clock;

static std::atomic<list_t*> g_listW{nullptr}, g_listM{nullptr};
static std::atomic<ctx_t*> g_G{nullptr}, g_P{nullptr}, g_C{nullptr};
static std::atomic<int> g_arrived{0};
static std::atomic<bool> g_w_ready{false}, g_go_bind{false}, g_bind_done{false}, g_all_done{false};
static std::atomic<bool> g_cancel_done{false}, g_cancel_ret{false};
static std::atomic<int> g_c_cancelled{-1};
static std::atomic<int> g_verdict{-1};
static bool g_binder_first = false;

[[noreturn]] static void bail(int code, const char* msg) {
    std::printf("%s\n", msg);
    std::fflush(stdout);
    std::_Exit(code);
}

template <typename Pred>
static bool wait_for(Pred p, int seconds) {
    auto end = clk::now() + std::chrono::seconds(seconds);
    while (!p()) {
        if (clk::now() > end) return false;
        std::this_thread::sleep_for(std::chrono::microseconds(200));
    }
    return true;
}

static ctx_t* parent_of(ctx_t* c) { return *(ctx_t* volatile*)&c->my_parent; }
static bool flag_of(ctx_t* c) { return c->my_cancellation_requested.load(std::memory_order_relaxed) != 0; }

static void worker_role(ctx_t& P) {
    {
        // Learn the address of this thread's context list: bind a scratch context and drop it again,
        // so that the list holds no descendants of G when the propagator walks it.
        ctx_t D0;
        tbb::parallel_for(tbb::blocked_range<int>(0, 1), [](const tbb::blocked_range<int>&) {}, D0);
        if (D0.my_parent != &P || D0.my_context_list == nullptr)
            bail(3, "FAIL (harness): scratch context was not bound beneath P");
        g_listW = D0.my_context_list;
    }
    if (P.my_parent != g_G.load() || P.my_context_list == nullptr)
        bail(3, "FAIL (harness): P is not bound beneath G");
    g_listM = P.my_context_list;
    g_w_ready = true;

    if (!wait_for([] { return g_go_bind.load(); }, 40)) bail(3, "FAIL (harness): timeout waiting for go_bind");

    ctx_t C;
    g_C = &C;
    // Binds C beneath P in this thread (C's parent has a parent -> epoch validated fast path).
    tbb::parallel_for(tbb::blocked_range<int>(0, 1), [](const tbb::blocked_range<int>&) {}, C);
    g_c_cancelled = C.is_group_execution_cancelled() ? 1 : 0;
    g_bind_done = true;
    // keep C alive until the controller is finished with it
    wait_for([] { return g_all_done.load(); }, 40);
}

static void controller() {
    if (!wait_for([] { return g_w_ready.load(); }, 30)) bail(3, "FAIL (harness): no second thread joined (need >= 2 hw threads)");
    list_t* lM = g_listM;
    list_t* lW = g_listW;
    ctx_t* G = g_G;
    ctx_t* P = g_P;
    if (lM == lW) bail(3, "FAIL (harness): P and C would share one context list");

    const std::uintptr_t eW0 = lW->epoch.load();
    const std::uintptr_t eM0 = lM->epoch.load();

    // Park the propagator in front of M's list.
    lM->m_mutex.lock();
    std::thread canceller([G] {
        g_cancel_ret = G->cancel_group_execution();
        g_cancel_done = true;
    });

    // Wait until the propagator has walked W's list (its epoch gets synced with the global one).
    if (!wait_for([&] { return lW->epoch.load() != eW0; }, 15))
        bail(3, "FAIL (harness): propagator did not pass the worker's list first");
    if (lM->epoch.load() != eM0 || flag_of(P) || g_cancel_done.load())
        bail(3, "FAIL (harness): propagator was not parked before P's list");

    // Park the binder inside register_with().
    lW->m_mutex.lock();
    g_go_bind = true;
    if (!wait_for([&] { ctx_t* c = g_C.load(); return c && parent_of(c) == P; }, 15))
        bail(3, "FAIL (harness): binding of C did not start");
    std::this_thread::sleep_for(std::chrono::milliseconds(300));
    ctx_t* C = g_C;
    if (C->my_state.load() != ctx_t::state::locked || g_bind_done.load())
        bail(3, "FAIL (harness): binder is not parked inside the binding");
    if (flag_of(C)) bail(3, "FAIL (harness): speculative copy already saw P cancelled");

    if (g_binder_first) {
    // Let the binding finish FIRST: the binder registers C in W's list (already walked), sees the epoch mismatch and takes the slow path.
    lW->m_mutex.unlock();
    if (!wait_for([] { return g_bind_done.load(); }, 15)) bail(3, "FAIL (harness): binding did not finish while the propagator was parked (slow path blocked: that is what a correct protocol does)");
    // Now let the propagation finish.
    lM->m_mutex.unlock();
    if (!wait_for([] { return g_cancel_done.load(); }, 15)) bail(3, "FAIL (harness): cancel did not return");
    canceller.join();
    if (!flag_of(P)) bail(1, "FAIL: P (child of G) is not cancelled after cancel returned");
    g_c_cancelled = flag_of(g_C.load()) ? 1 : 0;
    } else {
    // Let the propagation finish completely.
    lM->m_mutex.unlock();
    if (!wait_for([] { return g_cancel_done.load(); }, 15)) bail(3, "FAIL (harness): cancel did not return");
    canceller.join();
    if (!g_cancel_ret.load()) bail(1, "FAIL: the only cancel_group_execution() call on G returned false");
    if (!flag_of(P)) bail(1, "FAIL: P (child of G) is not cancelled after cancel returned");

    // Let the binding finish.
    lW->m_mutex.unlock();
    if (!wait_for([] { return g_bind_done.load(); }, 15)) bail(3, "FAIL (harness): binding did not finish");

    }
    std::printf("G cancelled=%d  P cancelled=%d  C cancelled=%d (C bound beneath P while G's cancellation was propagating)\n",
                (int)flag_of(G), (int)flag_of(P), g_c_cancelled.load());
    g_verdict = (g_c_cancelled.load() == 1) ? 0 : 1;
    g_all_done = true;
}

int main(int argc, char** argv) {
    g_binder_first = argc > 1 && std::string(argv[1]) == "binder_first";
    tbb::global_control gc(tbb::global_control::max_allowed_parallelism, 2);
    const std::thread::id main_id = std::this_thread::get_id();
    std::thread ctl(controller);

    ctx_t G;
    g_G = &G;
    tbb::parallel_for(tbb::blocked_range<int>(0, 1), [&](const tbb::blocked_range<int>&) {
        ctx_t P; // bound beneath G by the main thread
        g_P = &P;
        tbb::parallel_for(tbb::blocked_range<int>(0, 2, 1), [&](const tbb::blocked_range<int>&) {
            ++g_arrived;
            if (!wait_for([] { return g_arrived.load() == 2; }, 30))
                bail(3, "FAIL (harness): no second thread joined (need >= 2 hw threads)");
            if (std::this_thread::get_id() == main_id)
                wait_for([] { return g_all_done.load(); }, 50);
            else
                worker_role(P);
        }, tbb::simple_partitioner(), P);
    }, G);

    ctl.join();
    if (g_verdict.load() == 0) {
        std::printf("PASS\n");
        return 0;
    }
    std::printf("REPRODUCED class=missed-cancellation schedule=%s G.cancel_group_execution() returned, P (child of G) is cancelled, C (bound beneath P during the propagation) is NOT cancelled\n", g_binder_first ? "binder_first" : "propagator_first");
    std::printf("FAIL: context C is bound beneath the cancelled context P/G but is not cancelled after both "
                "cancel_group_execution() and the binding have completed\n");
    return 1;
}
