"""C04 -- cancellation: one winner, propagation paints exactly the path below the source, binding does not miss a concurrent cancel."""
import os
import sys
import re
HERE = os.path.dirname(os.path.abspath(__file__))
sys.path.insert(0, os.path.join(HERE, '..'))
sys.path.insert(0, os.path.join(HERE, '..', '..', 'tools'))
import common
import native
import cxx2c
from cxx2c import Rewriter, slice_block, tag_loops, ExtractionBreak, load
from prove import Job

TG = 'src/tbb/task_group_context.cpp'


def extract(ctx):
    sliced, fired = [], {}
    rw = Rewriter('task_group_context')
    if not re.search(r'enum class state : std::uint8_t \{\s*created,\s*locked,\s*isolated,\s*bound,\s*dead,', load('include/oneapi/tbb/task_group.h')):
        raise ExtractionBreak('task_group_context::state order changed')
    out = []
    s = slice_block(TG, r'bool task_group_context_impl::cancel_group_execution\(d1::task_group_context& ctx\)')
    sliced.append('%s:%d cancel_group_execution' % (TG, s.line))
    t = rw.sub(s.text, r'bool task_group_context_impl::cancel_group_execution\(d1::task_group_context& ctx\)', 'bool cancel_group_execution(struct tgc* ctx)', 1, 1, name='sig')
    t = rw.sub(t, r'__TBB_ASSERT\(!is_poisoned\(ctx\.my_context_list\), nullptr\);', 'RG_NOP();', 1, 1, name='poison check -> RG_NOP')
    t = rw.sub(t, r'\bctx\.', 'ctx->', 1, name='ref-param')
    t = rw.atomics(t, ['my_cancellation_requested'], 1)
    t = rw.sub(t, r'governor::get_thread_data\(\)->my_arena->my_threading_control->propagate_task_group_state\(&d1::task_group_context::my_cancellation_requested, (\w+), uint32_t\((\w+)\)\);', r'STUB_propagate(\1, \2);', 0, None, name='callee stub (threading_control::propagate_task_group_state: forwarders proved in walk.forwarders)')
    t = rw.asserts(t, 1)
    t = rw.number_sites(t, 'cancel', by_kind=True)
    out.append(t)
    extract_prop(ctx, sliced, fired)
    s = slice_block(TG, r'void task_group_context_impl::bind_to_impl\(d1::task_group_context& ctx, thread_data\* td\)')
    sliced.append('%s:%d bind_to_impl' % (TG, s.line))
    t = rw.sub(s.text, r'void task_group_context_impl::bind_to_impl\(d1::task_group_context& ctx, thread_data\* td\)', 'void bind_to_impl(struct tgc* ctx, struct thread_data* td)', 1, 1, name='sig')
    t = rw.sub(t, r'__TBB_ASSERT\(!is_poisoned\(ctx\.my_context_list\), nullptr\);', 'RG_NOP();', 1, 1, name='poison check -> RG_NOP')
    t = rw.sub(t, r'\*ctx\.my_parent', '*ctx->my_parent', 0, name='ref-param')
    t = rw.sub(t, r'\bctx\.', 'ctx->', 1, name='ref-param')
    t = rw.sub(t, r'td->my_task_dispatcher->m_execute_data_ext\.context', 'td->current_context', 1, 1, name='field path')
    t = rw.sub(t, r'copy_fp_settings\(ctx, \*ctx->my_parent\);', 'STUB_copy_fp_settings(ctx, ctx->my_parent);', 1, 1, name='callee stub')
    t = rw.sub(t, r'd1::task_group_context::may_have_children', 'may_have_children', 0, name='enum scope')
    t = rw.sub(t, r'd1::task_group_context::state::locked', 'state_locked', 0, name='enum scope')
    t = rw.sub(t, r'register_with\(ctx, td\);', 'STUB_register_with(ctx, td);', 0, None, name='callee stub (makes the context reachable by propagators)')
    mb = re.findall(r'\w+::scoped_lock \w+\(([^)]*)\);', t)
    t = rw.scoped_locks(t, r'\w+::scoped_lock \w+\(([^)]*)\);', 0, None)
    ctx.binder_mutexes = [x.strip() for x in mb]
    t = rw.atomics(t, ['my_cancellation_requested', 'my_may_have_children', 'my_state', 'epoch', 'the_context_state_propagation_epoch'], 5)
    t = rw.asserts(t, 3)
    t = rw.std(t)
    t = rw.number_sites(t, 'bind', by_kind=True)
    out.append(t)
    s = slice_block(TG, r'void task_group_context_impl::register_with\(d1::task_group_context& ctx, thread_data\* td\)')
    sliced.append('%s:%d register_with' % (TG, s.line))
    t = rw.sub(s.text, r'void task_group_context_impl::register_with\(d1::task_group_context& ctx, thread_data\* td\)', 'void register_with(struct tgc* ctx, struct thread_data* td)', 1, 1, name='sig')
    t = rw.sub(t, r'__TBB_ASSERT\(!is_poisoned\(ctx\.my_context_list\), nullptr\);', 'RG_NOP();', 1, 1, name='poison check -> RG_NOP')
    t = rw.sub(t, r'\bctx\.', 'ctx->', 0, None, name='ref-param')
    t = rw.sub(t, r'(\w+(?:->\w+)*)->push_front\(ctx->my_node\);', r'LIST_PUSH_FRONT(\1, ctx);', 0, None, name='context_list::push_front -> one atomic list insertion (real code: jobs registry.list.push_front, registry.register_with)')
    t = rw.asserts(t, 1)
    t = rw.std(t)
    out.insert(0, t)
    s = slice_block(TG, r'void task_group_context_impl::bind_to\(d1::task_group_context& ctx, thread_data\* td\)')
    sliced.append('%s:%d bind_to' % (TG, s.line))
    t = cxx2c.cpp_resolve(s.text, {'__INTEL_COMPILER': None}, 'bind_to')
    t = rw.sub(t, r'void task_group_context_impl::bind_to\(d1::task_group_context& ctx, thread_data\* td\)', 'void bind_to(struct tgc* ctx, struct thread_data* td)', 1, 1, name='sig')
    t = rw.sub(t, r'\*td->my_arena->my_default_ctx', 'td->default_ctx', 1, 1, name='field path')
    t = rw.sub(t, r'td->my_arena->my_default_ctx', 'td->default_ctx', 1, 1, name='field path')
    t = rw.sub(t, r'td->my_task_dispatcher->m_execute_data_ext\.context', 'td->current_context', 2, 2, name='field path')
    t = rw.sub(t, r'\bctx\.', 'ctx->', 1, name='ref-param')
    t = rw.sub(t, r'd1::task_group_context::state (\w+)', r'int \1', 2, 2, name='enum type')
    t = rw.sub(t, r'd1::task_group_context::state::(\w+)', r'state_\1', 0, name='enum scope')
    t = rw.sub(t, r'int release_state\{\};', 'int release_state = 0;', 1, 1, name='brace-init')
    t = rw.sub(t, r'copy_fp_settings\(ctx, td->default_ctx\);', 'STUB_copy_fp_settings(ctx, td->default_ctx);', 1, 1, name='callee stub')
    t = rw.sub(t, r'ITT_STACK_CREATE\(ctx->my_itt_caller\);', 'RG_NOP();', 1, 1, name='itt -> RG_NOP')
    t = rw.sub(t, r'spin_wait_while_eq\(ctx->my_state, state_locked\);', 'SPIN_WAIT_WHILE_EQ(ctx->my_state, state_locked);', 1, 1, name='spin-wait')
    t = rw.sub(t, r'bind_to_impl\(ctx, td\);', 'STUB_bind_to_impl(ctx, td);', 1, 1, name='callee stub (proved separately)')
    t = rw.atomics(t, ['my_state'], 2)
    t = rw.asserts(t, 3)
    t = rw.std(t)
    t = rw.number_sites(t, 'bt', by_kind=True)
    out.append(t)
    common.write(ctx, 'tgc.inc', '\n'.join(out) + '\n')
    fired['task_group_context'] = rw.fired
    extract_walk(ctx, sliced, fired)
    extract_registry(ctx, sliced, fired)
    extract_threads(ctx, sliced, fired)
    cw = {}
    closed_world(ctx, cw)
    fired['closed_world'] = cw
    return sliced, fired


def extract_prop(ctx, sliced, fired):
    """task_group_context_impl::propagate_task_group_state -> prop.inc.  Contexts are only touched through accessors (TGC_PARENT, P_LOAD_STATE, P_STORE) so that the
    ancestor chain can be an index sequence of symbolic length (job propagate.path.any_depth) or real structs (bounded cross-check propagate.path)."""
    rw = Rewriter('propagate_path')
    s = slice_block(TG, r'void task_group_context_impl::propagate_task_group_state\(d1::task_group_context& ctx,')
    sliced.append('%s:%d propagate_task_group_state' % (TG, s.line))
    t = rw.sub(s.text, r'void task_group_context_impl::propagate_task_group_state\(d1::task_group_context& ctx, std::atomic<std::uint32_t> d1::task_group_context::\* mptr_state, d1::task_group_context& src, std::uint32_t new_state\)',
               'void propagate_task_group_state(struct tgc* ctx, struct tgc* src, uint32_t new_state)', 1, 1, name='sig (member pointer bound to my_cancellation_requested)')
    t = rw.sub(t, r'__TBB_ASSERT\(!is_poisoned\(ctx\.my_context_list\), nullptr\);', 'RG_NOP();', 1, 1, name='poison check -> RG_NOP')
    t = rw.sub(t, r'\((\w+)\.\*mptr_state\)\.load\(std::memory_order_relaxed\)', r'P_LOAD_STATE(&\1)', 0, None, name='member-pointer load (reference)')
    t = rw.sub(t, r'\((\w+)->\*mptr_state\)\.load\(std::memory_order_relaxed\)', r'P_LOAD_STATE(\1)', 0, None, name='member-pointer load (pointer)')
    t = rw.sub(t, r'\((\w+)->\*mptr_state\)\.store\(([^;]*), std::memory_order_relaxed\);', r'P_STORE(\1, \2);', 0, None, name='member-pointer store (pointer)')
    t = rw.sub(t, r'\((\w+)\.\*mptr_state\)\.store\(([^;]*), std::memory_order_relaxed\);', r'P_STORE(&\1, \2);', 0, None, name='member-pointer store (reference)')
    t = rw.sub(t, r'\b(ctx|src)\.my_parent\b', r'TGC_PARENT(&\1)', 0, None, name='ref-param parent link -> accessor')
    t = rw.sub(t, r'\b(\w+)->my_parent\b', r'TGC_PARENT(\1)', 0, None, name='parent link -> accessor')
    t = rw.sub(t, r'&(ctx|src)\b', r'\1', 2, name='ref-param')
    t = rw.sub(t, r'd1::task_group_context\*', 'struct tgc*', 0, None, name='ns-strip')
    t = rw.std(t)
    if re.search(r'mptr_state|\b(ctx|src)\.', t):
        raise ExtractionBreak('propagate_task_group_state: an access to a context is not covered by the accessor rules: %r' % re.findall(r'[^\n]*(?:mptr_state|\b(?:ctx|src)\.)[^\n]*', t)[:2])
    t = tag_loops(t, 'prop', rw, names=[(r'\*\s*ancestor\s*=', 'anc'), (r'\*\s*c\s*=', 'paint')])
    common.write(ctx, 'prop.inc', t + '\n')
    fired['propagate_path'] = rw.fired


IL = 'src/tbb/intrusive_list.h'
TC = 'src/tbb/threading_control.cpp'
GOV = 'src/tbb/governor.cpp'
CLIST = r'class context_list : public intrusive_list<d1::intrusive_list_node>'
ILBASE = r'class intrusive_list_base\b'


def raii_lock(rw, t, self_fields):
    """`T::scoped_lock name(mutex);` ... `name.release();` -> SLOCK_ACQUIRE(mutex) at the declaration, SLOCK_RELEASE(mutex) at the explicit release and SLOCK_SCOPE_EXIT(mutex) at
    every exit of the scope (the destructor of a scoped_lock unlocks only if it still owns the mutex: that is what SLOCK_SCOPE_EXIT does in the harness).
    Returns (text, [mutex expressions])."""
    decls = re.findall(r'\w+::scoped_lock (\w+)\(([^)]*)\);', t)
    for var, mu in decls:
        t = rw.sub(t, r'\b%s\.release\(\);' % re.escape(var), 'SLOCK_RELEASE(%s);' % mu.strip(), 0, None, name='scoped_lock::release() -> SLOCK_RELEASE(mutex of that lock)')
    t = rw.scoped_locks(t, r'\w+::scoped_lock \w+\(([^)]*)\);', 0, None, lock='SLOCK_ACQUIRE', unlock='SLOCK_SCOPE_EXIT')
    return t, [mu.strip() for _, mu in decls]


def extract_registry(ctx, sliced, fired):
    """the per-thread context list: context_list::{destroy,remove,push_front,orphan}, intrusive_list_base::{push_front,remove,empty,assert_ok},
    task_group_context_impl::{register_with,destroy,initialize,reset,is_group_execution_cancelled}"""
    rw = Rewriter('registry')
    out = []
    ctx.list_mutexes = {}
    # ---- context_list ----
    def member(sig, cname, params):
        s = slice_block(TDH, sig, within=CLIST)
        sliced.append('%s:%d context_list::%s' % (TDH, s.line, cname))
        return rw.sub(s.text, sig, 'void clist_%s(struct clist* self%s)' % (cname, params), 1, 1, name='sig')
    t = member(r'void destroy\(\)', 'destroy', '')
    t = rw.sub(t, r'this->~context_list\(\);', 'CLIST_DTOR(self);', 0, None, name='destructor call')
    t = rw.sub(t, r'cache_aligned_deallocate\(this\);', 'STUB_cache_aligned_deallocate(self);', 0, None, name='deallocation -> stub (frees the harness object)')
    out.append(t)
    for nm, sig, params in (('remove', r'void remove\(d1::intrusive_list_node& val\)', ', struct ilnode* val'),
                            ('push_front', r'void push_front\(d1::intrusive_list_node& val\)', ', struct ilnode* val'),
                            ('orphan', r'void orphan\(\)', '')):
        t = member(sig, nm, params)
        t = rw.sub(t, r'intrusive_list<d1::intrusive_list_node>::(remove|push_front)\(val\);', lambda m: 'ILIST_%s(self, val);' % m.group(1).upper(), 0, None, name='base-class list operation -> contract stub (proved on real nodes in registry.ilist.*)')
        t = rw.sub(t, r'(?<![\w.>])empty\(\)', 'ILIST_EMPTY(self)', 0, None, name='base-class empty()')
        t = rw.sub(t, r'(?<![\w.>])destroy\(\);', 'clist_destroy(self);', 0, None, name='method')
        t, mus = raii_lock(rw, t, None)
        ctx.list_mutexes[nm] = mus
        t = rw.sub(t, r'(?<![\w.>])(orphaned|m_mutex|epoch)\b', r'self->\1', 0, None, name='field')
        t = rw.std(t)
        out.append(t)
    common.write(ctx, 'clist.inc', '\n'.join(out) + '\n')
    # ---- intrusive_list_base on real nodes ----
    out = []
    for nm, sig, csig in (('assert_ok', r'void assert_ok \(\) const', 'void ilist_assert_ok(struct ilist* self)'),
                          ('empty', r'bool empty \(\) const', 'bool ilist_empty(struct ilist* self)'),
                          ('push_front', r'void push_front \( T& val \)', 'void ilist_push_front(struct ilist* self, struct ilnode* val)'),
                          ('remove', r'void remove\( T& val \)', 'void ilist_remove(struct ilist* self, struct ilnode* val)')):
        s = slice_block(IL, sig, within=ILBASE)
        sliced.append('%s:%d intrusive_list_base::%s' % (IL, s.line, nm))
        t = cxx2c.cpp_resolve(s.text, {'TBB_USE_ASSERT': 0}, 'intrusive_list_base::' + nm)
        t = rw.sub(t, sig, csig, 1, 1, name='sig')
        t = rw.sub(t, r'&node\(val\)', 'NODE(val)', 0, None, name='node(val) is the item itself (T derives from / is intrusive_list_node)')
        t = rw.sub(t, r'\bnode\(val\)\.', 'NODE(val)->', 0, None, name='node(val) is the item itself (T derives from / is intrusive_list_node)')
        t = rw.sub(t, r'(?<![\w.>])assert_ok\(\);', 'ilist_assert_ok(self);', 0, None, name='method')
        t = rw.sub(t, r'(?<![\w.>])(my_head|my_size)\b', r'self->\1', 0, None, name='field')
        t = rw.asserts(t, 0)
        t = rw.std(t)
        t = re.sub(r'\)\s*const\s*\{', ') {', t)
        out.append(t)
    common.write(ctx, 'ilist.inc', '\n'.join(out) + '\n')
    # ---- task_group_context_impl ----
    out = []
    s = slice_block(TG, r'void task_group_context_impl::register_with\(d1::task_group_context& ctx, thread_data\* td\)')
    sliced.append('%s:%d register_with (registry)' % (TG, s.line))
    t = rw.sub(s.text, r'void task_group_context_impl::register_with\(d1::task_group_context& ctx, thread_data\* td\)', 'void register_with(struct tgc* ctx, struct thread_data* td)', 1, 1, name='sig')
    t = rw.sub(t, r'__TBB_ASSERT\(!is_poisoned\(ctx\.my_context_list\), nullptr\);', 'RG_NOP();', 1, 1, name='poison check -> RG_NOP')
    t = rw.sub(t, r'\bctx\.', 'ctx->', 0, None, name='ref-param')
    t = rw.sub(t, r'(\w+(?:->\w+)*)->push_front\((\w+)->my_node\);', r'clist_push_front(\1, &\2->my_node);', 0, None, name='context_list::push_front (real code, clist.inc)')
    t = rw.asserts(t, 0)
    t = rw.std(t)
    out.append(t)
    s = slice_block(TG, r'void task_group_context_impl::destroy\(d1::task_group_context& ctx\)')
    sliced.append('%s:%d task_group_context_impl::destroy' % (TG, s.line))
    t = cxx2c.cpp_resolve(s.text, {'_MSC_VER': None, '__INTEL_COMPILER': None}, 'task_group_context_impl::destroy')
    t = rw.sub(t, r'void task_group_context_impl::destroy\(d1::task_group_context& ctx\)', 'void tgc_destroy(struct tgc* ctx)', 1, 1, name='sig')
    t = rw.sub(t, r'__TBB_ASSERT\(!is_poisoned\(ctx\.my_context_list\), nullptr\);', 'RG_NOP();', 1, 1, name='poison check -> RG_NOP')
    t = rw.sub(t, r'\bctx\.', 'ctx->', 0, None, name='ref-param')
    t = rw.sub(t, r'(\w+(?:->\w+)*)->remove\((\w+)->my_node\);', r'clist_remove(\1, &\2->my_node);', 0, None, name='context_list::remove (real code, clist.inc)')
    t = rw.sub(t, r'd1::cpu_ctl_env\* ctl = reinterpret_cast<d1::cpu_ctl_env\*>\(&ctx->my_cpu_ctl_env\);', 'RG_NOP();', 1, 1, name='fp env pointer -> RG_NOP')
    t = rw.sub(t, r'ctl->~cpu_ctl_env\(\);', 'STUB_cpu_ctl_env_dtor(ctx);', 0, None, name='fp env destructor -> stub')
    t = rw.sub(t, r'auto exception = ', 'struct eptr* exception = ', 1, 1, name='auto')
    t = rw.sub(t, r'exception->destroy\(\);', 'STUB_exception_destroy(exception);', 0, None, name='callee stub')
    t = rw.sub(t, r'ITT_STACK_DESTROY\(ctx->my_itt_caller\);', 'RG_NOP();', 0, None, name='itt -> RG_NOP')
    t = rw.sub(t, r'poison_pointer\(([^;]*)\);', r'POISON_POINTER(\1);', 0, None, name='poison_pointer (no-op in the tested build) -> hook')
    t = rw.sub(t, r'd1::task_group_context::state::(\w+)', r'state_\1', 0, None, name='enum scope')
    t = rw.atomics(t, ['my_state', 'my_exception'], 0)
    t = rw.asserts(t, 0)
    t = rw.std(t)
    t = rw.number_sites(t, 'dtor', by_kind=True)
    out.append(t)
    s = slice_block(TG, r'void task_group_context_impl::initialize\(d1::task_group_context& ctx\)')
    sliced.append('%s:%d task_group_context_impl::initialize' % (TG, s.line))
    t = rw.sub(s.text, r'void task_group_context_impl::initialize\(d1::task_group_context& ctx\)', 'void tgc_initialize(struct tgc* ctx)', 1, 1, name='sig')
    t = rw.sub(t, r'ITT_TASK_GROUP\(&ctx, ctx\.my_name, nullptr\);', 'RG_NOP();', 1, 1, name='itt -> RG_NOP')
    t = rw.sub(t, r'static_assert\([^;]*;', 'RG_NOP();', 0, None, name='static_assert -> RG_NOP')
    t = rw.sub(t, r'd1::cpu_ctl_env\* ctl = new \(&ctx\.my_cpu_ctl_env\) d1::cpu_ctl_env;', 'RG_NOP();', 1, 1, name='fp env placement new -> RG_NOP')
    t = rw.sub(t, r'ctl->get_env\(\);', 'STUB_get_env(ctx);', 0, None, name='callee stub')
    t = rw.sub(t, r'&ctx\.my_node\b', '&ctx->my_node', 0, None, name='ref-param')
    t = rw.sub(t, r'\bctx\.', 'ctx->', 0, None, name='ref-param')
    t = rw.sub(t, r'd1::task_group_context::state::(\w+)', r'state_\1', 0, None, name='enum scope')
    t = rw.sub(t, r'(ctx->my_cancellation_requested) = ([^;]*);', r'ATOMIC_STORE(\1, \2);', 0, None, name='atomic assignment')
    t = rw.atomics(t, ['my_state', 'my_exception', 'my_may_have_children'], 0)
    t = rw.std(t)
    t = rw.number_sites(t, 'init', by_kind=True)
    out.append(t)
    s = slice_block(TG, r'void task_group_context_impl::reset\(d1::task_group_context& ctx\)')
    sliced.append('%s:%d task_group_context_impl::reset' % (TG, s.line))
    t = rw.sub(s.text, r'void task_group_context_impl::reset\(d1::task_group_context& ctx\)', 'void tgc_reset(struct tgc* ctx)', 1, 1, name='sig')
    t = rw.sub(t, r'__TBB_ASSERT\(!is_poisoned\(ctx\.my_context_list\), nullptr\);', 'RG_NOP();', 1, 1, name='poison check -> RG_NOP')
    t = rw.sub(t, r'\bctx\.', 'ctx->', 0, None, name='ref-param')
    t = rw.sub(t, r'auto exception = ', 'struct eptr* exception = ', 1, 1, name='auto')
    t = rw.sub(t, r'exception->destroy\(\);', 'STUB_exception_destroy(exception);', 0, None, name='callee stub')
    t = rw.sub(t, r'(ctx->my_cancellation_requested) = ([^;]*);', r'ATOMIC_STORE(\1, \2);', 0, None, name='atomic assignment')
    t = rw.atomics(t, ['my_exception'], 0)
    t = rw.std(t)
    t = rw.number_sites(t, 'reset', by_kind=True)
    out.append(t)
    s = slice_block(TG, r'bool task_group_context_impl::is_group_execution_cancelled\(const d1::task_group_context& ctx\)')
    sliced.append('%s:%d task_group_context_impl::is_group_execution_cancelled' % (TG, s.line))
    t = rw.sub(s.text, r'bool task_group_context_impl::is_group_execution_cancelled\(const d1::task_group_context& ctx\)', 'bool tgc_is_cancelled(struct tgc* ctx)', 1, 1, name='sig')
    t = rw.sub(t, r'\bctx\.', 'ctx->', 0, None, name='ref-param')
    t = rw.atomics(t, ['my_cancellation_requested'], 0)
    t = rw.std(t)
    t = rw.number_sites(t, 'isc', by_kind=True)
    out.append(t)
    common.write(ctx, 'tgcl.inc', '\n'.join(out) + '\n')
    fired['registry'] = rw.fired


TDC = 'src/tbb/thread_dispatcher.cpp'


def extract_threads(ctx, sliced, fired):
    """the registry of threads: cancellation_disseminator::{register_thread, unregister_thread}, the threading_control forwarders (register/unregister/propagate),
    and the order of unregistration and list orphaning at thread exit: thread_dispatcher::cleanup, governor::auto_terminate, thread_data::~thread_data"""
    rw = Rewriter('threads')
    out = []
    ctx.thread_list_mutexes = {}
    for nm, op in (('register_thread', 'PUSH_FRONT'), ('unregister_thread', 'REMOVE')):
        sig = r'void %s\(thread_data& td\)' % nm
        s = slice_block(CD, sig, within=r'class cancellation_disseminator\b')
        sliced.append('%s:%d cancellation_disseminator::%s' % (CD, s.line, nm))
        t = rw.sub(s.text, sig, 'void dissem_%s(struct dissem* self, struct thread_data* td)' % nm, 1, 1, name='sig')
        t = rw.sub(t, r'\bmy_threads_list\.(push_front|remove)\(td\);', lambda m: 'TLIST_%s(self, td);' % m.group(1).upper(), 0, None, name='intrusive_list<thread_data> operation -> contract stub (proved on real nodes in registry.ilist.*)')
        t, mus = raii_lock(rw, t, None)
        ctx.thread_list_mutexes[nm] = mus
        t = rw.sub(t, r'(?<![\w.>])(my_threads_list_mutex|my_threads_list)\b', r'self->\1', 0, None, name='field')
        t = rw.std(t)
        out.append(t)
    # forwarders: threading_control -> threading_control_impl -> cancellation_disseminator
    for cls, cname, inner, icall in (('threading_control_impl', 'tci', 'my_cancellation_disseminator', 'STUB_dissem'), ('threading_control', 'tc', 'my_pimpl', 'tci')):
        for nm, sig, csig in (('register_thread', r'void %s::register_thread\(thread_data& td\)' % cls, 'void %s_register_thread(struct %s* self, struct thread_data* td)' % (cname, cname)),
                              ('unregister_thread', r'void %s::unregister_thread\(thread_data& td\)' % cls, 'void %s_unregister_thread(struct %s* self, struct thread_data* td)' % (cname, cname)),
                              ('propagate_task_group_state', r'void %s::propagate_task_group_state\(std::atomic<uint32_t> d1::task_group_context::\*mptr_state,\s*d1::task_group_context& src, uint32_t new_state\)' % cls,
                               'void %s_propagate_task_group_state(struct %s* self, struct tgc* src, uint32_t new_state)' % (cname, cname))):
            s = slice_block(TC, sig)
            sliced.append('%s:%d %s::%s' % (TC, s.line, cls, nm))
            t = rw.sub(s.text, sig, csig, 1, 1, name='sig')
            t = rw.sub(t, r'\b%s->(\w+)\(mptr_state, ' % inner, r'%s_\1(self->%s, ' % (icall, inner), 0, None, name='forwarded call (member pointer bound to my_cancellation_requested)')
            t = rw.sub(t, r'\b%s->(\w+)\(' % inner, r'%s_\1(self->%s, ' % (icall, inner), 0, None, name='forwarded call')
            t = rw.std(t)
            out.append(t)
    # thread exit
    s = slice_block(TDH, r'~thread_data\(\)', within=r'class thread_data : public ::rml::job')
    sliced.append('%s:%d thread_data::~thread_data' % (TDH, s.line))
    t = cxx2c.cpp_resolve(s.text, {'__TBB_RESUMABLE_TASKS': 1}, '~thread_data')
    t = rw.sub(t, r'~thread_data\(\)', 'void thread_data_dtor(struct thread_data* self)', 1, 1, name='sig')
    t = rw.sub(t, r'\bmy_context_list->orphan\(\);', 'clist_orphan(self->my_context_list);', 0, None, name='context_list::orphan (real code, clist.inc)')
    t = rw.sub(t, r'\bmy_small_object_pool->destroy\(\);', 'STUB_pool_destroy(self);', 0, None, name='callee stub')
    t = rw.sub(t, r'poison_pointer\((\w+)\);', r'TD_POISON(self, \1);', 0, None, name='poison_pointer (no-op in the tested build) -> hook')
    t = rw.std(t)
    out.append(t)
    s = slice_block(GOV, r'void governor::auto_terminate\(void\* tls\)')
    sliced.append('%s:%d governor::auto_terminate' % (GOV, s.line))
    t = s.text
    lam = re.search(r'auto clear_tls = \[td\] \{(.*?)\};', t, re.S)
    if not lam:
        raise ExtractionBreak('governor::auto_terminate: the clear_tls lambda was not found')
    body = lam.group(1)
    t = t[:lam.start()] + 'RG_NOP();' + t[lam.end():]
    rw.fired['lambda [td]{...} -> function clear_tls_body(td) (body text unchanged), call sites clear_tls() -> clear_tls_body(td)'] = 1

    def exit_rules(x):
        x = rw.sub(x, r'td->~thread_data\(\);', 'thread_data_dtor(td);', 0, None, name='destructor call (real code)')
        x = rw.sub(x, r'cache_aligned_deallocate\(td\);', 'STUB_td_deallocate(td);', 0, None, name='deallocation -> stub')
        x = rw.sub(x, r'(?<![\w.>])clear_thread_data\(\);', 'STUB_clear_thread_data();', 0, None, name='callee stub')
        return x
    body = exit_rules(body)
    t = rw.sub(t, r'void governor::auto_terminate\(void\* tls\)', 'void governor_auto_terminate(void* tls)', 1, 1, name='sig')
    t = rw.sub(t, r'__TBB_ASSERT\(get_thread_data_if_initialized\(\)[^;]*;', 'RG_NOP();', 0, None, name='TLS assertion -> RG_NOP')
    t = rw.sub(t, r'thread_data\* td = static_cast<thread_data\*>\(tls\);', 'struct thread_data* td = (struct thread_data*)(tls);', 1, 1, name='cast')
    t = rw.sub(t, r'\barena\* a = ', 'struct arena* a = ', 0, None, name='type')
    t = rw.sub(t, r'\bthreading_control\* thr_control = ', 'struct tc* thr_control = ', 0, None, name='type')
    t = rw.sub(t, r'!is_thread_data_set\(td\)', '!STUB_is_thread_data_set(td)', 0, None, name='callee stub')
    t = rw.sub(t, r'(?<![\w.>])set_thread_data\(\*td\);', 'STUB_set_thread_data(td);', 0, None, name='callee stub')
    t = rw.sub(t, r'a->my_observers\.notify_exit_observers\([^;]*\);', 'STUB_notify_exit_observers(a, td);', 0, None, name='callee stub')
    t = rw.sub(t, r'td->leave_task_dispatcher\(\);', 'STUB_leave_task_dispatcher(td);', 0, None, name='callee stub')
    t = rw.sub(t, r'td->my_arena_slot->release\(\);', 'STUB_slot_release(td);', 0, None, name='callee stub')
    t = rw.sub(t, r'a->on_thread_leaving\(arena::ref_external\);', 'STUB_on_thread_leaving(a);', 0, None, name='callee stub')
    t = rw.sub(t, r'(\w+)->unregister_thread\(\*td\);', r'tc_unregister_thread(\1, td);', 0, None, name='threading_control::unregister_thread (real code)')
    t = rw.sub(t, r'(\w+)->unregister_public_reference\([^;]*\);', r'STUB_unregister_public_reference(\1);', 0, None, name='callee stub')
    t = rw.sub(t, r'(?<![\w.>])clear_tls\(\);', 'clear_tls_body(td);', 0, None, name='lambda call')
    t = rw.std(t)
    out.append('void clear_tls_body(struct thread_data* td) {' + rw.std(body) + '}')
    out.append(t)
    s = slice_block(TDC, r'void thread_dispatcher::cleanup\(job& j\)')
    sliced.append('%s:%d thread_dispatcher::cleanup' % (TDC, s.line))
    t = rw.sub(s.text, r'void thread_dispatcher::cleanup\(job& j\)', 'void thread_dispatcher_cleanup(struct thread_dispatcher* self, struct thread_data* j)', 1, 1, name='sig (job& -> the thread_data it is)')
    t = rw.sub(t, r'\bmy_threading_control\.unregister_thread\(static_cast<thread_data&>\(j\)\);', 'tc_unregister_thread(self->my_threading_control, j);', 0, None, name='threading_control::unregister_thread (real code)')
    t = rw.sub(t, r'governor::auto_terminate\(&j\);', 'governor_auto_terminate(j);', 0, None, name='ns-strip')
    t = rw.std(t)
    out.append(t)
    common.write(ctx, 'threads.inc', '\n'.join(out) + '\n')
    fired['threads'] = rw.fired


def closed_world(ctx, fired):
    """Every access to the cancellation flag (directly or through the member pointer the propagation passes around) lies inside a function that is under contract here:
    a new writer - e.g. something that clears the flag of a cancelled context - makes the run UNDECIDED instead of going unnoticed."""
    import glob
    TCH = 'src/tbb/threading_control.h'
    allowed = {
        TG: [r'void task_group_context_impl::initialize\(d1::task_group_context& ctx\)', r'void task_group_context_impl::bind_to_impl\(d1::task_group_context& ctx, thread_data\* td\)',
             r'void task_group_context_impl::propagate_task_group_state\(d1::task_group_context& ctx,', r'bool task_group_context_impl::cancel_group_execution\(d1::task_group_context& ctx\)',
             r'bool task_group_context_impl::is_group_execution_cancelled\(const d1::task_group_context& ctx\)', r'void task_group_context_impl::reset\(d1::task_group_context& ctx\)'],
        TC: [r'void threading_control_impl::propagate_task_group_state\(', r'void threading_control::propagate_task_group_state\('],
        CD: [r'bool propagate_task_group_state\(std::atomic<uint32_t> d1::task_group_context::\*mptr_state,'],
        TDH: [r'inline void thread_data::propagate_task_group_state\('],
    }
    decl_ok = [r'^\s*(?:static )?void propagate_task_group_state\([^{}]*$', r'^\s*d1::task_group_context& src, uint32_t new_state\);\s*$', r'^\s*std::atomic<std::uint32_t> my_cancellation_requested;\s*$']
    n = 0
    files = sorted(glob.glob(os.path.join(cxx2c.REPO, 'src', 'tbb', '*.h')) + glob.glob(os.path.join(cxx2c.REPO, 'src', 'tbb', '*.cpp')) +
                   glob.glob(os.path.join(cxx2c.REPO, 'include', 'oneapi', 'tbb', '*.h')) + glob.glob(os.path.join(cxx2c.REPO, 'include', 'oneapi', 'tbb', 'detail', '*.h')))
    for path in files:
        rel = os.path.relpath(path, cxx2c.REPO)
        text = load(rel)
        if 'my_cancellation_requested' not in text and 'mptr_state' not in text:
            continue
        mk = cxx2c.mask(text)
        ext = []
        for sig in allowed.get(rel, []):
            s = slice_block(rel, sig)
            ext.append((s.start, s.end))
        for m in re.finditer(r'\bmy_cancellation_requested\b|\bmptr_state\b', mk):
            if any(a <= m.start() < b for a, b in ext):
                n += 1
                continue
            ls = text.rfind('\n', 0, m.start()) + 1
            le = text.find('\n', m.start())
            line = cxx2c.strip_comments(text[ls:le if le >= 0 else len(text)])
            if any(re.search(d, line) for d in decl_ok):
                continue
            raise ExtractionBreak('closed-world scan: %s:%d touches the cancellation flag outside the functions under contract: %s' % (rel, text.count('\n', 0, m.start()) + 1, line.strip()[:160]))
    fired['closed-world scan: accesses to my_cancellation_requested / mptr_state inside functions under contract'] = n


CD = 'src/tbb/cancellation_disseminator.h'
TDH = 'src/tbb/thread_data.h'


def extract_walk(ctx, sliced, fired):
    """the propagator: cancellation_disseminator::propagate_task_group_state and thread_data::propagate_task_group_state"""
    rw = Rewriter('propagator')
    s = slice_block(CD, r'bool propagate_task_group_state\(std::atomic<uint32_t> d1::task_group_context::\*mptr_state, d1::task_group_context& src, uint32_t new_state\)')
    sliced.append('%s:%d cancellation_disseminator::propagate_task_group_state' % (CD, s.line))
    t = rw.sub(s.text, r'bool propagate_task_group_state\(std::atomic<uint32_t> d1::task_group_context::\*mptr_state, d1::task_group_context& src, uint32_t new_state\)',
               'bool dissem_propagate(struct dissem* self, struct tgc* src, uint32_t new_state)', 1, 1, name='sig (member pointer bound to my_cancellation_requested)')
    mp = re.findall(r'\w+::scoped_lock \w+\(([^)]*)\);', t)
    ctx.propagator_mutexes = [x.strip() for x in mp]
    t = rw.scoped_locks(t, r'\w+::scoped_lock \w+\(([^)]*)\);', 0, None)
    t = rw.sub(t, r'\(src\.\*mptr_state\)\.load\(std::memory_order_relaxed\)', 'P_LOAD(src->my_cancellation_requested)', 0, None, name='member-pointer load')
    t = rw.sub(t, r'\bsrc\.', 'src->', 0, None, name='ref-param')
    t = rw.sub(t, r'd1::task_group_context::may_have_children', 'may_have_children', 0, name='enum scope')
    t = rw.sub(t, r'\+\+the_context_state_propagation_epoch;', 'ATOMIC_PREINC(the_context_state_propagation_epoch);', 0, None, name='atomic ++ (global epoch)')
    t = rw.sub(t, r'for \(auto& thr_data : my_threads_list\) \{', 'for (size_t it_ = 0; it_ < LIST_SIZE(my_threads_list); ++it_) { struct thread_data* thr_data = LIST_AT(my_threads_list, it_);', 1, 1, name='range-for over intrusive_list -> indexed loop over its sequence')
    t = rw.sub(t, r'thr_data\.propagate_task_group_state\(mptr_state, src, new_state\);', 'td_propagate(thr_data, src, new_state);', 0, None, name='method')
    t = rw.sub(t, r'(?<![\w.>])(my_threads_list_mutex|my_threads_list)\b', r'self->\1', 2, name='field')
    t = rw.atomics(t, ['my_may_have_children'], 0)
    t = rw.std(t)
    t = rw.number_sites(t, 'dis', by_kind=True)
    t = tag_loops(t, 'dis', rw, names=[(r'LIST_SIZE\(self->my_threads_list\)', 'threads')])
    common.write(ctx, 'dissem.inc', t + '\n')
    s = slice_block(TDH, r'inline void thread_data::propagate_task_group_state\(std::atomic<std::uint32_t> d1::task_group_context::\* mptr_state, d1::task_group_context& src, std::uint32_t new_state\)')
    sliced.append('%s:%d thread_data::propagate_task_group_state' % (TDH, s.line))
    t = rw.sub(s.text, r'inline void thread_data::propagate_task_group_state\(std::atomic<std::uint32_t> d1::task_group_context::\* mptr_state, d1::task_group_context& src, std::uint32_t new_state\)',
               'void td_propagate(struct thread_data* self, struct tgc* src, uint32_t new_state)', 1, 1, name='sig (member pointer bound to my_cancellation_requested)')
    t = rw.scoped_locks(t, r'\w+::scoped_lock \w+\(([^)]*)\);', 0, None)
    t = rw.sub(t, r'for \(context_list::iterator it = my_context_list->begin\(\); it != my_context_list->end\(\); \+\+it\) \{', 'for (size_t it = 0; it != LIST_SIZE(my_context_list); ++it) {', 1, 1, name='iterator loop over intrusive_list -> indexed loop over its sequence')
    t = rw.sub(t, r'd1::task_group_context& ctx = __TBB_get_object_ref\(d1::task_group_context, my_node, &\(\*it\)\);', 'struct tgc* ctx = LIST_AT(my_context_list, it);', 1, 1, name='node -> object')
    t = rw.sub(t, r'\(ctx\.\*mptr_state\)\.load\(std::memory_order_relaxed\)', 'P_LOAD(ctx->my_cancellation_requested)', 0, None, name='member-pointer load')
    t = rw.sub(t, r'task_group_context_impl::propagate_task_group_state\(ctx, mptr_state, src, new_state\);', 'propagate_task_group_state(ctx, src, new_state);', 0, None, name='callee (task_group_context_impl, proved in propagate.path.any_depth.*)')
    t = rw.sub(t, r'(?<![\w.>])my_context_list\b', 'self->my_context_list', 3, name='field')
    t = rw.atomics(t, ['epoch', 'the_context_state_propagation_epoch'], 0)
    t = rw.std(t)
    t = rw.number_sites(t, 'tdp', by_kind=True)
    t = tag_loops(t, 'tdp', rw, names=[(r'LIST_SIZE\(self->my_context_list\)', 'contexts')])
    common.write(ctx, 'tdwalk.inc', t + '\n')
    fired['propagator'] = rw.fired


def build(ctx):
    sliced, fired = extract(ctx)
    C = os.path.join(HERE, 'c04.c')
    d = 6
    jobs = [
        Job('cancel.one_winner', C, 'h_cancel', route='RG', defines=['CANCEL'], target='task_group_context_impl::cancel_group_execution', source=TG),
        Job('propagate.path.any_depth.ancestor', C, 'h_propagate_any', route='LC', loops=True, nloops=2, defines=['PROPU', 'SRC_ANCESTOR'], timeout=400, inputs=['IN_n', 'IN_s', 'IN_k', 'IN_ns', 'IN_st0'],
            target='task_group_context_impl::propagate_task_group_state, ancestor chains of any length, the source is a proper ancestor of ctx', source=TG),
        Job('propagate.path.any_depth.other', C, 'h_propagate_any', route='LC', loops=True, nloops=2, defines=['PROPU'], timeout=400, inputs=['IN_n', 'IN_s', 'IN_k', 'IN_ns', 'IN_st0'],
            target='task_group_context_impl::propagate_task_group_state, ancestor chains of any length, the source is ctx itself or not on its chain', source=TG),
        Job('bind.no_missed_cancel.atomic_copy', C, 'h_bind_impl', route='RG', defines=['BINDIMPL', 'ATOMIC_COPY'], target='task_group_context_impl::bind_to_impl (parent without grand-ancestor) against a concurrent canceller of the parent; the final state copy taken as one atomic step', source=TG),
        Job('bind.no_missed_cancel.real', C, 'h_bind_impl', route='RG', defines=['BINDIMPL'], target='task_group_context_impl::bind_to_impl, the state copy as the separate load and store it is', source=TG),
        Job('walk.disseminator', C, 'h_dissem', route='LC', loops=True, nloops=1, defines=['DISSEM', 'BINDER_SLOW_MUTEX=' + (ctx.binder_mutexes[0] if ctx.binder_mutexes else '0')],
            target='cancellation_disseminator::propagate_task_group_state (any number of threads)', source=CD),
        Job('walk.thread_list', C, 'h_tdwalk', route='LC', loops=True, nloops=1, defines=['TDWALK'], target='thread_data::propagate_task_group_state (any list length)', source=TDH),
        Job('bind.grand_ancestor', C, 'h_bind_ga', route='RG', defines=['BINDGA', 'PROP_HOLDS_BINDER_MUTEX=%d' % (1 if ctx.binder_mutexes and ctx.binder_mutexes[0] in ctx.propagator_mutexes else 0)], unwind=8,
            target='task_group_context_impl::bind_to_impl + register_with (parent with a grand-ancestor) against one concurrent propagation', source=TG),
        Job('registry.ilist.push_front', C, 'h_ilist_push_front', route='LF', defines=['ILIST'], target='intrusive_list_base::push_front + assert_ok (real nodes, window of the list)', source=IL),
        Job('registry.ilist.remove', C, 'h_ilist_remove', route='LF', defines=['ILIST'], target='intrusive_list_base::remove + assert_ok (real nodes, window of the list)', source=IL),
        Job('registry.ilist.empty', C, 'h_ilist_empty', route='LF', defines=['ILIST'], target='intrusive_list_base::empty', source=IL),
        Job('registry.list.remove', C, 'h_clist_remove', route='LF', defines=['REGISTRY'], target='context_list::remove + destroy (orphaned-list protocol: the last one out frees the list)', source=TDH),
        Job('registry.list.orphan', C, 'h_clist_orphan', route='LF', defines=['REGISTRY'], target='context_list::orphan + destroy', source=TDH),
        Job('registry.list.push_front', C, 'h_clist_push_front', route='LF', defines=['REGISTRY'], target='context_list::push_front', source=TDH),
        Job('registry.register_with', C, 'h_register_with', route='LF', defines=['REGISTRY'], target='task_group_context_impl::register_with -> context_list::push_front', source=TG),
        Job('registry.destroy', C, 'h_tgc_destroy', route='LF', defines=['REGISTRY'], target='task_group_context_impl::destroy -> context_list::remove -> destroy', source=TG),
        Job('lifetime.initialize', C, 'h_tgc_initialize', route='LF', defines=['REGISTRY'], target='task_group_context_impl::initialize', source=TG),
        Job('lifetime.reset', C, 'h_tgc_reset', route='LF', defines=['REGISTRY'], target='task_group_context_impl::reset, is_group_execution_cancelled', source=TG),
        Job('registry.thread.register', C, 'h_thread_register', route='LF', defines=['REGISTRY', 'THREADS'], target='threading_control::register_thread -> threading_control_impl -> cancellation_disseminator::register_thread', source=CD),
        Job('registry.thread.unregister', C, 'h_thread_unregister', route='LF', defines=['REGISTRY', 'THREADS'], target='threading_control::unregister_thread -> threading_control_impl -> cancellation_disseminator::unregister_thread', source=CD),
        Job('walk.forwarders', C, 'h_forward_propagate', route='LF', defines=['REGISTRY', 'THREADS'], target='threading_control::propagate_task_group_state -> threading_control_impl::propagate_task_group_state', source=TC),
        Job('registry.thread_exit.external', C, 'h_thread_exit_external', route='LF', defines=['REGISTRY', 'THREADS'], target='governor::auto_terminate -> unregister_thread, ~thread_data -> context_list::orphan', source=GOV),
        Job('registry.thread_exit.worker', C, 'h_thread_exit_worker', route='LF', defines=['REGISTRY', 'THREADS'], target='thread_dispatcher::cleanup -> unregister_thread, governor::auto_terminate -> ~thread_data -> context_list::orphan', source=TDC),
        Job('registry.reachable.external.no_context_left', C, 'h_reach_external', route='LF', defines=['REGISTRY', 'THREADS'], target='governor::auto_terminate: exit of an external thread whose context list is empty', source=GOV),
        Job('registry.reachable.external.contexts_left', C, 'h_reach_external', route='LF', defines=['REGISTRY', 'THREADS', 'CONTEXTS_LEFT'], target='governor::auto_terminate: exit of an external thread that leaves a live bound context in its list', source=GOV),
        Job('registry.reachable.worker.no_context_left', C, 'h_reach_worker', route='LF', defines=['REGISTRY', 'THREADS'], target='thread_dispatcher::cleanup: exit of a worker whose context list is empty', source=TDC),
        Job('registry.reachable.worker.contexts_left', C, 'h_reach_worker', route='LF', defines=['REGISTRY', 'THREADS', 'CONTEXTS_LEFT'], target='thread_dispatcher::cleanup: exit of a worker that leaves a live bound context in its list', source=TDC),
        Job('bind.one_binder', C, 'h_bind_to', route='RG', defines=['BINDTO'], target='task_group_context_impl::bind_to (state word created->locked->bound|isolated)', source=TG),
    ]
    if ctx.tier != 'quick':   # cross-check of the any-depth proof on real structs and real pointers (arbitrary forest); subsumed by propagate.path.any_depth.*, hence not part of the quick tier
        jobs.append(Job('propagate.path', C, 'h_propagate', route='BD', bound_text='context trees of depth <= %d (ancestor chain walk unwound)' % d, defines=['PROP', 'DEPTH=%d' % d], unwind=d + 3, timeout=1500,
            target='task_group_context_impl::propagate_task_group_state', source=TG))
    return {
        'jobs': jobs, 'sliced': sliced, 'fired': fired,
        'trusted': ['SC atomics (the real code relies on the full fence issued by register_with and on acquire/release pairs)',
                    'd1::mutex / scoped_lock: mutual exclusion, ~scoped_lock unlocks only a lock that still owns its mutex (SLOCK_* / LOCK_MUTEX macros)',
                    'composition binder vs propagator: the canceller/propagator models of bind.* (flag exchange, then child-hint read, then epoch advance, then every list once, marks before the epoch sync) are the contracts proved by cancel.one_winner, walk.forwarders, walk.disseminator, walk.thread_list and propagate.path.any_depth.*',
                    'composition list layers: the abstract list of registry.list.* / registry.thread.* / walk.* (size + membership of one watched element, index sequence) stands for the intrusive list whose push_front/remove/empty are proved on real nodes in registry.ilist.*',
                    'cache_aligned_deallocate frees the object (the stub really frees the harness object); small_object_pool::destroy, arena/observer/dispatcher calls of governor::auto_terminate (stubs without effect on the registry)',
                    'callers: orphan() once per list (~thread_data, proved for auto_terminate/cleanup), register_with only by the owner thread before it exits, destroy once per context, reset not concurrent with a cancellation of the same tree (documented precondition of the library)',
                    'closed world (scan-enforced): my_cancellation_requested and the member pointer mptr_state are touched only by functions under contract here'],
        'drops': ['member-pointer parameter bound to my_cancellation_requested', 'poison checks / poison_pointer (no-ops in the tested build: hooks only)', 'ITT', 'fp settings copy / capture -> stubs', 'the bool result of the disseminator (no caller reads it)',
                  'TLS bookkeeping, observers, arena slot release in governor::auto_terminate -> stubs'],
        'not_decided': ['reset by task_group::wait / run_and_wait (the callers of reset: C03 covers the waiting calls)', 'exception side (C03)',
                        'registration sites of threads (governor::init_external_thread, thread_dispatcher::create_one_job: register_thread before the thread can bind contexts)',
                        'proxy contexts (task_group_context::actual_context) and the public wrappers in task_group.h',
                        'store-buffer (TSO/relaxed) reordering of the binding fast path: SC only', 'termination of the spin wait in bind_to',
                        'whole-history composition (per-function contracts => every descendant cancelled once all calls returned) is a written argument over the proved contracts'],
        'assumptions': ['the parent context has no parent of its own in jobs bind.no_missed_cancel.*; one concurrent propagation in bind.grand_ancestor (source: the grand-ancestor or the parent itself)',
                        'propagate.path.any_depth: ancestor chains of up to 2^12 contexts (symbolic length); the source carries new_state while it is propagated (the disseminator backs down otherwise)',
                        'context lists / thread lists below 2^60 / 2^40 entries', 'the cancellation flag is 0 or 1'],
    }


def replay_f6(ctx):
    """gdb-driven schedule on the real library: the binder is stopped between its load of the parent's flag and its store into the (already registered) child,
    the canceller thread runs cancel_group_execution(parent) to completion in between, the binder is released."""
    import subprocess
    src = load(TG).split('\n')
    # the final state copy of the no-grand-ancestor branch: the statement that stores into ctx.my_cancellation_requested in the else-arm after register_with (last such statement of bind_to_impl)
    s0 = slice_block(TG, r'void task_group_context_impl::bind_to_impl\(d1::task_group_context& ctx, thread_data\* td\)')
    lines = [i for i, l in enumerate(src, 1) if s0.line <= i <= s0.line + s0.text.count('\n') and 'ctx.my_cancellation_requested.store(' in l]
    if not lines:
        return {'reproduced': False, 'detail': 'no statement storing ctx.my_cancellation_requested found in bind_to_impl'}
    libdir = native.build_tbb_from_source(os.path.join(ctx.work, 'libtbb_dbg'), debug_files=('task_group_context.cpp',))
    exe = native.build([os.path.join(HERE, 'c04_replay_f6.cpp')], os.path.join(ctx.work, 'c04_replay_f6'), flags=['-g'], link_tbb=True, tbb_dir=libdir)
    try:
        p = subprocess.run(['gdb', '-q', '-batch', '-x', os.path.join(HERE, 'c04_replay_f6.gdb.py'), exe], stdout=subprocess.PIPE, stderr=subprocess.STDOUT, timeout=180,
                           env=dict(os.environ, F6_LINE=str(lines[-1])))
        out = p.stdout.decode(errors='replace')
    except Exception as e:
        return {'reproduced': False, 'detail': 'gdb-driven replay failed to run: %r' % e}
    rep = {'cmd': 'F6_LINE=%d gdb -batch -x c04_replay_f6.gdb.py %s' % (lines[-1], exe), 'output': out[-1500:], 'reproduced': False, 'detail': 'gdb-driven schedule (canceller between the binder\'s load and store) ended with the child cancelled'}
    m = re.search(r'REPRODUCED (.*)', out)
    if m and 'BINDER STOPPED AFTER THE LOAD' in out:
        rep.update(reproduced=True, detail=m.group(1), witness_class='stale-state-copy')
    return rep


def replay_path(ctx, failure):
    """single-threaded white-box recipe: a hand-linked chain of real contexts registered in the thread's real list, public cancel on one entry"""
    exe = native.build([os.path.join(HERE, 'c04_replay_path.cpp')], os.path.join(ctx.work, 'c04_replay_path'), link_tbb=True, flags=['-fno-access-control'], includes=[os.path.join(ctx.repo, 'src')])
    ins = (failure or {}).get('inputs') or {}
    runs = []
    if ins.get('IN_n'):
        runs.append([exe, str(ins.get('IN_n')), str(ins.get('IN_s', 0)), str(ins.get('IN_st0', 0))])
    runs.append([exe, 'search'])
    rep = {'reproduced': False, 'detail': 'native chains (counterexample inputs, then boundary search): every descendant of the cancelled context ended cancelled, nothing else was marked', 'runs': []}
    for cmd in runs:
        rc, out = native.run(cmd, timeout=120)
        rep['runs'].append({'cmd': ' '.join(cmd), 'rc': rc, 'output': out[-800:]})
        m = re.search(r'(?m)^REPRODUCED (.*)', out)
        if m:
            w = re.search(r'class=(\S+)', m.group(1))
            rep.update(reproduced=True, detail=m.group(1), witness_class=w.group(1) if w else '')
            break
    return rep


def replay_registry(ctx):
    """single-threaded white-box recipe on the real r1::context_list with interposed allocation functions: the list is freed exactly once, unlocked, by the right operation"""
    exe = native.build([os.path.join(HERE, 'c04_replay_registry.cpp')], os.path.join(ctx.work, 'c04_replay_registry'), link_tbb=True, flags=['-fno-access-control'], includes=[os.path.join(ctx.repo, 'src')])
    rc, out = native.run([exe], timeout=120)
    rep = {'reproduced': False, 'detail': 'native orphan/remove sequences on the real context_list: every list freed exactly once, unlocked', 'runs': [{'cmd': exe, 'rc': rc, 'output': out[-800:]}]}
    m = re.search(r'(?m)^REPRODUCED (.*)', out)
    if m:
        w = re.search(r'class=(\S+)', m.group(1))
        rep.update(reproduced=True, detail=m.group(1), witness_class=w.group(1) if w else '')
    return rep


def replay_orphan(ctx, which):
    """public-interface recipe: a bound context outlives the thread that bound it; the parent is cancelled afterwards"""
    exe = native.build([os.path.join(HERE, 'c04_replay_orphan.cpp')], os.path.join(ctx.work, 'c04_replay_orphan'), link_tbb=True)
    rc, out = native.run([exe, which], timeout=240)
    rep = {'reproduced': False, 'detail': 'native scenario (%s thread gone, then cancel of the parent): the child ended cancelled' % which, 'runs': [{'cmd': exe + ' ' + which, 'rc': rc, 'output': out[-800:]}]}
    m = re.search(r'(?m)^REPRODUCED (.*)', out)
    if m:
        w = re.search(r'class=(\S+)', m.group(1))
        rep.update(reproduced=True, detail=m.group(1), witness_class=w.group(1) if w else '')
    return rep


def replay(ctx, jobname, failure):
    if jobname.startswith('registry.reachable.'):
        return replay_orphan(ctx, 'worker' if '.worker.' in jobname else 'external')
    if jobname.startswith('propagate.path'):
        return replay_path(ctx, failure)
    if jobname.startswith('registry.list.') or jobname == 'registry.destroy':
        rep = replay_registry(ctx)
        if rep.get('reproduced') or jobname != 'registry.destroy':
            return rep
        return replay_path(ctx, None)       # a context that is not unregistered / a cancellation that reaches a wrong set: chains of real contexts in the thread's real list
    if jobname in ('registry.register_with', 'walk.forwarders', 'cancel.one_winner') or jobname.startswith('lifetime.'):
        return replay_path(ctx, None)
    if jobname.startswith('registry.'):
        return {'reproduced': False, 'detail': 'no native recipe for this job (thread registry / list primitives)'}
    if jobname.startswith('bind.no_missed_cancel'):
        return replay_f6(ctx)
    if not (jobname.startswith('walk.') or jobname == 'bind.grand_ancestor'):
        return {'reproduced': False, 'detail': 'no native recipe for this job'}
    if jobname.startswith('walk.'):
        rep0 = replay_path(ctx, None)        # a walk that skips lists or contexts shows without any forced schedule
        if rep0.get('reproduced'):
            return rep0
    exe = native.build([os.path.join(HERE, 'c04_replay.cpp')], os.path.join(ctx.work, 'c04_replay'), link_tbb=True, flags=['-fno-access-control'], includes=[os.path.join(ctx.repo, 'src')])
    rep = {'reproduced': False, 'detail': 'native schedules (propagator_first, binder_first) both ended with the bound context cancelled', 'runs': []}
    for sched in ('binder_first', 'propagator_first'):
        rc, out = native.run([exe, sched], timeout=120)
        rep['runs'].append({'cmd': exe + ' ' + sched, 'rc': rc, 'output': out[-600:]})
        m = re.search(r'REPRODUCED (.*)', out)
        if m:
            rep['reproduced'] = True
            rep['detail'] = m.group(1)
            w = re.search(r'class=(\S+)', m.group(1))
            rep['witness_class'] = (w.group(1) if w else '') + ':' + sched
            break
        if rc == 3 and sched == 'binder_first' and 'slow path blocked' in out:
            rep['runs'][-1]['note'] = 'the binder could not finish while the propagator was parked: the slow path is excluded by the propagation (correct protocol)'
    return rep
