"""C04 -- cancellation: one winner, propagation paints exactly the path below the source, binding does not miss a concurrent cancel."""
import os
import sys
import re
HERE = os.path.dirname(os.path.abspath(__file__))
sys.path.insert(0, os.path.join(HERE, '..'))
sys.path.insert(0, os.path.join(HERE, '..', '..', 'tools'))
import common
import native
import cxx2c
from cxx2c import Rewriter, slice_block, tag_loops, ExtractionBreak, load
from prove import Job

TG = 'src/tbb/task_group_context.cpp'


def extract(ctx):
    sliced, fired = [], {}
    rw = Rewriter('task_group_context')
    if not re.search(r'enum class state : std::uint8_t \{\s*created,\s*locked,\s*isolated,\s*bound,\s*dead,', load('include/oneapi/tbb/task_group.h')):
        raise ExtractionBreak('task_group_context::state order changed')
    out = []
    s = slice_block(TG, r'bool task_group_context_impl::cancel_group_execution\(d1::task_group_context& ctx\)')
    sliced.append('%s:%d cancel_group_execution' % (TG, s.line))
    t = rw.sub(s.text, r'bool task_group_context_impl::cancel_group_execution\(d1::task_group_context& ctx\)', 'bool cancel_group_execution(struct tgc* ctx)', 1, 1, name='sig')
    t = rw.sub(t, r'__TBB_ASSERT\(!is_poisoned\(ctx\.my_context_list\), nullptr\);', 'RG_NOP();', 1, 1, name='poison check -> RG_NOP')
    t = rw.sub(t, r'\bctx\.', 'ctx->', 3, name='ref-param')
    t = rw.atomics(t, ['my_cancellation_requested'], 3)
    t = rw.sub(t, r'governor::get_thread_data\(\)->my_arena->my_threading_control->propagate_task_group_state\(&d1::task_group_context::my_cancellation_requested, ctx, uint32_t\(1\)\);', 'STUB_propagate(ctx, 1);', 1, 1, name='callee stub')
    t = rw.asserts(t, 1)
    t = rw.number_sites(t, 'cancel', by_kind=True)
    out.append(t)
    s = slice_block(TG, r'void task_group_context_impl::propagate_task_group_state\(d1::task_group_context& ctx,')
    sliced.append('%s:%d propagate_task_group_state' % (TG, s.line))
    t = rw.sub(s.text, r'void task_group_context_impl::propagate_task_group_state\(d1::task_group_context& ctx, std::atomic<std::uint32_t> d1::task_group_context::\* mptr_state, d1::task_group_context& src, std::uint32_t new_state\)',
               'void propagate_task_group_state(struct tgc* ctx, struct tgc* src, uint32_t new_state)', 1, 1, name='sig (member pointer bound to my_cancellation_requested)')
    t = rw.sub(t, r'__TBB_ASSERT\(!is_poisoned\(ctx\.my_context_list\), nullptr\);', 'RG_NOP();', 1, 1, name='poison check -> RG_NOP')
    t = rw.sub(t, r'\(ctx\.\*mptr_state\)\.load\(std::memory_order_relaxed\)', 'P_LOAD(ctx->my_cancellation_requested)', 1, 1, name='member-pointer load')
    t = rw.sub(t, r'\(c->\*mptr_state\)\.store\(new_state, std::memory_order_relaxed\);', 'P_STORE(c, new_state);', 1, 1, name='member-pointer store')
    t = rw.sub(t, r'&ctx\b', 'ctx', 2, name='ref-param')
    t = rw.sub(t, r'&src\b', 'src', 2, name='ref-param')
    t = rw.sub(t, r'\bctx\.my_parent', 'ctx->my_parent', 1, 1, name='ref-param')
    t = rw.sub(t, r'd1::task_group_context\*', 'struct tgc*', 2, name='ns-strip')
    t = rw.std(t)
    t = tag_loops(t, 'prop', rw, expect=2)
    out.append(t)
    s = slice_block(TG, r'void task_group_context_impl::bind_to_impl\(d1::task_group_context& ctx, thread_data\* td\)')
    sliced.append('%s:%d bind_to_impl' % (TG, s.line))
    t = rw.sub(s.text, r'void task_group_context_impl::bind_to_impl\(d1::task_group_context& ctx, thread_data\* td\)', 'void bind_to_impl(struct tgc* ctx, struct thread_data* td)', 1, 1, name='sig')
    t = rw.sub(t, r'__TBB_ASSERT\(!is_poisoned\(ctx\.my_context_list\), nullptr\);', 'RG_NOP();', 1, 1, name='poison check -> RG_NOP')
    t = rw.sub(t, r'\*ctx\.my_parent', '*ctx->my_parent', 0, name='ref-param')
    t = rw.sub(t, r'\bctx\.', 'ctx->', 10, name='ref-param')
    t = rw.sub(t, r'td->my_task_dispatcher->m_execute_data_ext\.context', 'td->current_context', 1, 1, name='field path')
    t = rw.sub(t, r'copy_fp_settings\(ctx, \*ctx->my_parent\);', 'STUB_copy_fp_settings(ctx, ctx->my_parent);', 1, 1, name='callee stub')
    t = rw.sub(t, r'd1::task_group_context::may_have_children', 'may_have_children', 2, name='enum scope')
    t = rw.sub(t, r'd1::task_group_context::state::locked', 'state_locked', 1, name='enum scope')
    t = rw.sub(t, r'register_with\(ctx, td\);', 'STUB_register_with(ctx, td);', 2, 2, name='callee stub (makes the context reachable by propagators)')
    t = rw.sub(t, r'the_context_state_propagation_epoch\.load\(std::memory_order_relaxed\)', 'STUB_global_epoch()', 1, 1, name='callee stub')
    t = rw.sub(t, r'ctx->my_parent->my_context_list->epoch\.load\(std::memory_order_acquire\)', 'STUB_list_epoch(ctx->my_parent)', 1, 1, name='callee stub')
    t = rw.sub(t, r'context_state_propagation_mutex_type::scoped_lock lock\(the_context_state_propagation_mutex\);', 'STUB_lock_propagation_mutex();', 1, 1, name='lock-decl')
    t = rw.atomics(t, ['my_cancellation_requested', 'my_may_have_children', 'my_state'], 5)
    t = rw.asserts(t, 3)
    t = rw.std(t)
    t = rw.number_sites(t, 'bind', by_kind=True)
    out.append(t)
    s = slice_block(TG, r'void task_group_context_impl::bind_to\(d1::task_group_context& ctx, thread_data\* td\)')
    sliced.append('%s:%d bind_to' % (TG, s.line))
    t = cxx2c.cpp_resolve(s.text, {'__INTEL_COMPILER': None}, 'bind_to')
    t = rw.sub(t, r'void task_group_context_impl::bind_to\(d1::task_group_context& ctx, thread_data\* td\)', 'void bind_to(struct tgc* ctx, struct thread_data* td)', 1, 1, name='sig')
    t = rw.sub(t, r'\*td->my_arena->my_default_ctx', 'td->default_ctx', 1, 1, name='field path')
    t = rw.sub(t, r'td->my_arena->my_default_ctx', 'td->default_ctx', 1, 1, name='field path')
    t = rw.sub(t, r'td->my_task_dispatcher->m_execute_data_ext\.context', 'td->current_context', 2, 2, name='field path')
    t = rw.sub(t, r'\bctx\.', 'ctx->', 8, name='ref-param')
    t = rw.sub(t, r'd1::task_group_context::state (\w+)', r'int \1', 2, 2, name='enum type')
    t = rw.sub(t, r'd1::task_group_context::state::(\w+)', r'state_\1', 6, name='enum scope')
    t = rw.sub(t, r'int release_state\{\};', 'int release_state = 0;', 1, 1, name='brace-init')
    t = rw.sub(t, r'copy_fp_settings\(ctx, td->default_ctx\);', 'STUB_copy_fp_settings(ctx, td->default_ctx);', 1, 1, name='callee stub')
    t = rw.sub(t, r'ITT_STACK_CREATE\(ctx->my_itt_caller\);', 'RG_NOP();', 1, 1, name='itt -> RG_NOP')
    t = rw.sub(t, r'spin_wait_while_eq\(ctx->my_state, state_locked\);', 'SPIN_WAIT_WHILE_EQ(ctx->my_state, state_locked);', 1, 1, name='spin-wait')
    t = rw.sub(t, r'bind_to_impl\(ctx, td\);', 'STUB_bind_to_impl(ctx, td);', 1, 1, name='callee stub (proved separately)')
    t = rw.atomics(t, ['my_state'], 5)
    t = rw.asserts(t, 3)
    t = rw.std(t)
    t = rw.number_sites(t, 'bt', by_kind=True)
    out.append(t)
    common.write(ctx, 'tgc.inc', '\n'.join(out) + '\n')
    fired['task_group_context'] = rw.fired
    return sliced, fired


def build(ctx):
    sliced, fired = extract(ctx)
    C = os.path.join(HERE, 'c04.c')
    d = 5 if ctx.tier == 'quick' else 8
    jobs = [
        Job('cancel.one_winner', C, 'h_cancel', route='RG', defines=['CANCEL'], target='task_group_context_impl::cancel_group_execution', source=TG),
        Job('propagate.path', C, 'h_propagate', route='BD', bound_text='context trees of depth <= %d (ancestor chain walk unwound)' % d, defines=['PROP', 'DEPTH=%d' % d], unwind=d + 3, timeout=600,
            target='task_group_context_impl::propagate_task_group_state', source=TG),
        Job('bind.no_missed_cancel.atomic_copy', C, 'h_bind_impl', route='RG', defines=['BINDIMPL', 'ATOMIC_COPY'], target='task_group_context_impl::bind_to_impl (parent without grand-ancestor) against a concurrent canceller of the parent; the final state copy taken as one atomic step', source=TG),
        Job('bind.no_missed_cancel.real', C, 'h_bind_impl', route='RG', defines=['BINDIMPL'], target='task_group_context_impl::bind_to_impl, the state copy as the separate load and store it is', source=TG),
        Job('bind.one_binder', C, 'h_bind_to', route='RG', defines=['BINDTO'], target='task_group_context_impl::bind_to (state word created->locked->bound|isolated)', source=TG),
    ]
    return {
        'jobs': jobs, 'sliced': sliced, 'fired': fired,
        'trusted': ['register_with makes the context reachable by propagators from that instant (stub)', 'the canceller of the parent sets the flag first and walks the registered contexts afterwards (threading_control / cancellation_disseminator: its walk is the rely)',
                    'SC atomics (the real code relies on the full fence issued by register_with)'],
        'drops': ['member-pointer parameter bound to my_cancellation_requested', 'poison checks', 'ITT', 'fp settings copy -> stub'],
        'not_decided': ['bind_to_impl when the parent has a grand-ancestor (speculative copy validated by epoch counters, mutex fallback)', 'the thread-list registry and the disseminator walk itself', 'reset by task_group::wait',
                        'propagation for chains deeper than the bound (bounded stand-in)', 'exception side (C03)'],
        'assumptions': ['the parent context has no parent of its own in job bind.no_missed_cancel'],
    }


def replay(ctx, jobname, failure):
    return {'reproduced': False, 'detail': 'no native recipe: the window between registration and the state copy needs a stalled thread inside register_with (see seeded/C04-1/demo.cpp for a white-box scenario)'}
