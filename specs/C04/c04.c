/* C04 harnesses: cancellation winner, propagation path, binding vs a concurrent canceller (sliced from src/tbb/task_group_context.cpp) */
#include "verif.h"
enum { state_created, state_locked, state_isolated, state_bound, state_dead };   /* order checked by spec.py against task_group.h */
#define may_have_children 1
struct tgc; struct clist { uintptr_t epoch; int m_mutex; size_t n; struct tgc **items; };
struct tgc { struct tgc *my_parent; uint32_t my_cancellation_requested; uint8_t my_state; uint8_t my_may_have_children; struct { bool bound, fp_settings; } my_traits; struct clist *my_context_list; };
struct thread_data { struct tgc *current_context, *default_ctx; struct clist *my_context_list; };
uintptr_t the_context_state_propagation_epoch; int the_context_state_propagation_mutex;
#define SPIN_WAIT_WHILE_EQ(loc, v) do { interfere(); __CPROVER_assume((loc) != (v)); } while (0)
#define P_LOAD(f) (f)

#ifdef CANCEL
static struct tgc X; unsigned long gWinners; bool meWin; int g_prop_calls;
#define CINV (X.my_cancellation_requested <= 1 && (X.my_cancellation_requested == 1) == (gWinners == 1) && gWinners <= 1 && gWinners >= (unsigned long)meWin)
static void interfere(void) { X.my_cancellation_requested = nondet_u32(); gWinners = nondet_ulong(); __CPROVER_assume(CINV); }   /* other cancellers; the flag is never cleared by them */
#define ATOMIC_LOAD_AT(site, f) ({ uint32_t o_ = X.my_cancellation_requested; unsigned long w_ = gWinners; interfere(); __CPROVER_assume(X.my_cancellation_requested >= o_ && gWinners >= w_); (f); })
#define ATOMIC_XCHG_AT(site, f, v) ({ uint32_t o_ = X.my_cancellation_requested; unsigned long w_ = gWinners; interfere(); __CPROVER_assume(X.my_cancellation_requested >= o_ && gWinners >= w_); \
    uint32_t old_ = (f); (f) = (v); if (old_ == 0) { gWinners++; meWin = true; } __CPROVER_assert(CINV, "guarantee: one winner per 0->1 transition, at " #site); old_; })
static void STUB_propagate(struct tgc *c, uint32_t s) { g_prop_calls++; }
#define LOOP_prop_1
#define LOOP_prop_2
#define P_STORE(c, v) ((c)->my_cancellation_requested = (v))
#define STUB_copy_fp_settings(a, b) ((void)0)
#define STUB_register_with(a, b) ((void)0)
#define LOCK_MUTEX(m) ((void)0)
#define UNLOCK_MUTEX(m) ((void)0)
#define LIST_PUSH_FRONT(l, c) ((void)0)
#define STUB_bind_to_impl(a, b) ((void)0)
#define ATOMIC_STORE_AT(site, f, v) ((f) = (v))
#define ATOMIC_CAS_AT(site, f, e, d) (0)
#include "tgc.inc"
void h_cancel(void) {
    X.my_cancellation_requested = nondet_u32(); gWinners = nondet_ulong(); meWin = false; g_prop_calls = 0; __CPROVER_assume(CINV);
    bool r = cancel_group_execution(&X);
    OBLIGATION(r == meWin && X.my_cancellation_requested == 1, "C04.cancel: of any number of concurrent cancel calls exactly one returns true per 0->1 transition; the flag ends set");
    OBLIGATION(g_prop_calls == (r ? 1 : 0), "C04.cancel: only the winner propagates");
    VACUITY_END();
}
#endif

#ifdef PROP
#ifndef DEPTH
#define DEPTH 5
#endif
static void interfere(void) {}
#define LOOP_prop_1
#define LOOP_prop_2
#define P_STORE(c, v) ((c)->my_cancellation_requested = (v))
#define ATOMIC_LOAD_AT(site, f) (f)
#define ATOMIC_XCHG_AT(site, f, v) (0)
#define ATOMIC_STORE_AT(site, f, v) ((f) = (v))
#define ATOMIC_CAS_AT(site, f, e, d) (0)
#define STUB_propagate(c, s) ((void)0)
#define STUB_copy_fp_settings(a, b) ((void)0)
#define STUB_register_with(a, b) ((void)0)
#define LOCK_MUTEX(m) ((void)0)
#define UNLOCK_MUTEX(m) ((void)0)
#define LIST_PUSH_FRONT(l, c) ((void)0)
#define STUB_bind_to_impl(a, b) ((void)0)
#include "tgc.inc"
static struct tgc N[DEPTH + 2];
void h_propagate(void) {
    /* an arbitrary forest over DEPTH+2 contexts: parent index is smaller than the child's (or none) */
    for (int i = 0; i < DEPTH + 2; ++i) { int p = nondet_int(); __CPROVER_assume(p >= -1 && p < i); N[i].my_parent = p < 0 ? NULL : &N[p]; N[i].my_cancellation_requested = nondet_bool(); }
    int ci = nondet_int(), si = nondet_int(); __CPROVER_assume(ci >= 0 && ci < DEPTH + 2 && si >= 0 && si < DEPTH + 2);
    uint32_t before[DEPTH + 2]; for (int i = 0; i < DEPTH + 2; ++i) before[i] = N[i].my_cancellation_requested;
    /* is src a proper ancestor of ctx, and which nodes lie on the path [ctx, src) */
    bool onpath[DEPTH + 2]; for (int i = 0; i < DEPTH + 2; ++i) onpath[i] = false;
    bool desc = false; { struct tgc *c = &N[ci]; bool tmp[DEPTH + 2]; for (int i = 0; i < DEPTH + 2; ++i) tmp[i] = false;
      for (int k = 0; k < DEPTH + 2 && c != NULL; ++k) { if (c == &N[si]) { desc = (c != &N[ci]); break; } tmp[c - N] = true; c = c->my_parent; }
      if (desc) for (int i = 0; i < DEPTH + 2; ++i) onpath[i] = tmp[i]; }
    propagate_task_group_state(&N[ci], &N[si], 1);
    bool act = desc && before[ci] != 1;
    for (int i = 0; i < DEPTH + 2; ++i) {
        if (act && onpath[i]) OBLIGATION(N[i].my_cancellation_requested == 1, "C04.propagate: every context on the path from ctx up to (not including) the cancelled ancestor is marked (bounded)");
        else OBLIGATION(N[i].my_cancellation_requested == before[i], "C04.propagate: the source, its ancestors, siblings, unrelated and isolated contexts are untouched (bounded)");
    }
    VACUITY_END();
}
#endif

#ifdef BINDIMPL
/* binder vs ONE canceller of the parent.  Canceller: (1) sets parent.cancel, then (2) walks the contexts registered at that moment and marks descendants. */
static struct tgc Par, Child; bool reg, p_set, p_walked;
static void canceller_steps(bool force) {
    if (!p_set && (force || nondet_bool())) { Par.my_cancellation_requested = 1; p_set = true; }
    if (p_set && !p_walked && (force || nondet_bool())) { p_walked = true; if (reg && Child.my_parent == &Par) Child.my_cancellation_requested = 1; }
}
static void interfere(void) { canceller_steps(false); }
#define ATOMIC_LOAD_AT(site, f) ({ interfere(); (f); })
#ifdef ATOMIC_COPY   /* job bind.no_missed_cancel.atomic_copy: the state copy `child.store(parent.load())` taken as one step */
#define ATOMIC_STORE_AT(site, f, v) do { uint32_t v_ = (v); (f) = v_; } while (0)
#else                /* the real thing: a load and a store, the canceller may run in between (finding F6) */
#define ATOMIC_STORE_AT(site, f, v) do { uint32_t v_ = (v); interfere(); (f) = v_; } while (0)
#endif
#define ATOMIC_XCHG_AT(site, f, v) (0)
#define ATOMIC_CAS_AT(site, f, e, d) (0)
#define STUB_propagate(c, s) ((void)0)
#define STUB_copy_fp_settings(a, b) ((void)0)
static void STUB_register_with(struct tgc *c, struct thread_data *td) { interfere(); reg = true; interfere(); }
#define LOCK_MUTEX(m) ((void)0)
#define UNLOCK_MUTEX(m) ((void)0)
#define LIST_PUSH_FRONT(l, c) ((void)0)
#define STUB_bind_to_impl(a, b) ((void)0)
#define LOOP_prop_1
#define LOOP_prop_2
#define P_STORE(c, v) ((c)->my_cancellation_requested = (v))
#include "tgc.inc"
void h_bind_impl(void) {
    struct thread_data td; td.current_context = &Par; td.default_ctx = NULL;
    Par.my_parent = NULL; Par.my_cancellation_requested = nondet_bool(); Par.my_may_have_children = nondet_uchar(); p_set = Par.my_cancellation_requested; p_walked = p_set ? nondet_bool() : false;
    Child.my_parent = NULL; Child.my_cancellation_requested = 0; Child.my_state = state_locked; Child.my_traits.fp_settings = nondet_bool(); Child.my_traits.bound = true; reg = false;
    bind_to_impl(&Child, &td);
    canceller_steps(true);                      /* let a canceller of the parent finish */
    OBLIGATION(Child.my_parent == &Par && reg && Par.my_may_have_children == may_have_children, "C04.bind: the context is attached to the running context and registered");
    OBLIGATION(Child.my_cancellation_requested == 1, "C04.bind: a cancellation of the parent that races with the binding is not missed: the bound child ends cancelled (registration first, state copy second)");
    VACUITY_END();
}
#endif

#ifdef BINDTO
static struct tgc X; unsigned long gBinders; bool meBinder; int g_impl_calls;
#define BINV ((X.my_state == state_created ? gBinders == 0 : 1) && (X.my_state == state_locked) == (gBinders == 1) && gBinders <= 1 && gBinders >= (unsigned long)meBinder && X.my_state <= state_bound)
static void interfere(void) { uint8_t o = X.my_state; X.my_state = nondet_uchar(); gBinders = nondet_ulong(); __CPROVER_assume(BINV);
    __CPROVER_assume(!meBinder || X.my_state == state_locked);                 /* only the binder leaves the locked state */
    __CPROVER_assume(!(o == state_isolated || o == state_bound) || X.my_state == o);      /* a final state is final */
    __CPROVER_assume(X.my_state >= o); }                                                     /* created -> locked -> isolated|bound, never back */
#define ATOMIC_LOAD_AT(site, f) ({ interfere(); (f); })
#define ATOMIC_CAS_AT(site, f, e, d) ({ interfere(); int o_ = (f); bool r_ = (o_ == *(e)); if (r_) { (f) = (d); gBinders++; meBinder = true; } else *(e) = o_; __CPROVER_assert(BINV, "guarantee: one binder, at " #site); r_; })
#define ATOMIC_STORE_AT(site, f, v) do { interfere(); __CPROVER_assert(meBinder, "guarantee: only the binder publishes the final state, at " #site); (f) = (v); gBinders--; meBinder = false; __CPROVER_assert(BINV, "guarantee: INV at " #site); } while (0)
#define ATOMIC_XCHG_AT(site, f, v) (0)
#define STUB_propagate(c, s) ((void)0)
#define STUB_copy_fp_settings(a, b) ((void)0)
#define STUB_register_with(a, b) ((void)0)
#define LOCK_MUTEX(m) ((void)0)
#define UNLOCK_MUTEX(m) ((void)0)
#define LIST_PUSH_FRONT(l, c) ((void)0)
static void STUB_bind_to_impl(struct tgc *c, struct thread_data *td) { g_impl_calls++; OBLIGATION(meBinder, "C04.bind: the binding runs only in the thread that won created->locked"); }
#define LOOP_prop_1
#define LOOP_prop_2
#define P_STORE(c, v) ((c)->my_cancellation_requested = (v))
#include "tgc.inc"
void h_bind_to(void) {
    struct tgc def, cur; struct thread_data td; td.default_ctx = &def; td.current_context = nondet_bool() ? &def : &cur;
    X.my_state = nondet_uchar(); gBinders = nondet_ulong(); meBinder = false; g_impl_calls = 0; X.my_traits.bound = nondet_bool(); X.my_traits.fp_settings = nondet_bool(); X.my_parent = NULL;
    __CPROVER_assume(BINV);
    bool was_created = X.my_state == state_created;
    bind_to(&X, &td);
    interfere();
    OBLIGATION(X.my_state == state_isolated || X.my_state == state_bound, "C04.bind: bind_to returns only once the context is bound or isolated");
    OBLIGATION(g_impl_calls <= 1 && !meBinder, "C04.bind: the binding runs at most once in this thread and the lock state is left");
    VACUITY_END();
}
#endif

#if defined(DISSEM) || defined(TDWALK)
/* The propagator.  Lists are represented as index sequences over arrays (members pairwise distinct by construction); mutexes are ghost ints (0 free / 1 held). */
#define NMAX ((size_t)1 << 12)
struct tlist { size_t n; struct thread_data *base; };
struct dissem { int my_threads_list_mutex; struct tlist *my_threads_list; };
#define LIST_SIZE(l) ((l)->n)
#define LOCK_MUTEX(m) do { __CPROVER_assert((m) == 0, "C04.walk: the mutex is free when it is taken (no self-deadlock)"); (m) = 1; } while (0)
#define UNLOCK_MUTEX(m) do { __CPROVER_assert((m) == 1, "C04.walk: only a held mutex is released"); (m) = 0; } while (0)
#define ATOMIC_XCHG_AT(site, f, v) (0)
#define ATOMIC_CAS_AT(site, f, e, d) (0)
#define STUB_propagate(c, s) ((void)0)
#define STUB_copy_fp_settings(a, b) ((void)0)
#define STUB_register_with(a, b) ((void)0)
#define STUB_bind_to_impl(a, b) ((void)0)
#define LIST_PUSH_FRONT(l, c) ((void)0)
static void interfere(void) {}
size_t g_k;
#endif

#ifdef DISSEM
/* cancellation_disseminator::propagate_task_group_state: one propagation = [advance the global epoch, then walk EVERY registered thread's list], all of it inside one critical
   section that (a) keeps the thread list stable and (b) excludes the slow path of bind_to_impl, whose re-copy of the parent's state is only correct once no propagation is in flight. */
static struct dissem D; static struct tlist TL; int g_bumps, g_walks_k; bool g_walked_any;
#define LIST_AT(l, i) (&(l)->base[i])
#define ATOMIC_LOAD_AT(site, f) (f)
#define ATOMIC_STORE_AT(site, f, v) ((f) = (v))
#define IN_SECTION (D.my_threads_list_mutex == 1)
#define ATOMIC_PREINC_AT(site, x) (__CPROVER_assert(IN_SECTION, "C04.walk: the epoch is advanced inside the propagation section"), __CPROVER_assert(!g_walked_any, "C04.walk: the global epoch is advanced BEFORE any thread's list is walked"), g_bumps++, ++(x))
static void td_propagate(struct thread_data *t, struct tgc *src, uint32_t ns) {
    __CPROVER_assert(IN_SECTION, "C04.walk: every list walk happens inside the propagation section (the thread list cannot change under the walk)");
    __CPROVER_assert(BINDER_SLOW_MUTEX == 1, "C04.bind: the whole propagation (epoch advance and every list walk) runs under the mutex that bind_to_impl's slow path takes - otherwise the slow path's re-copy of the parent's state can run while the parent is still unmarked and the child's list was already walked");
    __CPROVER_assert(g_bumps == 1, "C04.walk: the epoch was advanced exactly once before this walk");
    g_walked_any = true; if (t == &TL.base[g_k]) g_walks_k++;
}
#define LOOP_dis_1 __CPROVER_assigns(it_, g_walks_k, g_walked_any) __CPROVER_loop_invariant(it_ <= TL.n && g_walks_k == (it_ > g_k ? 1 : 0) && g_bumps == 1 && D.my_threads_list_mutex == 1) __CPROVER_decreases(TL.n - it_)
#define LOOP_prop_1
#define LOOP_prop_2
#define P_STORE(c, v) ((c)->my_cancellation_requested = (v))
#include "dissem.inc"
void h_dissem(void) {
    TL.n = nondet_size_t(); __CPROVER_assume(TL.n <= NMAX); TL.base = malloc((TL.n ? TL.n : 1) * sizeof(struct thread_data)); __CPROVER_assume(TL.base != NULL);
    D.my_threads_list = &TL; D.my_threads_list_mutex = 0; the_context_state_propagation_mutex = 0; g_bumps = 0; g_walks_k = 0; g_walked_any = false;
    g_k = nondet_size_t(); __CPROVER_assume(g_k < TL.n || TL.n == 0);
    struct tgc src; src.my_may_have_children = nondet_uchar(); src.my_cancellation_requested = nondet_u32(); uint32_t ns = nondet_u32(); uintptr_t e0 = the_context_state_propagation_epoch = nondet_uintptr_t();
    bool r = dissem_propagate(&D, &src, ns);
    OBLIGATION(D.my_threads_list_mutex == 0 && the_context_state_propagation_mutex == 0, "C04.walk: every mutex is released on every path");
    if (src.my_may_have_children != may_have_children) OBLIGATION(r && g_bumps == 0 && !g_walked_any, "C04.walk: a context that never had children needs no propagation");
    else if (src.my_cancellation_requested != ns) OBLIGATION(!r && g_bumps == 0 && !g_walked_any, "C04.walk: a propagator whose source state was changed meanwhile backs down without touching anything");
    else { OBLIGATION(r && g_bumps == 1 && the_context_state_propagation_epoch == e0 + 1, "C04.walk: one propagation advances the global epoch exactly once");
           OBLIGATION(TL.n == 0 || g_walks_k == 1, "C04.walk: EVERY registered thread's context list is walked, exactly once (any number of threads)"); }
    VACUITY_END();
}
#endif

#ifdef TDWALK
/* thread_data::propagate_task_group_state: under the list's mutex, every context of the list that is a descendant of the source ends marked; only then the list's epoch is synced. */
static struct clist L; static struct tgc *CT; static bool *g_desc; uint32_t g_ns; uint32_t g_flag0k; bool g_desc_k; int g_syncs;
#define LIST_AT(l, i) (&CT[i])
#define P_STORE(c, v) ((c)->my_cancellation_requested = (v))
#define ATOMIC_LOAD_AT(site, f) (f)
#define ATOMIC_PREINC_AT(site, x) (++(x))
#define MARKED_K (!g_desc_k || CT[g_k].my_cancellation_requested == g_ns)
#define ATOMIC_STORE_AT(site, f, v) do { __CPROVER_assert(L.m_mutex == 1, "C04.walk: the list epoch is synced while the list mutex is still held"); \
    __CPROVER_assert(MARKED_K, "C04.walk: the list epoch is synced only AFTER every descendant in the list has been marked (a binder that reads the synced epoch sees the marks)"); \
    __CPROVER_assert((v) == the_context_state_propagation_epoch, "C04.walk: the list epoch is synced to the current global epoch"); (f) = (v); g_syncs++; } while (0)
/* contract of task_group_context_impl::propagate_task_group_state (job propagate.path): marks ctx if it descends from src (and ancestors of ctx below src, which descend from src too); touches nothing else */
static void propagate_task_group_state(struct tgc *c, struct tgc *src, uint32_t ns) {
    __CPROVER_assert(L.m_mutex == 1, "C04.walk: contexts are examined under the list mutex (registration cannot interleave)");
    size_t i = (size_t)(c - CT); if (g_desc[i]) c->my_cancellation_requested = ns;
    if (g_desc_k && nondet_bool()) CT[g_k].my_cancellation_requested = ns;
}
#define LOOP_tdp_1 __CPROVER_assigns(it, __CPROVER_object_whole(CT)) __CPROVER_loop_invariant(it <= L.n && L.m_mutex == 1 && g_syncs == 0 && (it > g_k ? MARKED_K : 1) && (g_desc_k ? (CT[g_k].my_cancellation_requested == g_flag0k || CT[g_k].my_cancellation_requested == g_ns) : CT[g_k].my_cancellation_requested == g_flag0k)) __CPROVER_decreases(L.n - it)
#include "tdwalk.inc"
void h_tdwalk(void) {
    L.n = nondet_size_t(); __CPROVER_assume(L.n >= 1 && L.n <= NMAX); CT = malloc(L.n * sizeof(struct tgc)); g_desc = malloc(L.n * sizeof(bool)); __CPROVER_assume(CT && g_desc);
    L.m_mutex = 0; L.epoch = nondet_uintptr_t(); the_context_state_propagation_epoch = nondet_uintptr_t(); g_syncs = 0;
    g_k = nondet_size_t(); __CPROVER_assume(g_k < L.n); g_ns = nondet_u32(); g_flag0k = CT[g_k].my_cancellation_requested; g_desc_k = g_desc[g_k];
    struct thread_data td; td.my_context_list = &L; struct tgc src;
    td_propagate(&td, &src, g_ns);
    OBLIGATION(L.m_mutex == 0, "C04.walk: the list mutex is released");
    OBLIGATION(MARKED_K, "C04.walk: every context of the list that descends from the source is marked (any list length)");
    OBLIGATION(g_desc_k || CT[g_k].my_cancellation_requested == g_flag0k, "C04.walk: a context that does not descend from the source is left alone");
    OBLIGATION(g_syncs == 1 && L.epoch == the_context_state_propagation_epoch, "C04.walk: the list's epoch is synced with the global one, once");
    VACUITY_END();
}
#endif

#ifdef BINDGA
/* bind_to_impl, parent WITH a grand-ancestor: speculative copy validated by the epoch counters, slow path under a mutex.  The binder's real code runs against ONE propagation
   started by a cancel of an ancestor G of the parent P; the propagator's steps are the contract proved in dissem.protocol / td.walk (epoch advance first, then every list once:
   marks under the list mutex, epoch sync after the marks).  Lists: LP holds P, LB is the binder's own (they may be the same list). */
static struct tgc G, Other, P, C; static struct clist LP_, LB_; struct clist *LP, *LB; bool desc, reg, binder_holds;
int pi;  bool p_first;                                      /* progress of the propagation: 0 not started, 1 epoch advanced, 2 first list marked, 3 first list synced, 4 second list marked, 5 complete */
static void walk_marks(struct clist *l) {                   /* one list walk: everything registered in the list that descends from G gets marked (the chain up to G) */
    if (l == LP && desc) P.my_cancellation_requested = 1;
    if (l == LB && reg && C.my_parent == &P && desc) { C.my_cancellation_requested = 1; P.my_cancellation_requested = 1; }
}
static void pi_advance(int to) {                            /* the steps are taken in order; the order of the two lists is arbitrary (p_first) */
    struct clist *l1 = p_first ? LP : LB, *l2 = p_first ? LB : LP;
    if (pi < 1 && to >= 1) { G.my_cancellation_requested = 1; the_context_state_propagation_epoch++; pi = 1; }
    if (pi < 2 && to >= 2) { walk_marks(l1); pi = 2; }
    if (pi < 3 && to >= 3) { l1->epoch = the_context_state_propagation_epoch; pi = 3; }
    if (pi < 4 && to >= 4) { if (l2 != l1) walk_marks(l2); pi = 4; }
    if (pi < 5 && to >= 5) { l2->epoch = the_context_state_propagation_epoch; pi = 5; }
}
#define PI_IN_FLIGHT (pi >= 1 && pi <= 4)
static void interfere(void) {
    int to = nondet_int(); __CPROVER_assume(to >= pi && to <= 5);
    if (PROP_HOLDS_BINDER_MUTEX && binder_holds) { if (pi == 0) to = 0; }      /* a propagation that needs the mutex the binder holds cannot start */
    pi_advance(to);
}
#define ATOMIC_LOAD_AT(site, f) ({ interfere(); (f); })
#define ATOMIC_STORE_AT(site, f, v) do { uint32_t v_ = (v); interfere(); (f) = v_; } while (0)
#define ATOMIC_XCHG_AT(site, f, v) (0)
#define ATOMIC_CAS_AT(site, f, e, d) (0)
#define STUB_propagate(c, s) ((void)0)
#define STUB_copy_fp_settings(a, b) ((void)0)
#define STUB_bind_to_impl(a, b) ((void)0)
/* the slow-path mutex: blocks while a propagation that holds the same mutex is in flight, and keeps a new one from starting */
#define LOCK_MUTEX(m) do { interfere(); __CPROVER_assume(!(PROP_HOLDS_BINDER_MUTEX && PI_IN_FLIGHT)); binder_holds = true; } while (0)
#define UNLOCK_MUTEX(m) do { binder_holds = false; interfere(); } while (0)
#define LIST_PUSH_FRONT(l, c) do { __CPROVER_assert((l) == LB && (c) == &C, "C04.bind: the context is registered in the binding thread's list"); reg = true; } while (0)
void register_with(struct tgc *ctx, struct thread_data *td);
#define STUB_register_with(c, td) do { interfere(); register_with((c), (td)); interfere(); } while (0)
#define LOOP_prop_1
#define LOOP_prop_2
#define P_STORE(c, v) ((c)->my_cancellation_requested = (v))
#include "tgc.inc"
void h_bind_ga(void) {
    LP = &LP_; LB = nondet_bool() ? &LP_ : &LB_;
    struct thread_data td; td.current_context = &P; td.default_ctx = NULL; td.my_context_list = LB;
    desc = nondet_bool(); G.my_parent = NULL; Other.my_parent = NULL; G.my_cancellation_requested = 0; Other.my_cancellation_requested = 0;
    P.my_parent = desc ? &G : &Other; P.my_context_list = LP; P.my_may_have_children = nondet_uchar(); P.my_cancellation_requested = 0;
    the_context_state_propagation_epoch = nondet_uintptr_t(); LP->epoch = nondet_uintptr_t(); LB->epoch = nondet_uintptr_t();
    __CPROVER_assume(the_context_state_propagation_epoch < ((uintptr_t)1 << 62) && LP->epoch <= the_context_state_propagation_epoch && LB->epoch <= the_context_state_propagation_epoch);
    pi = 0; p_first = nondet_bool(); reg = false; binder_holds = false;
    if (nondet_bool()) pi_advance(5);                       /* the propagation may also be long over */
    C.my_parent = NULL; C.my_cancellation_requested = 0; C.my_state = state_locked; C.my_traits.fp_settings = nondet_bool(); C.my_traits.bound = true; C.my_context_list = NULL;
    bind_to_impl(&C, &td);
    pi_advance(5);                                          /* let the propagation finish */
    OBLIGATION(C.my_parent == &P && reg && C.my_context_list == LB && !binder_holds, "C04.bind: the context is attached beneath the running context and registered in the binder's list; the slow-path mutex is released");
    OBLIGATION(!desc || (P.my_cancellation_requested == 1 && C.my_cancellation_requested == 1), "C04.bind: once the cancel of a grand-ancestor and the binding have both completed, the new context is cancelled like its parent - whatever the interleaving of the propagation with the speculative copy, the registration, the epoch check and the slow path");
    OBLIGATION(desc || C.my_cancellation_requested == 0, "C04.bind: a context bound beneath a tree that is not cancelled stays uncancelled");
    VACUITY_END();
}
#endif
