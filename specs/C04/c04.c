/* C04 harnesses: cancellation winner, propagation path, binding vs a concurrent canceller (sliced from src/tbb/task_group_context.cpp) */
#include "verif.h"
enum { state_created, state_locked, state_isolated, state_bound, state_dead };   /* order checked by spec.py against task_group.h */
#define may_have_children 1
struct tgc { struct tgc *my_parent; uint32_t my_cancellation_requested; uint8_t my_state; uint8_t my_may_have_children; struct { bool bound, fp_settings; } my_traits; };
struct thread_data { struct tgc *current_context, *default_ctx; };
#define SPIN_WAIT_WHILE_EQ(loc, v) do { interfere(); __CPROVER_assume((loc) != (v)); } while (0)
#define P_LOAD(f) (f)

#ifdef CANCEL
static struct tgc X; unsigned long gWinners; bool meWin; int g_prop_calls;
#define CINV (X.my_cancellation_requested <= 1 && (X.my_cancellation_requested == 1) == (gWinners == 1) && gWinners <= 1 && gWinners >= (unsigned long)meWin)
static void interfere(void) { X.my_cancellation_requested = nondet_u32(); gWinners = nondet_ulong(); __CPROVER_assume(CINV); }   /* other cancellers; the flag is never cleared by them */
#define ATOMIC_LOAD_AT(site, f) ({ uint32_t o_ = X.my_cancellation_requested; unsigned long w_ = gWinners; interfere(); __CPROVER_assume(X.my_cancellation_requested >= o_ && gWinners >= w_); (f); })
#define ATOMIC_XCHG_AT(site, f, v) ({ uint32_t o_ = X.my_cancellation_requested; unsigned long w_ = gWinners; interfere(); __CPROVER_assume(X.my_cancellation_requested >= o_ && gWinners >= w_); \
    uint32_t old_ = (f); (f) = (v); if (old_ == 0) { gWinners++; meWin = true; } __CPROVER_assert(CINV, "guarantee: one winner per 0->1 transition, at " #site); old_; })
static void STUB_propagate(struct tgc *c, uint32_t s) { g_prop_calls++; }
#define LOOP_prop_1
#define LOOP_prop_2
#define P_STORE(c, v) ((c)->my_cancellation_requested = (v))
#define STUB_copy_fp_settings(a, b) ((void)0)
#define STUB_register_with(a, b) ((void)0)
#define STUB_list_epoch(p) 0
#define STUB_global_epoch() 0
#define STUB_lock_propagation_mutex() ((void)0)
#define STUB_bind_to_impl(a, b) ((void)0)
#define ATOMIC_STORE_AT(site, f, v) ((f) = (v))
#define ATOMIC_CAS_AT(site, f, e, d) (0)
#include "tgc.inc"
void h_cancel(void) {
    X.my_cancellation_requested = nondet_u32(); gWinners = nondet_ulong(); meWin = false; g_prop_calls = 0; __CPROVER_assume(CINV);
    bool r = cancel_group_execution(&X);
    OBLIGATION(r == meWin && X.my_cancellation_requested == 1, "C04.cancel: of any number of concurrent cancel calls exactly one returns true per 0->1 transition; the flag ends set");
    OBLIGATION(g_prop_calls == (r ? 1 : 0), "C04.cancel: only the winner propagates");
    VACUITY_END();
}
#endif

#ifdef PROP
#ifndef DEPTH
#define DEPTH 5
#endif
static void interfere(void) {}
#define LOOP_prop_1
#define LOOP_prop_2
#define P_STORE(c, v) ((c)->my_cancellation_requested = (v))
#define ATOMIC_LOAD_AT(site, f) (f)
#define ATOMIC_XCHG_AT(site, f, v) (0)
#define ATOMIC_STORE_AT(site, f, v) ((f) = (v))
#define ATOMIC_CAS_AT(site, f, e, d) (0)
#define STUB_propagate(c, s) ((void)0)
#define STUB_copy_fp_settings(a, b) ((void)0)
#define STUB_register_with(a, b) ((void)0)
#define STUB_list_epoch(p) 0
#define STUB_global_epoch() 0
#define STUB_lock_propagation_mutex() ((void)0)
#define STUB_bind_to_impl(a, b) ((void)0)
#include "tgc.inc"
static struct tgc N[DEPTH + 2];
void h_propagate(void) {
    /* an arbitrary forest over DEPTH+2 contexts: parent index is smaller than the child's (or none) */
    for (int i = 0; i < DEPTH + 2; ++i) { int p = nondet_int(); __CPROVER_assume(p >= -1 && p < i); N[i].my_parent = p < 0 ? NULL : &N[p]; N[i].my_cancellation_requested = nondet_bool(); }
    int ci = nondet_int(), si = nondet_int(); __CPROVER_assume(ci >= 0 && ci < DEPTH + 2 && si >= 0 && si < DEPTH + 2);
    uint32_t before[DEPTH + 2]; for (int i = 0; i < DEPTH + 2; ++i) before[i] = N[i].my_cancellation_requested;
    /* is src a proper ancestor of ctx, and which nodes lie on the path [ctx, src) */
    bool onpath[DEPTH + 2]; for (int i = 0; i < DEPTH + 2; ++i) onpath[i] = false;
    bool desc = false; { struct tgc *c = &N[ci]; bool tmp[DEPTH + 2]; for (int i = 0; i < DEPTH + 2; ++i) tmp[i] = false;
      for (int k = 0; k < DEPTH + 2 && c != NULL; ++k) { if (c == &N[si]) { desc = (c != &N[ci]); break; } tmp[c - N] = true; c = c->my_parent; }
      if (desc) for (int i = 0; i < DEPTH + 2; ++i) onpath[i] = tmp[i]; }
    propagate_task_group_state(&N[ci], &N[si], 1);
    bool act = desc && before[ci] != 1;
    for (int i = 0; i < DEPTH + 2; ++i) {
        if (act && onpath[i]) OBLIGATION(N[i].my_cancellation_requested == 1, "C04.propagate: every context on the path from ctx up to (not including) the cancelled ancestor is marked (bounded)");
        else OBLIGATION(N[i].my_cancellation_requested == before[i], "C04.propagate: the source, its ancestors, siblings, unrelated and isolated contexts are untouched (bounded)");
    }
    VACUITY_END();
}
#endif

#ifdef BINDIMPL
/* binder vs ONE canceller of the parent.  Canceller: (1) sets parent.cancel, then (2) walks the contexts registered at that moment and marks descendants. */
static struct tgc Par, Child; bool reg, p_set, p_walked;
static void canceller_steps(bool force) {
    if (!p_set && (force || nondet_bool())) { Par.my_cancellation_requested = 1; p_set = true; }
    if (p_set && !p_walked && (force || nondet_bool())) { p_walked = true; if (reg && Child.my_parent == &Par) Child.my_cancellation_requested = 1; }
}
static void interfere(void) { canceller_steps(false); }
#define ATOMIC_LOAD_AT(site, f) ({ interfere(); (f); })
#ifdef ATOMIC_COPY   /* job bind.no_missed_cancel.atomic_copy: the state copy `child.store(parent.load())` taken as one step */
#define ATOMIC_STORE_AT(site, f, v) do { uint32_t v_ = (v); (f) = v_; } while (0)
#else                /* the real thing: a load and a store, the canceller may run in between (finding F6) */
#define ATOMIC_STORE_AT(site, f, v) do { uint32_t v_ = (v); interfere(); (f) = v_; } while (0)
#endif
#define ATOMIC_XCHG_AT(site, f, v) (0)
#define ATOMIC_CAS_AT(site, f, e, d) (0)
#define STUB_propagate(c, s) ((void)0)
#define STUB_copy_fp_settings(a, b) ((void)0)
static void STUB_register_with(struct tgc *c, struct thread_data *td) { interfere(); reg = true; interfere(); }
#define STUB_list_epoch(p) nondet_uintptr_t()
#define STUB_global_epoch() nondet_uintptr_t()
#define STUB_lock_propagation_mutex() ((void)0)
#define STUB_bind_to_impl(a, b) ((void)0)
#define LOOP_prop_1
#define LOOP_prop_2
#define P_STORE(c, v) ((c)->my_cancellation_requested = (v))
#include "tgc.inc"
void h_bind_impl(void) {
    struct thread_data td; td.current_context = &Par; td.default_ctx = NULL;
    Par.my_parent = NULL; Par.my_cancellation_requested = nondet_bool(); Par.my_may_have_children = nondet_uchar(); p_set = Par.my_cancellation_requested; p_walked = p_set ? nondet_bool() : false;
    Child.my_parent = NULL; Child.my_cancellation_requested = 0; Child.my_state = state_locked; Child.my_traits.fp_settings = nondet_bool(); Child.my_traits.bound = true; reg = false;
    bind_to_impl(&Child, &td);
    canceller_steps(true);                      /* let a canceller of the parent finish */
    OBLIGATION(Child.my_parent == &Par && reg && Par.my_may_have_children == may_have_children, "C04.bind: the context is attached to the running context and registered");
    OBLIGATION(Child.my_cancellation_requested == 1, "C04.bind: a cancellation of the parent that races with the binding is not missed: the bound child ends cancelled (registration first, state copy second)");
    VACUITY_END();
}
#endif

#ifdef BINDTO
static struct tgc X; unsigned long gBinders; bool meBinder; int g_impl_calls;
#define BINV ((X.my_state == state_created ? gBinders == 0 : 1) && (X.my_state == state_locked) == (gBinders == 1) && gBinders <= 1 && gBinders >= (unsigned long)meBinder && X.my_state <= state_bound)
static void interfere(void) { uint8_t o = X.my_state; X.my_state = nondet_uchar(); gBinders = nondet_ulong(); __CPROVER_assume(BINV);
    __CPROVER_assume(!meBinder || X.my_state == state_locked);                 /* only the binder leaves the locked state */
    __CPROVER_assume(!(o == state_isolated || o == state_bound) || X.my_state == o);      /* a final state is final */
    __CPROVER_assume(X.my_state >= o); }                                                     /* created -> locked -> isolated|bound, never back */
#define ATOMIC_LOAD_AT(site, f) ({ interfere(); (f); })
#define ATOMIC_CAS_AT(site, f, e, d) ({ interfere(); int o_ = (f); bool r_ = (o_ == *(e)); if (r_) { (f) = (d); gBinders++; meBinder = true; } else *(e) = o_; __CPROVER_assert(BINV, "guarantee: one binder, at " #site); r_; })
#define ATOMIC_STORE_AT(site, f, v) do { interfere(); __CPROVER_assert(meBinder, "guarantee: only the binder publishes the final state, at " #site); (f) = (v); gBinders--; meBinder = false; __CPROVER_assert(BINV, "guarantee: INV at " #site); } while (0)
#define ATOMIC_XCHG_AT(site, f, v) (0)
#define STUB_propagate(c, s) ((void)0)
#define STUB_copy_fp_settings(a, b) ((void)0)
#define STUB_register_with(a, b) ((void)0)
#define STUB_list_epoch(p) 0
#define STUB_global_epoch() 0
#define STUB_lock_propagation_mutex() ((void)0)
static void STUB_bind_to_impl(struct tgc *c, struct thread_data *td) { g_impl_calls++; OBLIGATION(meBinder, "C04.bind: the binding runs only in the thread that won created->locked"); }
#define LOOP_prop_1
#define LOOP_prop_2
#define P_STORE(c, v) ((c)->my_cancellation_requested = (v))
#include "tgc.inc"
void h_bind_to(void) {
    struct tgc def, cur; struct thread_data td; td.default_ctx = &def; td.current_context = nondet_bool() ? &def : &cur;
    X.my_state = nondet_uchar(); gBinders = nondet_ulong(); meBinder = false; g_impl_calls = 0; X.my_traits.bound = nondet_bool(); X.my_traits.fp_settings = nondet_bool(); X.my_parent = NULL;
    __CPROVER_assume(BINV);
    bool was_created = X.my_state == state_created;
    bind_to(&X, &td);
    interfere();
    OBLIGATION(X.my_state == state_isolated || X.my_state == state_bound, "C04.bind: bind_to returns only once the context is bound or isolated");
    OBLIGATION(g_impl_calls <= 1 && !meBinder, "C04.bind: the binding runs at most once in this thread and the lock state is left");
    VACUITY_END();
}
#endif
